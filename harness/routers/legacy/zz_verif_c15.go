package legacy

// C15 (router part) — FindRoute on a shared router performs no write to shared state.

import (
	"net/http"
	"net/url"
)

//verif:harness id=C15 tier=quick,thorough witness=end bounds="legacy FindRoute on a shared router over the 6 template families of C09, methods GET/POST/PUT, every request path '/'+ up to 3 bytes over {/,a,b,c}; footprint monitor on every path"
func verifH_C15_router() {
	fam := verifChoose("family", len(verifFamilies))
	doc, _ := verifDoc(verifFamilies[fam], 0)
	router, err := NewRouter(doc)
	if err != nil {
		return
	}
	n := 1 + verifChoose("plen", 4)
	bs := make([]byte, n)
	bs[0] = '/'
	for i := 1; i < n; i++ {
		bs[i] = verifNondetByteIn("p", "/abc")
	}
	method := []string{"GET", "POST", "PUT"}[verifChoose("method", 3)]
	verifSharedBegin(router, doc)
	_, _, _ = router.FindRoute(&http.Request{Method: method, URL: &url.URL{Path: string(bs)}})
	verifSharedEnd()
	verifReach("end")
}
