package legacy

// C10 (router part) — building a router for a valid document and finding a
// route for any method and path returns normally (no panic).

import (
	"net/http"
	"net/url"
	"strings"

	"github.com/getkin/kin-openapi/openapi3"
)

//verif:harness id=C10 tier=quick,thorough witness=end bounds="legacy router over the 6 template families of C09 x method = any 1-3 byte string over [A-Z] or one of the nine standard methods x every request path '/'+ up to 3 bytes over {/,a,b,c,{,}}; assertion = no panic"
func verifH_C10_legacy_router() {
	fam := verifChoose("family", len(verifFamilies))
	templates := verifFamilies[fam]
	doc, _ := verifDoc(templates, 0)
	router, err := NewRouter(doc)
	if err != nil {
		return
	}
	var method string
	if k := verifChoose("std", 10); k < 9 {
		method = []string{"GET", "POST", "PUT", "DELETE", "HEAD", "OPTIONS", "PATCH", "TRACE", "CONNECT"}[k]
	} else {
		n := 1 + verifChoose("mlen", 3)
		bs := make([]byte, n)
		for i := range bs {
			bs[i] = verifNondetByte("m")
			verifAssume(bs[i] >= 'A' && bs[i] <= 'Z')
		}
		method = string(bs)
	}
	n := 1 + verifChoose("plen", 4)
	bs := make([]byte, n)
	bs[0] = '/'
	for i := 1; i < n; i++ {
		bs[i] = verifNondetByteIn("p", "/abc{}")
	}
	_, _, _ = router.FindRoute(&http.Request{Method: method, URL: &url.URL{Path: string(bs)}})
	verifReach("end")
}

//verif:harness id=C10 tier=quick,thorough witness=end,router bounds="legacy router, templates the path tree cannot lead to or that hostile requests can spell literally: /a{x}b, /{x}.j, /a/{x}.j, /{x}{y}, next to /a; nine methods; request path = the template text itself, the template filled in, prefixes and neighbours of both (14 concrete paths per family): FindRoute returns a route or an error, never neither, and does not panic"
func verifH_C10_legacy_literal_templates() {
	fams := [][]string{{"/a{x}b", "/a"}, {"/{x}.j", "/a"}, {"/a/{x}.j"}, {"/{x}{y}", "/a"}, {"/a/{x}.j", "/a/{x}"}}
	templates := fams[verifChoose("family", len(fams))]
	d := "d"
	paths3 := openapi3.NewPathsWithCapacity(len(templates))
	for i, t := range templates {
		resps := openapi3.NewResponsesWithCapacity(1)
		resps.Set("200", &openapi3.ResponseRef{Value: &openapi3.Response{Description: &d}})
		op := &openapi3.Operation{OperationID: "get" + string(rune('A'+i)), Responses: resps}
		// every {name} of the template, wherever it stands in its segment
		for rest := t; ; {
			a := strings.IndexByte(rest, '{')
			if a < 0 {
				break
			}
			b := strings.IndexByte(rest[a:], '}')
			op.Parameters = append(op.Parameters, &openapi3.ParameterRef{Value: &openapi3.Parameter{Name: rest[a+1 : a+b], In: "path", Required: true, Schema: &openapi3.SchemaRef{Value: &openapi3.Schema{Type: &openapi3.Types{"string"}}}}})
			rest = rest[a+b+1:]
		}
		paths3.Set(t, &openapi3.PathItem{Get: op})
	}
	doc := &openapi3.T{OpenAPI: "3.0.0", Info: &openapi3.Info{Title: "t", Version: "1"}, Paths: paths3}
	router, err := NewRouter(doc)
	if err != nil {
		return
	}
	verifReach("router")
	method := []string{"GET", "POST", "PUT", "DELETE", "HEAD", "OPTIONS", "PATCH", "TRACE", "CONNECT"}[verifChoose("method", 9)]
	t := templates[0]
	paths := []string{t, t + "/", "/" + t, t[:len(t)-1], "/avb", "/v.j", "/a/v.j", "/a/.j", "/vw", "/a", "/a/", "/a/v", "/{x}", "/a/{x}"}
	p := paths[verifChoose("path", len(paths))]
	route, _, ferr := router.FindRoute(&http.Request{Method: method, URL: &url.URL{Path: p}})
	verifAssert((route != nil) != (ferr != nil), "C10 legacy: FindRoute returns a route or an error, never neither and never both")
	verifReach("end")
}
