package legacy

// C10 (router part) — building a router for a valid document and finding a
// route for any method and path returns normally (no panic).

import (
	"net/http"
	"net/url"
)

//verif:harness id=C10 tier=quick,thorough witness=end bounds="legacy router over the 6 template families of C09 x method = any 1-3 byte string over [A-Z] or one of the nine standard methods x every request path '/'+ up to 3 bytes over {/,a,b,c,{,}}; assertion = no panic"
func verifH_C10_legacy_router() {
	fam := verifChoose("family", len(verifFamilies))
	templates := verifFamilies[fam]
	doc, _ := verifDoc(templates, 0)
	router, err := NewRouter(doc)
	if err != nil {
		return
	}
	var method string
	if k := verifChoose("std", 10); k < 9 {
		method = []string{"GET", "POST", "PUT", "DELETE", "HEAD", "OPTIONS", "PATCH", "TRACE", "CONNECT"}[k]
	} else {
		n := 1 + verifChoose("mlen", 3)
		bs := make([]byte, n)
		for i := range bs {
			bs[i] = verifNondetByte("m")
			verifAssume(bs[i] >= 'A' && bs[i] <= 'Z')
		}
		method = string(bs)
	}
	n := 1 + verifChoose("plen", 4)
	bs := make([]byte, n)
	bs[0] = '/'
	for i := 1; i < n; i++ {
		bs[i] = verifNondetByteIn("p", "/abc{}")
	}
	_, _, _ = router.FindRoute(&http.Request{Method: method, URL: &url.URL{Path: string(bs)}})
	verifReach("end")
}
