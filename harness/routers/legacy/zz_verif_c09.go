package legacy

// C09 — the legacy router returns the declared operation whose template matches.

import (
	"net/http"
	"net/url"
	"strings"

	"github.com/getkin/kin-openapi/openapi3"
	"github.com/getkin/kin-openapi/routers"
)

var verifFamilies = [][]string{
	{"/a", "/b/{x}"},
	{"/a", "/a/{x}", "/a/b"},
	{"/a/{x}/{y}", "/a/{x}", "/b"},
	{"/{x}/b", "/a/c"},
	{"/", "/a/", "/a/{x}/c"},
	{"/b", "/{x}"},   // a literal and a templated sibling at the top: the method may be declared on the templated one only
	{"/ab", "/a{x}"}, // a variable after a literal prefix inside the segment, next to a literal sibling with that prefix
	{"/a{x}/c", "/ab/c", "/b{y}"},
}

func verifVars(tmpl string) []string {
	var out []string
	for _, seg := range strings.Split(tmpl, "/") {
		if i := strings.IndexByte(seg, '{'); i >= 0 && strings.HasSuffix(seg, "}") {
			out = append(out, seg[i+1:len(seg)-1])
		}
	}
	return out
}

func verifDoc(templates []string, postOn int) (*openapi3.T, map[string]map[string]*openapi3.Operation) {
	ops := map[string]map[string]*openapi3.Operation{}
	paths := openapi3.NewPathsWithCapacity(len(templates))
	mkOp := func(id string, vars []string) *openapi3.Operation {
		d := "d"
		resps := openapi3.NewResponsesWithCapacity(1)
		resps.Set("200", &openapi3.ResponseRef{Value: &openapi3.Response{Description: &d}})
		op := &openapi3.Operation{OperationID: id, Responses: resps}
		for _, v := range vars {
			op.Parameters = append(op.Parameters, &openapi3.ParameterRef{Value: &openapi3.Parameter{Name: v, In: "path", Required: true, Schema: &openapi3.SchemaRef{Value: &openapi3.Schema{Type: &openapi3.Types{"string"}}}}})
		}
		return op
	}
	for i, t := range templates {
		pi := &openapi3.PathItem{}
		ops[t] = map[string]*openapi3.Operation{}
		pi.Get = mkOp("get"+string(rune('A'+i)), verifVars(t))
		ops[t]["GET"] = pi.Get
		if i == postOn {
			pi.Post = mkOp("post"+string(rune('A'+i)), verifVars(t))
			ops[t]["POST"] = pi.Post
		}
		paths.Set(t, pi)
	}
	doc := &openapi3.T{OpenAPI: "3.0.0", Info: &openapi3.Info{Title: "t", Version: "1"}, Paths: paths}
	return doc, ops
}

func verifTrimSlashes(p string) string {
	for strings.HasSuffix(p, "/") {
		p = p[:len(p)-1]
	}
	return p
}

// verifRefMatch: does path match the template with non-empty slash-free values?
// Trailing slashes of both are insignificant (the legacy router strips them by design).
func verifRefMatch(tmpl, path string) (map[string]string, bool) {
	ts := strings.Split(verifTrimSlashes(tmpl), "/")
	ps := strings.Split(verifTrimSlashes(path), "/")
	if len(ts) != len(ps) {
		return nil, false
	}
	params := map[string]string{}
	for i := range ts {
		if k := strings.IndexByte(ts[i], '{'); k >= 0 && strings.HasSuffix(ts[i], "}") {
			// literal prefix, then the variable (k == 0: the whole segment is the variable)
			if !strings.HasPrefix(ps[i], ts[i][:k]) || len(ps[i]) == k {
				return nil, false
			}
			params[ts[i][k+1:len(ts[i])-1]] = ps[i][k:]
			continue
		}
		if ts[i] != ps[i] {
			return nil, false
		}
	}
	return params, true
}

func verifC09(maxLen int) {
	fam := verifChoose("family", len(verifFamilies))
	templates := verifFamilies[fam]
	doc, ops := verifDoc(templates, verifChoose("postOn", len(templates)))
	router, err := NewRouter(doc)
	if err != nil {
		return // the document is not valid: outside the property
	}
	n := 1 + verifChoose("plen", maxLen)
	bs := make([]byte, n)
	bs[0] = '/'
	for i := 1; i < n; i++ {
		bs[i] = verifNondetByteIn("p", "/abc")
	}
	path := string(bs)
	method := []string{"GET", "POST", "PUT"}[verifChoose("method", 3)]
	route, params, ferr := router.FindRoute(&http.Request{Method: method, URL: &url.URL{Path: path}})

	// reference: templates matching the path for which the method is declared
	var matching []string
	literal := ""
	for _, t := range templates {
		if _, ok := verifRefMatch(t, path); ok && ops[t][method] != nil {
			matching = append(matching, t)
			if len(verifVars(t)) == 0 {
				literal = t
			}
		}
	}
	emptyBinding := false
	for _, v := range params {
		if v == "" {
			emptyBinding = true
		}
	}
	verifKnown("C09-legacy-empty-binding", ferr == nil && route != nil && emptyBinding)
	if ferr != nil {
		_, isRouteErr := ferr.(*routers.RouteError)
		verifAssert(isRouteErr, "C09: a request that is not routed yields a RouteError")
		verifAssert(len(matching) == 0, "C09 complete: every path obtained by filling a declared template under a declared method is routed")
		verifReach("end")
		return
	}
	verifAssert(route != nil, "C09: FindRoute returns a route or an error")
	if route == nil {
		return
	}
	want, ok := verifRefMatch(route.Path, path)
	verifAssert(ok, "C09 sound: the returned route's template matches the request path (non-empty slash-free values)")
	verifAssert(route.Operation != nil && route.Operation == ops[route.Path][method], "C09 sound: the returned operation is the one declared for the method under the returned template")
	if ok {
		same := len(want) == len(params)
		for k, v := range want {
			if params[k] != v {
				same = false
			}
		}
		verifAssert(same, "C09 sound: substituting the returned path parameters into the template reproduces the request path")
	}
	if literal != "" {
		verifAssert(route.Path == literal, "C09 priority: a literal path wins over a templated one")
	}
	verifReach("end")
}

//verif:harness id=C09 tier=quick witness=end bounds="legacy router, no servers: 8 template families (shared prefixes, 0-2 variables, literal/templated siblings, trailing-slash variants, variables after a literal prefix inside a segment), POST on one path, methods GET/POST/PUT x every request path '/'+ up to 4 bytes over {/,a,b,c}"
func verifH_C09_legacy() { verifC09(5) }

//verif:harness id=C09 tier=thorough witness=end bounds="as quick with request paths of up to 7 bytes"
func verifH_C09_legacy7() { verifC09(7) }

// verifC09Servers: the legacy router under declared servers. The path after the request base is
// symbolic; scheme, host and base are chosen by the explorer.
func verifC09Servers(maxLen int) {
	fam := verifChoose("family", len(verifFamilies))
	templates := verifFamilies[fam]
	doc, ops := verifDoc(templates, verifChoose("postOn", len(templates)))
	svName := "b"
	sv := 1 + verifChoose("servers", 5)
	enumOnly := sv == 5 // as 3, the variable restricted to an enum
	if enumOnly {
		sv = 3
	}
	switch sv {
	case 4:
		// one server's base path is a prefix of the other's
		doc.Servers = openapi3.Servers{{URL: "/v1"}, {URL: "/v1/a"}}
	case 1:
		doc.Servers = openapi3.Servers{{URL: "/v1"}}
	case 2:
		doc.Servers = openapi3.Servers{{URL: "https://h.example/v1"}}
	case 3:
		// the server's variable is called b, or x like the variable of most path templates
		if !enumOnly && verifChoose("serverVarName", 2) == 1 {
			svName = "x"
		}
		doc.Servers = openapi3.Servers{{URL: "https://h.example/{" + svName + "}", Variables: map[string]*openapi3.ServerVariable{svName: {Default: "v1"}}}}
		if enumOnly {
			doc.Servers[0].Variables["b"].Enum = []string{"v1", "v3"}
		}
	}
	router, err := NewRouter(doc)
	if err != nil {
		return
	}
	n := 1 + verifChoose("plen", maxLen)
	bs := make([]byte, n)
	bs[0] = '/'
	for i := 1; i < n; i++ {
		bs[i] = verifNondetByteIn("p", "/abc")
	}
	path := string(bs)
	method := []string{"GET", "POST", "PUT"}[verifChoose("method", 3)]
	// /v1a: the server's base followed by more of the same segment is not a URL of that server
	// /V1: paths are case-sensitive, the base path of a server included
	reqBase := []string{"", "/v1", "/v2", "/v1a", "/V1"}[verifChoose("reqBase", 5)]
	if sv == 4 {
		reqBase = "/v1/a" // also a URL of the first server with the path "/a"+path
	}
	u := &url.URL{Path: reqBase + path}
	hostOK := true
	if sv == 2 || sv == 3 {
		switch verifChoose("reqOrigin", 3) {
		case 0:
			u.Scheme, u.Host = "https", "h.example"
		case 1:
			u.Scheme, u.Host, hostOK = "https", "other.example", false
		case 2:
			u.Scheme, u.Host, hostOK = "http", "h.example", false
		}
	}
	route, params, ferr := router.FindRoute(&http.Request{Method: method, URL: u})

	serverOK, rest := false, ""
	var serverVars map[string]string
	switch sv {
	case 1, 2:
		serverOK = hostOK && reqBase == "/v1"
		rest = path
	case 3:
		// "/" + value of b + rest: with a request base the variable is the base, without one the
		// first segment of the symbolic path (concrete split points only: handled by the base cases)
		if reqBase != "" {
			serverOK, rest = hostOK, path
			serverVars = map[string]string{svName: reqBase[1:]}
			if enumOnly && reqBase != "/v1" {
				serverOK = false // /v2, /v1a, /V1: outside the variable's enum [v1, v3]
			}
		}
	}
	if sv == 3 && reqBase == "" {
		verifReach("end")
		return // the variable would be cut out of symbolic bytes: covered by the explicit request bases
	}
	var matching []string
	literal := ""
	if sv == 4 {
		serverOK, rest = true, path
		// under the first server the same URL has the path "/a"+path
		for _, t := range templates {
			if _, ok := verifRefMatch(t, "/a"+path); ok && ops[t][method] != nil {
				matching = append(matching, t)
			}
		}
	}
	if serverOK {
		for _, t := range templates {
			if _, ok := verifRefMatch(t, rest); ok && ops[t][method] != nil {
				matching = append(matching, t)
				if len(verifVars(t)) == 0 {
					literal = t
				}
			}
		}
	}
	emptyBinding := false
	for _, v := range params {
		if v == "" {
			emptyBinding = true
		}
	}
	verifKnown("C09-legacy-empty-binding", ferr == nil && route != nil && emptyBinding)
	if ferr != nil {
		_, isRouteErr := ferr.(*routers.RouteError)
		verifAssert(isRouteErr, "C09 servers: a request that is not routed yields a RouteError")
		// known finding: only the first server whose URL is a prefix of the request is tried
		// (it shows where only the second server's reading of the URL matches a template)
		firstView, secondView := false, false
		if sv == 4 {
			for _, t := range templates {
				if _, ok := verifRefMatch(t, "/a"+path); ok && ops[t][method] != nil {
					firstView = true
				}
				if _, ok := verifRefMatch(t, path); ok && ops[t][method] != nil {
					secondView = true
				}
			}
		}
		verifKnown("C09-legacy-first-matching-server-only", sv == 4 && !firstView && secondView)
		verifAssert(len(matching) == 0, "C09 servers complete: every path obtained by filling a declared template under a declared server and method is routed")
		verifReach("end")
		return
	}
	verifAssert(route != nil, "C09 servers: FindRoute returns a route or an error")
	if route == nil {
		return
	}
	verifKnown("C09-legacy-server-variable-enum-ignored", enumOnly && hostOK && reqBase != "" && reqBase != "/v1")
	verifAssert(serverOK, "C09 servers: a URL under no declared server is not routed")
	verifKnown("C09-legacy-server-variable-enum-ignored", false)
	want, ok := verifRefMatch(route.Path, rest)
	if !ok && sv == 4 {
		want, ok = verifRefMatch(route.Path, "/a"+path) // the same URL read under the shorter server
	}
	verifAssert(ok, "C09 servers sound: the returned route's template matches the request path after the server's base path")
	verifAssert(route.Operation != nil && route.Operation == ops[route.Path][method], "C09 servers sound: the returned operation is the one declared for the method under the returned template")
	if ok {
		same := true
		for k, v := range want {
			if params[k] != v {
				same = false
			}
		}
		union := len(want)
		for k, v := range serverVars {
			if _, clash := want[k]; clash {
				continue // one name for a server variable and a path variable: the path parameter is what the route returns
			}
			union++
			if params[k] != v {
				same = false
			}
		}
		verifAssert(same && len(params) == union, "C09 servers sound: substituting the returned parameters into server base and template reproduces the request path")
	}
	if literal != "" && sv != 4 {
		verifAssert(route.Path == literal, "C09 servers priority: a literal path wins over a templated one")
	}
	verifReach("end")
}

//verif:harness id=C09 tier=quick witness=end bounds="legacy router under servers in {/v1, https://h.example/v1, https://h.example/{b}, the same with the variable restricted to an enum, two servers /v1 and /v1/a of which one is a prefix of the other} x request base in {none,/v1,/v2,/v1a} x origin in {https://h.example, other host, http} x 6 template families x GET/POST/PUT x every path '/'+ up to 3 symbolic bytes over {/,a,b,c} after the base"
func verifH_C09_legacy_servers() { verifC09Servers(4) }

//verif:harness id=C09 tier=thorough witness=end bounds="as quick with paths of up to 5 bytes"
func verifH_C09_legacy_servers5() { verifC09Servers(6) }
