package legacy

// C09, every HTTP method: the operation of a returned route is the one the document declares for
// the request method (looked up here field by field, not through PathItem.GetOperation).

import (
	"net/http"
	"net/url"

	"github.com/getkin/kin-openapi/openapi3"
	"github.com/getkin/kin-openapi/routers"
)

var verifAllMethods = []string{"CONNECT", "DELETE", "GET", "HEAD", "OPTIONS", "PATCH", "POST", "PUT", "TRACE"}

func verifOpFor(pi *openapi3.PathItem, method string) *openapi3.Operation {
	switch method {
	case "CONNECT":
		return pi.Connect
	case "DELETE":
		return pi.Delete
	case "GET":
		return pi.Get
	case "HEAD":
		return pi.Head
	case "OPTIONS":
		return pi.Options
	case "PATCH":
		return pi.Patch
	case "POST":
		return pi.Post
	case "PUT":
		return pi.Put
	case "TRACE":
		return pi.Trace
	}
	return nil
}

//verif:harness id=C09 tier=quick,thorough witness=end,routed,refused bounds="every method: paths /a and /a/{x} whose path items declare all nine methods, all but one, or exactly one (explorer's choice of the one), each with its own operation; request method = each of the nine or QUERY, request path /a or /a/v: a route is returned iff the method is declared for the matching path, and it carries that method's operation"
func verifH_C09_methods() {
	d := "d"
	mkOp := func(id string, withVar bool) *openapi3.Operation {
		resps := openapi3.NewResponsesWithCapacity(1)
		resps.Set("200", &openapi3.ResponseRef{Value: &openapi3.Response{Description: &d}})
		op := &openapi3.Operation{OperationID: id, Responses: resps}
		if withVar {
			op.Parameters = openapi3.Parameters{{Value: &openapi3.Parameter{Name: "x", In: "path", Required: true, Schema: &openapi3.SchemaRef{Value: &openapi3.Schema{Type: &openapi3.Types{"string"}}}}}}
		}
		return op
	}
	shape := verifChoose("declared", 3) // all, all but one, exactly one
	one := verifAllMethods[verifChoose("one", len(verifAllMethods))]
	declared := func(m string) bool {
		switch shape {
		case 1:
			return m != one
		case 2:
			return m == one
		}
		return true
	}
	mkItem := func(prefix string, withVar bool) *openapi3.PathItem {
		pi := &openapi3.PathItem{}
		for _, m := range verifAllMethods {
			if declared(m) {
				pi.SetOperation(m, mkOp(prefix+m, withVar))
			}
		}
		return pi
	}
	paths := openapi3.NewPathsWithCapacity(2)
	paths.Set("/a", mkItem("lit", false))
	paths.Set("/a/{x}", mkItem("var", true))
	doc := &openapi3.T{OpenAPI: "3.0.0", Info: &openapi3.Info{Title: "t", Version: "1"}, Paths: paths}
	router, err := NewRouter(doc)
	if err != nil {
		return
	}
	method := append(append([]string{}, verifAllMethods...), "QUERY")[verifChoose("method", len(verifAllMethods)+1)]
	tmpl, path := "/a", "/a"
	if verifChoose("path", 2) == 1 {
		tmpl, path = "/a/{x}", "/a/v"
	}
	route, params, ferr := router.FindRoute(&http.Request{Method: method, URL: &url.URL{Path: path}, Header: http.Header{}})
	want := verifOpFor(paths.Value(tmpl), method)
	if ferr != nil {
		verifReach("refused")
		_, isRouteErr := ferr.(*routers.RouteError)
		verifAssert(isRouteErr, "C09 methods: a request that is not routed yields a RouteError")
		verifAssert(want == nil, "C09 methods: a request under a declared method of a declared path is routed")
		verifReach("end")
		return
	}
	verifReach("routed")
	verifAssert(route != nil && want != nil && route.Path == tmpl && route.Operation == want, "C09 methods: the returned operation is the one declared for the request method under the matching template")
	if route != nil {
		verifAssert(route.Method == method && route.PathItem == paths.Value(tmpl), "C09 methods: the route names the request's method and the template's path item")
	}
	if tmpl == "/a/{x}" {
		verifAssert(params["x"] == "v", "C09 methods: the path parameter is bound to the request's segment")
	}
	verifReach("end")
}

//verif:harness id=C09 tier=quick,thorough witness=end,routed,refused bounds="routes added by hand (Router.AddRoute) to a router built from a document with path /a (GET): an added route /extra or /extra/{id} with method GET or POST (given in upper or lower case); requests GET / POST on /extra, /extra/7, /a, /zz: an added route is returned for exactly the requests that fill its template with its method, with its operation and parameters; the document's own path is still routed"
func verifH_C09_legacy_added_routes() {
	d := "d"
	mkOp := func() *openapi3.Operation {
		resps := openapi3.NewResponsesWithCapacity(1)
		resps.Set("200", &openapi3.ResponseRef{Value: &openapi3.Response{Description: &d}})
		return &openapi3.Operation{Responses: resps}
	}
	doc := &openapi3.T{OpenAPI: "3.0.0", Info: &openapi3.Info{Title: "t", Version: "1"}, Paths: openapi3.NewPaths()}
	doc.Paths.Set("/a", &openapi3.PathItem{Get: mkOp()})
	r, err := NewRouter(doc)
	verifAssert(err == nil && r != nil, "C09 added routes: a router is built")
	if err != nil || r == nil {
		return
	}
	router := r.(*Router)
	tmpl := []string{"/extra", "/extra/{id}"}[verifChoose("template", 2)]
	mi := verifChoose("routeMethod", 2)
	method := []string{"GET", "POST"}[mi]
	given := method
	if verifChoose("lowerCase", 2) == 1 {
		given = []string{"get", "post"}[mi]
	}
	extraOp := mkOp()
	added := &routers.Route{Spec: doc, Path: tmpl, Method: given, Operation: extraOp, PathItem: &openapi3.PathItem{}}
	verifAssert(router.AddRoute(added) == nil, "C09 added routes: a route with a method and a path is accepted")
	reqMethod := []string{"GET", "POST"}[verifChoose("reqMethod", 2)]
	reqPath := []string{"/extra", "/extra/7", "/a", "/zz"}[verifChoose("reqPath", 4)]
	route, params, ferr := router.FindRoute(&http.Request{Method: reqMethod, URL: &url.URL{Path: reqPath}, Header: http.Header{}})
	switch {
	case reqPath == "/a" && reqMethod == "GET":
		verifAssert(ferr == nil && route != nil && route.Path == "/a", "C09 added routes: the document's own path is still routed")
		verifReach("routed")
	case reqMethod == method && (tmpl == "/extra" && reqPath == "/extra" || tmpl == "/extra/{id}" && reqPath == "/extra/7"):
		verifAssert(ferr == nil && route != nil && route.Operation == extraOp && route.Path == tmpl, "C09 added routes: a request that fills an added route's template with its method is routed to it")
		if tmpl == "/extra/{id}" {
			verifAssert(params["id"] == "7", "C09 added routes: the path parameter of an added route is returned")
		}
		verifReach("routed")
	default:
		// known finding (shared with the document's own templates): a missing last segment is bound as an empty value
		verifKnown("C09-legacy-empty-binding", tmpl == "/extra/{id}" && reqPath == "/extra" && reqMethod == method)
		verifAssert(ferr != nil, "C09 added routes: other requests are not routed")
		verifKnown("C09-legacy-empty-binding", false)
		verifReach("refused")
	}
	verifReach("end")
}
