package legacy

// C09, every HTTP method: the operation of a returned route is the one the document declares for
// the request method (looked up here field by field, not through PathItem.GetOperation).

import (
	"net/http"
	"net/url"

	"github.com/getkin/kin-openapi/openapi3"
	"github.com/getkin/kin-openapi/routers"
)

var verifAllMethods = []string{"CONNECT", "DELETE", "GET", "HEAD", "OPTIONS", "PATCH", "POST", "PUT", "TRACE"}

func verifOpFor(pi *openapi3.PathItem, method string) *openapi3.Operation {
	switch method {
	case "CONNECT":
		return pi.Connect
	case "DELETE":
		return pi.Delete
	case "GET":
		return pi.Get
	case "HEAD":
		return pi.Head
	case "OPTIONS":
		return pi.Options
	case "PATCH":
		return pi.Patch
	case "POST":
		return pi.Post
	case "PUT":
		return pi.Put
	case "TRACE":
		return pi.Trace
	}
	return nil
}

//verif:harness id=C09 tier=quick,thorough witness=end,routed,refused bounds="every method: paths /a and /a/{x} whose path items declare all nine methods, all but one, or exactly one (explorer's choice of the one), each with its own operation; request method = each of the nine or QUERY, request path /a or /a/v: a route is returned iff the method is declared for the matching path, and it carries that method's operation"
func verifH_C09_methods() {
	d := "d"
	mkOp := func(id string, withVar bool) *openapi3.Operation {
		resps := openapi3.NewResponsesWithCapacity(1)
		resps.Set("200", &openapi3.ResponseRef{Value: &openapi3.Response{Description: &d}})
		op := &openapi3.Operation{OperationID: id, Responses: resps}
		if withVar {
			op.Parameters = openapi3.Parameters{{Value: &openapi3.Parameter{Name: "x", In: "path", Required: true, Schema: &openapi3.SchemaRef{Value: &openapi3.Schema{Type: &openapi3.Types{"string"}}}}}}
		}
		return op
	}
	shape := verifChoose("declared", 3) // all, all but one, exactly one
	one := verifAllMethods[verifChoose("one", len(verifAllMethods))]
	declared := func(m string) bool {
		switch shape {
		case 1:
			return m != one
		case 2:
			return m == one
		}
		return true
	}
	mkItem := func(prefix string, withVar bool) *openapi3.PathItem {
		pi := &openapi3.PathItem{}
		for _, m := range verifAllMethods {
			if declared(m) {
				pi.SetOperation(m, mkOp(prefix+m, withVar))
			}
		}
		return pi
	}
	paths := openapi3.NewPathsWithCapacity(2)
	paths.Set("/a", mkItem("lit", false))
	paths.Set("/a/{x}", mkItem("var", true))
	doc := &openapi3.T{OpenAPI: "3.0.0", Info: &openapi3.Info{Title: "t", Version: "1"}, Paths: paths}
	router, err := NewRouter(doc)
	if err != nil {
		return
	}
	method := append(append([]string{}, verifAllMethods...), "QUERY")[verifChoose("method", len(verifAllMethods)+1)]
	tmpl, path := "/a", "/a"
	if verifChoose("path", 2) == 1 {
		tmpl, path = "/a/{x}", "/a/v"
	}
	route, params, ferr := router.FindRoute(&http.Request{Method: method, URL: &url.URL{Path: path}, Header: http.Header{}})
	want := verifOpFor(paths.Value(tmpl), method)
	if ferr != nil {
		verifReach("refused")
		_, isRouteErr := ferr.(*routers.RouteError)
		verifAssert(isRouteErr, "C09 methods: a request that is not routed yields a RouteError")
		verifAssert(want == nil, "C09 methods: a request under a declared method of a declared path is routed")
		verifReach("end")
		return
	}
	verifReach("routed")
	verifAssert(route != nil && want != nil && route.Path == tmpl && route.Operation == want, "C09 methods: the returned operation is the one declared for the request method under the matching template")
	if route != nil {
		verifAssert(route.Method == method && route.PathItem == paths.Value(tmpl), "C09 methods: the route names the request's method and the template's path item")
	}
	if tmpl == "/a/{x}" {
		verifAssert(params["x"] == "v", "C09 methods: the path parameter is bound to the request's segment")
	}
	verifReach("end")
}
