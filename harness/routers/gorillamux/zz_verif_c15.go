package gorillamux

// C15 (gorilla/mux router part) — FindRoute on a shared router writes nothing shared.
// Concrete request paths: gorilla/mux itself is executed (interpreted) on concrete text.

import (
	"net/http"
	"net/url"

	"github.com/getkin/kin-openapi/openapi3"
)

func verifGorillaDoc() *openapi3.T {
	d := "d"
	mkOp := func(id string, vars ...string) *openapi3.Operation {
		resps := openapi3.NewResponsesWithCapacity(1)
		resps.Set("200", &openapi3.ResponseRef{Value: &openapi3.Response{Description: &d}})
		op := &openapi3.Operation{OperationID: id, Responses: resps}
		for _, v := range vars {
			op.Parameters = append(op.Parameters, &openapi3.ParameterRef{Value: &openapi3.Parameter{Name: v, In: "path", Required: true, Schema: &openapi3.SchemaRef{Value: &openapi3.Schema{Type: &openapi3.Types{"string"}}}}})
		}
		return op
	}
	paths := openapi3.NewPathsWithCapacity(3)
	paths.Set("/a", &openapi3.PathItem{Get: mkOp("getA")})
	paths.Set("/a/{x}", &openapi3.PathItem{Get: mkOp("getAx", "x"), Put: mkOp("putAx", "x")})
	paths.Set("/a/b", &openapi3.PathItem{Get: mkOp("getAb")})
	return &openapi3.T{OpenAPI: "3.0.0", Info: &openapi3.Info{Title: "t", Version: "1"}, Paths: paths}
}

//verif:harness id=C15 tier=quick,thorough witness=end bounds="gorilla/mux-based router: one router for a document with /a, /a/{x} (GET, PUT), /a/b; two FindRoute calls with request paths from {/a, /a/b, /a/v, /zz} and methods GET/PUT/POST; footprint monitor: the second call writes nothing reachable from the router, and the route returned by the first call is not changed by the second"
func verifH_C15_gorilla() {
	r, err := NewRouter(verifGorillaDoc())
	if err != nil {
		return
	}
	pathsPool := []string{"/a", "/a/b", "/a/v", "/zz"}
	methods := []string{"GET", "PUT", "POST"}
	mk := func(p string) *http.Request {
		return &http.Request{Method: methods[verifChoose(p+"m", 3)], URL: &url.URL{Path: pathsPool[verifChoose(p+"p", 4)]}, Header: http.Header{}}
	}
	req1, req2 := mk("1"), mk("2")
	verifSharedBegin(r)
	route1, _, err1 := r.FindRoute(req1)
	var op1 *openapi3.Operation
	var m1 string
	if err1 == nil {
		op1, m1 = route1.Operation, route1.Method
	}
	_, _, _ = r.FindRoute(req2)
	verifSharedEnd()
	if err1 == nil {
		verifAssert(route1.Operation == op1 && route1.Method == m1, "C15 gorilla: a route handed out by FindRoute is not changed by a later call")
	}
	verifReach("end")
}
