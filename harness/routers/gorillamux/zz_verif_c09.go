package gorillamux

// C09 — the gorilla/mux-based router returns the declared operation whose template matches.
// Request paths, hosts and schemes are concrete (chosen by the explorer byte by byte), so
// gorilla/mux itself runs interpreted on concrete text; the oracle is a reference matcher.

import (
	"context"
	"net/http"
	"net/url"
	"strings"

	"github.com/getkin/kin-openapi/openapi3"
	"github.com/getkin/kin-openapi/routers"
)

var verifFamilies = [][]string{
	{"/a", "/b/{x}"},
	{"/a", "/a/{x}", "/a/b"},
	{"/a/{x}/{y}", "/a/{x}", "/b"},
	{"/{x}/b", "/a/c"},
	{"/", "/a/", "/a/{x}/c"},
	{"/b", "/{x}"}, // a literal and a templated sibling at the top: the method may be declared on the templated one only
}

func verifCtx() context.Context { return context.Background() }

func verifVars(tmpl string) []string {
	var out []string
	for _, seg := range strings.Split(tmpl, "/") {
		if strings.HasPrefix(seg, "{") && strings.HasSuffix(seg, "}") {
			out = append(out, seg[1:len(seg)-1])
		}
	}
	return out
}

func verifDoc(templates []string, postOn int) (*openapi3.T, map[string]map[string]*openapi3.Operation) {
	ops := map[string]map[string]*openapi3.Operation{}
	paths := openapi3.NewPathsWithCapacity(len(templates))
	mkOp := func(id string, vars []string) *openapi3.Operation {
		d := "d"
		resps := openapi3.NewResponsesWithCapacity(1)
		resps.Set("200", &openapi3.ResponseRef{Value: &openapi3.Response{Description: &d}})
		op := &openapi3.Operation{OperationID: id, Responses: resps}
		for _, v := range vars {
			op.Parameters = append(op.Parameters, &openapi3.ParameterRef{Value: &openapi3.Parameter{Name: v, In: "path", Required: true, Schema: &openapi3.SchemaRef{Value: &openapi3.Schema{Type: &openapi3.Types{"string"}}}}})
		}
		return op
	}
	for i, t := range templates {
		pi := &openapi3.PathItem{}
		ops[t] = map[string]*openapi3.Operation{}
		pi.Get = mkOp("get"+string(rune('A'+i)), verifVars(t))
		ops[t]["GET"] = pi.Get
		if i == postOn {
			pi.Post = mkOp("post"+string(rune('A'+i)), verifVars(t))
			ops[t]["POST"] = pi.Post
		}
		paths.Set(t, pi)
	}
	doc := &openapi3.T{OpenAPI: "3.0.0", Info: &openapi3.Info{Title: "t", Version: "1"}, Paths: paths}
	return doc, ops
}

// verifRefMatch: does path match the template exactly, variables taking non-empty slash-free values?
func verifRefMatch(tmpl, path string) (map[string]string, bool) {
	ts := strings.Split(tmpl, "/")
	ps := strings.Split(path, "/")
	if len(ts) != len(ps) {
		return nil, false
	}
	params := map[string]string{}
	for i := range ts {
		if strings.HasPrefix(ts[i], "{") && strings.HasSuffix(ts[i], "}") {
			if ps[i] == "" {
				return nil, false
			}
			params[ts[i][1:len(ts[i])-1]] = ps[i]
			continue
		}
		if ts[i] != ps[i] {
			return nil, false
		}
	}
	return params, true
}

func verifC09(maxLen int) {
	fam := verifChoose("family", len(verifFamilies))
	templates := verifFamilies[fam]
	doc, ops := verifDoc(templates, verifChoose("postOn", len(templates)))
	// servers: none, a relative base path, an absolute URL, an absolute URL whose base path is a variable
	// (free, or restricted by an enum)
	sv := verifChoose("servers", 5)
	switch sv {
	case 1:
		doc.Servers = openapi3.Servers{{URL: "/v1"}}
	case 2:
		doc.Servers = openapi3.Servers{{URL: "https://h.example/v1"}}
	case 3:
		doc.Servers = openapi3.Servers{{URL: "https://h.example/{b}", Variables: map[string]*openapi3.ServerVariable{"b": {Default: "v1"}}}}
	case 4:
		doc.Servers = openapi3.Servers{{URL: "https://h.example/{b}", Variables: map[string]*openapi3.ServerVariable{"b": {Default: "v1", Enum: []string{"v1", "v2"}}}}}
	}
	if doc.Validate(verifCtx()) != nil {
		return // not a valid document: outside the property
	}
	router, err := NewRouter(doc)
	verifAssert(err == nil, "C09 gorilla: a router is built for a valid document")
	if err != nil {
		return
	}
	n := 1 + verifChoose("plen", maxLen)
	bs := make([]byte, n)
	bs[0] = '/'
	for i := 1; i < n; i++ {
		bs[i] = "/abc"[verifChoose("p", 4)]
	}
	path := string(bs)
	method := []string{"GET", "POST", "PUT"}[verifChoose("method", 3)]
	reqBase, reqHost, reqScheme := "", "h.example", "https"
	if sv == 0 {
		reqBase = []string{"", "/v1"}[verifChoose("reqBase", 2)]
	} else {
		reqBase = []string{"", "/v1", "/v2", "/v3"}[verifChoose("reqBase", 4)]
	}
	if sv >= 2 {
		// host and scheme matter only for absolute servers
		switch verifChoose("reqOrigin", 3) {
		case 1:
			reqHost = "other.example"
		case 2:
			reqScheme = "http"
		}
	}
	req := &http.Request{Method: method, Host: reqHost, URL: &url.URL{Scheme: reqScheme, Host: reqHost, Path: reqBase + path}, Header: http.Header{}}
	route, params, ferr := router.FindRoute(req)

	// reference: is the request under a declared server, and what is left of the path after its base?
	full := reqBase + path
	hostOK := reqHost == "h.example" && reqScheme == "https"
	serverOK, rest := false, ""
	var serverVars map[string]string
	switch sv {
	case 0:
		serverOK, rest = true, full
	case 1:
		serverOK, rest = strings.HasPrefix(full, "/v1/"), strings.TrimPrefix(full, "/v1")
	case 2:
		serverOK, rest = hostOK && strings.HasPrefix(full, "/v1/"), strings.TrimPrefix(full, "/v1")
	case 3, 4:
		// "/" + value of b + rest
		if i := strings.IndexByte(full[1:], '/'); i > 0 {
			b := full[1 : 1+i]
			rest = full[1+i:]
			serverOK = hostOK
			serverVars = map[string]string{"b": b}
			if sv == 4 && b != "v1" && b != "v2" {
				serverOK = false // outside the variable's enum: not a URL of this server
			}
		}
	}
	path = rest
	var matching []string
	literal := ""
	if serverOK {
		for _, t := range templates {
			if _, ok := verifRefMatch(t, path); ok && ops[t][method] != nil {
				matching = append(matching, t)
				if len(verifVars(t)) == 0 {
					literal = t
				}
			}
		}
	}
	if ferr != nil {
		_, isRouteErr := ferr.(*routers.RouteError)
		verifAssert(isRouteErr, "C09 gorilla: a request that is not routed yields a RouteError")
		verifAssert(len(matching) == 0, "C09 gorilla complete: every path obtained by filling a declared template under a declared server and method is routed")
		verifReach("end")
		return
	}
	verifAssert(route != nil, "C09 gorilla: FindRoute returns a route or an error")
	if route == nil {
		return
	}
	// known finding: the enum of a server variable in the base path is ignored
	verifKnown("C09-gorilla-server-variable-enum-ignored", sv == 4 && hostOK && serverVars != nil && serverVars["b"] != "v1" && serverVars["b"] != "v2")
	verifAssert(serverOK, "C09 gorilla: a URL under no declared server is not routed")
	verifKnown("C09-gorilla-server-variable-enum-ignored", false)
	want, ok := verifRefMatch(route.Path, path)
	verifAssert(ok, "C09 gorilla sound: the returned route's template matches the request path after the server's base path (non-empty slash-free values)")
	verifAssert(route.Operation != nil && route.Operation == ops[route.Path][method], "C09 gorilla sound: the returned operation is the one declared for the method under the returned template")
	if ok {
		same := true
		for k, v := range want {
			if params[k] != v {
				same = false
			}
		}
		for k, v := range serverVars {
			if params[k] != v {
				same = false
			}
		}
		verifAssert(same && len(params) == len(want)+len(serverVars), "C09 gorilla sound: substituting the returned parameters into server base and template reproduces the request path")
	}
	if literal != "" {
		verifAssert(route.Path == literal, "C09 gorilla priority: a literal path wins over a templated one")
	}
	verifReach("end")
}

//verif:harness id=C09 tier=quick witness=end bounds="gorilla/mux-based router (gorilla/mux interpreted on concrete text): 6 template families x POST on one path x servers in {none, /v1, https://h.example/v1, https://h.example/{b}, the same with enum v1,v2} x methods GET/POST/PUT x request base in {none,/v1,/v2,/v3} x origin in {https://h.example, other host, http} (absolute servers) x every path '/'+ up to 2 bytes over {/,a,b,c}"
func verifH_C09_gorilla() { verifC09(3) }

//verif:harness id=C09 tier=thorough witness=end bounds="as quick with request paths of up to 4 bytes"
func verifH_C09_gorilla5() { verifC09(5) }

//verif:harness id=C09 tier=quick,thorough witness=end bounds="gorilla/mux-based router, path-level servers: document server in {none, /v1, /, /v1/, /my%20api, https://h.example/my%20api}; paths /a, /m, /z where exactly one of them (explorer's choice) declares its own server /own; requests base in {none,/v1,/own,/my%20api} x path in {/a,/m,/z}: a path is routed exactly under its own servers if it declares some, else under the document's"
func verifH_C09_gorilla_path_servers() {
	doc, ops := verifDoc([]string{"/a", "/m", "/z"}, 0)
	docBase := ""
	switch verifChoose("docServer", 6) {
	case 4:
		doc.Servers = openapi3.Servers{{URL: "/my%20api"}} // a percent-encoded character in the base path
		docBase = "/my%20api"
	case 5:
		doc.Servers = openapi3.Servers{{URL: "https://h.example/my%20api"}}
		docBase = "/my%20api"
	case 1:
		doc.Servers = openapi3.Servers{{URL: "/v1"}}
		docBase = "/v1"
	case 2:
		doc.Servers = openapi3.Servers{{URL: "/"}} // the root: same as no base path
	case 3:
		doc.Servers = openapi3.Servers{{URL: "/v1/"}} // a trailing slash is not part of the base
		docBase = "/v1"
	}
	own := []string{"/a", "/m", "/z"}[verifChoose("own", 3)]
	doc.Paths.Value(own).Servers = openapi3.Servers{{URL: "/own"}}
	if doc.Validate(verifCtx()) != nil {
		return
	}
	router, err := NewRouter(doc)
	verifAssert(err == nil, "C09 gorilla path servers: a router is built for a valid document")
	if err != nil {
		return
	}
	reqBase := []string{"", "/v1", "/own", "/my%20api"}[verifChoose("reqBase", 4)]
	p := []string{"/a", "/m", "/z"}[verifChoose("path", 3)]
	u := &url.URL{Scheme: "https", Host: "h.example", Path: reqBase + p}
	if reqBase == "/my%20api" {
		u.Path, u.RawPath = "/my api"+p, reqBase+p // as net/http parses the request line
	}
	route, _, ferr := router.FindRoute(&http.Request{Method: "GET", Host: "h.example", URL: u, Header: http.Header{}})
	wantBase := docBase
	if p == own {
		wantBase = "/own"
	}
	if reqBase == wantBase {
		verifAssert(ferr == nil && route != nil && route.Path == p && route.Operation == ops[p]["GET"], "C09 gorilla path servers: a path is routed under its own servers, else under the document's")
	} else {
		verifAssert(ferr != nil, "C09 gorilla path servers: a URL under a server the path does not have is not routed")
	}
	verifReach("end")
}

//verif:harness id=C09 tier=quick,thorough witness=end bounds="gorilla/mux-based router, two lookups on one router: document /a (GET), /a/{x} (GET, PUT), /a/b (GET); two requests with paths from {/a, /a/b, /a/v, /zz} and methods GET/PUT/POST; after both lookups each returned route still carries its own request's method, the operation declared for that method under its template, and its own path parameters"
func verifH_C09_gorilla_two_lookups() {
	doc := verifGorillaDoc()
	r, err := NewRouter(doc)
	if err != nil {
		return
	}
	pathsPool := []string{"/a", "/a/b", "/a/v", "/zz"}
	methods := []string{"GET", "PUT", "POST"}
	mk := func(p string) *http.Request {
		return &http.Request{Method: methods[verifChoose(p+"m", 3)], URL: &url.URL{Path: pathsPool[verifChoose(p+"p", 4)]}, Header: http.Header{}}
	}
	req1, req2 := mk("1"), mk("2")
	route1, vars1, err1 := r.FindRoute(req1)
	route2, vars2, err2 := r.FindRoute(req2)
	check := func(req *http.Request, route *routers.Route, vars map[string]string, err error) {
		if err != nil {
			return
		}
		item := doc.Paths.Value(route.Path)
		verifAssert(item != nil && route.Method == req.Method && route.Operation != nil && route.Operation == item.GetOperation(req.Method), "C09 gorilla two lookups: each returned route carries the operation declared for its own request's method under its template")
		want := strings.Replace(route.Path, "{x}", vars["x"], 1)
		verifAssert(want == req.URL.Path, "C09 gorilla two lookups: each route's template filled with its own parameters is its own request's path")
	}
	check(req1, route1, vars1, err1)
	check(req2, route2, vars2, err2)
	verifReach("end")
}
