package gorillamux

// C10 (gorilla/mux router part) — building a router for a valid document and finding a
// route for any method and URL returns normally (no panic). Concrete text only.

import (
	"net/http"
	"net/url"

	"github.com/getkin/kin-openapi/openapi3"
)

//verif:harness id=C10 tier=quick,thorough witness=end bounds="gorilla/mux-based router over the 6 template families of C09 x servers in {none, /v1, https://h.example:{port}/v1 with default port, {scheme}://h.example with enum} x method in the nine standard methods, empty, lower case, unknown x every request path '/'+ up to 2 bytes over {/,a,{,},%} x URL with or without RawPath and host; documents gated by the real Validate; assertion = no panic"
func verifH_C10_gorilla_router() {
	fam := verifChoose("family", len(verifFamilies))
	doc, _ := verifDoc(verifFamilies[fam], 0)
	switch verifChoose("servers", 4) {
	case 1:
		doc.Servers = openapi3.Servers{{URL: "/v1"}}
	case 2:
		doc.Servers = openapi3.Servers{{URL: "https://h.example:{port}/v1", Variables: map[string]*openapi3.ServerVariable{"port": {Default: "8443"}}}}
	case 3:
		doc.Servers = openapi3.Servers{{URL: "{scheme}://h.example", Variables: map[string]*openapi3.ServerVariable{"scheme": {Default: "https", Enum: []string{"https", "http"}}}}}
	}
	if doc.Validate(verifCtx()) != nil {
		return
	}
	router, err := NewRouter(doc)
	if err != nil {
		return
	}
	method := []string{"GET", "POST", "PUT", "DELETE", "HEAD", "OPTIONS", "PATCH", "TRACE", "CONNECT", "", "get", "FOO"}[verifChoose("method", 12)]
	n := 1 + verifChoose("plen", 3)
	bs := make([]byte, n)
	bs[0] = '/'
	for i := 1; i < n; i++ {
		bs[i] = "/a{}%"[verifChoose("p", 5)]
	}
	u := &url.URL{Path: string(bs)}
	switch verifChoose("url", 3) {
	case 1:
		u.RawPath = string(bs)
	case 2:
		u.Scheme, u.Host = "https", "h.example:8443"
	}
	_, _, _ = router.FindRoute(&http.Request{Method: method, URL: u, Host: u.Host, Header: http.Header{}})
	verifReach("end")
}
