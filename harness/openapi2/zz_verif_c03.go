package openapi2

// C03 (OpenAPI 2 part) — marshalling then reloading loses and invents nothing.

import (
	"encoding/json"
	"reflect"
)

type verifKindSample struct {
	name string
	mk   func() any
	text string
	keep []string
}

var verifSamples = []verifKindSample{
	{"T", func() any { return &T{} }, `{"swagger":"2.0","info":{"title":"t","version":"1"},"externalDocs":{"url":"https://e"},"schemes":["https"],"consumes":["application/json"],"produces":["application/json"],"host":"h","basePath":"/v1","paths":{"/a":{"get":{"responses":{"200":{"description":"d"}}}}},"definitions":{"D":{"type":"string"}},"parameters":{"P":{"name":"p","in":"query","type":"string"}},"responses":{"R":{"description":"d"}},"securityDefinitions":{"s":{"type":"basic"}},"security":[{"s":[]}],"tags":[{"name":"t"}],"x-ext":1}`, []string{"swagger", "info"}},
	{"Operation", func() any { return &Operation{} }, `{"summary":"s","description":"d","deprecated":true,"externalDocs":{"url":"https://e"},"tags":["t"],"operationId":"op","parameters":[{"name":"p","in":"query","type":"string"}],"responses":{"200":{"description":"d"}},"consumes":["a/b"],"produces":["a/b"],"schemes":["https"],"security":[{"s":[]}],"x-ext":1}`, []string{"responses"}},
	{"OperationOptOut", func() any { return &Operation{} }, `{"responses":{"200":{"description":"d"}},"security":[],"x-ext":1}`, []string{"responses"}},
	{"SchemaZeros", func() any { return &Schema{} }, `{"type":"array","maxItems":0,"maxLength":0,"maxProperties":0,"minimum":0,"maximum":0,"default":0,"example":0,"enum":[0,false,""],"x-ext":0}`, nil},
	{"ParameterZeros", func() any { return &Parameter{} }, `{"in":"query","name":"p","type":"array","maxItems":0,"maxLength":0,"minimum":0,"maximum":0,"default":0,"x-ext":0}`, []string{"in", "name"}},
	{"Parameter", func() any { return &Parameter{} }, `{"in":"query","name":"p","description":"d","collectionFormat":"csv","type":"array","format":"f","pattern":"^a","allowEmptyValue":true,"required":true,"uniqueItems":true,"exclusiveMinimum":true,"exclusiveMaximum":true,"items":{"type":"string"},"enum":["a"],"multipleOf":2,"minimum":1,"maximum":3,"maxLength":2,"maxItems":2,"minLength":1,"minItems":1,"default":"a","x-ext":1}`, nil},
	{"ParameterBody", func() any { return &Parameter{} }, `{"in":"body","name":"b","schema":{"$ref":"#/definitions/D"},"x-ext":1}`, nil},
	{"Schema", func() any { return &Schema{} }, `{"allOf":[{"$ref":"#/definitions/D"}],"not":{"type":"boolean"},"type":"object","title":"t","format":"f","description":"d","enum":[1],"default":1,"example":1,"externalDocs":{"url":"https://e"},"uniqueItems":true,"exclusiveMinimum":true,"exclusiveMaximum":true,"readOnly":true,"allowEmptyValue":true,"deprecated":true,"xml":{"name":"n"},"minimum":1,"maximum":2,"multipleOf":1,"minLength":1,"maxLength":2,"pattern":"^a","minItems":1,"maxItems":2,"items":{"type":"string"},"required":["a"],"properties":{"a":{"type":"string"}},"minProperties":1,"maxProperties":2,"additionalProperties":{"type":"string"},"discriminator":"a","x-ext":1}`, nil},
	{"Response", func() any { return &Response{} }, `{"description":"d","schema":{"type":"string"},"headers":{"X":{"type":"string"}},"examples":{"application/json":{"a":1}},"x-ext":1}`, nil},
	{"SecurityScheme", func() any { return &SecurityScheme{} }, `{"description":"d","type":"oauth2","in":"header","name":"n","flow":"accessCode","authorizationUrl":"https://a","tokenUrl":"https://t","scopes":{"a":"b"},"tags":[{"name":"t"}],"x-ext":1}`, nil},
	{"PathItem", func() any { return &PathItem{} }, `{"delete":{"responses":{"200":{"description":"d"}}},"get":{"responses":{"200":{"description":"d"}}},"head":{"responses":{"200":{"description":"d"}}},"options":{"responses":{"200":{"description":"d"}}},"patch":{"responses":{"200":{"description":"d"}}},"post":{"responses":{"200":{"description":"d"}}},"put":{"responses":{"200":{"description":"d"}}},"parameters":[{"$ref":"#/parameters/P"}],"x-ext":1}`, nil},
}

func verifJSONTree(text []byte) (any, bool) {
	var t any
	if json.Unmarshal(text, &t) != nil {
		return nil, false
	}
	return t, true
}

func verifSortedKeys(m map[string]any) []string {
	keys := make([]string, 0, len(m))
	for k := range m {
		keys = append(keys, k)
	}
	for i := 1; i < len(keys); i++ {
		for j := i; j > 0 && keys[j] < keys[j-1]; j-- {
			keys[j], keys[j-1] = keys[j-1], keys[j]
		}
	}
	return keys
}

// verifFlipBools: the tree with every boolean negated (all depths).
func verifFlipBools(t any) any {
	switch x := t.(type) {
	case bool:
		return !x
	case []any:
		out := make([]any, len(x))
		for i := range x {
			out[i] = verifFlipBools(x[i])
		}
		return out
	case map[string]any:
		out := map[string]any{}
		for k, v := range x {
			if k == "example" || k == "default" || k == "value" || k == "enum" {
				out[k] = v // free-form data stays as it is
				continue
			}
			out[k] = verifFlipBools(v)
		}
		return out
	}
	return t
}

// verifDropDefaultFalse: a member whose value is false says the same as its absence for every
// boolean of the specification except "explode" (default depends on style) and
// "additionalProperties" (false forbids); free-form data is left alone.
func verifDropDefaultFalse(t any) any {
	switch x := t.(type) {
	case []any:
		out := make([]any, len(x))
		for i := range x {
			out[i] = verifDropDefaultFalse(x[i])
		}
		return out
	case map[string]any:
		out := map[string]any{}
		for k, v := range x {
			if k == "example" || k == "default" || k == "value" || k == "enum" {
				out[k] = v
				continue
			}
			if b, isBool := v.(bool); isBool && !b && k != "explode" && k != "additionalProperties" {
				continue
			}
			out[k] = verifDropDefaultFalse(v)
		}
		return out
	}
	return t
}

//verif:harness id=C03 tier=quick,thorough witness=end bounds="8 OpenAPI 2 object kinds (document, Operation, Parameter x2, Schema, Response, SecurityScheme, PathItem) in normal form with every specified field and an x- extension; variants: all members, each member dropped, each member alone, every boolean negated; JSON reader/writer only"
func verifH_C03_openapi2() {
	smp := verifSamples[verifChoose("kind", len(verifSamples))]
	tree, ok := verifJSONTree([]byte(smp.text))
	obj, isObj := tree.(map[string]any)
	if !ok || !isObj {
		return
	}
	keys := verifSortedKeys(obj)
	required := map[string]bool{}
	for _, k := range smp.keep {
		required[k] = true
	}
	v := verifChoose("variant", 2*len(keys)+3)
	in := map[string]any{}
	flipped := false
	switch {
	case v == 2*len(keys)+2:
		// a field the specification does not know (and that is not an x- extension) next to all the others
		for k, m := range obj {
			in[k] = m
		}
		in["unknownField"] = map[string]any{"k": []any{1.0, "u"}}
	case v == 2*len(keys)+1:
		in = verifFlipBools(obj).(map[string]any)
		flipped = true
	case v == 0:
		in = obj
	case v <= len(keys):
		for i, k := range keys {
			if i != v-1 || required[k] {
				in[k] = obj[k]
			}
		}
	default:
		k := keys[v-len(keys)-1]
		in[k] = obj[k]
		for r := range required {
			in[r] = obj[r]
		}
	}
	text, err := json.Marshal(in)
	if err != nil {
		return
	}
	x := smp.mk()
	if err := json.Unmarshal(text, x); err != nil {
		verifReach("end")
		return
	}
	out, err := json.Marshal(x)
	verifAssert(err == nil, "C03 v2 "+smp.name+": a parsed object serialises")
	if err != nil {
		return
	}
	got, ok := verifJSONTree(out)
	if flipped {
		verifAssert(ok && reflect.DeepEqual(verifDropDefaultFalse(got), verifDropDefaultFalse(any(in))), "C03 v2 "+smp.name+": with every boolean negated the serialised JSON equals the input up to members that are false by default")
	} else {
		verifAssert(ok && reflect.DeepEqual(got, any(in)), "C03 v2 "+smp.name+": the serialised JSON equals the normal-form input (nothing lost, nothing invented)")
	}
	y := smp.mk()
	if json.Unmarshal(out, y) == nil {
		out2, err2 := json.Marshal(y)
		t2, ok2 := verifJSONTree(out2)
		verifAssert(err2 == nil && ok2 && reflect.DeepEqual(t2, got), "C03 v2 "+smp.name+": serialise/parse/serialise is stable")
	} else {
		verifAssert(false, "C03 v2 "+smp.name+": the serialised output parses again")
	}
	verifReach("end")
}
