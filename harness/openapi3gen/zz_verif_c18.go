package openapi3gen

// C18 — a schema generated from a Go type accepts every JSON encoding of that type.
// The generator runs over the engine's reflection emulation; the JSON value handed to
// the validator is built from the documented encoding/json rules with every scalar leaf
// symbolic (e.g. an int8 field ranges over all 256 values).

import (
	"reflect"
	"time"

	"github.com/getkin/kin-openapi/openapi3"
)

type verifScalars struct {
	I8  int8    `json:"i8"`
	I16 int16   `json:"i16"`
	I32 int32   `json:"i32"`
	I64 int64   `json:"i64"`
	I   int     `json:"i"`
	U8  uint8   `json:"u8"`
	U16 uint16  `json:"u16"`
	U32 uint32  `json:"u32"`
	U64 uint64  `json:"u64"`
	U   uint    `json:"u"`
	F32 float32 `json:"f32"`
	F64 float64 `json:"f64"`
	B   bool    `json:"b"`
	S   string  `json:"s"`
}

type verifInner struct {
	N int16  `json:"n"`
	T string `json:"t,omitempty"`
}

type verifEmbedded struct {
	E uint8 `json:"e"`
}

type verifNested struct {
	verifEmbedded
	P    *verifInner            `json:"p,omitempty"`
	L    []int16                `json:"l"`
	M    map[string]uint8       `json:"m"`
	When time.Time              `json:"when"`
	Raw  []byte                 `json:"raw"`
	Skip int                    `json:"-"`
	Self *verifNested           `json:"self,omitempty"`
	Kids []*verifNested         `json:"kids"`
	ByK  map[string]*verifInner `json:"byk"`
}

// resolve follows component references of the generated schema.
func verifResolveGen(ref *openapi3.SchemaRef, comps openapi3.Schemas, depth int) bool {
	if ref == nil || depth > 12 {
		return true
	}
	if ref.Ref != "" {
		const pre = "#/components/schemas/"
		if len(ref.Ref) <= len(pre) || ref.Ref[:len(pre)] != pre {
			return false
		}
		target, ok := comps[ref.Ref[len(pre):]]
		if !ok || target == nil || target.Value == nil {
			return false
		}
		ref.Value = target.Value
		return true
	}
	s := ref.Value
	if s == nil {
		return true
	}
	ok := verifResolveGen(s.Items, comps, depth+1) && verifResolveGen(s.AdditionalProperties.Schema, comps, depth+1)
	for _, p := range s.Properties {
		ok = verifResolveGen(p, comps, depth+1) && ok
	}
	for _, p := range s.OneOf {
		ok = verifResolveGen(p, comps, depth+1) && ok
	}
	return ok
}

//verif:harness id=C18 tier=quick,thorough witness=end bounds="struct with one field of every scalar kind (int8..int64, int, uint8..uint64, uint, float32, float64, bool, string): every value of every field (all bit patterns; floats non-NaN/Inf; string 0-2 ASCII bytes); the generated schema must accept the value's JSON encoding"
func verifH_C18_scalars() {
	ref, err := NewSchemaRefForValue(&verifScalars{}, nil)
	verifAssert(err == nil && ref != nil && ref.Value != nil, "C18: a schema is generated for a struct of scalars")
	if err != nil || ref == nil || ref.Value == nil {
		return
	}
	f32 := verifNondetFloat32("f32")
	verifAssume(f32 == f32 && f32 <= 3.4028234663852886e38 && f32 >= -3.4028234663852886e38)
	f64 := verifNondetFloat64("f64")
	verifAssume(f64 == f64 && f64 <= 1.7976931348623157e308 && f64 >= -1.7976931348623157e308)
	s := verifNondetString("s", 2)
	for i := 0; i < len(s); i++ {
		verifAssume(s[i] < 0x80)
	}
	// the JSON encoding of the struct: every integer kind is a JSON number
	enc := map[string]any{
		"i8": float64(verifNondetInt8("i8")), "i16": float64(verifNondetInt16("i16")), "i32": float64(verifNondetInt32("i32")), "i64": float64(verifNondetInt64("i64")), "i": float64(verifNondetInt("i")),
		"u8": float64(verifNondetUint8("u8")), "u16": float64(verifNondetUint16("u16")), "u32": float64(verifNondetUint32("u32")), "u64": float64(verifNondetUint64("u64")), "u": float64(verifNondetUint("u")),
		"f32": float64(f32), "f64": f64, "b": verifNondetBool("b"), "s": s,
	}
	verr := ref.Value.VisitJSON(enc)
	verifAssert(verr == nil, "C18: the generated schema accepts the JSON encoding of every value of the struct")
	verifReach("end")
}

func verifEncInner(p string) map[string]any {
	o := map[string]any{"n": float64(verifNondetInt16(p + "n"))}
	if verifChoose(p+"hasT", 2) == 1 {
		t := verifNondetStringN(p+"t", 1) // omitempty: present only when non-empty
		verifAssume(t[0] < 0x80)
		o["t"] = t
	}
	return o
}

func verifEncNested(p string, depth int) map[string]any {
	o := map[string]any{"e": float64(verifNondetUint8(p + "e"))}
	// one shape choice per level: 0 minimal (empty slices/maps, nil pointers), 1 inner pointer and
	// filled containers, 2 self reference through the pointer, 3 self reference through the slice
	shape := verifChoose(p+"shape", 4)
	if depth == 0 && shape > 1 {
		shape = 1
	}
	l, m, kids, byk := []any{}, map[string]any{}, []any{}, map[string]any{}
	if shape >= 1 {
		o["p"] = verifEncInner(p + "p.")
		l = append(l, float64(verifNondetInt16(p+"l")), float64(verifNondetInt16(p+"l")))
		m["k"] = float64(verifNondetUint8(p + "m"))
		byk["x"] = verifEncInner(p + "byk.")
	}
	if shape == 2 {
		o["self"] = verifEncNested(p+"self.", depth-1)
	}
	if shape == 3 {
		kids = append(kids, verifEncNested(p+"kid.", depth-1))
	}
	o["l"], o["m"], o["kids"], o["byk"] = l, m, kids, byk
	o["when"] = "2024-02-29T23:59:59Z" // an RFC 3339 time as encoding/json writes it
	o["raw"] = "AQID"                  // base64 of {1,2,3}
	return o
}

//verif:harness id=C18 tier=quick witness=end bounds="struct with embedded struct, pointer-to-struct (omitempty), []int16, map[string]uint8, time.Time, []byte, json:\"-\", self reference through pointer and through slice of pointers, map of pointers; values nested to depth 1 (per level: minimal / filled / self through pointer / self through slice) with every integer leaf symbolic; generation terminates, every $ref names a component, the schema accepts the encoding"
func verifH_C18_nested() { verifC18Nested(1) }

//verif:harness id=C18 tier=thorough witness=end bounds="as quick with values nested to depth 2"
func verifH_C18_nested2() { verifC18Nested(2) }

func verifC18Nested(depth int) {
	comps := openapi3.Schemas{}
	ref, err := NewSchemaRefForValue(&verifNested{}, comps)
	verifAssert(err == nil && ref != nil, "C18: generation terminates for a self-referential type")
	if err != nil || ref == nil {
		return
	}
	root := &openapi3.SchemaRef{Ref: ref.Ref, Value: ref.Value}
	verifAssert(verifResolveGen(root, comps, 0), "C18: every $ref in the generated schema names a component")
	for _, c := range comps {
		verifAssert(verifResolveGen(c, comps, 0), "C18: every $ref in a generated component names a component")
	}
	if root.Value == nil {
		return
	}
	enc := verifEncNested("", depth)
	verr := root.Value.VisitJSON(enc)
	verifAssert(verr == nil, "C18: the generated schema accepts the JSON encoding of every value of the type")
	verifReach("end")
}

//verif:harness id=C15 tier=quick,thorough witness=end bounds="two schema generations for the same self-referential type with one shared components map per generator (the package-level type table is the shared state); footprint monitor: the only shared writes allowed are under the type-table mutex"
func verifH_C15_gen() {
	// warm the type table so that it exists before the shared region starts
	_, _ = NewSchemaRefForValue(&verifInner{}, nil)
	verifSharedBegin()
	_, _ = NewSchemaRefForValue(&verifNested{}, openapi3.Schemas{})
	_, _ = NewSchemaRefForValue(&verifScalars{}, nil)
	verifSharedEnd()
	verifReach("end")
}

// ---- nil pointers: every position where encoding/json writes null ----

type verifPtrs struct {
	PT   *time.Time             `json:"pt"`
	PI   *verifInner            `json:"pi"`
	PN   *int32                 `json:"pn"`
	PS   *string                `json:"ps"`
	LP   []*verifInner          `json:"lp"`
	MP   map[string]*verifInner `json:"mp"`
	LPN  []*int32               `json:"lpn"`
	Self *verifPtrs             `json:"self"`
	Kids []*verifPtrs           `json:"kids"`
	ByK  map[string]*verifPtrs  `json:"byk"`
}

func verifEncPtrs(p string, depth int) map[string]any {
	pick := func(name string, v func() any) any {
		if depth > 0 && verifChoose(p+name, 2) == 1 {
			return v()
		}
		return nil
	}
	inner := func() any { return map[string]any{"n": float64(verifNondetInt16(p + "n"))} }
	o := map[string]any{}
	o["pt"] = pick("pt", func() any { return "2024-02-29T23:59:59Z" })
	o["pi"] = pick("pi", inner)
	o["pn"] = pick("pn", func() any { return float64(verifNondetInt32(p + "pn")) })
	o["ps"] = pick("ps", func() any { return "s" })
	o["lp"] = []any{pick("lp0", inner)}
	o["mp"] = map[string]any{"k": pick("mpk", inner)}
	o["lpn"] = []any{pick("lpn0", func() any { return float64(verifNondetInt32(p + "lpn")) })}
	o["self"], o["kids"], o["byk"] = nil, []any{}, map[string]any{}
	if depth > 0 {
		o["self"] = pick("self", func() any { return verifEncPtrs(p+"self.", 0) })
		o["kids"] = []any{pick("kid0", func() any { return verifEncPtrs(p+"kid.", 0) })}
		o["byk"] = map[string]any{"k": pick("byk0", func() any { return verifEncPtrs(p+"byk.", 0) })}
	}
	return o
}

//verif:harness id=C18 tier=quick,thorough witness=end bounds="nil pointers: struct with *time.Time, *struct, *int32, *string, []*struct, map[string]*struct, []*int32 and self references *T, []*T, map[string]*T, none omitempty; every pointer independently nil (JSON null) or set (self references one level deep, the inner value with all pointers nil or set independently is pruned to all-nil); each property of the generated schema must accept its member of the encoding"
func verifH_C18_nil_pointers() {
	comps := openapi3.Schemas{}
	ref, err := NewSchemaRefForValue(&verifPtrs{}, comps)
	verifAssert(err == nil && ref != nil, "C18 nil pointers: a schema is generated")
	if err != nil || ref == nil {
		return
	}
	root := &openapi3.SchemaRef{Ref: ref.Ref, Value: ref.Value}
	verifAssert(verifResolveGen(root, comps, 0), "C18 nil pointers: every $ref in the generated schema names a component")
	for _, c := range comps {
		verifAssert(verifResolveGen(c, comps, 0), "C18 nil pointers: every $ref in a generated component names a component")
	}
	if root.Value == nil {
		return
	}
	enc := verifEncPtrs("", 1)
	for _, name := range []string{"pt", "pi", "pn", "ps", "lp", "mp", "lpn", "self", "kids", "byk"} {
		prop := root.Value.Properties[name]
		verifAssert(prop != nil && prop.Value != nil, "C18 nil pointers: property "+name+" is described")
		if prop == nil || prop.Value == nil {
			continue
		}
		verr := prop.Value.VisitJSON(enc[name])
		// known finding: a self reference is generated as a bare $ref, which cannot say "nullable";
		// every finite value of a recursive type ends in a nil pointer, so every encoding of these
		// three members contains a null at such a position
		verifKnown("C18-null-at-recursive-pointer", name == "self" || name == "kids" || name == "byk")
		verifAssert(verr == nil, "C18 nil pointers: the schema of member "+name+" accepts its encoding (null for a nil pointer)")
	}
	verifReach("end")
}

// ---- JSON tag corner cases ----

type verifShadowInner struct {
	A int    `json:"a"`
	I string `json:"i"`
}

// the outer field shadows the embedded one: encoding/json writes the outer string
type verifShadowOuterFirst struct {
	A string `json:"a"`
	verifShadowInner
}

type verifShadowInnerFirst struct {
	verifShadowInner
	A string `json:"a"`
}

type verifStringTag struct {
	N int     `json:"n,string"`
	B bool    `json:"b,string"`
	F float64 `json:"f,string"`
	S string  `json:"s,omitempty"`
}

type verifRenamed struct {
	Plain    int `json:"-,"` // the field is named "-"
	Untagged int
	lower    int               // unexported: never encoded
	M        map[string]string `json:"m,omitempty"`
}

//verif:harness id=C18 tier=quick,thorough witness=end bounds="JSON tag corner cases: an outer field shadowing an embedded struct's field of another type (both declaration orders), the ,string option on int / bool / float64, a field named '-' (tag '-,'), an untagged exported field, an unexported field, omitempty on string and map; integer leaves symbolic; each type's encoding must validate against its generated schema"
func verifH_C18_tags() {
	var v any
	var enc map[string]any
	known := ""
	switch verifChoose("type", 4) {
	case 0:
		v = &verifShadowOuterFirst{}
		enc = map[string]any{"a": "s", "i": "t"}
		known = "C18-shadowed-embedded-field"
	case 1:
		v = &verifShadowInnerFirst{}
		enc = map[string]any{"a": "s", "i": "t"} // this declaration order is handled: no known finding covers it
	case 2:
		v = &verifStringTag{}
		enc = map[string]any{"n": "5", "b": "true", "f": "1.5"}
		if verifChoose("hasS", 2) == 1 {
			enc["s"] = "x"
		}
		known = "C18-string-tag-option-ignored"
	case 3:
		v = &verifRenamed{}
		enc = map[string]any{"-": float64(verifNondetInt16("plain")), "Untagged": float64(verifNondetInt32("u"))}
		if verifChoose("hasM", 2) == 1 {
			enc["m"] = map[string]any{"k": "v"}
		}
	}
	ref, err := NewSchemaRefForValue(v, nil)
	verifAssert(err == nil && ref != nil && ref.Value != nil, "C18 tags: a schema is generated")
	if err != nil || ref == nil || ref.Value == nil {
		return
	}
	verr := ref.Value.VisitJSON(enc)
	if known != "" {
		verifKnown(known, true)
	}
	verifAssert(verr == nil, "C18 tags: the generated schema accepts the JSON encoding of the value")
	verifReach("end")
}

// ---- recursion that does not go through a struct ----

type verifRecSlice []verifRecSlice

type verifRecMap map[string]verifRecMap

type verifDir struct {
	Name string              `json:"name"`
	Sub  map[string]verifDir `json:"sub"`
	List []verifDir          `json:"list"`
}

//verif:harness id=C18 tier=quick,thorough witness=end depth=2000 bounds="recursive types: a struct recursive through map values and slice elements (map[string]T, []T inside T), a slice type that is its own element type and a map type that is its own value type x options in {none, a TypeNameGenerator, component export, both}: generation terminates, every $ref names a component, and small values' encodings validate"
func verifH_C18_recursive_types() {
	verifMapOrder() // map iteration order is unspecified: ascending and descending key order
	comps := openapi3.Schemas{}
	var ref *openapi3.SchemaRef
	var err error
	var enc any
	shape := verifChoose("type", 3)
	var opts []Option
	switch verifChoose("options", 4) {
	case 1:
		opts = append(opts, CreateTypeNameGenerator(func(t reflect.Type) string { return "pre_" + t.Name() }))
	case 2:
		opts = append(opts, CreateComponentSchemas(ExportComponentSchemasOptions{ExportComponentSchemas: true}))
	case 3:
		opts = append(opts, CreateTypeNameGenerator(func(t reflect.Type) string { return "pre_" + t.Name() }), CreateComponentSchemas(ExportComponentSchemasOptions{ExportComponentSchemas: true}))
	}
	switch shape {
	case 0:
		ref, err = NewSchemaRefForValue(&verifDir{}, comps, opts...)
		enc = map[string]any{"name": "n", "sub": map[string]any{"k": map[string]any{"name": "m", "sub": map[string]any{}, "list": []any{}}}, "list": []any{map[string]any{"name": "l", "sub": map[string]any{}, "list": []any{}}}}
	case 1:
		ref, err = NewSchemaRefForValue(verifRecSlice{}, comps, opts...)
		enc = []any{[]any{}, []any{[]any{}}}
	case 2:
		ref, err = NewSchemaRefForValue(verifRecMap{}, comps, opts...)
		enc = map[string]any{"k": map[string]any{}}
	}
	verifAssert(err == nil && ref != nil, "C18 recursive types: generation terminates with a schema")
	if err != nil || ref == nil {
		return
	}
	root := &openapi3.SchemaRef{Ref: ref.Ref, Value: ref.Value}
	verifAssert(verifResolveGen(root, comps, 0), "C18 recursive types: every $ref in the generated schema names a component")
	for _, c := range comps {
		verifAssert(verifResolveGen(c, comps, 0), "C18 recursive types: every $ref in a generated component names a component")
	}
	if root.Value != nil {
		verifAssert(root.Value.VisitJSON(enc) == nil, "C18 recursive types: the generated schema accepts the encoding of a small value")
	}
	verifReach("end")
}

type verifInnerVP struct {
	N int32 `json:"n"`
}

// the same struct by value and through a pointer, in both JSON-name orders
type verifValueThenPointer struct {
	A verifInnerVP  `json:"a"`
	B *verifInnerVP `json:"b"`
}

type verifPointerThenValue struct {
	A *verifInnerVP `json:"a"`
	B verifInnerVP  `json:"b"`
}

// ... and the same with a struct type that has no serialised fields (its schema has no content of its own)
type verifBareVP struct{ hidden int }

type verifBareValueThenPointer struct {
	A verifBareVP  `json:"a"`
	B *verifBareVP `json:"b"`
}

type verifBarePointerThenValue struct {
	A *verifBareVP `json:"a"`
	B verifBareVP  `json:"b"`
}

//verif:harness id=C18 tier=quick,thorough witness=end bounds="one struct type used by value and through a pointer in the same type (value first / pointer first in JSON-name order), the pointer nil or set, the int32 member symbolic, with and without component export; the same with a struct type that has no serialised fields; and generation that starts from a container of a recursive struct (map[string]T, []T, *T for T recursive through map values and slice elements): the encoding of the value validates against the generated schema and every $ref names a component"
func verifH_C18_value_and_pointer() {
	verifMapOrder()
	comps := openapi3.Schemas{}
	var ref *openapi3.SchemaRef
	var err error
	var enc any
	n := verifNondetInt32("n")
	inner := map[string]any{"n": float64(n)}
	var ptr any
	if verifChoose("set", 2) == 1 {
		ptr = inner
	}
	leaf := map[string]any{"name": "m", "sub": map[string]any{}, "list": []any{}}
	var opts []Option
	if verifChoose("export", 2) == 1 {
		opts = append(opts, CreateComponentSchemas(ExportComponentSchemasOptions{ExportComponentSchemas: true}))
	}
	isValueThenPointer := false
	switch verifChoose("type", 7) {
	case 5:
		ref, err = NewSchemaRefForValue(&verifBareValueThenPointer{}, comps, opts...)
		enc = map[string]any{"a": map[string]any{}, "b": nil}
		if ptr != nil {
			enc = map[string]any{"a": map[string]any{}, "b": map[string]any{}}
		}
	case 6:
		ref, err = NewSchemaRefForValue(&verifBarePointerThenValue{}, comps, opts...)
		enc = map[string]any{"a": nil, "b": map[string]any{}}
		if ptr != nil {
			enc = map[string]any{"a": map[string]any{}, "b": map[string]any{}}
		}
	case 0:
		isValueThenPointer = true
		ref, err = NewSchemaRefForValue(&verifValueThenPointer{}, comps, opts...)
		enc = map[string]any{"a": inner, "b": ptr}
	case 1:
		ref, err = NewSchemaRefForValue(&verifPointerThenValue{}, comps, opts...)
		enc = map[string]any{"a": ptr, "b": inner}
	case 2:
		ref, err = NewSchemaRefForValue(map[string]verifDir{}, comps)
		enc = map[string]any{"k": map[string]any{"name": "n", "sub": map[string]any{"j": leaf}, "list": []any{leaf}}}
	case 3:
		ref, err = NewSchemaRefForValue([]verifDir{}, comps)
		enc = []any{map[string]any{"name": "n", "sub": map[string]any{"j": leaf}, "list": []any{leaf}}}
	case 4:
		ref, err = NewSchemaRefForValue(&verifDir{}, comps)
		enc = map[string]any{"name": "n", "sub": map[string]any{"j": leaf}, "list": []any{leaf}}
	}
	verifAssert(err == nil && ref != nil, "C18 value and pointer: generation succeeds")
	if err != nil || ref == nil {
		return
	}
	root := &openapi3.SchemaRef{Ref: ref.Ref, Value: ref.Value}
	verifAssert(verifResolveGen(root, comps, 0), "C18 value and pointer: every $ref in the generated schema names a component")
	for _, c := range comps {
		verifAssert(verifResolveGen(c, comps, 0), "C18 value and pointer: every $ref in a generated component names a component")
	}
	if root.Value != nil {
		// known finding: with component export a struct met by value first is referred to by a bare $ref from the pointer position, which cannot say nullable
		verifKnown("C18-export-null-pointer-after-value-use", len(opts) > 0 && ptr == nil && ref != nil && enc != nil && isValueThenPointer)
		verifAssert(root.Value.VisitJSON(enc) == nil, "C18 value and pointer: the generated schema accepts the encoding of the value (a nil pointer is null whatever else uses the struct type)")
	}
	verifReach("end")
}

type verifOptInner struct {
	N int32 `json:"n"`
}

type verifOptEmpty struct{}

type verifOptOuter struct {
	E    verifOptEmpty            `json:"e"` // a struct without fields is still an object
	A    verifOptInner            `json:"a"`
	P    *verifOptInner           `json:"p,omitempty"`
	L    []verifOptInner          `json:"l"`
	M    map[string]verifOptInner `json:"m"`
	Self *verifOptOuter           `json:"self,omitempty"`
	S    string                   `json:"s"`
	Open string                   // no tag: part of the schema only with UseAllExportedFields
}

//verif:harness id=C18 tier=quick,thorough witness=end bounds="generator option sets: none / UseAllExportedFields / ThrowErrorOnCycle / a SchemaCustomizer that changes nothing / CreateComponentSchemas with each of its three flags / a TypeNameGenerator adding a prefix (with and without CreateComponentSchemas), on a struct with a nested struct by value, by pointer, in a slice and in a map, a self reference and an untagged field; the int32 leaf symbolic: generation succeeds (or reports the cycle when asked to), every $ref names a component, the encoding of a value validates"
func verifH_C18_options() {
	verifMapOrder() // map iteration order is unspecified: ascending and descending key order
	comps := openapi3.Schemas{}
	var opts []Option
	sel := verifChoose("options", 10)
	switch sel {
	case 1:
		opts = append(opts, UseAllExportedFields())
	case 2:
		opts = append(opts, ThrowErrorOnCycle())
	case 3:
		opts = append(opts, SchemaCustomizer(func(name string, t reflect.Type, tag reflect.StructTag, schema *openapi3.Schema) error { return nil }))
	case 4:
		opts = append(opts, CreateComponentSchemas(ExportComponentSchemasOptions{ExportComponentSchemas: true}))
	case 5:
		opts = append(opts, CreateComponentSchemas(ExportComponentSchemasOptions{ExportComponentSchemas: true, ExportTopLevelSchema: true}))
	case 6:
		opts = append(opts, CreateComponentSchemas(ExportComponentSchemasOptions{ExportComponentSchemas: true, ExportGenerics: true}))
	case 7:
		opts = append(opts, CreateTypeNameGenerator(func(t reflect.Type) string { return "pre_" + t.Name() }))
	case 8:
		opts = append(opts, CreateTypeNameGenerator(func(t reflect.Type) string { return "pre_" + t.Name() }), CreateComponentSchemas(ExportComponentSchemasOptions{ExportComponentSchemas: true}))
	case 9:
		opts = append(opts, UseAllExportedFields(), CreateComponentSchemas(ExportComponentSchemasOptions{ExportComponentSchemas: true, ExportTopLevelSchema: true}))
	}
	ref, err := NewSchemaRefForValue(&verifOptOuter{}, comps, opts...)
	if sel == 2 {
		verifAssert(err != nil, "C18 options: ThrowErrorOnCycle reports the self reference")
		verifReach("end")
		return
	}
	verifAssert(err == nil && ref != nil, "C18 options: generation succeeds")
	if err != nil || ref == nil {
		return
	}
	root := &openapi3.SchemaRef{Ref: ref.Ref, Value: ref.Value}
	verifAssert(verifResolveGen(root, comps, 0), "C18 options: every $ref in the generated schema names a component")
	for _, c := range comps {
		verifAssert(verifResolveGen(c, comps, 0), "C18 options: every $ref in a generated component names a component")
	}
	n := verifNondetInt32("n")
	inner := map[string]any{"n": float64(n)}
	enc := map[string]any{"e": map[string]any{}, "a": inner, "p": inner, "l": []any{inner}, "m": map[string]any{"k": inner}, "s": "x", "Open": "o",
		"self": map[string]any{"e": map[string]any{}, "a": inner, "l": []any{}, "m": map[string]any{}, "s": "y", "Open": ""}}
	if root.Value != nil {
		verifAssert(root.Value.VisitJSON(enc) == nil, "C18 options: the generated schema accepts the encoding of a value")
	}
	verifReach("end")
}

type verifOctet byte

type verifBytes struct {
	A []byte         `json:"a"`
	B []verifOctet   `json:"b"`
	C [][]verifOctet `json:"c"`
	D []uint8        `json:"d"`
	E [2]byte        `json:"e"` // an array of bytes is written as an array of numbers
}

//verif:harness id=C18 tier=quick,thorough witness=end bounds="byte slices: []byte, a slice of a named byte type ([]Octet with type Octet byte), [][]Octet, []uint8 and a byte array [2]byte in one struct; encoding/json writes every slice whose element kind is uint8 as a base64 string and the array as numbers (both symbolic bytes): the generated schema accepts the encoding"
func verifH_C18_byte_slices() {
	comps := openapi3.Schemas{}
	ref, err := NewSchemaRefForValue(&verifBytes{}, comps)
	verifAssert(err == nil && ref != nil && ref.Value != nil, "C18 byte slices: generation succeeds")
	if err != nil || ref == nil || ref.Value == nil {
		return
	}
	x, y := verifNondetByte("x"), verifNondetByte("y")
	enc := map[string]any{"a": "AQI=", "b": "AQI=", "c": []any{"AQ==", ""}, "d": "", "e": []any{float64(x), float64(y)}}
	verifAssert(ref.Value.VisitJSON(enc) == nil, "C18 byte slices: the generated schema accepts the encoding (base64 strings for slices of bytes, numbers for a byte array)")
	verifReach("end")
}

type verifTimes struct {
	At   time.Time            `json:"at"`
	PAt  *time.Time           `json:"pat"`
	List []time.Time          `json:"list"`
	ByK  map[string]time.Time `json:"byk"`
}

//verif:harness id=C18 tier=quick,thorough witness=end bounds="time.Time as a field, behind a pointer, as slice element and map value; encodings as encoding/json writes them (RFC 3339 with up to nine fraction digits): zone Z or an offset with sign +/-, hours 00..14 (real zones reach +14:00 and -12:00), minutes 00 / 30 / 45; fraction none / one digit / nine digits; dates 0001-01-01, a leap day, 9999-12-31; seconds 00 / 59: the generated schema accepts each encoding"
func verifH_C18_times() {
	comps := openapi3.Schemas{}
	ref, err := NewSchemaRefForValue(&verifTimes{}, comps)
	verifAssert(err == nil && ref != nil && ref.Value != nil, "C18 times: generation succeeds")
	if err != nil || ref == nil || ref.Value == nil {
		return
	}
	text := []string{"0001-01-01", "2024-02-29", "9999-12-31"}[verifChoose("date", 3)] + "T" + []string{"00:00:00", "23:59:59"}[verifChoose("clock", 2)] + []string{"", ".5", ".123456789"}[verifChoose("fraction", 3)]
	if h := verifChoose("zone", 16); h == 15 {
		text += "Z"
	} else {
		text += []string{"+", "-"}[verifChoose("sign", 2)] + string([]byte{byte('0' + h/10), byte('0' + h%10)}) + ":" + []string{"00", "30", "45"}[verifChoose("minutes", 3)]
	}
	enc := map[string]any{"at": text, "pat": text, "list": []any{text}, "byk": map[string]any{"k": text}}
	verifAssert(ref.Value.VisitJSON(enc) == nil, "C18 times: the generated schema accepts a time as encoding/json writes it, in every zone")
	verifReach("end")
}

type verifReuseNode struct {
	Kids []verifReuseNode `json:"kids"`
	N    int32            `json:"n"`
}

type verifReuseLeaf struct {
	N int32 `json:"n"`
}

type verifReuseHolder struct {
	P *verifReuseLeaf `json:"p"`
}

//verif:harness id=C18 tier=quick,thorough witness=end bounds="one Generator used for two generations: (a) the same recursive struct twice, each time with a component map of the caller's own; (b) a struct as the root (through a pointer) and then another struct that holds a pointer to it, nil or set; with and without component export: after each generation every $ref names a component of that call's map and the encoding of a value validates (a nil pointer is null)"
func verifH_C18_generator_reuse() {
	var opts []Option
	if verifChoose("export", 2) == 1 {
		opts = append(opts, CreateComponentSchemas(ExportComponentSchemasOptions{ExportComponentSchemas: true}))
	}
	g := NewGenerator(opts...)
	// knownAt: the assertion ("refs" / "accept") at which the known finding about reuse applies
	check := func(what string, ref *openapi3.SchemaRef, err error, comps openapi3.Schemas, enc any, knownAt string) {
		verifAssert(err == nil && ref != nil, "C18 generator reuse: "+what+": generation succeeds")
		if err != nil || ref == nil {
			return
		}
		root := &openapi3.SchemaRef{Ref: ref.Ref, Value: ref.Value}
		verifKnown("C18-generator-reuse", knownAt == "refs")
		verifAssert(verifResolveGen(root, comps, 0), "C18 generator reuse: "+what+": every $ref names a component of the map handed to this call")
		verifKnown("C18-generator-reuse", false)
		if root.Value != nil && verifResolveGen(root, comps, 0) {
			verifKnown("C18-generator-reuse", knownAt == "accept")
			verifAssert(root.Value.VisitJSON(enc) == nil, "C18 generator reuse: "+what+": the generated schema accepts the encoding")
			verifKnown("C18-generator-reuse", false)
		}
	}
	n := float64(verifNondetInt32("n"))
	if verifChoose("scenario", 2) == 0 {
		enc := map[string]any{"kids": []any{map[string]any{"kids": []any{}, "n": n}}, "n": 1.0}
		s1, s2 := openapi3.Schemas{}, openapi3.Schemas{}
		r1, e1 := g.NewSchemaRefForValue(&verifReuseNode{}, s1)
		check("first generation", r1, e1, s1, enc, "")
		r2, e2 := g.NewSchemaRefForValue(&verifReuseNode{}, s2)
		// known finding: the generator's tables keep the first call's post-processed references
		knownAt := ""
		if len(opts) == 0 {
			knownAt = "refs" // (with component export the second call is complete)
		}
		check("second generation", r2, e2, s2, enc, knownAt)
	} else {
		s1, s2 := openapi3.Schemas{}, openapi3.Schemas{}
		r1, e1 := g.NewSchemaRefForValue(&verifReuseLeaf{}, s1)
		check("leaf as root", r1, e1, s1, map[string]any{"n": n}, "")
		var p any
		if verifChoose("set", 2) == 1 {
			p = map[string]any{"n": n}
		}
		r2, e2 := g.NewSchemaRefForValue(verifReuseHolder{}, s2)
		knownAt := ""
		if p == nil {
			knownAt = "accept" // a type first generated as a root is remembered as not nullable
		}
		check("holder of a pointer to the leaf", r2, e2, s2, map[string]any{"p": p}, knownAt)
	}
	verifReach("end")
}

// struct types without a name, of different shapes, in one struct
type verifAnonymous struct {
	A struct {
		X int32 `json:"x"`
	} `json:"a"`
	B struct {
		X string `json:"x"`
	} `json:"b"`
	L []struct {
		Y bool `json:"y"`
	} `json:"l"`
}

//verif:harness id=C18 tier=quick,thorough witness=end bounds="struct fields whose types are struct types without a name (two of different shapes and a slice of a third) x options none / component export / component export with a type name generator: generation succeeds, every $ref names a component, and the encoding (int32 symbolic) validates: unnamed types are not merged under one (empty) component name"
func verifH_C18_anonymous_structs() {
	comps := openapi3.Schemas{}
	var opts []Option
	switch verifChoose("options", 3) {
	case 1:
		opts = append(opts, CreateComponentSchemas(ExportComponentSchemasOptions{ExportComponentSchemas: true}))
	case 2:
		opts = append(opts, CreateComponentSchemas(ExportComponentSchemasOptions{ExportComponentSchemas: true}), CreateTypeNameGenerator(func(t reflect.Type) string { return "T" + t.Name() }))
	}
	ref, err := NewSchemaRefForValue(&verifAnonymous{}, comps, opts...)
	verifAssert(err == nil && ref != nil, "C18 anonymous structs: generation succeeds")
	if err != nil || ref == nil {
		return
	}
	root := &openapi3.SchemaRef{Ref: ref.Ref, Value: ref.Value}
	verifAssert(verifResolveGen(root, comps, 0), "C18 anonymous structs: every $ref in the generated schema names a component")
	for _, c := range comps {
		verifAssert(verifResolveGen(c, comps, 0), "C18 anonymous structs: every $ref in a generated component names a component")
	}
	enc := map[string]any{"a": map[string]any{"x": float64(verifNondetInt32("x"))}, "b": map[string]any{"x": "s"}, "l": []any{map[string]any{"y": true}}}
	if root.Value != nil {
		verifAssert(root.Value.VisitJSON(enc) == nil, "C18 anonymous structs: the generated schema accepts the encoding")
	}
	verifReach("end")
}

// named types whose name ends in Ref but that are not reference wrappers (not even structs)
type verifColorRef string
type verifCountRef int32
type verifListRef []string
type verifMapRef map[string]int32

type verifNamedRefs struct {
	C verifColorRef  `json:"c"`
	N verifCountRef  `json:"n"`
	L verifListRef   `json:"l"`
	M verifMapRef    `json:"m"`
	P *verifColorRef `json:"p"`
}

//verif:harness id=C18 tier=quick,thorough witness=end bounds="named non-struct types whose name ends in Ref (a string, an int32, a slice and a map type, and a pointer to the string type) as struct fields: generation succeeds without panic and the schema accepts the encoding (int32 symbolic, pointer nil or set)"
func verifH_C18_named_ref_types() {
	comps := openapi3.Schemas{}
	ref, err := NewSchemaRefForValue(&verifNamedRefs{}, comps)
	verifAssert(err == nil && ref != nil && ref.Value != nil, "C18 named Ref types: generation succeeds")
	if err != nil || ref == nil || ref.Value == nil {
		return
	}
	var p any
	if verifChoose("set", 2) == 1 {
		p = "blue"
	}
	enc := map[string]any{"c": "red", "n": float64(verifNondetInt32("n")), "l": []any{"a"}, "m": map[string]any{"k": float64(verifNondetInt32("m"))}, "p": p}
	verifAssert(ref.Value.VisitJSON(enc) == nil, "C18 named Ref types: the generated schema accepts the encoding")
	verifReach("end")
}

type verifThing struct {
	N int32 `json:"n"`
}

// a reference wrapper in the library's own style: name ending in Ref, fields Ref and Value
type verifThingRef struct {
	Ref   string      `json:"$ref,omitempty"`
	Value *verifThing `json:"value,omitempty"`
}

type verifHolder struct {
	T verifThingRef `json:"t"`
	L []verifDir    `json:"l"`
}

//verif:harness id=C15 tier=quick,thorough witness=end bounds="schema generation for further types under the footprint monitor: a struct holding a reference wrapper in the library's style (name ending in Ref with fields Ref and Value), recursive types through slices and maps, a named recursive slice and map, byte slices, each with no options / component export / a type name generator, generated twice (same and different caller maps): no write to anything shared outside the type table's lock"
func verifH_C15_gen_types() {
	_, _ = NewSchemaRefForValue(&verifInner{}, nil)
	var opts []Option
	switch verifChoose("options", 3) {
	case 1:
		opts = append(opts, CreateComponentSchemas(ExportComponentSchemasOptions{ExportComponentSchemas: true}))
	case 2:
		opts = append(opts, CreateTypeNameGenerator(func(t reflect.Type) string { return "pre_" + t.Name() }))
	}
	var v any
	switch verifChoose("type", 5) {
	case 0:
		v = &verifHolder{}
	case 1:
		v = &verifDir{}
	case 2:
		v = verifRecSlice{}
	case 3:
		v = verifRecMap{}
	case 4:
		v = &verifBytes{}
	}
	comps := openapi3.Schemas{}
	verifSharedBegin()
	_, _ = NewSchemaRefForValue(v, comps, opts...)
	_, _ = NewSchemaRefForValue(v, openapi3.Schemas{}, opts...)
	verifSharedEnd()
	verifReach("end")
}
