package openapi3filter

// C08, response headers are read as part of a response: write-only properties are forbidden in an
// object-valued header as they are in the body, and need not be present when required.

import (
	"context"
	"net/http"
	"net/url"

	"github.com/getkin/kin-openapi/openapi3"
)

//verif:harness id=C08 tier=quick,thorough witness=end,accepted,rejected bounds="directions in an object-valued response header: schema {id: integer, secret: string writeOnly (symbolic), ro: string readOnly (symbolic)} with required subset of {secret, ro}; header text carrying any subset of the three members; ExcludeWriteOnlyValidations symbolic: the response passes iff no write-only member is sent (unless excluded), and every required member that is not write-only is sent"
func verifH_C08_header_directions() {
	d := "d"
	wo, ro := verifNondetBool("secret.writeOnly"), verifNondetBool("ro.readOnly")
	obj := &openapi3.Schema{Type: &openapi3.Types{"object"}, Properties: openapi3.Schemas{
		"id":     {Value: &openapi3.Schema{Type: &openapi3.Types{"integer"}}},
		"secret": {Value: &openapi3.Schema{Type: &openapi3.Types{"string"}, WriteOnly: wo}},
		"ro":     {Value: &openapi3.Schema{Type: &openapi3.Types{"string"}, ReadOnly: ro}},
	}}
	req := verifChoose("required", 4)
	if req&1 != 0 {
		obj.Required = append(obj.Required, "secret")
	}
	if req&2 != 0 {
		obj.Required = append(obj.Required, "ro")
	}
	h := &openapi3.Header{Parameter: openapi3.Parameter{Required: true, Schema: &openapi3.SchemaRef{Value: obj}}}
	resp := &openapi3.Response{Description: &d, Headers: openapi3.Headers{"X-O": &openapi3.HeaderRef{Value: h}}}
	resps := openapi3.NewResponsesWithCapacity(1)
	resps.Set("200", &openapi3.ResponseRef{Value: resp})
	op := &openapi3.Operation{Responses: resps}
	sent := 1 + verifChoose("sent", 7) // non-empty subset of {id, secret, ro}
	text := ""
	add := func(s string) {
		if text != "" {
			text += ","
		}
		text += s
	}
	if sent&1 != 0 {
		add("id,1")
	}
	if sent&2 != 0 {
		add("secret,s")
	}
	if sent&4 != 0 {
		add("ro,r")
	}
	exclude := verifNondetBool("excludeWriteOnly")
	in := verifRespInput(op, "GET", 200, http.Header{"X-O": []string{text}}, nil, &Options{ExcludeWriteOnlyValidations: exclude})
	err := ValidateResponse(context.Background(), in)
	want := true
	if wo && !exclude && sent&2 != 0 {
		want = false // a write-only member in a response
	}
	if req&1 != 0 && sent&2 == 0 && !wo {
		want = false // required, not write-only, missing
	}
	if req&2 != 0 && sent&4 == 0 {
		want = false // read-only members are ordinary members of a response
	}
	if err == nil {
		verifReach("accepted")
	} else {
		verifReach("rejected")
	}
	verifAssert((err == nil) == want, "C08 header directions: an object-valued response header is validated as part of a response (write-only members forbidden and not required)")
	verifReach("end")
}

//verif:harness id=C08 tier=quick,thorough witness=end,accepted,rejected bounds="response media type keys carrying parameters: declared content = non-empty subsets of {'text/plain; v=2', 'text/plain', 'text/*'} each with its own symbolic maxLength x response Content-Type in {'text/plain; v=2' (the exact key), 'text/plain', 'text/plain;v=2' (another spelling), 'text/plain; charset=utf-8; v=2' (two parameters), 'text/html', 'image/png', 'Text/PLAIN' (case-insensitive), 'text/plain ; v=2' (white space before the semicolon)} x body of 1-2 ASCII bytes: the entry is chosen by exact string, then bare type, then type/*; its schema decides, and a content type no entry covers is rejected"
func verifH_C08_paramkey() {
	keys := []string{"text/plain; v=2", "text/plain", "text/*"}
	lens := []uint64{verifNondetUint64("lenExact"), verifNondetUint64("lenBare"), verifNondetUint64("lenWild")}
	subset := 1 + verifChoose("declared", 7)
	content := openapi3.Content{}
	for i, k := range keys {
		if subset&(1<<i) != 0 {
			content[k] = &openapi3.MediaType{Schema: &openapi3.SchemaRef{Value: &openapi3.Schema{Type: &openapi3.Types{"string"}, MaxLength: &lens[i]}}}
		}
	}
	d := "d"
	resps := openapi3.NewResponsesWithCapacity(1)
	resps.Set("200", &openapi3.ResponseRef{Value: &openapi3.Response{Description: &d, Content: content}})
	op := &openapi3.Operation{Responses: resps}
	cti := verifChoose("ct", 8)
	ct := []string{"text/plain; v=2", "text/plain", "text/plain;v=2", "text/plain; charset=utf-8; v=2", "text/html", "image/png", "Text/PLAIN", "text/plain ; v=2"}[cti]
	text := verifLeaf("b", 2, "")
	in := verifRespInput(op, "GET", 200, http.Header{"Content-Type": []string{ct}}, []byte(text), &Options{})
	// text/html has no registered decoder: a plain-text one for the harness' sake
	RegisterBodyDecoder("text/html", PlainBodyDecoder)
	err := ValidateResponse(context.Background(), in)
	chosen := -1
	switch {
	case cti == 0 && subset&1 != 0:
		chosen = 0
	case (cti <= 3 || cti >= 6) && subset&2 != 0:
		chosen = 1
	case (cti <= 4 || cti >= 6) && subset&4 != 0:
		chosen = 2
	}
	want := chosen >= 0 && uint64(len(text)) <= lens[chosen]
	if err == nil {
		verifReach("accepted")
	} else {
		verifReach("rejected")
	}
	verifAssert((err == nil) == want, "C08 media type keys with parameters: the declared entry is chosen by exact string, then bare type, then type/*, and its schema decides; an uncovered content type is rejected")
	verifReach("end")
}

//verif:harness id=C08 tier=quick,thorough witness=end bounds="a response header definition named Content-Type in four spellings (Content-Type, content-type, CONTENT-TYPE, Content-type), required, with a schema no content type satisfies: it is ignored (the OpenAPI text says so and header names are case-insensitive): a response with a declared content type and a valid body passes, one with an undeclared content type is still rejected"
func verifH_C08_content_type_header_definition() {
	d := "d"
	name := []string{"Content-Type", "content-type", "CONTENT-TYPE", "Content-type"}[verifChoose("name", 4)]
	never := &openapi3.SchemaRef{Value: &openapi3.Schema{Type: &openapi3.Types{"string"}, Enum: []any{"nope"}}}
	maxLen := uint64(3)
	resp := &openapi3.Response{Description: &d,
		Headers: openapi3.Headers{name: &openapi3.HeaderRef{Value: &openapi3.Header{Parameter: openapi3.Parameter{Required: true, Schema: never}}}},
		Content: openapi3.Content{"text/plain": &openapi3.MediaType{Schema: &openapi3.SchemaRef{Value: &openapi3.Schema{Type: &openapi3.Types{"string"}, MaxLength: &maxLen}}}}}
	resps := openapi3.NewResponsesWithCapacity(1)
	resps.Set("200", &openapi3.ResponseRef{Value: resp})
	op := &openapi3.Operation{Responses: resps}
	ct := []string{"text/plain", "image/png"}[verifChoose("ct", 2)]
	err := ValidateResponse(context.Background(), verifRespInput(op, "GET", 200, http.Header{"Content-Type": []string{ct}}, []byte("ok"), &Options{}))
	verifAssert((err == nil) == (ct == "text/plain"), "C08 Content-Type definition: a header definition named Content-Type is ignored, whatever its spelling; the content type is judged by the declared content")
	verifReach("end")
}

// verifRepeatedHeader: a header sent on one or two lines, items with or without white space after the
// comma; on the request side (a header parameter) and on the response side (a response header).
func verifRepeatedHeader(id string, response bool) {
	kind := verifChoose("schema", 2) // 0: integer, 1: array of integers with maxItems symbolic
	maxItems := uint64(verifChoose("maxItems", 4))
	schema := &openapi3.Schema{Type: &openapi3.Types{"integer"}}
	if kind == 1 {
		schema = &openapi3.Schema{Type: &openapi3.Types{"array"}, Items: &openapi3.SchemaRef{Value: &openapi3.Schema{Type: &openapi3.Types{"integer"}}}, MaxItems: &maxItems}
	}
	// the lines, and what they say: the list of items (an item "x" is not an integer)
	type sent struct {
		lines []string
		items []string
	}
	cases := []sent{
		{[]string{"1"}, []string{"1"}},
		{[]string{"1", "2"}, []string{"1", "2"}},
		{[]string{"1", "x"}, []string{"1", "x"}},
		{[]string{"1,2"}, []string{"1", "2"}},
		{[]string{"1, 2"}, []string{"1", "2"}},
		{[]string{"1 ,2", "3"}, []string{"1", "2", "3"}},
		{[]string{"1,x"}, []string{"1", "x"}},
		{[]string{"x", "1"}, []string{"x", "1"}},
	}
	c := cases[verifChoose("lines", len(cases))]
	allInts := true
	for _, it := range c.items {
		if it == "x" {
			allInts = false
		}
	}
	want := allInts && (kind == 1 && uint64(len(c.items)) <= maxItems || kind == 0 && len(c.items) == 1)
	var err error
	if response {
		d := "d"
		resps := openapi3.NewResponsesWithCapacity(1)
		resps.Set("200", &openapi3.ResponseRef{Value: &openapi3.Response{Description: &d, Headers: openapi3.Headers{"X-N": {Value: &openapi3.Header{Parameter: openapi3.Parameter{Required: true, Schema: &openapi3.SchemaRef{Value: schema}}}}}}})
		op := &openapi3.Operation{Responses: resps}
		in := verifRespInput(op, "GET", 200, http.Header{"X-N": c.lines}, nil, &Options{})
		err = ValidateResponse(context.Background(), in)
	} else {
		param := &openapi3.Parameter{Name: "X-N", In: "header", Required: true, Schema: &openapi3.SchemaRef{Value: schema}}
		input := &RequestValidationInput{Request: &http.Request{Method: "GET", Header: http.Header{"X-N": c.lines}, URL: &url.URL{Path: "/"}}, QueryParams: url.Values{}, PathParams: map[string]string{}, Options: &Options{}}
		err = ValidateParameter(context.Background(), input, param)
	}
	if err == nil {
		verifReach("accepted")
	} else {
		verifReach("rejected")
	}
	verifAssert((err == nil) == want, id+" repeated header: the lines of a header field are one comma-separated list (white space around an item is not part of it); it passes exactly when that list satisfies the schema")
	verifReach("end")
}

//verif:harness id=C08 tier=quick,thorough witness=end,accepted,rejected bounds="a response header sent on one or two lines (1 | 1 + 2 | 1 + x | 1,2 | '1, 2' | '1 ,2' + 3 | 1,x | x + 1) against integer, or array of integers with maxItems symbolic 0..3: the lines are one comma-separated list; the response passes exactly when that list satisfies the schema (every line counts, not only the first)"
func verifH_C08_repeated_header_lines() { verifRepeatedHeader("C08", true) }

//verif:harness id=C05 tier=quick,thorough witness=end,accepted,rejected bounds="as C08's repeated_header_lines for a header parameter of a request (shared)"
func verifH_C05_repeated_header_lines() { verifRepeatedHeader("C05", false) }
