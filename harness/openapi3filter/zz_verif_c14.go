package openapi3filter

// C14 — the middleware calls the handler only for valid requests and shields clients.

import (
	"bytes"
	"context"
	"errors"
	"net/http"
	"net/url"

	"github.com/getkin/kin-openapi/openapi3"
	"github.com/getkin/kin-openapi/routers"
)

// verifRecorder is the client-side ResponseWriter. It implements net/http's
// documented contract: WriteHeader with a code outside 100..999 panics, the
// first Write implies 200, later WriteHeader calls are ignored.
type verifRecorder struct {
	header        http.Header
	wroteHeader   bool
	status        int
	sentHeader    http.Header
	body          []byte
	flushes       int
	informational int
}

func (r *verifRecorder) Header() http.Header { return r.header }
func (r *verifRecorder) WriteHeader(code int) {
	if code < 100 || code > 999 {
		panic("invalid WriteHeader code")
	}
	if r.wroteHeader {
		return
	}
	if code >= 100 && code <= 199 && code != 101 {
		r.informational++ // 1xx responses are sent at once and do not end the header phase
		return
	}
	r.wroteHeader = true
	r.status = code
	r.sentHeader = r.header.Clone()
}
func (r *verifRecorder) Write(b []byte) (int, error) {
	if !r.wroteHeader {
		r.WriteHeader(200)
	}
	r.body = append(r.body, b...)
	return len(b), nil
}

// Flush sends what has been buffered: as in net/http it commits the header (status 200) if none was written yet.
func (r *verifRecorder) Flush() {
	if !r.wroteHeader {
		r.WriteHeader(200)
	}
	r.flushes++
}

type verifRouter struct {
	route *routers.Route
	found bool
}

func (r *verifRouter) FindRoute(req *http.Request) (*routers.Route, map[string]string, error) {
	if !r.found {
		return nil, nil, &routers.RouteError{Reason: "no matching operation was found"}
	}
	return r.route, map[string]string{}, nil
}

type verifStep struct {
	kind   int // 0 WriteHeader, 1 Write, 2 set response header, 3 Flush, 4 flush the way http.ResponseController does
	status int
	data   []byte
}

func verifC14(maxSteps int) {
	str := &openapi3.SchemaRef{Value: &openapi3.Schema{Type: &openapi3.Types{"string"}}}
	d := "d"
	resps := openapi3.NewResponsesWithCapacity(1)
	resps.Set("200", &openapi3.ResponseRef{Value: &openapi3.Response{Description: &d, Headers: openapi3.Headers{
		"X-Resp": &openapi3.HeaderRef{Value: &openapi3.Header{Parameter: openapi3.Parameter{Required: true, Schema: str}}}}}})
	op := &openapi3.Operation{Responses: resps, Parameters: openapi3.Parameters{{Value: &openapi3.Parameter{Name: "X-Req", In: "header", Required: true, Schema: str}}}}
	route := &routers.Route{Spec: &openapi3.T{}, PathItem: &openapi3.PathItem{Get: op}, Operation: op, Method: "GET"}
	found := verifChoose("route", 2) == 1
	reqValid := verifChoose("reqValid", 2) == 1
	strict := verifChoose("strict", 2) == 1

	// the handler's behaviour: a sequence of calls on the writer it is given
	n := verifChoose("steps", maxSteps+1)
	steps := make([]verifStep, 0, n)
	for i := 0; i < n; i++ {
		st := verifStep{kind: verifChoose("step", 5)}
		switch st.kind {
		case 0:
			st.status = []int{200, 404, 204, 103, 101}[verifChoose("code", 5)]
		case 1:
			st.data = []byte(verifNondetStringN("data", 1))
		}
		steps = append(steps, st)
	}
	handlerCalls := 0
	h := http.HandlerFunc(func(w http.ResponseWriter, r *http.Request) {
		handlerCalls++
		for _, st := range steps {
			switch st.kind {
			case 0:
				w.WriteHeader(st.status)
			case 1:
				w.Write(st.data)
			case 2:
				w.Header().Set("X-Resp", "v")
			case 3:
				if f, ok := w.(http.Flusher); ok {
					f.Flush()
				}
			case 4:
				// what http.ResponseController.Flush does: the first layer that can flush, looking through Unwrap
				for cur := w; cur != nil; {
					if f, ok := cur.(http.Flusher); ok {
						f.Flush()
						break
					}
					u, ok := cur.(interface{ Unwrap() http.ResponseWriter })
					if !ok {
						break
					}
					cur = u.Unwrap()
				}
			}
		}
	})
	type errCall struct {
		status int
		code   ErrCode
	}
	var errCalls []errCall
	v := NewValidator(&verifRouter{route: route, found: found}, Strict(strict),
		OnErr(func(_ context.Context, w http.ResponseWriter, status int, code ErrCode, _ error) {
			errCalls = append(errCalls, errCall{status, code})
			w.WriteHeader(status)
			w.Write([]byte("E"))
		}),
		OnLog(func(context.Context, string, error) {}))
	rec := &verifRecorder{header: http.Header{}}
	req := &http.Request{Method: "GET", Header: http.Header{}, URL: &url.URL{Path: "/"}}
	if reqValid {
		req.Header["X-Req"] = []string{"v"}
	}
	req = req.WithContext(context.Background())
	v.Middleware(h).ServeHTTP(rec, req)

	// what the handler's sequence amounts to under net/http's contract
	hStatus, hWrote := 0, false
	var hBody []byte
	set := false // X-Resp set by the handler
	for _, st := range steps {
		switch st.kind {
		case 0:
			// an informational status (103 Early Hints) does not end the header phase
			// (101 Switching Protocols is the exception: it is the final status of its response)
			if !hWrote && (st.status == 101 || !(st.status >= 100 && st.status <= 199)) {
				hWrote, hStatus = true, st.status
			}
		case 1:
			if !hWrote {
				hWrote, hStatus = true, 200
			}
			hBody = append(hBody, st.data...)
		case 2:
			set = true
		case 3, 4:
			// only the pass-through wrapper offers http.Flusher (directly or to a ResponseController); a flush commits the header (200) at the client.
			// The buffering strict wrapper must not: nothing may reach the client before validation.
			if !strict && !hWrote {
				hWrote, hStatus = true, 200
			}
		}
	}
	if !hWrote {
		hStatus = 200 // a handler that writes nothing answers 200
	}

	switch {
	case !found:
		verifAssert(handlerCalls == 0 && len(errCalls) == 1 && errCalls[0].status == 404 && errCalls[0].code == ErrCodeCannotFindRoute, "C14: no route => not-found error, handler never runs")
	case !reqValid:
		verifAssert(handlerCalls == 0 && len(errCalls) == 1 && errCalls[0].status == 400 && errCalls[0].code == ErrCodeRequestInvalid, "C14: invalid request => bad-request error, handler never runs")
	default:
		verifAssert(handlerCalls == 1, "C14: route found and request valid => handler runs exactly once")
		if strict {
			// the strict wrapper buffers everything and sends the header at the end,
			// so the header map as it is when the handler returns is what the client gets
			respValid := hStatus != 200 || set
			if respValid {
				verifAssert(len(errCalls) == 0 && rec.status == hStatus && bytes.Equal(rec.body, hBody), "C14 strict: a valid response reaches the client with exactly the handler's status and body")
			} else {
				verifAssert(len(errCalls) == 1 && errCalls[0].status == 500 && errCalls[0].code == ErrCodeResponseInvalid, "C14 strict: an invalid response is replaced by a server error")
				verifAssert(rec.status == 500 && bytes.Equal(rec.body, []byte("E")), "C14 strict: none of the handler's status code or body bytes reach the client")
			}
		} else {
			verifAssert(len(errCalls) == 0, "C14 non-strict: response errors are only logged")
			wantStatus := hStatus
			if !hWrote {
				wantStatus = 0 // nothing was written through the wrapper; net/http itself sends 200 afterwards
			}
			verifAssert(rec.status == wantStatus && bytes.Equal(rec.body, hBody), "C14 non-strict: the handler's response passes through unchanged")
		}
	}
	verifReach("end")
	_ = errors.New
}

//verif:harness id=C14 tier=quick witness=end bounds="route found or not x request valid or not x strict or not x every handler call sequence of length 0..3 over {WriteHeader(200|404|204|103|101), Write(1 symbolic byte), Header().Set, Flush, a ResponseController-style flush through Unwrap}; client writer implements net/http's contract"
func verifH_C14_middleware() { verifC14(3) }

//verif:harness id=C14 tier=thorough witness=end bounds="as quick with handler call sequences of length 0..5"
func verifH_C14_middleware5() { verifC14(5) }

type verifRouter2 struct {
	route *routers.Route
	mode  int // 0 found, 1 path not found, 2 method not allowed
}

func (r *verifRouter2) FindRoute(req *http.Request) (*routers.Route, map[string]string, error) {
	switch r.mode {
	case 1:
		return nil, nil, routers.ErrPathNotFound
	case 2:
		return nil, nil, routers.ErrMethodNotAllowed
	}
	return r.route, map[string]string{}, nil
}

//verif:harness id=C14 tier=quick,thorough witness=end,served,refused bounds="ValidationHandler (ServeHTTP and Middleware) with the router's answer in {route, path not found, method not allowed} x request: required header present/absent, integer query parameter absent / any 1-2 printable bytes, authentication verdict symbolic x error encoder in {DefaultErrorEncoder, ValidationErrorEncoder around it}: the wrapped handler runs iff a route is found and the request validates; otherwise exactly one error response is written (404 / 405 / 4xx with the validation encoder) and the handler never runs"
func verifH_C14_validation_handler() {
	str := &openapi3.SchemaRef{Value: &openapi3.Schema{Type: &openapi3.Types{"string"}}}
	integer := &openapi3.SchemaRef{Value: &openapi3.Schema{Type: &openapi3.Types{"integer"}}}
	d := "d"
	resps := openapi3.NewResponsesWithCapacity(1)
	resps.Set("200", &openapi3.ResponseRef{Value: &openapi3.Response{Description: &d}})
	op := &openapi3.Operation{Responses: resps, Parameters: openapi3.Parameters{
		{Value: &openapi3.Parameter{Name: "X-Req", In: "header", Required: true, Schema: str}},
		{Value: &openapi3.Parameter{Name: "n", In: "query", Schema: integer}},
	}, Security: &openapi3.SecurityRequirements{{"A": {}}}}
	spec := &openapi3.T{Components: &openapi3.Components{SecuritySchemes: openapi3.SecuritySchemes{"A": {Value: &openapi3.SecurityScheme{Type: "http", Scheme: "basic"}}}}}
	route := &routers.Route{Spec: spec, PathItem: &openapi3.PathItem{Get: op}, Operation: op, Method: "GET"}
	mode := verifChoose("router", 3)
	calls := 0
	inner := http.HandlerFunc(func(w http.ResponseWriter, r *http.Request) {
		calls++
		w.WriteHeader(204)
	})
	authOK := verifNondetBool("authOK")
	vh := &ValidationHandler{Handler: inner, router: &verifRouter2{route: route, mode: mode},
		AuthenticationFunc: func(context.Context, *AuthenticationInput) error {
			if !authOK {
				return errors.New("denied")
			}
			return nil
		}}
	withValidationEncoder := verifChoose("encoder", 2) == 1
	if withValidationEncoder {
		vh.ErrorEncoder = (&ValidationErrorEncoder{Encoder: DefaultErrorEncoder}).Encode
	} else {
		vh.ErrorEncoder = DefaultErrorEncoder
	}
	req := &http.Request{Method: "GET", Header: http.Header{}, URL: &url.URL{Path: "/"}}
	hasReq := verifChoose("hasReq", 2) == 1
	if hasReq {
		req.Header["X-Req"] = []string{"v"}
	}
	nOK := true
	if verifChoose("hasN", 2) == 1 {
		text := verifLeaf("n", 2, "&=;#%+")
		req.URL.RawQuery = "n=" + text
		_, nOK = verifTyped(text, "integer")
	}
	req = req.WithContext(context.Background())
	rec := &verifRecorder{header: http.Header{}}
	if verifChoose("entry", 2) == 0 {
		vh.ServeHTTP(rec, req)
	} else {
		vh.Middleware(inner).ServeHTTP(rec, req)
	}
	valid := mode == 0 && hasReq && nOK && authOK
	if valid {
		verifAssert(calls == 1 && rec.status == 204, "C14 handler: route found and request valid => the wrapped handler runs exactly once and its response passes")
		verifReach("served")
	} else {
		verifAssert(calls == 0, "C14 handler: no route or an invalid request => the wrapped handler never runs")
		verifAssert(rec.wroteHeader && len(rec.body) > 0, "C14 handler: the error encoder answers")
		if withValidationEncoder {
			switch {
			case mode == 1:
				verifAssert(rec.status == 404, "C14 handler: path not found => 404")
			case mode == 2:
				verifAssert(rec.status == 405, "C14 handler: method not allowed => 405")
			case !authOK:
				verifAssert(rec.status >= 400 && rec.status < 600, "C14 handler: a refused request is answered with an error status")
			default:
				verifAssert(rec.status >= 400 && rec.status < 500, "C14 handler: an invalid request is answered with a client error")
			}
		}
		verifReach("refused")
	}
	verifReach("end")
}

//verif:harness id=C14 tier=quick,thorough witness=end bounds="ConvertErrors / ValidationErrorEncoder on every RequestError shape: parameter absent or in {path,query,header}, request body absent or present, Err in {nil, ErrInvalidRequired, ErrInvalidEmptyValue, ParseError of 3 kinds with cause nil / ParseError / other, SchemaError with and without Origin, other error}, Reason with and without the content-type prefixes; RouteError of both kinds: no panic, and what the encoder writes is a 4xx status for every converted error"
func verifH_C14_convert_errors() {
	str := &openapi3.SchemaRef{Value: &openapi3.Schema{Type: &openapi3.Types{"string"}}}
	re := &RequestError{Input: &RequestValidationInput{}}
	switch verifChoose("param", 4) {
	case 1:
		re.Parameter = &openapi3.Parameter{Name: "p", In: "path", Schema: str}
	case 2:
		re.Parameter = &openapi3.Parameter{Name: "p", In: "query", Schema: str}
	case 3:
		re.Parameter = &openapi3.Parameter{Name: "p", In: "header", Schema: str}
	}
	if verifChoose("body", 2) == 1 {
		re.RequestBody = &openapi3.RequestBody{}
	}
	re.Reason = []string{"", "doesn't match schema", `header Content-Type has unexpected value ""`, `header Content-Type has unexpected value "text/x"`}[verifChoose("reason", 4)]
	kinds := []ParseErrorKind{KindOther, KindUnsupportedFormat, KindInvalidFormat}
	switch verifChoose("err", 8) {
	case 1:
		re.Err = ErrInvalidRequired
	case 2:
		re.Err = ErrInvalidEmptyValue
	case 3:
		re.Err = &ParseError{Kind: kinds[verifChoose("kind", 3)], Value: "v", Reason: "r"}
	case 4:
		re.Err = &ParseError{Kind: kinds[verifChoose("kind", 3)], Value: "v", Reason: "r", Cause: &ParseError{Kind: kinds[verifChoose("ckind", 3)], Value: "w", Reason: "c"}}
		if verifChoose("root", 2) == 1 {
			re.Err.(*ParseError).Cause.(*ParseError).Cause = errors.New("root cause")
		}
	case 5:
		re.Err = &ParseError{Kind: kinds[verifChoose("kind", 3)], Reason: "unsupported content type x", Cause: errors.New("other")}
	case 6:
		re.Err = &openapi3.SchemaError{Value: "v", Schema: str.Value, SchemaField: "type", Reason: "r"}
	case 7:
		re.Err = &openapi3.SchemaError{Value: "v", Schema: str.Value, SchemaField: "oneOf", Reason: "r", Origin: &openapi3.SchemaError{Value: "w", Schema: str.Value, SchemaField: "type", Reason: "o"}}
	}
	if _, isSchemaErr := re.Err.(*openapi3.SchemaError); isSchemaErr {
		// the validators attach a schema error to the parameter or the body it belongs to
		verifAssume(re.Parameter != nil || re.RequestBody != nil)
	}
	var err error = re
	switch verifChoose("route", 3) {
	case 1:
		err = routers.ErrPathNotFound
	case 2:
		err = routers.ErrMethodNotAllowed
	}
	out := ConvertErrors(err)
	verifAssert(out != nil, "C14 convert: an error stays an error")
	rec := &verifRecorder{header: http.Header{}}
	(&ValidationErrorEncoder{Encoder: DefaultErrorEncoder}).Encode(context.Background(), err, rec)
	verifAssert(rec.wroteHeader, "C14 convert: the encoder answers")
	if ve, ok := out.(*ValidationError); ok {
		verifAssert(ve.Status >= 400 && ve.Status < 500 && rec.status == ve.Status, "C14 convert: a converted error is answered with its 4xx status")
	}
	verifReach("end")
}

//verif:harness id=C14 tier=quick,thorough witness=end bounds="the middleware with its default error and log callbacks (no OnErr / OnLog): router answer, request validity and strict mode by fork, handler = every call sequence of length <= 2 over {WriteHeader(200|404), Write(1 symbolic byte), Header().Set}: the handler runs iff route and request are fine; otherwise the client gets 404 / 400 and nothing of the handler; a strict invalid response is replaced by a 500 that contains none of the handler's bytes; everything else passes through"
func verifH_C14_middleware_defaults() {
	d := "d"
	str := &openapi3.SchemaRef{Value: &openapi3.Schema{Type: &openapi3.Types{"string"}}}
	resps := openapi3.NewResponsesWithCapacity(2)
	resps.Set("200", &openapi3.ResponseRef{Value: &openapi3.Response{Description: &d, Headers: openapi3.Headers{
		"X-Resp": &openapi3.HeaderRef{Value: &openapi3.Header{Parameter: openapi3.Parameter{Required: true, Schema: str}}}}}})
	resps.Set("404", &openapi3.ResponseRef{Value: &openapi3.Response{Description: &d}})
	op := &openapi3.Operation{Responses: resps, Parameters: openapi3.Parameters{{Value: &openapi3.Parameter{Name: "X-Req", In: "header", Required: true, Schema: str}}}}
	route := &routers.Route{Spec: &openapi3.T{}, PathItem: &openapi3.PathItem{Get: op}, Operation: op, Method: "GET"}
	found := verifChoose("route", 2) == 1
	reqValid := verifChoose("reqValid", 2) == 1
	strict := verifChoose("strict", 2) == 1
	n := verifChoose("steps", 3)
	steps := make([]verifStep, 0, n)
	for i := 0; i < n; i++ {
		st := verifStep{kind: verifChoose("step", 3)}
		switch st.kind {
		case 0:
			st.status = []int{200, 404}[verifChoose("code", 2)]
		case 1:
			b := verifNondetByteIn("data", "hk") // bytes that do not occur in the library's own error texts
			st.data = []byte{b}
		}
		steps = append(steps, st)
	}
	handlerCalls := 0
	h := http.HandlerFunc(func(w http.ResponseWriter, r *http.Request) {
		handlerCalls++
		for _, st := range steps {
			switch st.kind {
			case 0:
				w.WriteHeader(st.status)
			case 1:
				w.Write(st.data)
			case 2:
				w.Header().Set("X-Resp", "v")
			}
		}
	})
	v := NewValidator(&verifRouter{route: route, found: found}, Strict(strict))
	rec := &verifRecorder{header: http.Header{}}
	req := &http.Request{Method: "GET", Header: http.Header{}, URL: &url.URL{Path: "/"}}
	if reqValid {
		req.Header["X-Req"] = []string{"v"}
	}
	v.Middleware(h).ServeHTTP(rec, req.WithContext(context.Background()))

	hStatus, hWrote, set := 200, false, false
	var hBody []byte
	for _, st := range steps {
		switch st.kind {
		case 0:
			if !hWrote {
				hWrote, hStatus = true, st.status
			}
		case 1:
			hWrote = true
			hBody = append(hBody, st.data...)
		case 2:
			set = true
		}
	}
	switch {
	case !found:
		verifAssert(handlerCalls == 0 && rec.status == 404, "C14 defaults: no route => 404 from the middleware, handler never runs")
	case !reqValid:
		verifAssert(handlerCalls == 0 && rec.status == 400, "C14 defaults: invalid request => 400 from the middleware, handler never runs")
	default:
		verifAssert(handlerCalls == 1, "C14 defaults: route found and request valid => handler runs exactly once")
		respValid := hStatus != 200 || set
		if strict && !respValid {
			verifAssert(rec.status == 500 && !bytes.Contains(rec.body, []byte("h")) && !bytes.Contains(rec.body, []byte("k")), "C14 defaults strict: an invalid response is replaced by a 500 without any of the handler's bytes")
		} else if strict {
			verifAssert(rec.status == hStatus && bytes.Equal(rec.body, hBody), "C14 defaults strict: a valid response reaches the client with the handler's status and body")
		} else {
			want := hStatus
			if !hWrote {
				want = 0
			}
			verifAssert(rec.status == want && bytes.Equal(rec.body, hBody), "C14 defaults non-strict: the handler's response passes through unchanged")
		}
	}
	verifReach("end")
}
