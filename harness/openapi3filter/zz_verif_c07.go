package openapi3filter

// C07 — a request passes iff security, every effective parameter and the body pass.

import (
	"context"
	"errors"
	"io"
	"net/http"
	"net/url"
	"strings"

	"github.com/getkin/kin-openapi/openapi3"
	"github.com/getkin/kin-openapi/routers"
)

var verifSchemeNames = []string{"A", "B", "U"} // U is not declared in components

// verifSecList draws a security requirement list: nil, empty, [{}], [{A}], [{A,B}], [{A},{B}], [{U}], [{U},{B}], [{A,U}]
func verifSecList(p string, n int) (*openapi3.SecurityRequirements, bool) {
	mk := func(reqs ...[]string) *openapi3.SecurityRequirements {
		out := openapi3.SecurityRequirements{}
		for _, r := range reqs {
			sr := openapi3.SecurityRequirement{}
			for _, name := range r {
				sr[name] = []string{"scope:" + name}
			}
			out = append(out, sr)
		}
		return &out
	}
	switch verifChoose(p, n) {
	case 0:
		return nil, false
	case 1:
		return mk(), true
	case 2:
		return mk([]string{}), true
	case 3:
		return mk([]string{"A"}), true
	case 4:
		return mk([]string{"B", "A"}), true
	case 5:
		return mk([]string{"A"}, []string{"B"}), true
	case 6:
		return mk([]string{"U"}), true
	case 7:
		return mk([]string{"U"}, []string{"B"}), true
	case 8:
		return mk([]string{"A", "U"}), true
	}
	return nil, false
}

type verifAuthCall struct{ name, scope string }

//verif:harness id=C07 tier=quick,thorough witness=end bounds="security: operation list in 9 shapes (nil, [], [{}], [{A}], [{A,B}], [{A},{B}], [{U undeclared}], [{U},{B}], [{A,U}]) x document list in 4 shapes x authentication verdict per scheme name symbolic (the undeclared name included: the callback would accept it if it were asked); MultiError symbolic; parameters and body absent from the operation"
func verifH_C07_security() {
	opSec, _ := verifSecList("opSec", 9)
	docSecP, _ := verifSecList("docSec", 4)
	var docSec openapi3.SecurityRequirements
	if docSecP != nil {
		docSec = *docSecP
	}
	authOK := map[string]bool{"A": verifNondetBool("authA"), "B": verifNondetBool("authB"), "U": verifNondetBool("authU")}
	var calls []verifAuthCall
	spec := &openapi3.T{Security: docSec, Components: &openapi3.Components{SecuritySchemes: openapi3.SecuritySchemes{
		"A": &openapi3.SecuritySchemeRef{Value: &openapi3.SecurityScheme{Type: "http", Scheme: "basic"}},
		"B": &openapi3.SecuritySchemeRef{Value: &openapi3.SecurityScheme{Type: "apiKey", In: "header", Name: "k"}},
	}}}
	op := &openapi3.Operation{Security: opSec}
	opts := &Options{MultiError: verifNondetBool("multi")}
	opts.AuthenticationFunc = func(ctx context.Context, ai *AuthenticationInput) error {
		sc := ""
		if len(ai.Scopes) > 0 {
			sc = ai.Scopes[0]
		}
		calls = append(calls, verifAuthCall{ai.SecuritySchemeName, sc})
		if !authOK[ai.SecuritySchemeName] {
			return errors.New("denied")
		}
		return nil
	}
	input := &RequestValidationInput{
		Request: &http.Request{Method: "GET", Header: http.Header{}, URL: &url.URL{Path: "/"}},
		Route:   &routers.Route{Spec: spec, PathItem: &openapi3.PathItem{Get: op}, Operation: op, Method: "GET"},
		Options: opts, QueryParams: url.Values{}, PathParams: map[string]string{},
	}
	err := ValidateRequest(context.Background(), input)

	// reference: the operation's list if it declares one, else the document's
	var eff openapi3.SecurityRequirements
	if opSec != nil {
		eff = *opSec
	} else {
		eff = docSec
	}
	secOK := len(eff) == 0
	for _, req := range eff {
		all := true
		for name := range req {
			if name == "U" || !authOK[name] {
				all = false
			}
		}
		if all {
			secOK = true
		}
	}
	verifAssert((err == nil) == secOK, "C07 security: request passes iff some requirement has all its schemes accepted (empty list / empty requirement needs none)")
	// callback protocol: within a requirement, schemes in sorted order with their scopes, never after a failing one
	idx := 0
	done := false
	for _, req := range eff {
		if done {
			break
		}
		names := []string{}
		for _, n := range []string{"A", "B", "U"} {
			if _, ok := req[n]; ok {
				names = append(names, n)
			}
		}
		ok := true
		for _, n := range names {
			if n == "U" {
				ok = false
				break
			}
			verifAssert(idx < len(calls) && calls[idx].name == n && calls[idx].scope == "scope:"+n, "C07 security: authentication callback sees each scheme of a requirement in sorted order with its scopes")
			idx++
			if !authOK[n] {
				ok = false
				break
			}
		}
		if ok {
			done = true
		}
	}
	verifAssert(idx == len(calls), "C07 security: no authentication call after a failing scheme of the same requirement or after a satisfied requirement")
	verifReach("end")
}

//verif:harness id=C07 tier=quick,thorough witness=end bounds="orchestration: security [{A}] with symbolic verdict; path-level parameters subset of {header X-A required, header X-B required, query pq required}; operation-level parameters subset of {header X-A optional (override), query q required, query PQ optional (another name than pq: no override)}; body required text/plain, present or absent; presence of each header/query symbolic by fork; options MultiError/ExcludeRequestBody/ExcludeRequestQueryParams symbolic"
func verifH_C07_orchestration() {
	authA := verifNondetBool("authA")
	spec := &openapi3.T{Components: &openapi3.Components{SecuritySchemes: openapi3.SecuritySchemes{
		"A": &openapi3.SecuritySchemeRef{Value: &openapi3.SecurityScheme{Type: "http", Scheme: "basic"}},
	}}}
	op := &openapi3.Operation{}
	withSec := verifChoose("withSec", 2) == 1
	if withSec {
		op.Security = &openapi3.SecurityRequirements{openapi3.SecurityRequirement{"A": []string{}}}
	}
	str := &openapi3.SchemaRef{Value: &openapi3.Schema{Type: &openapi3.Types{"string"}}}
	hdr := func(name string, required bool) *openapi3.ParameterRef {
		return &openapi3.ParameterRef{Value: &openapi3.Parameter{Name: name, In: "header", Required: required, Schema: str}}
	}
	qry := func(name string) *openapi3.ParameterRef {
		return &openapi3.ParameterRef{Value: &openapi3.Parameter{Name: name, In: "query", Required: true, Schema: str}}
	}
	pi := &openapi3.PathItem{Get: op}
	pl := verifChoose("pathLevel", 8)
	plXA, plXB, plPQ := pl&1 != 0, pl&2 != 0, pl&4 != 0
	if plXA {
		pi.Parameters = append(pi.Parameters, hdr("X-A", true))
	}
	if plXB {
		pi.Parameters = append(pi.Parameters, hdr("X-B", true))
	}
	if plPQ {
		pi.Parameters = append(pi.Parameters, qry("pq"))
	}
	ol := verifChoose("opLevel", 8)
	olXA, olQ, olPQ := ol&1 != 0, ol&2 != 0, ol&4 != 0
	if olXA {
		op.Parameters = append(op.Parameters, hdr("X-A", false)) // overrides the required path-level X-A
	}
	if olQ {
		op.Parameters = append(op.Parameters, qry("q"))
	}
	if olPQ {
		// another parameter: query parameter names are case-sensitive, PQ does not override pq
		op.Parameters = append(op.Parameters, &openapi3.ParameterRef{Value: &openapi3.Parameter{Name: "PQ", In: "query", Schema: str}})
	}
	withBody := verifChoose("withBody", 2) == 1
	if withBody {
		op.RequestBody = &openapi3.RequestBodyRef{Value: &openapi3.RequestBody{Required: true, Content: openapi3.Content{"text/plain": &openapi3.MediaType{Schema: str}}}}
	}
	req := &http.Request{Method: "GET", Header: http.Header{}, URL: &url.URL{Path: "/"}}
	q := url.Values{"zz": []string{"1"}}
	hasXA, hasXB := verifChoose("hasXA", 2) == 1, verifChoose("hasXB", 2) == 1
	hasQ, hasPQ := verifChoose("hasQ", 2) == 1, verifChoose("hasPQ", 2) == 1
	hasBody := verifChoose("hasBody", 2) == 1
	if hasXA {
		req.Header["X-A"] = []string{"v"}
	}
	if hasXB {
		req.Header["X-B"] = []string{"v"}
	}
	if hasQ {
		q["q"] = []string{"v"}
	}
	if hasPQ {
		q["pq"] = []string{"v"}
	}
	if hasBody {
		req.Header["Content-Type"] = []string{"text/plain"}
		req.Body = io.NopCloser(strings.NewReader("ab"))
	}
	opts := &Options{MultiError: verifNondetBool("multi"), ExcludeRequestBody: verifNondetBool("exclBody"), ExcludeRequestQueryParams: verifNondetBool("exclQuery")}
	opts.AuthenticationFunc = func(ctx context.Context, ai *AuthenticationInput) error {
		if !authA {
			return errors.New("denied")
		}
		return nil
	}
	input := &RequestValidationInput{Request: req, Route: &routers.Route{Spec: spec, PathItem: pi, Operation: op, Method: "GET"}, Options: opts, QueryParams: q, PathParams: map[string]string{}}
	err := ValidateRequest(context.Background(), input)

	fails := 0
	if withSec && !authA {
		fails++
	}
	// effective parameters: operation-level ones plus path-level ones not overridden by (in,name)
	if plXA && !olXA && !hasXA {
		fails++
	}
	if plXB && !hasXB {
		fails++
	}
	if plPQ && !hasPQ && !opts.ExcludeRequestQueryParams {
		fails++
	}
	if olQ && !hasQ && !opts.ExcludeRequestQueryParams {
		fails++
	}
	if withBody && !hasBody && !opts.ExcludeRequestBody {
		fails++
	}
	verifAssert((err == nil) == (fails == 0), "C07 orchestration: request passes iff security, every effective parameter and the body pass")
	if me, ok := err.(openapi3.MultiError); ok {
		verifAssert(opts.MultiError && len(me) == fails, "C07 orchestration: multi-error mode reports exactly the failing parts")
	}
	verifReach("end")
}

// verifBody: a request body reader over fixed content.
func verifBody(s string) io.ReadCloser { return io.NopCloser(strings.NewReader(s)) }

//verif:harness id=C07 tier=quick,thorough witness=end bounds="no authentication callback configured (Options nil, or Options without AuthenticationFunc): operation security list in 8 shapes x document list in 4: the request passes iff the effective list is empty or contains an empty requirement (which needs no authentication); anything else is refused, never accepted and never a panic"
func verifH_C07_no_callback() {
	opSec, _ := verifSecList("opSec", 8)
	docSecP, _ := verifSecList("docSec", 4)
	var docSec openapi3.SecurityRequirements
	if docSecP != nil {
		docSec = *docSecP
	}
	spec := &openapi3.T{Security: docSec, Components: &openapi3.Components{SecuritySchemes: openapi3.SecuritySchemes{
		"A": &openapi3.SecuritySchemeRef{Value: &openapi3.SecurityScheme{Type: "http", Scheme: "basic"}},
		"B": &openapi3.SecuritySchemeRef{Value: &openapi3.SecurityScheme{Type: "apiKey", In: "header", Name: "k"}},
	}}}
	op := &openapi3.Operation{Security: opSec}
	var opts *Options
	if verifChoose("options", 2) == 1 {
		opts = &Options{MultiError: verifNondetBool("multi")}
	}
	input := &RequestValidationInput{
		Request: &http.Request{Method: "GET", Header: http.Header{}, URL: &url.URL{Path: "/"}},
		Route:   &routers.Route{Spec: spec, PathItem: &openapi3.PathItem{Get: op}, Operation: op, Method: "GET"},
		Options: opts, QueryParams: url.Values{}, PathParams: map[string]string{},
	}
	err := ValidateRequest(context.Background(), input)
	var eff openapi3.SecurityRequirements
	if opSec != nil {
		eff = *opSec
	} else {
		eff = docSec
	}
	want := len(eff) == 0
	for _, req := range eff {
		if len(req) == 0 {
			want = true
		}
	}
	verifAssert((err == nil) == want, "C07 no callback: without an authentication callback exactly the requests that need no authentication pass")
	verifReach("end")
}

// verifUntypedSchemas: schemas without a type (legal: they constrain whatever value there is)
// and whether the texts "a" / "zz" satisfy them read as strings.
func verifUntypedSchema(k int) (*openapi3.Schema, [2]bool) {
	one := uint64(1)
	switch k {
	case 0:
		return &openapi3.Schema{}, [2]bool{true, true}
	case 1:
		return &openapi3.Schema{Enum: []any{"a", "b"}}, [2]bool{true, false}
	case 2:
		return &openapi3.Schema{MinLength: one}, [2]bool{true, true}
	default:
		return &openapi3.Schema{Pattern: "^a$"}, [2]bool{true, false}
	}
}

//verif:harness id=C07 tier=quick,thorough witness=end bounds="parameters whose schema has no type: location header / query / path / cookie x schema in {{}, enum [a,b], minLength 1, pattern ^a$} x value a / zz: the parameter is accepted exactly when the text, read as the string it is, satisfies the schema"
func verifH_C07_untyped_params() {
	in := []string{"header", "query", "path", "cookie"}[verifChoose("in", 4)]
	schema, sat := verifUntypedSchema(verifChoose("schema", 4))
	vi := verifChoose("value", 2)
	text := []string{"a", "zz"}[vi]
	p := &openapi3.Parameter{Name: "p", In: in, Required: in == "path", Schema: &openapi3.SchemaRef{Value: schema}}
	if p.Validate(context.Background()) != nil {
		return
	}
	req := &http.Request{Method: "GET", Header: http.Header{}, URL: &url.URL{Path: "/"}}
	input := &RequestValidationInput{Request: req, QueryParams: url.Values{}, PathParams: map[string]string{}, Options: &Options{}}
	switch in {
	case "header":
		req.Header["P"] = []string{text}
	case "query":
		input.QueryParams["p"] = []string{text}
	case "path":
		input.PathParams["p"] = text
	case "cookie":
		req.Header["Cookie"] = []string{"p=" + text}
	}
	err := ValidateParameter(context.Background(), input, p)
	verifKnown("C07-untyped-schema-present-value-rejected", sat[vi])
	verifAssert((err == nil) == sat[vi], "C07 untyped: a present value is accepted exactly when it satisfies the type-less schema")
	verifKnown("C07-untyped-schema-present-value-rejected", false)
	verifReach("end")
}

//verif:harness id=C07 tier=quick,thorough witness=end bounds="same name, different location (shared with C05): a required path-item parameter id in query / header / cookie and an operation parameter id in query / header / cookie; each absent, 5, or x: overriding is by name and location"
func verifH_C07_same_name_locations() { verifSameNameLocations("C07") }

//verif:harness id=C07 tier=quick,thorough witness=end,accepted,rejected bounds="the body part of a request: request body required or optional, declared as text/plain (string, maxLength symbolic 0..4) or application/json (object) x body absent / empty / ab / three blanks (space CR LF) / abcd / {} / null (the JSON schema nullable or not, symbolic) x ExcludeRequestBody symbolic x MultiError symbolic, through ValidateRequest: the request passes iff the body is excluded, or absent-or-empty and optional, or present and valid (a body of blanks is a body)"
func verifH_C07_body_part() {
	maxLen := uint64(verifChoose("maxLength", 5))
	isJSON := verifChoose("json", 2) == 1
	mtName, schema := "text/plain", &openapi3.Schema{Type: &openapi3.Types{"string"}, MaxLength: &maxLen}
	if isJSON {
		mtName, schema = "application/json", &openapi3.Schema{Type: &openapi3.Types{"object"}, Nullable: verifNondetBool("nullable")}
	}
	required := verifChoose("required", 2) == 1
	op := &openapi3.Operation{RequestBody: &openapi3.RequestBodyRef{Value: &openapi3.RequestBody{Required: required, Content: openapi3.Content{mtName: &openapi3.MediaType{Schema: &openapi3.SchemaRef{Value: schema}}}}}}
	bodies := []string{"", "ab", " \r\n", "abcd", "{}", "null"}
	bi := verifChoose("body", len(bodies)+1) // the last choice: no body at all
	req := &http.Request{Method: "POST", Header: http.Header{"Content-Type": []string{mtName}}, URL: &url.URL{Path: "/"}}
	body := ""
	if bi < len(bodies) {
		body = bodies[bi]
		req.Body = verifBody(body)
		req.ContentLength = int64(len(body))
	}
	opts := &Options{MultiError: verifNondetBool("multi"), ExcludeRequestBody: verifNondetBool("exclBody")}
	input := &RequestValidationInput{Request: req, Route: &routers.Route{Spec: &openapi3.T{}, PathItem: &openapi3.PathItem{Post: op}, Operation: op, Method: "POST"}, Options: opts, QueryParams: url.Values{}, PathParams: map[string]string{}}
	err := ValidateRequest(context.Background(), input)
	want := true
	switch {
	case opts.ExcludeRequestBody:
	case body == "":
		want = !required
	case isJSON:
		// a body that is the JSON null is a value like any other: it passes only a nullable schema
		want = body == "{}" || body == "null" && schema.Nullable
	default:
		want = uint64(len(body)) <= maxLen
	}
	if err == nil {
		verifReach("accepted")
	} else {
		verifReach("rejected")
	}
	verifAssert((err == nil) == want, "C07 body part: the request passes iff the body is excluded, absent and optional, or present and valid (blanks are a body)")
	verifReach("end")
}
