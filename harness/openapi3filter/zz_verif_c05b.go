package openapi3filter

// C05, deepObject parameters whose schema or whose members' schemas are compositions.

import (
	"context"
	"net/http"
	"net/url"

	"github.com/getkin/kin-openapi/openapi3"
	"github.com/getkin/kin-openapi/routers"
)

//verif:harness id=C05 tier=quick,thorough witness=end,typed,illtyped bounds="deepObject with compositions: query parameter p whose member a has schema oneOf / anyOf [integer, boolean] (either order) or allOf [T, constraint-only] (either order), or whose own schema is allOf of two object schemas declaring a and b; every printable-ASCII leaf text of 1-2 bytes without [ ] = &: a text that is a serialisation of (one of) the declared type(s) decodes to that typed value under the member's name; any other text is never decoded to a value"
func verifH_C05_deepobject_compositions() {
	verifMapOrder() // map iteration order is unspecified: ascending and descending key order
	intS, boolS := verifPrimSchema("integer"), verifPrimSchema("boolean")
	untyped := &openapi3.SchemaRef{Value: &openapi3.Schema{Description: "a constraint-only branch"}}
	obj := func(props openapi3.Schemas) *openapi3.SchemaRef {
		return &openapi3.SchemaRef{Value: &openapi3.Schema{Type: &openapi3.Types{"object"}, Properties: props}}
	}
	comp := verifChoose("comp", 7)
	types := []string{"integer", "boolean"}
	var schema *openapi3.SchemaRef
	switch comp {
	case 0:
		schema = obj(openapi3.Schemas{"a": {Value: &openapi3.Schema{OneOf: openapi3.SchemaRefs{intS, boolS}}}})
	case 1:
		schema = obj(openapi3.Schemas{"a": {Value: &openapi3.Schema{AnyOf: openapi3.SchemaRefs{intS, boolS}}}})
	case 2:
		schema = obj(openapi3.Schemas{"a": {Value: &openapi3.Schema{AnyOf: openapi3.SchemaRefs{boolS, intS}}}})
	case 3:
		schema, types = obj(openapi3.Schemas{"a": {Value: &openapi3.Schema{AllOf: openapi3.SchemaRefs{intS, untyped}}}}), []string{"integer"}
	case 4:
		schema, types = obj(openapi3.Schemas{"a": {Value: &openapi3.Schema{AllOf: openapi3.SchemaRefs{untyped, boolS}}}}), []string{"boolean"}
	case 5: // the parameter's own schema is allOf of two objects
		schema, types = &openapi3.SchemaRef{Value: &openapi3.Schema{AllOf: openapi3.SchemaRefs{obj(openapi3.Schemas{"a": intS}), obj(openapi3.Schemas{"b": boolS})}}}, []string{"integer"}
	case 6: // ... or anyOf
		schema, types = &openapi3.SchemaRef{Value: &openapi3.Schema{AnyOf: openapi3.SchemaRefs{obj(openapi3.Schemas{"b": boolS}), obj(openapi3.Schemas{"a": intS})}}}, []string{"integer"}
	}
	text := verifLeaf("v", 2, "[]=&")
	q := url.Values{"p[a]": []string{text}}
	withB := comp >= 5 && verifChoose("b", 2) == 1
	if withB {
		q["p[b]"] = []string{"true"}
	}
	if comp == 5 && verifChoose("onlyB", 2) == 1 {
		// only the member of the *second* branch is sent: the first branch decodes to nothing
		got, found, err := decodeStyledParameter(&openapi3.Parameter{Name: "p", In: "query", Style: "deepObject", Explode: func() *bool { t := true; return &t }(), Schema: schema},
			&RequestValidationInput{QueryParams: url.Values{"p[b]": []string{"true"}}, Request: &http.Request{Header: http.Header{}, URL: &url.URL{}}})
		m, isObj := got.(map[string]any)
		verifAssert(err == nil && found && isObj && len(m) == 1 && m["b"] == true, "C05 deepObject compositions: a member of a later allOf branch alone decodes to the object that has it")
		// the same as an exploded form object (every query key is a candidate member)
		got, found, err = decodeStyledParameter(&openapi3.Parameter{Name: "p", In: "query", Style: "form", Explode: func() *bool { t := true; return &t }(), Required: true, Schema: schema},
			&RequestValidationInput{QueryParams: url.Values{"b": []string{"true"}, "other": []string{"1"}}, Request: &http.Request{Header: http.Header{}, URL: &url.URL{}}})
		m, isObj = got.(map[string]any)
		verifAssert(err == nil && found && isObj && len(m) == 1 && m["b"] == true, "C05 deepObject compositions: the same for an exploded form object")
		verifReach("end")
		return
	}
	var want any
	ok := false
	for _, t := range types {
		if v, good := verifTyped(text, t); good {
			want, ok = v, true
		}
	}
	explode := true
	param := &openapi3.Parameter{Name: "p", In: "query", Style: "deepObject", Explode: &explode, Schema: schema}
	input := &RequestValidationInput{QueryParams: q, Request: &http.Request{Header: http.Header{}, URL: &url.URL{}}}
	got, found, err := decodeStyledParameter(param, input)
	m, isObj := got.(map[string]any)
	// known finding: anyOf / oneOf of object schemas decodes to the first branch that yields an object, even an empty one
	verifKnown("C05-anyof-object-branches-first-wins", comp == 6)
	if ok {
		verifReach("typed")
		verifAssert(err == nil && found && isObj, "C05 deepObject compositions: a well-formed serialisation decodes to an object and is found")
		if err == nil && isObj {
			verifAssert(verifSame(m["a"], want), "C05 deepObject compositions: the member decodes to its typed value")
			if withB {
				verifAssert(len(m) == 2 && m["b"] == true, "C05 deepObject compositions: the members of both branches are in the decoded object")
			} else {
				verifAssert(len(m) == 1, "C05 deepObject compositions: nothing but the member that was sent is in the decoded object")
			}
		}
	} else {
		verifReach("illtyped")
		_, has := m["a"]
		verifAssert(err != nil || !has, "C05 deepObject compositions: a text that is not a serialisation of the declared type is not decoded to a value")
	}
	verifReach("end")
}

// verifSameNameLocations: a path-item parameter and an operation parameter that share a name but
// not a location are two parameters; both are in effect.
func verifSameNameLocations(id string) {
	intS := verifPrimSchema("integer")
	locs := []string{"query", "header", "cookie"}
	piIn := locs[verifChoose("pathItemIn", 3)]
	opIn := locs[verifChoose("operationIn", 3)]
	piParam := &openapi3.Parameter{Name: "id", In: piIn, Required: true, Schema: intS}
	opParam := &openapi3.Parameter{Name: "id", In: opIn, Required: verifChoose("opRequired", 2) == 1, Schema: intS}
	d := "d"
	resps := openapi3.NewResponsesWithCapacity(1)
	resps.Set("200", &openapi3.ResponseRef{Value: &openapi3.Response{Description: &d}})
	op := &openapi3.Operation{Responses: resps, Parameters: openapi3.Parameters{{Value: opParam}}}
	pi := &openapi3.PathItem{Get: op, Parameters: openapi3.Parameters{{Value: piParam}}}
	req := &http.Request{Method: "GET", Header: http.Header{}, URL: &url.URL{Path: "/"}}
	q := url.Values{}
	texts := []string{"", "5", "x"} // absent, well-formed, not an integer
	put := func(in string, t string) {
		switch in {
		case "query":
			q["id"] = []string{t}
		case "header":
			req.Header["Id"] = []string{t}
		case "cookie":
			req.Header["Cookie"] = []string{"id=" + t}
		}
	}
	piText := texts[verifChoose("pathItemText", 3)]
	opText := piText
	if piIn != opIn {
		opText = texts[verifChoose("operationText", 3)]
	}
	if piText != "" {
		put(piIn, piText)
	}
	if opText != "" && piIn != opIn {
		put(opIn, opText)
	}
	req.URL.RawQuery = q.Encode()
	input := &RequestValidationInput{Request: req, PathParams: map[string]string{}, QueryParams: q,
		Route: &routers.Route{Spec: &openapi3.T{}, PathItem: pi, Operation: op, Method: "GET"}, Options: &Options{}}
	err := ValidateRequest(context.Background(), input)
	want := true
	if piIn == opIn {
		// the operation's parameter overrides the path item's: only the operation's requiredness counts
		if opText == "x" || (opText == "" && opParam.Required) {
			want = false
		}
	} else {
		if piText != "5" { // required: absent or malformed fails
			want = false
		}
		if opText == "x" || (opText == "" && opParam.Required) {
			want = false
		}
	}
	verifAssert((err == nil) == want, id+" same name: a path-item parameter is overridden only by an operation parameter of the same name and location; otherwise both are validated")
	verifReach("end")
}

//verif:harness id=C05 tier=quick,thorough witness=end bounds="same name, different location: a required path-item parameter id (integer) in query / header / cookie and an operation parameter id in query / header / cookie (required or not); each absent, 5, or x; through ValidateRequest: the request passes iff every parameter in effect is present when required and well-formed when present"
func verifH_C05_same_name_locations() { verifSameNameLocations("C05") }

//verif:harness id=C05 tier=quick,thorough witness=end,accepted,rejected bounds="enum on typed parameters: integer parameter (format absent / int32 / int64) with enum [1, 2, 3] as a JSON document gives it (float64), or boolean parameter with enum [true], or an array of integers (each format) / numbers with enum [[1,2],[3]], in query / path / header; text = one symbolic decimal digit, or true / false: ValidateParameter accepts exactly the texts that denote a member of the enum"
func verifH_C05_typed_enum() {
	in := []string{"query", "path", "header"}[verifChoose("in", 3)]
	var schema *openapi3.Schema
	var text string
	want := false
	switch ty := verifChoose("type", 4); {
	case ty >= 2:
		// an enum whose members are arrays (of integers with each format, or of numbers): the decoded items are int64 / int32 / float64
		items := &openapi3.Schema{Type: &openapi3.Types{"integer"}, Format: []string{"", "int32", "int64"}[verifChoose("format", 3)]}
		if ty == 3 {
			items = &openapi3.Schema{Type: &openapi3.Types{"number"}}
		}
		schema = &openapi3.Schema{Type: &openapi3.Types{"array"}, Items: &openapi3.SchemaRef{Value: items}, Enum: []any{[]any{1.0, 2.0}, []any{3.0}}}
		d := verifNondetByteIn("d", "0123456789")
		if verifChoose("two", 2) == 1 {
			text = "1," + string([]byte{d})
			want = d == '2'
		} else {
			text = string([]byte{d})
			want = d == '3'
		}
	case ty == 0:
		schema = &openapi3.Schema{Type: &openapi3.Types{"integer"}, Format: []string{"", "int32", "int64"}[verifChoose("format", 3)], Enum: []any{1.0, 2.0, 3.0}}
		d := verifNondetByteIn("d", "0123456789")
		text = string([]byte{d})
		want = d >= '1' && d <= '3'
	default:
		schema = &openapi3.Schema{Type: &openapi3.Types{"boolean"}, Enum: []any{true}}
		text = []string{"true", "false"}[verifChoose("bool", 2)]
		want = text == "true"
	}
	param := &openapi3.Parameter{Name: "P", In: in, Required: true, Schema: &openapi3.SchemaRef{Value: schema}}
	if schema.Type.Is("array") && in == "query" {
		f := false
		param.Explode = &f // items separated by commas in every location
	}
	input := &RequestValidationInput{Request: &http.Request{Header: http.Header{}, URL: &url.URL{}}, QueryParams: url.Values{}, PathParams: map[string]string{}, Options: &Options{}}
	switch in {
	case "query":
		input.QueryParams["P"] = []string{text}
	case "path":
		input.PathParams["P"] = text
	case "header":
		input.Request.Header["P"] = []string{text}
	}
	err := ValidateParameter(context.Background(), input, param)
	if err == nil {
		verifReach("accepted")
	} else {
		verifReach("rejected")
	}
	verifAssert((err == nil) == want, "C05 typed enum: a parameter is accepted exactly when its decoded value is a member of the enum")
	verifReach("end")
}

//verif:harness id=C05 tier=quick,thorough witness=end,accepted,rejected bounds="presence of object parameters: an object parameter {r: integer (required or not), s: string} in query (form exploded / form not exploded / deepObject) or header, required or not, next to another query parameter that is sent or not; members r (symbolic digit or a letter) and s sent or not: an absent optional parameter is accepted whatever else the request carries, an absent required one is ErrInvalidRequired, a present one is judged by its members"
func verifH_C05_object_presence() {
	where := verifChoose("where", 4) // query form exploded, query form, query deepObject, header
	rRequired := verifChoose("rRequired", 2) == 1
	obj := &openapi3.Schema{Type: &openapi3.Types{"object"}, Properties: openapi3.Schemas{"r": verifPrimSchema("integer"), "s": verifPrimSchema("string")}}
	if rRequired {
		obj.Required = []string{"r"}
	}
	param := &openapi3.Parameter{Name: "obj", In: "query", Required: verifChoose("required", 2) == 1, Schema: &openapi3.SchemaRef{Value: obj}}
	t, f := true, false
	switch where {
	case 0:
		param.Style, param.Explode = "form", &t
	case 1:
		param.Style, param.Explode = "form", &f
	case 2:
		param.Style, param.Explode = "deepObject", &t
	case 3:
		param.In, param.Name = "header", "X-Obj"
	}
	q := url.Values{}
	hdr := http.Header{}
	if verifChoose("other", 2) == 1 {
		q["other"] = []string{"1"}
		hdr["X-Other"] = []string{"1"}
	}
	hasR, hasS := verifChoose("hasR", 2) == 1, verifChoose("hasS", 2) == 1
	rText := ""
	rOK := true
	if hasR {
		c := verifNondetByteIn("r", "0123456789x")
		rText = string([]byte{c})
		rOK = c != 'x'
	}
	var pairs []string
	if hasR {
		pairs = append(pairs, "r", rText)
	}
	if hasS {
		pairs = append(pairs, "s", "v")
	}
	switch where {
	case 0:
		for i := 0; i+1 < len(pairs); i += 2 {
			q[pairs[i]] = []string{pairs[i+1]}
		}
	case 1:
		if len(pairs) > 0 {
			q["obj"] = []string{verifJoin(pairs, ",")}
		}
	case 2:
		for i := 0; i+1 < len(pairs); i += 2 {
			q["obj["+pairs[i]+"]"] = []string{pairs[i+1]}
		}
	case 3:
		if len(pairs) > 0 {
			hdr["X-Obj"] = []string{verifJoin(pairs, ",")}
		}
	}
	input := &RequestValidationInput{Request: &http.Request{Method: "GET", Header: hdr, URL: &url.URL{Path: "/"}}, QueryParams: q, PathParams: map[string]string{}, Options: &Options{}}
	err := ValidateParameter(context.Background(), input, param)
	present := hasR || hasS
	if err == nil {
		verifReach("accepted")
	} else {
		verifReach("rejected")
	}
	switch {
	case !present && param.Required:
		re, ok := err.(*RequestError)
		verifAssert(ok && re.Err == ErrInvalidRequired, "C05 object presence: an absent required object parameter is ErrInvalidRequired")
	case !present:
		verifAssert(err == nil, "C05 object presence: an absent optional object parameter is accepted, whatever else the request carries")
	default:
		want := rOK && (hasR || !rRequired)
		verifAssert((err == nil) == want, "C05 object presence: a present object parameter is accepted iff its members are well-formed and the required ones present")
	}
	verifReach("end")
}

//verif:harness id=C05 tier=quick,thorough witness=end bounds="deepObject with declared and undeclared members of different types: schema {n: integer, additionalProperties: {type: string}} (or boolean / string the other way round); p[n]=<digit>&p[zz]=<digit>: the declared member is typed by its own schema, the undeclared one by the additionalProperties schema"
func verifH_C05_deepobject_mixed() {
	verifMapOrder()
	declT := []string{"integer", "boolean", "string"}[verifChoose("declared", 3)]
	apT := []string{"string", "integer"}[verifChoose("additional", 2)]
	obj := &openapi3.Schema{Type: &openapi3.Types{"object"}, Properties: openapi3.Schemas{"n": verifPrimSchema(declT)}}
	obj.AdditionalProperties.Schema = verifPrimSchema(apT)
	d := verifNondetByteIn("d", "0123456789")
	nText := string([]byte{d})
	if declT == "boolean" {
		nText = "true"
	}
	zText := string([]byte{verifNondetByteIn("z", "0123456789")})
	q := url.Values{"p[n]": []string{nText}, "p[zz]": []string{zText}}
	explode := true
	param := &openapi3.Parameter{Name: "p", In: "query", Style: "deepObject", Explode: &explode, Schema: &openapi3.SchemaRef{Value: obj}}
	input := &RequestValidationInput{QueryParams: q, Request: &http.Request{Header: http.Header{}, URL: &url.URL{}}}
	got, found, err := decodeStyledParameter(param, input)
	verifAssert(err == nil && found, "C05 deepObject mixed: the parameter decodes")
	if err != nil {
		return
	}
	m, ok := got.(map[string]any)
	wantN, _ := verifTyped(nText, declT)
	wantZ, _ := verifTyped(zText, apT)
	verifAssert(ok && len(m) == 2 && verifSame(m["n"], wantN), "C05 deepObject mixed: the declared member is typed by its own schema")
	verifAssert(ok && verifSame(m["zz"], wantZ), "C05 deepObject mixed: the undeclared member is typed by the additionalProperties schema")
	verifReach("end")
}

//verif:harness id=C05 tier=quick,thorough witness=end bounds="deepObject parameters whose names are related (page / pageInfo / pag / Page / page.x): a request carrying members of one of them only (leaf = one symbolic digit): that parameter decodes to its member, every other one is absent (an optional one passes ValidateParameter, a required one is ErrInvalidRequired)"
func verifH_C05_deepobject_related_names() {
	names := []string{"page", "pageInfo", "pag", "Page", "page.x"}
	sent := names[verifChoose("sent", len(names))]
	asked := names[verifChoose("asked", len(names))]
	d := verifNondetByteIn("d", "0123456789")
	q := url.Values{sent + "[a]": []string{string([]byte{d})}}
	explode := true
	obj := &openapi3.Schema{Type: &openapi3.Types{"object"}, Required: []string{"a"}, Properties: openapi3.Schemas{"a": verifPrimSchema("integer")}}
	param := &openapi3.Parameter{Name: asked, In: "query", Style: "deepObject", Explode: &explode, Required: verifChoose("required", 2) == 1, Schema: &openapi3.SchemaRef{Value: obj}}
	input := &RequestValidationInput{QueryParams: q, Request: &http.Request{Method: "GET", Header: http.Header{}, URL: &url.URL{Path: "/"}}, PathParams: map[string]string{}, Options: &Options{}}
	got, found, err := decodeStyledParameter(param, input)
	verr := ValidateParameter(context.Background(), input, param)
	if asked == sent {
		m, ok := got.(map[string]any)
		verifAssert(err == nil && found && ok && len(m) == 1 && verifSame(m["a"], int64(d-'0')), "C05 related names: the parameter that was sent decodes to its member")
		verifAssert(verr == nil, "C05 related names: the parameter that was sent validates")
	} else {
		verifAssert(err == nil && !found && isNilValue(got), "C05 related names: a parameter whose name merely resembles the one that was sent is absent")
		if param.Required {
			re, ok := verr.(*RequestError)
			verifAssert(ok && re.Err == ErrInvalidRequired, "C05 related names: an absent required parameter is ErrInvalidRequired")
		} else {
			verifAssert(verr == nil, "C05 related names: an absent optional parameter is accepted")
		}
	}
	verifReach("end")
}

//verif:harness id=C05 tier=quick,thorough witness=end bounds="array parameters whose items schema is a composition: allOf [typed, constraint-only] in either order, allOf [typed, typed], anyOf [typed]; query form exploded / not exploded and header; item type in {integer, boolean, string}; 1-2 items of one symbolic printable byte each: every item decodes to its typed value, in order; an item that is not of the type is an error"
func verifH_C05_array_item_compositions() {
	typ := []string{"integer", "boolean", "string"}[verifChoose("type", 3)]
	typed := verifPrimSchema(typ)
	untyped := &openapi3.SchemaRef{Value: &openapi3.Schema{Description: "a constraint-only branch"}}
	var items *openapi3.SchemaRef
	switch verifChoose("comp", 4) {
	case 0:
		items = &openapi3.SchemaRef{Value: &openapi3.Schema{AllOf: openapi3.SchemaRefs{typed, untyped}}}
	case 1:
		items = &openapi3.SchemaRef{Value: &openapi3.Schema{AllOf: openapi3.SchemaRefs{untyped, typed}}}
	case 2:
		items = &openapi3.SchemaRef{Value: &openapi3.Schema{AllOf: openapi3.SchemaRefs{typed, verifPrimSchema(typ)}}}
	case 3:
		items = &openapi3.SchemaRef{Value: &openapi3.Schema{AnyOf: openapi3.SchemaRefs{typed}}}
	}
	schema := &openapi3.SchemaRef{Value: &openapi3.Schema{Type: &openapi3.Types{"array"}, Items: items}}
	n := 1 + verifChoose("n", 2)
	texts := make([]string, n)
	want := make([]any, n)
	allOK := true
	for i := range texts {
		if typ == "boolean" {
			texts[i] = []string{"true", "false", "x"}[verifChoose("b", 3)]
		} else {
			texts[i] = verifLeaf("v", 1, ",=;&")
		}
		v, ok := verifTyped(texts[i], typ)
		if !ok {
			allOK = false
		}
		want[i] = v
	}
	input := &RequestValidationInput{Request: &http.Request{Header: http.Header{}, URL: &url.URL{}}}
	var param *openapi3.Parameter
	t, f := true, false
	switch verifChoose("in", 3) {
	case 0:
		param = &openapi3.Parameter{Name: "p", In: "query", Explode: &t, Schema: schema}
		input.QueryParams = url.Values{"p": texts}
	case 1:
		param = &openapi3.Parameter{Name: "p", In: "query", Explode: &f, Schema: schema}
		input.QueryParams = url.Values{"p": []string{verifJoin(texts, ",")}}
	default:
		param = &openapi3.Parameter{Name: "X-P", In: "header", Schema: schema}
		input.Request.Header["X-P"] = []string{verifJoin(texts, ",")}
	}
	// known finding: outside the query the item parser knows typed item schemas only
	verifKnown("C05-composed-items-outside-query", param.In == "header")
	got, found, err := decodeStyledParameter(param, input)
	if !allOK {
		verifAssert(err != nil || got == nil, "C05 array item compositions: an item that is not a serialisation of the item type is not decoded to a value")
		verifReach("end")
		return
	}
	verifAssert(err == nil && found, "C05 array item compositions: a well-formed array decodes and is found")
	arr, ok := got.([]any)
	verifAssert(ok && len(arr) == n, "C05 array item compositions: one item per serialised item")
	if ok && len(arr) == n {
		for i := range arr {
			verifAssert(verifSame(arr[i], want[i]), "C05 array item compositions: each item decodes to its typed value, in order")
		}
	}
	verifReach("end")
}
