package openapi3filter

// C05, deepObject parameters whose schema or whose members' schemas are compositions.

import (
	"net/http"
	"net/url"

	"github.com/getkin/kin-openapi/openapi3"
)

//verif:harness id=C05 tier=quick,thorough witness=end,typed,illtyped bounds="deepObject with compositions: query parameter p whose member a has schema oneOf / anyOf [integer, boolean] (either order) or allOf [T, constraint-only] (either order), or whose own schema is allOf of two object schemas declaring a and b; every printable-ASCII leaf text of 1-2 bytes without [ ] = &: a text that is a serialisation of (one of) the declared type(s) decodes to that typed value under the member's name; any other text is never decoded to a value"
func verifH_C05_deepobject_compositions() {
	intS, boolS := verifPrimSchema("integer"), verifPrimSchema("boolean")
	untyped := &openapi3.SchemaRef{Value: &openapi3.Schema{Description: "a constraint-only branch"}}
	obj := func(props openapi3.Schemas) *openapi3.SchemaRef {
		return &openapi3.SchemaRef{Value: &openapi3.Schema{Type: &openapi3.Types{"object"}, Properties: props}}
	}
	comp := verifChoose("comp", 7)
	types := []string{"integer", "boolean"}
	var schema *openapi3.SchemaRef
	switch comp {
	case 0:
		schema = obj(openapi3.Schemas{"a": {Value: &openapi3.Schema{OneOf: openapi3.SchemaRefs{intS, boolS}}}})
	case 1:
		schema = obj(openapi3.Schemas{"a": {Value: &openapi3.Schema{AnyOf: openapi3.SchemaRefs{intS, boolS}}}})
	case 2:
		schema = obj(openapi3.Schemas{"a": {Value: &openapi3.Schema{AnyOf: openapi3.SchemaRefs{boolS, intS}}}})
	case 3:
		schema, types = obj(openapi3.Schemas{"a": {Value: &openapi3.Schema{AllOf: openapi3.SchemaRefs{intS, untyped}}}}), []string{"integer"}
	case 4:
		schema, types = obj(openapi3.Schemas{"a": {Value: &openapi3.Schema{AllOf: openapi3.SchemaRefs{untyped, boolS}}}}), []string{"boolean"}
	case 5: // the parameter's own schema is allOf of two objects
		schema, types = &openapi3.SchemaRef{Value: &openapi3.Schema{AllOf: openapi3.SchemaRefs{obj(openapi3.Schemas{"a": intS}), obj(openapi3.Schemas{"b": boolS})}}}, []string{"integer"}
	case 6: // ... or anyOf
		schema, types = &openapi3.SchemaRef{Value: &openapi3.Schema{AnyOf: openapi3.SchemaRefs{obj(openapi3.Schemas{"b": boolS}), obj(openapi3.Schemas{"a": intS})}}}, []string{"integer"}
	}
	text := verifLeaf("v", 2, "[]=&")
	q := url.Values{"p[a]": []string{text}}
	withB := comp >= 5 && verifChoose("b", 2) == 1
	if withB {
		q["p[b]"] = []string{"true"}
	}
	var want any
	ok := false
	for _, t := range types {
		if v, good := verifTyped(text, t); good {
			want, ok = v, true
		}
	}
	explode := true
	param := &openapi3.Parameter{Name: "p", In: "query", Style: "deepObject", Explode: &explode, Schema: schema}
	input := &RequestValidationInput{QueryParams: q, Request: &http.Request{Header: http.Header{}, URL: &url.URL{}}}
	got, found, err := decodeStyledParameter(param, input)
	m, isObj := got.(map[string]any)
	// known finding: anyOf / oneOf of object schemas decodes to the first branch that yields an object, even an empty one
	verifKnown("C05-anyof-object-branches-first-wins", comp == 6)
	if ok {
		verifReach("typed")
		verifAssert(err == nil && found && isObj, "C05 deepObject compositions: a well-formed serialisation decodes to an object and is found")
		if err == nil && isObj {
			verifAssert(verifSame(m["a"], want), "C05 deepObject compositions: the member decodes to its typed value")
			if withB {
				verifAssert(len(m) == 2 && m["b"] == true, "C05 deepObject compositions: the members of both branches are in the decoded object")
			} else {
				verifAssert(len(m) == 1, "C05 deepObject compositions: nothing but the member that was sent is in the decoded object")
			}
		}
	} else {
		verifReach("illtyped")
		_, has := m["a"]
		verifAssert(err != nil || !has, "C05 deepObject compositions: a text that is not a serialisation of the declared type is not decoded to a value")
	}
	verifReach("end")
}
