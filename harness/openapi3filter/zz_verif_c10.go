package openapi3filter

// C10 (filter part) — no request or response can make validation of a valid
// document panic. Only assumption: the real Validate of the parameter /
// header / schema returned nil. The panic monitor is the assertion.

import (
	"context"
	"io"
	"net/http"
	"net/url"
	"strings"

	"github.com/getkin/kin-openapi/openapi3"
	"github.com/getkin/kin-openapi/routers"
)

// verifWildParamSchema: legal schema shapes for a parameter, including unusual ones.
func verifWildParamSchema(p string) *openapi3.SchemaRef {
	prim := func(t string) *openapi3.SchemaRef {
		return &openapi3.SchemaRef{Value: &openapi3.Schema{Type: &openapi3.Types{t}}}
	}
	switch verifChoose(p+"schema", 16) {
	case 13: // a type list that is empty, or has two members (both pass Validate)
		return &openapi3.SchemaRef{Value: &openapi3.Schema{Type: &openapi3.Types{}}}
	case 14:
		return &openapi3.SchemaRef{Value: &openapi3.Schema{Type: &openapi3.Types{"integer", "boolean"}}}
	case 15:
		return &openapi3.SchemaRef{Value: &openapi3.Schema{Type: &openapi3.Types{"array"}, Items: &openapi3.SchemaRef{Value: &openapi3.Schema{Type: &openapi3.Types{}}}}}
	case 10: // objects composed with allOf / anyOf / oneOf (each branch declares its own members)
		return &openapi3.SchemaRef{Value: &openapi3.Schema{AllOf: openapi3.SchemaRefs{
			{Value: &openapi3.Schema{Type: &openapi3.Types{"object"}, Properties: openapi3.Schemas{"a": prim("integer")}}},
			{Value: &openapi3.Schema{Type: &openapi3.Types{"object"}, Properties: openapi3.Schemas{"k": prim("string")}}}}}}
	case 11:
		return &openapi3.SchemaRef{Value: &openapi3.Schema{AnyOf: openapi3.SchemaRefs{
			{Value: &openapi3.Schema{Type: &openapi3.Types{"object"}, Properties: openapi3.Schemas{"a": prim("integer")}}},
			{Value: &openapi3.Schema{Type: &openapi3.Types{"object"}, Properties: openapi3.Schemas{"k": prim("string")}}}}}}
	case 12:
		return &openapi3.SchemaRef{Value: &openapi3.Schema{Type: &openapi3.Types{"object"}, OneOf: openapi3.SchemaRefs{
			{Value: &openapi3.Schema{Type: &openapi3.Types{"object"}, Required: []string{"a"}, Properties: openapi3.Schemas{"a": prim("integer")}}},
			{Value: &openapi3.Schema{Type: &openapi3.Types{"object"}, Required: []string{"k"}, Properties: openapi3.Schemas{"k": prim("string")}}}}}}
	case 0:
		return prim("integer")
	case 1:
		return prim("number")
	case 2:
		return prim("boolean")
	case 3:
		return &openapi3.SchemaRef{Value: &openapi3.Schema{Type: &openapi3.Types{"array"}, Items: prim("integer")}}
	case 4:
		return &openapi3.SchemaRef{Value: &openapi3.Schema{Type: &openapi3.Types{"object"}, Properties: openapi3.Schemas{"k": prim("integer")}}}
	case 5: // array reached through allOf
		return &openapi3.SchemaRef{Value: &openapi3.Schema{AllOf: openapi3.SchemaRefs{{Value: &openapi3.Schema{Type: &openapi3.Types{"array"}, Items: prim("number")}}}}}
	case 6: // anyOf / oneOf of primitives
		return &openapi3.SchemaRef{Value: &openapi3.Schema{AnyOf: openapi3.SchemaRefs{prim("integer"), prim("boolean")}}}
	case 7:
		return &openapi3.SchemaRef{Value: &openapi3.Schema{OneOf: openapi3.SchemaRefs{prim("integer"), prim("string")}}}
	case 8: // untyped schema with a pattern
		return &openapi3.SchemaRef{Value: &openapi3.Schema{Pattern: "^a"}}
	case 9: // object with additionalProperties and nested array (deepObject)
		return &openapi3.SchemaRef{Value: &openapi3.Schema{Type: &openapi3.Types{"object"}, Properties: openapi3.Schemas{"a": {Value: &openapi3.Schema{Type: &openapi3.Types{"array"}, Items: prim("integer")}}}, AdditionalProperties: openapi3.AdditionalProperties{Schema: prim("string")}}}
	}
	return prim("string")
}

// verifFootprint: run the validation calls of these harnesses under the footprint monitor of C15
// (the parameter definition and the options are shared; the request is the call's own).
var verifFootprint bool

func verifValidateParam(input *RequestValidationInput, param *openapi3.Parameter) {
	if verifFootprint {
		verifSharedBegin(param, input.Options)
	}
	_ = ValidateParameter(context.Background(), input, param)
	if verifFootprint {
		verifSharedEnd()
	}
}

func verifAnyText(name string, max int) string {
	s := verifNondetString(name, max)
	for i := 0; i < len(s); i++ {
		verifAssume(s[i] < 0x80)
	}
	return s
}

//verif:harness id=C10 tier=quick,thorough witness=end bounds="parameters in path/query/header with every legal style/explode cell and 16 schema shapes (primitives, an empty type list, a list of two types, array, array of items with an empty type list, object, objects composed with allOf / anyOf / oneOf, array via allOf, anyOf, oneOf, untyped+pattern, object with additionalProperties) that pass the real Parameter.Validate x raw text = any ASCII string of 0-3 bytes (delimiters, prefixes and empty pieces included); ValidateParameter with MultiError symbolic; assertion = no panic"
func verifH_C10_params() {
	in := []string{"path", "query", "header"}[verifChoose("in", 3)]
	var style string
	switch in {
	case "path":
		style = []string{"", "simple", "label", "matrix"}[verifChoose("style", 4)]
	case "query":
		style = []string{"", "form", "spaceDelimited", "pipeDelimited", "deepObject"}[verifChoose("style", 5)]
	case "header":
		style = []string{"", "simple"}[verifChoose("style", 2)]
	}
	param := &openapi3.Parameter{Name: "p", In: in, Style: style, Required: in == "path" || verifChoose("required", 2) == 1, Schema: verifWildParamSchema("")}
	switch verifChoose("explode", 3) {
	case 1:
		t := true
		param.Explode = &t
	case 2:
		f := false
		param.Explode = &f
	}
	if param.Validate(context.Background()) != nil {
		return
	}
	input := &RequestValidationInput{Request: &http.Request{Method: "GET", Header: http.Header{}, URL: &url.URL{Path: "/"}}, QueryParams: url.Values{}, PathParams: map[string]string{},
		Options: &Options{MultiError: verifNondetBool("multi"), SkipSettingDefaults: true}}
	raw := verifAnyText("raw", 3)
	switch in {
	case "path":
		input.PathParams["p"] = raw
	case "query":
		key := []string{"p", "p[a]", "p[a][0]", "k"}[verifChoose("qkey", 4)]
		input.QueryParams[key] = []string{raw}
		if verifChoose("second", 2) == 1 {
			input.QueryParams[key] = append(input.QueryParams[key], verifAnyText("raw2", 1))
		}
	case "header":
		input.Request.Header["P"] = []string{raw}
	}
	verifValidateParam(input, param)
	verifReach("end")
}

//verif:harness id=C10 tier=quick,thorough witness=end bounds="response headers that pass the real Header.Validate: defined by schema (integer/array/object) or by content (application/json, schema integer), required symbolic x header absent / any ASCII text of 0-3 bytes (content-defined: eight concrete texts, on one or two lines) x status declared; ValidateResponse; assertion = no panic"
func verifH_C10_response_header() {
	d := "d"
	h := &openapi3.Header{}
	byContent := verifChoose("byContent", 2) == 1
	if byContent {
		h.Content = openapi3.Content{"application/json": &openapi3.MediaType{Schema: &openapi3.SchemaRef{Value: &openapi3.Schema{Type: &openapi3.Types{"integer"}}}}}
	} else {
		h.Schema = verifWildParamSchema("h.")
	}
	h.Required = verifChoose("required", 2) == 1
	if h.Validate(context.Background()) != nil {
		return
	}
	resp := &openapi3.Response{Description: &d, Headers: openapi3.Headers{"X-H": &openapi3.HeaderRef{Value: h}}}
	resps := openapi3.NewResponsesWithCapacity(1)
	resps.Set("200", &openapi3.ResponseRef{Value: resp})
	op := &openapi3.Operation{Responses: resps}
	hdr := http.Header{}
	if verifChoose("hasH", 2) == 1 {
		if byContent {
			// read as JSON text (concrete texts: byte-level JSON parsing of symbolic text is outside the model)
			hdr["X-H"] = []string{[]string{"5", "x", "", "{", "[1]", "null", "5 5", "\"s\""}[verifChoose("text", 8)]}
			if verifChoose("secondLine", 2) == 1 {
				hdr["X-H"] = append(hdr["X-H"], "6")
			}
		} else {
			hdr["X-H"] = []string{verifAnyText("raw", 3)}
		}
	}
	in := verifRespInput(op, "GET", 200, hdr, []byte("x"), &Options{MultiError: verifNondetBool("multi")})
	_ = ValidateResponse(context.Background(), in)
	verifReach("end")
}

//verif:harness id=C10 tier=quick,thorough witness=end bounds="ValidateRequest on operations whose optional parts are absent (no parameters, no body, no security or a document-level requirement with nil Components and with or without an authentication callback, requestBody without content / without schema) x request with or without body and Content-Type any ASCII text of 0-3 bytes; assertion = no panic"
func verifH_C10_request_shapes() {
	op := &openapi3.Operation{}
	switch verifChoose("body", 4) {
	case 1:
		op.RequestBody = &openapi3.RequestBodyRef{Value: &openapi3.RequestBody{Content: openapi3.Content{}}}
	case 2:
		op.RequestBody = &openapi3.RequestBodyRef{Value: &openapi3.RequestBody{Required: true, Content: openapi3.Content{"text/plain": &openapi3.MediaType{}}}}
	case 3:
		op.RequestBody = &openapi3.RequestBodyRef{Value: &openapi3.RequestBody{Content: openapi3.Content{"*/*": &openapi3.MediaType{Schema: &openapi3.SchemaRef{Value: &openapi3.Schema{Type: &openapi3.Types{"string"}}}}}}}
	}
	spec := &openapi3.T{}
	if verifChoose("sec", 2) == 1 {
		spec.Security = openapi3.SecurityRequirements{openapi3.SecurityRequirement{"A": []string{}}}
	}
	req := &http.Request{Method: "GET", Header: http.Header{}, URL: &url.URL{Path: "/"}}
	if verifChoose("ct", 2) == 1 {
		req.Header["Content-Type"] = []string{verifAnyText("ct", 3)}
	}
	switch verifChoose("reqBody", 3) {
	case 1:
		req.Body = http.NoBody
	case 2:
		req.Body = verifBody("ab")
	}
	input := &RequestValidationInput{Request: req, Route: &routers.Route{Spec: spec, PathItem: &openapi3.PathItem{Get: op}, Operation: op, Method: "GET"},
		Options: &Options{MultiError: verifNondetBool("multi")}, QueryParams: url.Values{}, PathParams: map[string]string{}}
	switch verifChoose("nilOptions", 3) {
	case 1:
		input.Options = nil
	case 2:
		// an authentication callback is configured: the requirement's scheme is looked up (there are no components)
		input.Options.AuthenticationFunc = NoopAuthenticationFunc
	}
	err := ValidateRequest(context.Background(), input)
	if err != nil {
		_ = err.Error()
	}
	verifReach("end")
}

//verif:harness id=C10 tier=quick,thorough witness=end bounds="content-defined parameters that pass the real Parameter.Validate: location in {query,header,path,cookie} x media type in {application/json, text/plain} x media-type schema in {absent, string, integer, object, array with items, array without items, untyped} x one or two values drawn from {1, \"a\", abc, {\"a\":1}, [1], {, empty}; ValidateParameter with MultiError symbolic; assertion = no panic (selector-symbolic: concrete texts through the JSON contract model)"
func verifH_C10_content_params() {
	in := []string{"query", "header", "path", "cookie"}[verifChoose("in", 4)]
	mtName := []string{"application/json", "text/plain"}[verifChoose("mt", 2)]
	mt := &openapi3.MediaType{}
	switch verifChoose("schema", 7) {
	case 1:
		mt.Schema = &openapi3.SchemaRef{Value: &openapi3.Schema{Type: &openapi3.Types{"string"}}}
	case 2:
		mt.Schema = &openapi3.SchemaRef{Value: &openapi3.Schema{Type: &openapi3.Types{"integer"}}}
	case 3:
		mt.Schema = &openapi3.SchemaRef{Value: &openapi3.Schema{Type: &openapi3.Types{"object"}}}
	case 4:
		mt.Schema = &openapi3.SchemaRef{Value: &openapi3.Schema{Type: &openapi3.Types{"array"}, Items: &openapi3.SchemaRef{Value: &openapi3.Schema{Type: &openapi3.Types{"integer"}}}}}
	case 5:
		mt.Schema = &openapi3.SchemaRef{Value: &openapi3.Schema{Type: &openapi3.Types{"array"}}}
	case 6:
		mt.Schema = &openapi3.SchemaRef{Value: &openapi3.Schema{}}
	}
	param := &openapi3.Parameter{Name: "p", In: in, Required: in == "path" || verifChoose("required", 2) == 1, Content: openapi3.Content{mtName: mt}}
	if param.Validate(context.Background()) != nil {
		return
	}
	pool := []string{"1", `"a"`, "abc", `{"a":1}`, "[1]", "{", ""}
	vals := []string{pool[verifChoose("v1", len(pool))]}
	if verifChoose("second", 2) == 1 {
		vals = append(vals, pool[verifChoose("v2", len(pool))])
	}
	input := &RequestValidationInput{Request: &http.Request{Method: "GET", Header: http.Header{}, URL: &url.URL{Path: "/"}}, QueryParams: url.Values{}, PathParams: map[string]string{},
		Options: &Options{MultiError: verifNondetBool("multi"), SkipSettingDefaults: true}}
	switch in {
	case "query":
		input.QueryParams["p"] = vals
	case "header":
		input.Request.Header["P"] = vals
	case "path":
		input.PathParams["p"] = vals[0]
	case "cookie":
		input.Request.Header["Cookie"] = []string{"p=" + vals[0]}
	}
	verifValidateParam(input, param)
	verifReach("end")
}

//verif:harness id=C10 tier=quick,thorough witness=end bounds="deepObject query parameters that pass the real Parameter.Validate: object schema in 6 shapes (string / nested object / array of strings / array of objects property, additionalProperties schema, free-form) x one or two query keys drawn from 12 bracket forms (p[a], p[a][b], p[a][0], p[a][1], p[a][0][b], p[b], p[a][x], p[], p[a][, p, p[a][-1], p[a][3], p[a][5000000], p[a][5000000][b]: the work is bounded by the query's size, not by the index) x values from {1, x, empty}; parameter name p, or (one key) a name with regular-expression or bracket characters: s(v, a[b, p.q; ValidateParameter with MultiError symbolic; assertion = no panic (concrete texts chosen by the explorer)"
func verifH_C10_deepobject() {
	verifMapOrder() // map iteration order is unspecified: ascending and descending key order
	str := &openapi3.SchemaRef{Value: &openapi3.Schema{Type: &openapi3.Types{"string"}}}
	objB := &openapi3.SchemaRef{Value: &openapi3.Schema{Type: &openapi3.Types{"object"}, Properties: openapi3.Schemas{"b": str}}}
	var a *openapi3.SchemaRef
	obj := &openapi3.Schema{Type: &openapi3.Types{"object"}}
	switch verifChoose("schema", 6) {
	case 0:
		a = str
	case 1:
		a = objB
	case 2:
		a = &openapi3.SchemaRef{Value: &openapi3.Schema{Type: &openapi3.Types{"array"}, Items: str}}
	case 3:
		a = &openapi3.SchemaRef{Value: &openapi3.Schema{Type: &openapi3.Types{"array"}, Items: objB}}
	case 4:
		obj.AdditionalProperties.Schema = str
	}
	if a != nil {
		obj.Properties = openapi3.Schemas{"a": a}
	}
	explode := true
	// parameter names are free text: brackets, parentheses and dots are legal in a name
	name := []string{"p", "s(v", "a[b", "p.q"}[verifChoose("name", 4)]
	param := &openapi3.Parameter{Name: name, In: "query", Style: "deepObject", Explode: &explode, Schema: &openapi3.SchemaRef{Value: obj}}
	if param.Validate(context.Background()) != nil {
		return
	}
	keys := []string{"[a]", "[a][b]", "[a][0]", "[a][1]", "[a][0][b]", "[b]", "[a][x]", "[]", "[a][", "", "[a][-1]", "[a][3]", "[a][5000000]", "[a][5000000][b]"}
	vals := []string{"1", "x", ""}
	q := url.Values{}
	k1 := verifChoose("k1", len(keys))
	q[name+keys[k1]] = []string{vals[verifChoose("v1", 3)]}
	if name == "p" && verifChoose("second", 2) == 1 {
		k2 := verifChoose("k2", len(keys))
		if k2 != k1 {
			q[name+keys[k2]] = []string{vals[verifChoose("v2", 3)]}
		} else {
			q[name+keys[k1]] = append(q[name+keys[k1]], vals[verifChoose("v2", 3)])
		}
	}
	input := &RequestValidationInput{Request: &http.Request{Method: "GET", Header: http.Header{}, URL: &url.URL{Path: "/"}}, QueryParams: q, PathParams: map[string]string{},
		Options: &Options{MultiError: verifNondetBool("multi"), SkipSettingDefaults: true}}
	verifValidateParam(input, param)
	verifReach("end")
}

//verif:harness id=C10 tier=quick,thorough witness=end depth=3000 bounds="parameters whose schema is recursive through a composition (Node = oneOf / anyOf / allOf [integer, Node]) and passes the real Validate x location query/path/header x raw text in {5, x, empty}: decoding and validating terminate without panic"
func verifH_C10_recursive_param() {
	node := &openapi3.Schema{}
	self := &openapi3.SchemaRef{Ref: "#/components/schemas/Node", Value: node}
	integer := &openapi3.SchemaRef{Value: &openapi3.Schema{Type: &openapi3.Types{"integer"}}}
	comp := verifChoose("comp", 3)
	switch comp {
	case 0:
		node.OneOf = openapi3.SchemaRefs{integer, self}
	case 1:
		node.AnyOf = openapi3.SchemaRefs{integer, self}
	case 2:
		node.AllOf = openapi3.SchemaRefs{integer, self}
	}
	in := []string{"query", "path", "header"}[verifChoose("in", 3)]
	param := &openapi3.Parameter{Name: "p", In: in, Required: in == "path", Schema: self}
	if param.Validate(context.Background()) != nil {
		return
	}
	raw := []string{"5", "x", ""}[verifChoose("raw", 3)]
	input := &RequestValidationInput{Request: &http.Request{Method: "GET", Header: http.Header{}, URL: &url.URL{Path: "/"}}, QueryParams: url.Values{}, PathParams: map[string]string{},
		Options: &Options{SkipSettingDefaults: true}}
	switch in {
	case "query":
		input.QueryParams["p"] = []string{raw}
	case "path":
		input.PathParams["p"] = raw
	case "header":
		input.Request.Header["P"] = []string{raw}
	}
	// known finding: decodeValue follows the composition back into the same schema without a guard
	verifKnown("C10-recursive-composition-parameter", true)
	verifValidateParam(input, param)
	verifReach("end")
}

//verif:harness id=C10 tier=quick,thorough witness=end bounds="ValidateResponse with optional parts absent: response declaring no content / text/plain without schema / text/plain with a string schema / application/json with an object schema x Body nil / http.NoBody / one of four texts (empty, a, {}, {) x Content-Type absent / text/plain / application/json x header map nil or not x Options nil or not; assertion = no panic"
func verifH_C10_response_optional_parts() {
	d := "d"
	resp := &openapi3.Response{Description: &d}
	switch verifChoose("content", 4) {
	case 1:
		resp.Content = openapi3.Content{"text/plain": &openapi3.MediaType{}}
	case 2:
		resp.Content = openapi3.Content{"text/plain": &openapi3.MediaType{Schema: &openapi3.SchemaRef{Value: &openapi3.Schema{Type: &openapi3.Types{"string"}}}}}
	case 3:
		resp.Content = openapi3.Content{"application/json": &openapi3.MediaType{Schema: &openapi3.SchemaRef{Value: &openapi3.Schema{Type: &openapi3.Types{"object"}}}}}
	}
	resps := openapi3.NewResponsesWithCapacity(1)
	resps.Set("200", &openapi3.ResponseRef{Value: resp})
	op := &openapi3.Operation{Responses: resps}
	var hdr http.Header
	switch verifChoose("ct", 4) {
	case 1:
		hdr = http.Header{}
	case 2:
		hdr = http.Header{"Content-Type": []string{"text/plain"}}
	case 3:
		hdr = http.Header{"Content-Type": []string{"application/json"}}
	}
	var opts *Options
	if verifChoose("opts", 2) == 1 {
		opts = &Options{MultiError: verifNondetBool("multi")}
	}
	in := verifRespInput(op, "GET", 200, hdr, nil, opts)
	switch verifChoose("body", 3) {
	case 1:
		in.Body = http.NoBody
	case 2:
		in.Body = io.NopCloser(strings.NewReader([]string{"", "a", "{}", "{"}[verifChoose("b", 4)]))
	}
	_ = ValidateResponse(context.Background(), in)
	verifReach("end")
}

//verif:harness id=C10 tier=quick,thorough witness=end bounds="turning validation errors into responses: ConvertErrors / ValidationErrorEncoder on every RequestError shape of the C14 convert_errors harness (parameter absent or in path/query/header, body absent or present, eight error shapes incl. parse errors nested in parse errors, three route answers); assertion = no panic"
func verifH_C10_convert_errors() { verifH_C14_convert_errors() }

//verif:harness id=C10 tier=quick,thorough witness=end bounds="media types declared without a schema (legal) or with one: application/json, application/x-www-form-urlencoded, multipart/form-data, text/plain, application/octet-stream x schema in {absent, object with a string property, string, an empty type list, object with a property whose type list is empty / has two members} x a non-empty body of that type (well-formed or garbage), as a request body (required or not) and as a response body; MultiError symbolic; assertion = no panic"
func verifH_C10_schemaless_media_types() {
	k := verifChoose("mediaType", 5)
	declared := []string{"application/json", "application/x-www-form-urlencoded", "multipart/form-data", "text/plain", "application/octet-stream"}[k]
	sent := declared
	if k == 2 {
		sent = "multipart/form-data; boundary=XX"
	}
	good := []string{`{"s":"v"}`, "s=v", "--XX\r\nContent-Disposition: form-data; name=\"s\"\r\n\r\nv\r\n--XX--\r\n", "v", "v"}[k]
	body := good
	if verifChoose("garbage", 2) == 1 {
		body = "%zz{="
	}
	mt := &openapi3.MediaType{}
	switch verifChoose("schema", 6) {
	case 1:
		mt.Schema = &openapi3.SchemaRef{Value: &openapi3.Schema{Type: &openapi3.Types{"object"}, Properties: openapi3.Schemas{"s": {Value: &openapi3.Schema{Type: &openapi3.Types{"string"}}}}}}
	case 2:
		mt.Schema = &openapi3.SchemaRef{Value: &openapi3.Schema{Type: &openapi3.Types{"string"}}}
	case 3: // a type list that is empty (it passes Validate), at the top or on a property; a list of two types
		mt.Schema = &openapi3.SchemaRef{Value: &openapi3.Schema{Type: &openapi3.Types{}}}
	case 4:
		mt.Schema = &openapi3.SchemaRef{Value: &openapi3.Schema{Type: &openapi3.Types{"object"}, Properties: openapi3.Schemas{"s": {Value: &openapi3.Schema{Type: &openapi3.Types{}}}}}}
	case 5:
		mt.Schema = &openapi3.SchemaRef{Value: &openapi3.Schema{Type: &openapi3.Types{"object"}, Properties: openapi3.Schemas{"s": {Value: &openapi3.Schema{Type: &openapi3.Types{"integer", "boolean"}}}}}}
	}
	if mt.Validate(context.Background()) != nil {
		return
	}
	opts := &Options{MultiError: verifNondetBool("multi")}
	if verifChoose("side", 2) == 0 {
		rb := &openapi3.RequestBody{Required: verifChoose("required", 2) == 1, Content: openapi3.Content{declared: mt}}
		op := &openapi3.Operation{RequestBody: &openapi3.RequestBodyRef{Value: rb}}
		req := &http.Request{Method: "POST", Header: http.Header{"Content-Type": []string{sent}}, URL: &url.URL{Path: "/"}, Body: verifBody(body), ContentLength: int64(len(body))}
		input := &RequestValidationInput{Request: req, Route: &routers.Route{Spec: &openapi3.T{}, PathItem: &openapi3.PathItem{Post: op}, Operation: op, Method: "POST"}, Options: opts, QueryParams: url.Values{}, PathParams: map[string]string{}}
		if err := ValidateRequest(context.Background(), input); err != nil {
			_ = err.Error()
		}
	} else {
		d := "d"
		resps := openapi3.NewResponsesWithCapacity(1)
		resps.Set("200", &openapi3.ResponseRef{Value: &openapi3.Response{Description: &d, Content: openapi3.Content{declared: mt}}})
		op := &openapi3.Operation{Responses: resps}
		in := verifRespInput(op, "GET", 200, http.Header{"Content-Type": []string{sent}}, []byte(body), opts)
		if err := ValidateResponse(context.Background(), in); err != nil {
			_ = err.Error()
		}
	}
	verifReach("end")
}
