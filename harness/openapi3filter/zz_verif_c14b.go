package openapi3filter

// C14, the middleware validates responses under the options it was built with.

import (
	"bytes"
	"context"
	"net/http"
	"net/url"

	"github.com/getkin/kin-openapi/openapi3"
	"github.com/getkin/kin-openapi/routers"
)

//verif:harness id=C14 tier=quick,thorough witness=end,replaced,delivered bounds="validator options: ValidationOptions with IncludeResponseStatus / ExcludeResponseBody / MultiError (each symbolic) x strict or not; operation declaring 200 and 500 with a text/plain body of maxLength symbolic 0..2; handler answers 200, 404 or 500 with a text/plain body of 0-2 bytes: in strict mode the response is replaced by a server error exactly when it is invalid under those options (undeclared status only with IncludeResponseStatus, body too long only without ExcludeResponseBody), otherwise delivered with the handler's status and body"
func verifH_C14_middleware_options() {
	d := "d"
	maxLen := uint64(verifChoose("maxLength", 3))
	resps := openapi3.NewResponsesWithCapacity(1)
	resps.Set("200", &openapi3.ResponseRef{Value: &openapi3.Response{Description: &d, Content: openapi3.Content{
		"text/plain": &openapi3.MediaType{Schema: &openapi3.SchemaRef{Value: &openapi3.Schema{Type: &openapi3.Types{"string"}, MaxLength: &maxLen}}}}}})
	// a declared server error is a response like any other
	resps.Set("500", &openapi3.ResponseRef{Value: &openapi3.Response{Description: &d, Content: openapi3.Content{
		"text/plain": &openapi3.MediaType{Schema: &openapi3.SchemaRef{Value: &openapi3.Schema{Type: &openapi3.Types{"string"}, MaxLength: &maxLen}}}}}})
	op := &openapi3.Operation{Responses: resps}
	route := &routers.Route{Spec: &openapi3.T{}, PathItem: &openapi3.PathItem{Get: op}, Operation: op, Method: "GET"}
	strict := verifChoose("strict", 2) == 1
	opts := Options{IncludeResponseStatus: verifNondetBool("includeStatus"), ExcludeResponseBody: verifNondetBool("excludeBody"), MultiError: verifNondetBool("multi")}
	status := []int{200, 404, 500}[verifChoose("status", 3)]
	body := []byte("xx"[:verifChoose("bodyLen", 3)])
	h := http.HandlerFunc(func(w http.ResponseWriter, r *http.Request) {
		w.Header().Set("Content-Type", "text/plain")
		w.WriteHeader(status)
		w.Write(body)
	})
	errs := 0
	v := NewValidator(&verifRouter{route: route, found: true}, Strict(strict), ValidationOptions(opts),
		OnErr(func(_ context.Context, w http.ResponseWriter, st int, code ErrCode, _ error) {
			errs++
			w.WriteHeader(st)
			w.Write([]byte("E"))
		}),
		OnLog(func(context.Context, string, error) {}))
	rec := &verifRecorder{header: http.Header{}}
	req := (&http.Request{Method: "GET", Header: http.Header{}, URL: &url.URL{Path: "/"}}).WithContext(context.Background())
	v.Middleware(h).ServeHTTP(rec, req)
	valid := true
	if status == 404 {
		if opts.IncludeResponseStatus {
			valid = false // a status without a definition is refused only when asked for
		}
	} else if !opts.ExcludeResponseBody {
		if uint64(len(body)) > maxLen {
			valid = false
		}
	}
	if strict && !valid {
		verifReach("replaced")
		verifAssert(errs == 1 && rec.status == 500 && bytes.Equal(rec.body, []byte("E")), "C14 options: in strict mode a response that is invalid under the validator's options is replaced by a server error")
	} else {
		verifReach("delivered")
		verifAssert(errs == 0 && rec.status == status && bytes.Equal(rec.body, body), "C14 options: a response that is valid under the validator's options (or any response in non-strict mode) reaches the client as the handler wrote it")
	}
	verifReach("end")
}
