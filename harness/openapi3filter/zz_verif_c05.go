package openapi3filter

// C05 — parameters are decoded as the inverse of OpenAPI style serialisation.
// A reference *serialiser* written from the OAS 3.0.3 style table produces the
// request text from symbolic leaf texts; the real decoder must give back the
// same structure, typed by the declared schema.

import (
	"context"
	"math"
	"net/http"
	"net/url"
	"reflect"
	"strconv"
	"strings"

	"github.com/getkin/kin-openapi/openapi3"
)

// verifLeaf: a non-empty printable-ASCII text (1..max bytes) free of the given delimiters.
func verifLeaf(name string, max int, forbidden string) string {
	n := 1 + verifChoose(name+".len", max)
	s := verifNondetStringN(name, n)
	for i := 0; i < len(s); i++ {
		verifAssume(s[i] > 0x20 && s[i] < 0x7f)
		for j := 0; j < len(forbidden); j++ {
			verifAssume(s[i] != forbidden[j])
		}
	}
	return s
}

var verifTypeNames = []string{"string", "integer", "number", "boolean"}

// verifTyped: what a leaf text denotes under a primitive type; ok=false when
// the text is not a serialisation of that type.
func verifTyped(text string, typ string) (any, bool) {
	switch typ {
	case "integer":
		v, err := strconv.ParseInt(text, 10, 64) // integers travel in decimal: 0x10, 0b11, 0o7, 1_000 are not serialisations of an integer
		return v, err == nil
	case "number":
		// numbers travel in decimal notation: NaN and Inf are not serialisations of a number (Go's
		// hexadecimal forms need five bytes and its underscore forms are assumed away: outside the bound)
		for i := 0; i < len(text); i++ {
			verifAssume(text[i] != '_')
		}
		v, err := strconv.ParseFloat(text, 64)
		if err != nil || v != v || v > math.MaxFloat64 || v < -math.MaxFloat64 {
			return nil, false
		}
		return v, true
	case "boolean":
		// a boolean travels as true or false; Go's ParseBool also takes 1, t, T, TRUE, 0, f, ... which
		// are not serialisations of a boolean (the oracle used to share that call with the implementation)
		switch text {
		case "true":
			return true, true
		case "false":
			return false, true
		}
		return nil, false
	}
	return text, true
}

func verifPrimSchema(typ string) *openapi3.SchemaRef {
	return &openapi3.SchemaRef{Value: &openapi3.Schema{Type: &openapi3.Types{typ}}}
}

// ---- reference serialiser (OAS 3.0.3, "Style Examples") ----

func verifJoin(parts []string, sep string) string {
	out := ""
	for i, p := range parts {
		if i > 0 {
			out += sep
		}
		out += p
	}
	return out
}

// path parameter text for a primitive / array / object (keys and values interleaved)
func verifSerPath(style string, explode bool, name string, shape int, items []string, keys []string) string {
	switch shape {
	case 0: // primitive
		switch style {
		case "simple":
			return items[0]
		case "label":
			return "." + items[0]
		case "matrix":
			return ";" + name + "=" + items[0]
		}
	case 1: // array
		switch style {
		case "simple":
			return verifJoin(items, ",")
		case "label":
			if explode {
				return "." + verifJoin(items, ".")
			}
			return "." + verifJoin(items, ",")
		case "matrix":
			if explode {
				out := ""
				for _, it := range items {
					out += ";" + name + "=" + it
				}
				return out
			}
			return ";" + name + "=" + verifJoin(items, ",")
		}
	case 2: // object
		var kv []string
		if explode {
			for i := range items {
				kv = append(kv, keys[i]+"="+items[i])
			}
		} else {
			for i := range items {
				kv = append(kv, keys[i], items[i])
			}
		}
		switch style {
		case "simple":
			return verifJoin(kv, ",")
		case "label":
			if explode {
				return "." + verifJoin(kv, ".")
			}
			return "." + verifJoin(kv, ",")
		case "matrix":
			if explode {
				out := ""
				for _, p := range kv {
					out += ";" + p
				}
				return out
			}
			return ";" + name + "=" + verifJoin(kv, ",")
		}
	}
	return ""
}

func verifDelims(style string) string {
	switch style {
	case "simple", "form":
		return ",="
	case "label":
		return ".,="
	case "matrix":
		return ";,="
	case "spaceDelimited":
		return " ,="
	case "pipeDelimited":
		return "|,="
	case "deepObject":
		return "[]=&"
	}
	return ","
}

// verifSame: equality of decoded leaves (NaN equals NaN: "NaN" is a legal float text).
func verifSame(a, b any) bool {
	if x, ok := a.(float64); ok {
		if y, ok := b.(float64); ok {
			return x == y || (x != x && y != y)
		}
		return false
	}
	return reflect.DeepEqual(a, b)
}

// verifCheckDecoded compares the decoder's result with the expected structure.
func verifCheckDecoded(what string, got any, found bool, err error, shape int, texts []string, keys []string, types []string) {
	allOK := true
	want := make([]any, len(texts))
	for i := range texts {
		v, ok := verifTyped(texts[i], types[i])
		want[i] = v
		if !ok {
			allOK = false
		}
	}
	if !allOK {
		_, isParse := err.(*ParseError)
		verifAssert(err != nil && isParse, "C05 "+what+": a leaf that is not a serialisation of its declared type yields a ParseError")
		return
	}
	verifAssert(err == nil, "C05 "+what+": a well-formed serialisation decodes without error")
	if err != nil {
		return
	}
	verifAssert(found, "C05 "+what+": a present parameter is reported as found")
	switch shape {
	case 0:
		verifAssert(verifSame(got, want[0]), "C05 "+what+": primitive decodes to the serialised value")
	case 1:
		arr, ok := got.([]any)
		verifAssert(ok && len(arr) == len(want), "C05 "+what+": array decodes to the same number of items")
		if ok && len(arr) == len(want) {
			for i := range want {
				verifAssert(verifSame(arr[i], want[i]), "C05 "+what+": array item decodes to the serialised item, in order")
			}
		}
	case 2:
		obj, ok := got.(map[string]any)
		verifAssert(ok && len(obj) == len(want), "C05 "+what+": object decodes to the same set of properties")
		if ok && len(obj) == len(want) {
			for i := range want {
				verifAssert(verifSame(obj[keys[i]], want[i]), "C05 "+what+": object property decodes to the serialised value")
			}
		}
	}
}

func verifParamSchema(shape int, keys []string, types []string) *openapi3.SchemaRef {
	switch shape {
	case 0:
		return verifPrimSchema(types[0])
	case 1:
		return &openapi3.SchemaRef{Value: &openapi3.Schema{Type: &openapi3.Types{"array"}, Items: verifPrimSchema(types[0])}}
	}
	props := openapi3.Schemas{}
	for i, k := range keys {
		props[k] = verifPrimSchema(types[i])
	}
	return &openapi3.SchemaRef{Value: &openapi3.Schema{Type: &openapi3.Types{"object"}, Properties: props}}
}

// verifShape draws the value shape: number of leaves, their types and texts.
func verifShape(maxItems, leafMax int, forbidden string) (shape int, texts, keys, types []string) {
	shape = verifChoose("shape", 3)
	allKeys := []string{"k", "m"}
	switch shape {
	case 0:
		types = []string{verifTypeNames[verifChoose("type", 4)]}
		texts = []string{verifLeaf("v", leafMax, forbidden)}
	case 1:
		n := 1 + verifChoose("n", maxItems)
		t := verifTypeNames[verifChoose("type", 4)]
		for i := 0; i < n; i++ {
			types = append(types, t)
			texts = append(texts, verifLeaf("v", leafMax, forbidden))
		}
	case 2:
		n := 1 + verifChoose("n", 2)
		for i := 0; i < n; i++ {
			keys = append(keys, allKeys[i])
			types = append(types, verifTypeNames[verifChoose("type", 4)])
			texts = append(texts, verifLeaf("v", leafMax, forbidden))
		}
	}
	return
}

func verifC05Path(maxItems, leafMax int) {
	style := []string{"simple", "label", "matrix"}[verifChoose("style", 3)]
	explode := verifChoose("explode", 2) == 1
	shape, texts, keys, types := verifShape(maxItems, leafMax, verifDelims(style)+"/")
	name := "p"
	raw := verifSerPath(style, explode, name, shape, texts, keys)
	param := &openapi3.Parameter{Name: name, In: "path", Style: style, Explode: &explode, Required: true, Schema: verifParamSchema(shape, keys, types)}
	input := &RequestValidationInput{PathParams: map[string]string{name: raw}, Request: &http.Request{Header: http.Header{}, URL: &url.URL{}}}
	got, found, err := decodeStyledParameter(param, input)
	verifCheckDecoded("path/"+style, got, found, err, shape, texts, keys, types)
	verifReach("end")
}

//verif:harness id=C05 tier=quick witness=end bounds="path parameters: style in {simple,label,matrix} x explode x shape in {primitive, array of 1-2, object of 1-2 properties} x leaf type in {string,integer,number,boolean} x every printable-ASCII leaf text of 1-2 bytes without the style's delimiters"
func verifH_C05_path() { verifC05Path(2, 2) }

//verif:harness id=C05 tier=thorough witness=end bounds="path parameters as quick with arrays of 1-3 items and leaf texts of 1-3 bytes"
func verifH_C05_path3() { verifC05Path(3, 3) }

func verifC05Query(maxItems, leafMax int) {
	style := []string{"form", "spaceDelimited", "pipeDelimited", "deepObject"}[verifChoose("style", 4)]
	// explode false / true / unset: unset means true for form (and for deepObject, which is only defined
	// exploded) and false for the delimited styles (OAS 3.0.3: "when style is form the default is true, for all other styles false")
	explodeSel := verifChoose("explode", 3)
	explode := explodeSel == 1
	if explodeSel == 2 {
		explode = style == "form" || style == "deepObject"
	}
	shape, texts, keys, types := verifShape(maxItems, leafMax, verifDelims(style)+"&")
	// legal cells only (OAS 3.0.3): space/pipe-delimited are for arrays, deepObject for exploded objects
	verifAssume(!(style == "spaceDelimited" || style == "pipeDelimited") || shape == 1)
	verifAssume(style != "deepObject" || (shape == 2 && explode))
	name := "q"
	q := url.Values{}
	switch {
	case shape == 0:
		q[name] = []string{texts[0]}
	case shape == 1 && explode:
		q[name] = append([]string(nil), texts...)
	case shape == 1:
		delim := map[string]string{"form": ",", "spaceDelimited": " ", "pipeDelimited": "|"}[style]
		q[name] = []string{verifJoin(texts, delim)}
	case style == "deepObject":
		for i, k := range keys {
			q[name+"["+k+"]"] = []string{texts[i]}
		}
	case explode:
		for i, k := range keys {
			q[k] = []string{texts[i]}
		}
	default:
		var kv []string
		for i, k := range keys {
			kv = append(kv, k, texts[i])
		}
		q[name] = []string{verifJoin(kv, ",")}
	}
	param := &openapi3.Parameter{Name: name, In: "query", Style: style, Explode: &explode, Schema: verifParamSchema(shape, keys, types)}
	if explodeSel == 2 {
		param.Explode = nil
	}
	input := &RequestValidationInput{QueryParams: q, Request: &http.Request{Header: http.Header{}, URL: &url.URL{}}}
	got, found, err := decodeStyledParameter(param, input)
	verifCheckDecoded("query/"+style, got, found, err, shape, texts, keys, types)
	verifReach("end")
}

//verif:harness id=C05 tier=quick witness=end bounds="query parameters: the legal cells of style in {form,spaceDelimited,pipeDelimited,deepObject} x explode false / true / unset (the specification's default per style) x shape (primitive, array of 1-2, object of 1-2 properties) x leaf type x every printable-ASCII leaf text of 1-2 bytes without the style's delimiters; query given as url.Values (no URL parsing)"
func verifH_C05_query() { verifC05Query(2, 2) }

//verif:harness id=C05 tier=thorough witness=end bounds="query parameters as quick with arrays of 1-3 items and leaf texts of 1-3 bytes"
func verifH_C05_query3() { verifC05Query(3, 3) }

func verifC05Header(maxItems, leafMax int) {
	explode := verifChoose("explode", 2) == 1
	shape, texts, keys, types := verifShape(maxItems, leafMax, verifDelims("simple"))
	// header names are case-insensitive: the document may spell the name in any case
	name := []string{"X-P", "x-p", "X-p"}[verifChoose("spelling", 3)]
	raw := verifSerPath("simple", explode, name, shape, texts, keys)
	param := &openapi3.Parameter{Name: name, In: "header", Explode: &explode, Schema: verifParamSchema(shape, keys, types)}
	input := &RequestValidationInput{Request: &http.Request{Header: http.Header{"X-P": []string{raw}}, URL: &url.URL{}}}
	got, found, err := decodeStyledParameter(param, input)
	verifCheckDecoded("header/simple", got, found, err, shape, texts, keys, types)
	verifReach("end")
}

//verif:harness id=C05 tier=quick,thorough witness=end bounds="header parameters: style simple x explode x shape (primitive, array of 1-2, object of 1-2 properties) x leaf type x every printable-ASCII leaf text of 1-2 bytes without ',' '='; parameter name spelled X-P / x-p / X-p in the document; header given as http.Header (no wire parsing)"
func verifH_C05_header() { verifC05Header(2, 2) }

//verif:harness id=C05 tier=quick,thorough witness=end bounds="presence: path/query/header parameter absent, present-empty or present (integer leaf text of 1-2 bytes) x required x schema default present or not x default-setting on or off x ValidateParameter: absent+required => ErrInvalidRequired (also when the schema has a default), absent+optional => nil, present => verdict equals VisitJSON of the decoded value (schema integer with symbolic minimum)"
func verifH_C05_presence() {
	in := []string{"path", "query", "header"}[verifChoose("in", 3)]
	required := verifChoose("required", 2) == 1
	if in == "path" {
		required = true
	}
	min := verifNondetFloat64("min")
	verifAssume(min == min)
	schema := &openapi3.SchemaRef{Value: &openapi3.Schema{Type: &openapi3.Types{"integer"}, Min: &min}}
	// a schema default does not make a required parameter optional
	hasDefault := verifChoose("default", 2) == 1
	if hasDefault {
		schema.Value.Default = 7.0
	}
	skipDefaults := verifChoose("skipDefaults", 2) == 1
	name := "P"
	param := &openapi3.Parameter{Name: name, In: in, Required: required, Schema: schema}
	input := &RequestValidationInput{Request: &http.Request{Header: http.Header{}, URL: &url.URL{}}, QueryParams: url.Values{}, PathParams: map[string]string{}, Options: &Options{SkipSettingDefaults: skipDefaults}}
	presence := verifChoose("presence", 3) // 0 absent, 1 empty, 2 present
	text := ""
	if presence == 2 {
		text = verifLeaf("v", 2, ",")
	}
	if presence != 0 {
		switch in {
		case "path":
			input.PathParams[name] = text
		case "query":
			input.QueryParams[name] = []string{text}
		case "header":
			input.Request.Header[name] = []string{text}
		}
	}
	// other parameters exist so that "no parameters at all" shortcuts are not the only path
	input.PathParams["other"] = "1"
	input.QueryParams["other"] = []string{"1"}
	err := ValidateParameter(nil, input, param)
	switch presence {
	case 0:
		if required {
			re, ok := err.(*RequestError)
			verifAssert(ok && re.Err == ErrInvalidRequired, "C05 presence: an absent required parameter is ErrInvalidRequired")
		} else if hasDefault && !skipDefaults {
			verifAssert((err == nil) == (7 >= min), "C05 presence: an absent optional parameter with a default is judged by its default")
		} else {
			verifAssert(err == nil, "C05 presence: an absent optional parameter is accepted")
		}
	case 2:
		v, ok := verifTyped(text, "integer")
		if ok {
			want := schema.Value.VisitJSON(v) == nil
			verifAssert((err == nil) == want, "C05 presence: a present parameter is accepted iff its decoded value satisfies the schema")
		} else {
			verifAssert(err != nil, "C05 presence: a present parameter that does not parse is rejected")
		}
	}
	verifReach("end")
}

//verif:harness id=C05 tier=quick,thorough witness=end,inrange,outofrange bounds="integer parameters at the range boundaries of their format: format in {none,int32,int64} x location in {path simple, query form, header} x text = one of 6 decimal prefixes (around +-2^31, 2^32, +-2^63, none) followed by two symbolic decimal digits (strconv.ParseInt exact through the table of all 100 instantiations): in range => the exact value in the format's Go type, out of range => ParseError, never a wrapped value"
func verifH_C05_int_bounds() {
	format := []string{"", "int32", "int64"}[verifChoose("format", 3)]
	type pre struct {
		text  string
		base  int64 // value of the prefix * 100
		neg   bool
		max32 int // largest two-digit tail still inside int32 (-1: none, 99: all)
		max64 int
	}
	prefixes := []pre{
		{"", 0, false, 99, 99},
		{"21474836", 2147483600, false, 47, 99},
		{"-21474836", -2147483600, true, 48, 99},
		{"42949672", 4294967200, false, -1, 99},
		{"92233720368547758", 9223372036854775800, false, -1, 7},
		{"-92233720368547758", -9223372036854775800, true, -1, 8},
	}
	p := prefixes[verifChoose("prefix", len(prefixes))]
	d1 := verifNondetByteIn("d1", "0123456789")
	d2 := verifNondetByteIn("d2", "0123456789")
	if p.text == "" {
		_ = d1 // leading zeros are plain decimal digits
	}
	text := p.text + string([]byte{d1, d2})
	tail := int(d1-'0')*10 + int(d2-'0')
	limit := p.max64
	if format == "int32" {
		limit = p.max32
	}
	schema := &openapi3.SchemaRef{Value: &openapi3.Schema{Type: &openapi3.Types{"integer"}, Format: format}}
	var param *openapi3.Parameter
	input := &RequestValidationInput{Request: &http.Request{Header: http.Header{}, URL: &url.URL{}}}
	switch verifChoose("in", 3) {
	case 0:
		param = &openapi3.Parameter{Name: "p", In: "path", Required: true, Schema: schema}
		input.PathParams = map[string]string{"p": text}
	case 1:
		param = &openapi3.Parameter{Name: "p", In: "query", Schema: schema}
		input.QueryParams = url.Values{"p": []string{text}}
	default:
		param = &openapi3.Parameter{Name: "X-P", In: "header", Schema: schema}
		input.Request.Header["X-P"] = []string{text}
	}
	got, found, err := decodeStyledParameter(param, input)
	if tail <= limit {
		var n int64
		if p.neg {
			n = p.base - int64(tail)
		} else {
			n = p.base + int64(tail)
		}
		verifAssert(err == nil && found, "C05 integer bounds: a text inside the format's range decodes")
		if format == "int32" {
			v, ok := got.(int32)
			verifAssert(ok && int64(v) == n, "C05 integer bounds: int32 text decodes to exactly its value")
		} else {
			v, ok := got.(int64)
			verifAssert(ok && v == n, "C05 integer bounds: integer text decodes to exactly its value")
		}
		verifReach("inrange")
	} else {
		_, isParse := err.(*ParseError)
		verifAssert(err != nil && isParse, "C05 integer bounds: a text outside the format's range is a ParseError, not a wrapped value")
		verifReach("outofrange")
	}
	verifReach("end")
}

func verifC05Cookie(maxItems, leafMax int) {
	explode := verifChoose("explode", 2) == 1
	// bytes a cookie value cannot carry (net/http drops or rewrites them) are outside the claim
	shape, texts, keys, types := verifShape(maxItems, leafMax, ",=;\"\\ ")
	verifAssume(shape == 0 || !explode) // arrays and objects in cookies are only defined non-exploded
	name := "q"
	raw := ""
	switch shape {
	case 0:
		raw = texts[0]
	case 1:
		raw = verifJoin(texts, ",")
	default:
		var kv []string
		for i, k := range keys {
			kv = append(kv, k, texts[i])
		}
		raw = verifJoin(kv, ",")
	}
	param := &openapi3.Parameter{Name: name, In: "cookie", Style: "form", Explode: &explode, Schema: verifParamSchema(shape, keys, types)}
	input := &RequestValidationInput{Request: &http.Request{Header: http.Header{"Cookie": []string{"other=1; " + name + "=" + raw}}, URL: &url.URL{}}}
	got, found, err := decodeStyledParameter(param, input)
	verifCheckDecoded("cookie/form", got, found, err, shape, texts, keys, types)
	verifReach("end")
}

//verif:harness id=C05 tier=quick,thorough witness=end bounds="cookie parameters: style form x shape (primitive with either explode, non-exploded array of 1-2, non-exploded object of 1-2 properties) x leaf type x every printable-ASCII leaf text of 1-2 bytes without , = ; quote backslash space; the Cookie header is parsed by the interpreted net/http code"
func verifH_C05_cookie() { verifC05Cookie(2, 2) }

//verif:harness id=C05 tier=quick,thorough witness=end bounds="compositions: a primitive parameter (query form / path simple / header) whose schema is allOf [typed, untyped-constraint] in either order, allOf [typed, typed], anyOf [integer, boolean] or oneOf [integer, string-with-pattern-free]; leaf type in {string,integer,number,boolean}; every printable-ASCII text of 1-2 bytes: a well-formed text decodes to the typed value, anything else is not accepted silently as another value"
func verifH_C05_compositions() {
	typ := verifTypeNames[verifChoose("type", 4)]
	typed := verifPrimSchema(typ)
	untyped := &openapi3.SchemaRef{Value: &openapi3.Schema{Description: "a constraint-only branch"}}
	var schema *openapi3.SchemaRef
	comp := verifChoose("comp", 4)
	switch comp {
	case 0:
		schema = &openapi3.SchemaRef{Value: &openapi3.Schema{AllOf: openapi3.SchemaRefs{typed, untyped}}}
	case 1:
		schema = &openapi3.SchemaRef{Value: &openapi3.Schema{AllOf: openapi3.SchemaRefs{untyped, typed}}}
	case 2:
		schema = &openapi3.SchemaRef{Value: &openapi3.Schema{AllOf: openapi3.SchemaRefs{typed, verifPrimSchema(typ)}}}
	case 3:
		schema = &openapi3.SchemaRef{Value: &openapi3.Schema{AnyOf: openapi3.SchemaRefs{typed}}}
	}
	text := verifLeaf("v", 2, ",=;&")
	var param *openapi3.Parameter
	input := &RequestValidationInput{Request: &http.Request{Header: http.Header{}, URL: &url.URL{}}}
	switch verifChoose("in", 3) {
	case 0:
		param = &openapi3.Parameter{Name: "p", In: "query", Schema: schema}
		input.QueryParams = url.Values{"p": []string{text}}
	case 1:
		verifAssume(text != "" && text[0] != '/' && (len(text) < 2 || text[1] != '/'))
		param = &openapi3.Parameter{Name: "p", In: "path", Required: true, Schema: schema}
		input.PathParams = map[string]string{"p": text}
	default:
		param = &openapi3.Parameter{Name: "X-P", In: "header", Schema: schema}
		input.Request.Header["X-P"] = []string{text}
	}
	got, found, err := decodeStyledParameter(param, input)
	want, ok := verifTyped(text, typ)
	if ok {
		verifAssert(err == nil && found, "C05 composition: a well-formed serialisation decodes without error and is found")
		if err == nil {
			verifAssert(verifSame(got, want), "C05 composition: the value decodes to the typed value of the typed branch")
		}
	} else {
		verifAssert(err != nil || got == nil, "C05 composition: a text that is not a serialisation of the declared type is not decoded to a value")
	}
	verifReach("end")
}

//verif:harness id=C05 tier=quick witness=end bounds="nested deepObject: query parameter p with schema {a: {b: T}, l: array of T, k: T}, each part present or absent (at least one), array of 1-2 items given by index; leaf type T in {string,integer,number,boolean} (thorough: three independent types); every printable-ASCII leaf text of 1-2 bytes without [ ] = &; the decoded value is the nested object the keys spell out, typed by the schema; an ill-typed leaf is a ParseError"
func verifH_C05_deepobject_nested() { verifC05DeepNested(false) }

//verif:harness id=C05 tier=thorough witness=end bounds="nested deepObject as quick with three independent leaf types"
func verifH_C05_deepobject_nested3() { verifC05DeepNested(true) }

func verifC05DeepNested(independent bool) {
	verifMapOrder() // map iteration order is unspecified: ascending and descending key order
	t1 := verifTypeNames[verifChoose("t1", 4)]
	t2, t3 := t1, t1
	if independent {
		t2, t3 = verifTypeNames[verifChoose("t2", 4)], verifTypeNames[verifChoose("t3", 4)]
	}
	schema := &openapi3.SchemaRef{Value: &openapi3.Schema{Type: &openapi3.Types{"object"}, Properties: openapi3.Schemas{
		"a": {Value: &openapi3.Schema{Type: &openapi3.Types{"object"}, Properties: openapi3.Schemas{"b": verifPrimSchema(t1)}}},
		"l": {Value: &openapi3.Schema{Type: &openapi3.Types{"array"}, Items: verifPrimSchema(t2)}},
		"k": verifPrimSchema(t3),
	}}}
	q := url.Values{}
	want := map[string]any{}
	allOK := true
	leaf := func(name, typ string) any {
		text := verifLeaf(name, 2, "[]=&")
		v, ok := verifTyped(text, typ)
		if !ok {
			allOK = false
		}
		q[name] = []string{text}
		return v
	}
	parts := 1 + verifChoose("parts", 7) // non-empty subset of {a, l, k}
	if parts&1 != 0 {
		want["a"] = map[string]any{"b": leaf("p[a][b]", t1)}
	}
	if parts&2 != 0 {
		items := []any{leaf("p[l][0]", t2)}
		if verifChoose("two", 2) == 1 {
			items = append(items, leaf("p[l][1]", t2))
		}
		want["l"] = items
	}
	if parts&4 != 0 {
		want["k"] = leaf("p[k]", t3)
	}
	explode := true
	param := &openapi3.Parameter{Name: "p", In: "query", Style: "deepObject", Explode: &explode, Schema: schema}
	input := &RequestValidationInput{QueryParams: q, Request: &http.Request{Header: http.Header{}, URL: &url.URL{}}}
	got, found, err := decodeStyledParameter(param, input)
	if !allOK {
		_, isParse := err.(*ParseError)
		verifAssert(err != nil && isParse, "C05 nested deepObject: a leaf that is not a serialisation of its declared type yields a ParseError")
		verifReach("end")
		return
	}
	verifAssert(err == nil && found, "C05 nested deepObject: a well-formed serialisation decodes and is found")
	if err != nil {
		return
	}
	obj, ok := got.(map[string]any)
	verifAssert(ok && len(obj) == len(want), "C05 nested deepObject: the decoded object has exactly the parts that were sent")
	if !ok {
		return
	}
	if w, has := want["a"]; has {
		a, ok := obj["a"].(map[string]any)
		verifAssert(ok && len(a) == 1 && verifSame(a["b"], w.(map[string]any)["b"]), "C05 nested deepObject: the nested object decodes to its typed member")
	}
	if w, has := want["l"]; has {
		l, ok := obj["l"].([]any)
		wl := w.([]any)
		verifAssert(ok && len(l) == len(wl), "C05 nested deepObject: the array has the items that were sent")
		if ok && len(l) == len(wl) {
			for i := range wl {
				verifAssert(verifSame(l[i], wl[i]), "C05 nested deepObject: array items decode in index order to their typed values")
			}
		}
	}
	if w, has := want["k"]; has {
		verifAssert(verifSame(obj["k"], w), "C05 nested deepObject: the flat member decodes to its typed value")
	}
	verifReach("end")
}

//verif:harness id=C05 tier=quick,thorough witness=end bounds="deepObject with an undeclared property: schema {k: string} with additionalProperties absent / false / {type: string}; query p[k]=v1&p[zz]=v2 (texts of 1 printable byte): the undeclared member is part of the decoded value (so that additionalProperties can judge it), typed by the additionalProperties schema when there is one"
func verifH_C05_deepobject_undeclared() {
	obj := &openapi3.Schema{Type: &openapi3.Types{"object"}, Properties: openapi3.Schemas{"k": verifPrimSchema("string")}}
	ap := verifChoose("ap", 3)
	switch ap {
	case 1:
		f := false
		obj.AdditionalProperties.Has = &f
	case 2:
		obj.AdditionalProperties.Schema = verifPrimSchema("string")
	}
	v1, v2 := verifLeaf("v1", 1, "[]=&"), verifLeaf("v2", 1, "[]=&")
	q := url.Values{"p[k]": []string{v1}, "p[zz]": []string{v2}}
	explode := true
	param := &openapi3.Parameter{Name: "p", In: "query", Style: "deepObject", Explode: &explode, Schema: &openapi3.SchemaRef{Value: obj}}
	input := &RequestValidationInput{QueryParams: q, Request: &http.Request{Method: "GET", Header: http.Header{}, URL: &url.URL{Path: "/"}}, PathParams: map[string]string{}, Options: &Options{}}
	got, found, err := decodeStyledParameter(param, input)
	verifAssert(err == nil && found, "C05 undeclared: the parameter decodes")
	if err != nil {
		return
	}
	m, ok := got.(map[string]any)
	// known finding: members the schema does not declare are dropped by the decoder
	verifKnown("C05-deepobject-undeclared-member-dropped", ap != 2)
	verifAssert(ok && len(m) == 2 && m["k"] == v1 && m["zz"] == v2, "C05 undeclared: every member that was sent is in the decoded value")
	verifKnown("C05-deepobject-undeclared-member-dropped", false)
	if ap == 1 {
		verifKnown("C05-deepobject-undeclared-member-dropped", true)
		verifAssert(ValidateParameter(context.Background(), input, param) != nil, "C05 undeclared: additionalProperties false rejects the undeclared member")
		verifKnown("C05-deepobject-undeclared-member-dropped", false)
	}
	verifReach("end")
}

//verif:harness id=C05 tier=quick,thorough witness=end bounds="text that is not a serialisation of an object: a non-exploded object parameter (path simple / label / matrix, query form, header, cookie) whose text has an odd number of items (k | k,1,m | k,1,m,2,x), and an exploded one with an item lacking '=' (k=1,m | m): decoding reports an error, it never decodes part of the text; numbers in exponent form (1e3, 1.5E-7, 1e+21) are serialisations of a number and decode to their value"
func verifH_C05_object_malformed() {
	intS := verifPrimSchema("integer")
	obj := &openapi3.SchemaRef{Value: &openapi3.Schema{Type: &openapi3.Types{"object"}, Properties: openapi3.Schemas{"k": intS, "m": intS}}}
	where := verifChoose("where", 6)
	explode := verifChoose("explode", 2) == 1
	var text string
	if explode {
		text = []string{"k=1,m", "m"}[verifChoose("text", 2)]
	} else {
		text = []string{"k", "k,1,m", "k,1,m,2,x"}[verifChoose("text", 3)]
	}
	p := &openapi3.Parameter{Name: "p", Schema: obj, Explode: &explode}
	input := &RequestValidationInput{Request: &http.Request{Method: "GET", Header: http.Header{}, URL: &url.URL{Path: "/"}}, QueryParams: url.Values{}, PathParams: map[string]string{}}
	switch where {
	case 0:
		p.In, p.Style, p.Required = "path", "simple", true
		input.PathParams["p"] = text
	case 1:
		p.In, p.Style, p.Required = "path", "label", true
		if explode {
			text = strings.ReplaceAll(text, ",", ".")
		}
		input.PathParams["p"] = "." + text
	case 2:
		p.In, p.Style, p.Required = "path", "matrix", true
		if explode {
			input.PathParams["p"] = ";" + strings.ReplaceAll(text, ",", ";")
		} else {
			input.PathParams["p"] = ";p=" + text
		}
	case 3:
		if explode {
			return // an exploded form object is spread over the whole query string: no single text to be malformed
		}
		p.In, p.Style = "query", "form"
		input.QueryParams["p"] = []string{text}
	case 4:
		p.In, p.Style = "header", "simple"
		input.Request.Header["P"] = []string{text}
	case 5:
		if explode {
			return
		}
		p.In, p.Style = "cookie", "form"
		input.Request.Header["Cookie"] = []string{"p=" + text}
	}
	if p.Validate(context.Background()) != nil {
		return
	}
	_, _, err := decodeStyledParameter(p, input)
	verifAssert(err != nil, "C05 malformed object: text that does not pair every key with a value is refused, not decoded in part")
	verifReach("end")
}

//verif:harness id=C05 tier=quick,thorough witness=end bounds="numbers in exponent form: number parameter (query form / path simple / header / cookie) with text from {1e3, 1.5E-7, 1e+21, 2E0, -1e-2}: each is a serialisation of a number (JSON's own number syntax) and decodes to its value"
func verifH_C05_number_exponent() {
	texts := []string{"1e3", "1.5E-7", "1e+21", "2E0", "-1e-2"}
	wants := []float64{1e3, 1.5e-7, 1e21, 2, -1e-2}
	k := verifChoose("text", len(texts))
	p := &openapi3.Parameter{Name: "p", Schema: verifPrimSchema("number")}
	input := &RequestValidationInput{Request: &http.Request{Method: "GET", Header: http.Header{}, URL: &url.URL{Path: "/"}}, QueryParams: url.Values{}, PathParams: map[string]string{}}
	switch verifChoose("where", 4) {
	case 0:
		p.In = "query"
		input.QueryParams["p"] = []string{texts[k]}
	case 1:
		p.In, p.Required = "path", true
		input.PathParams["p"] = texts[k]
	case 2:
		p.In = "header"
		input.Request.Header["P"] = []string{texts[k]}
	case 3:
		p.In = "cookie"
		input.Request.Header["Cookie"] = []string{"p=" + texts[k]}
	}
	got, found, err := decodeStyledParameter(p, input)
	verifAssert(err == nil && found && verifSame(got, wants[k]), "C05 exponent: a number in exponent form decodes to its value")
	verifReach("end")
}

//verif:harness id=C05 tier=quick,thorough witness=end bounds="a required deepObject query parameter whose schema declares no properties, only additionalProperties (a string schema): sent with one or two members (texts of 1 printable byte) or not at all: present => found, decoded to the members that were sent, accepted; absent => reported as missing"
func verifH_C05_deepobject_free_form() {
	obj := &openapi3.Schema{Type: &openapi3.Types{"object"}, AdditionalProperties: openapi3.AdditionalProperties{Schema: verifPrimSchema("string")}}
	n := verifChoose("members", 3)
	q := url.Values{"other": []string{"1"}}
	want := map[string]any{}
	for i, k := range []string{"a", "b"}[:n] {
		v := verifLeaf("v"+string(rune('1'+i)), 1, "[]=&")
		q["obj["+k+"]"] = []string{v}
		want[k] = v
	}
	explode := true
	param := &openapi3.Parameter{Name: "obj", In: "query", Style: "deepObject", Explode: &explode, Required: true, Schema: &openapi3.SchemaRef{Value: obj}}
	input := &RequestValidationInput{QueryParams: q, Request: &http.Request{Method: "GET", Header: http.Header{}, URL: &url.URL{Path: "/"}}, PathParams: map[string]string{}, Options: &Options{}}
	got, found, err := decodeStyledParameter(param, input)
	verr := ValidateParameter(context.Background(), input, param)
	if n == 0 {
		verifAssert(err == nil && !found, "C05 free-form: an absent parameter is not found")
		verifAssert(verr != nil, "C05 free-form: an absent required parameter is reported as missing")
		verifReach("end")
		return
	}
	verifAssert(err == nil && found, "C05 free-form: a parameter that was sent is found")
	m, ok := got.(map[string]any)
	verifAssert(ok && len(m) == n && verifSame(m["a"], want["a"]) && (n < 2 || verifSame(m["b"], want["b"])), "C05 free-form: the decoded value has the members that were sent")
	verifAssert(verr == nil, "C05 free-form: a required parameter that was sent and satisfies its schema is accepted")
	verifReach("end")
}
