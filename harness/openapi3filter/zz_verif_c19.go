package openapi3filter

// C19 (request/response validator part) — with a reason-only message function
// (Options.WithCustomSchemaErrorFunc) the error text of a rejected parameter, request body or
// response body never contains the rejected value. The value is a marker of symbolic bytes over
// a reserved alphabet; "the message contains the marker" must be unsatisfiable.

import (
	"context"
	"io"
	"net/http"
	"net/url"
	"strings"

	"github.com/getkin/kin-openapi/openapi3"
	"github.com/getkin/kin-openapi/routers"
)

func verifC19Marker(name string) string {
	n := 2 + verifChoose(name+".mlen", 2)
	bs := make([]byte, n)
	for i := range bs {
		bs[i] = verifNondetByteIn(name+".m", "~`")
	}
	return string(bs)
}

//verif:harness id=C19 tier=quick,thorough witness=end,rejected bounds="request and response validation with a reason-only message function: a header / query / path parameter, a text/plain request body, a text/plain response body and a response header whose value is a marker of 2-3 symbolic bytes, against a string schema failing by maxLength 1, pattern ^[a-c]+$, enum [x,y], or type integer; MultiError symbolic; every error text returned (Error() of the RequestError / ResponseError / MultiError and of everything it wraps) is free of the marker"
func verifH_C19_filter() {
	marker := verifC19Marker("v")
	one := uint64(1)
	var schema *openapi3.Schema
	switch verifChoose("keyword", 4) {
	case 0:
		schema = &openapi3.Schema{Type: &openapi3.Types{"string"}, MaxLength: &one}
	case 1:
		schema = &openapi3.Schema{Type: &openapi3.Types{"string"}, Pattern: "^[a-c]+$"}
	case 2:
		schema = &openapi3.Schema{Type: &openapi3.Types{"string"}, Enum: []any{"x", "y"}}
	case 3:
		schema = &openapi3.Schema{Type: &openapi3.Types{"integer"}}
	}
	ref := &openapi3.SchemaRef{Value: schema}
	opts := &Options{MultiError: verifNondetBool("multi")}
	opts.WithCustomSchemaErrorFunc(func(e *openapi3.SchemaError) string { return "reason: " + e.Reason })
	d := "d"
	resps := openapi3.NewResponsesWithCapacity(1)
	resps.Set("200", &openapi3.ResponseRef{Value: &openapi3.Response{Description: &d, Content: openapi3.Content{"text/plain": &openapi3.MediaType{Schema: ref}}}})
	op := &openapi3.Operation{Responses: resps}
	req := &http.Request{Method: "POST", Header: http.Header{}, URL: &url.URL{Path: "/"}}
	input := &RequestValidationInput{Request: req, Route: &routers.Route{Spec: &openapi3.T{}, PathItem: &openapi3.PathItem{Post: op}, Operation: op, Method: "POST"},
		Options: opts, QueryParams: url.Values{}, PathParams: map[string]string{}}
	var err error
	where := verifChoose("where", 6)
	if where == 3 && schema.Type.Is("integer") {
		return // a text/plain body is a string: the integer schema applies to parameters only
	}
	switch where {
	case 0:
		op.Parameters = openapi3.Parameters{{Value: &openapi3.Parameter{Name: "X-P", In: "header", Schema: ref}}}
		req.Header["X-P"] = []string{marker}
		err = ValidateRequest(context.Background(), input)
	case 1:
		op.Parameters = openapi3.Parameters{{Value: &openapi3.Parameter{Name: "q", In: "query", Schema: ref}}}
		input.QueryParams["q"] = []string{marker}
		err = ValidateRequest(context.Background(), input)
	case 2:
		op.Parameters = openapi3.Parameters{{Value: &openapi3.Parameter{Name: "p", In: "path", Required: true, Schema: ref}}}
		input.PathParams["p"] = marker
		err = ValidateRequest(context.Background(), input)
	case 3:
		op.RequestBody = &openapi3.RequestBodyRef{Value: &openapi3.RequestBody{Required: true, Content: openapi3.Content{"text/plain": &openapi3.MediaType{Schema: ref}}}}
		req.Header["Content-Type"] = []string{"text/plain"}
		req.Body = io.NopCloser(strings.NewReader(marker))
		err = ValidateRequest(context.Background(), input)
	case 4:
		if schema.Type.Is("integer") {
			return
		}
		err = ValidateResponse(context.Background(), &ResponseValidationInput{RequestValidationInput: input, Status: 200,
			Header: http.Header{"Content-Type": []string{"text/plain"}}, Body: io.NopCloser(strings.NewReader(marker)), Options: opts})
	case 5:
		if schema.Type.Is("integer") {
			return
		}
		resps.Set("200", &openapi3.ResponseRef{Value: &openapi3.Response{Description: &d, Headers: openapi3.Headers{"X-R": &openapi3.HeaderRef{Value: &openapi3.Header{Parameter: openapi3.Parameter{Schema: ref}}}}}})
		err = ValidateResponse(context.Background(), &ResponseValidationInput{RequestValidationInput: input, Status: 200,
			Header: http.Header{"X-R": []string{marker}}, Options: opts})
	}
	verifAssert(err != nil, "C19 filter: the marker value is rejected by the schema")
	if err == nil {
		return
	}
	verifReach("rejected")
	// the parse error of an integer parameter quotes the raw text by design (it is not a schema error):
	// the property speaks of schema error reasons, so only schema-level failures are checked
	if schema.Type.Is("integer") {
		verifReach("end")
		return
	}
	verifAssert(!strings.Contains(err.Error(), marker), "C19 filter: the message assembled through the reason-only function does not contain the rejected value")
	verifReach("end")
}
