package openapi3filter

// C06, url-encoded bodies whose object schema is composed with allOf / anyOf / oneOf.

import (
	"context"
	"net/http"
	"strings"

	"github.com/getkin/kin-openapi/openapi3"
)

//verif:harness id=C06 tier=quick,thorough witness=end,decoded bounds="url-encoded bodies against a composed object schema: {type: object, properties {k: string}} with allOf / anyOf / oneOf of two object branches declaring a (integer) and b (boolean), or both declaring a (integer) (the same field seen twice is one field); body = any subset of k / a / b with one symbolic byte over [0-9a-z-] as the text of a: the decoded object has exactly the fields that were sent, typed by the branch that declares them; through ValidateRequestBody the request passes iff a's text is an integer (allOf) "
func verifH_C06_form_compositions() {
	verifMapOrder() // map iteration order is unspecified: ascending and descending key order
	prim := func(t string) *openapi3.SchemaRef {
		return &openapi3.SchemaRef{Value: &openapi3.Schema{Type: &openapi3.Types{t}}}
	}
	obj := func(props openapi3.Schemas) *openapi3.SchemaRef {
		return &openapi3.SchemaRef{Value: &openapi3.Schema{Type: &openapi3.Types{"object"}, Properties: props}}
	}
	schema := obj(openapi3.Schemas{"k": prim("string")})
	twice := verifChoose("twice", 2) == 1
	b1, b2 := obj(openapi3.Schemas{"a": prim("integer")}), obj(openapi3.Schemas{"b": prim("boolean")})
	if twice {
		b2 = obj(openapi3.Schemas{"a": prim("integer"), "b": prim("boolean")})
	}
	comp := verifChoose("comp", 3)
	switch comp {
	case 0:
		schema.Value.AllOf = openapi3.SchemaRefs{b1, b2}
	case 1:
		schema.Value.AnyOf = openapi3.SchemaRefs{b1, b2}
	case 2:
		schema.Value.OneOf = openapi3.SchemaRefs{b2, b1}
	}
	var parts []string
	want := map[string]any{}
	hasA := verifChoose("has_a", 2) == 1
	ta := ""
	aOK := true
	if hasA {
		ta = verifNondetStringN("v_a", 1)
		verifAssume((ta[0] >= '0' && ta[0] <= '9') || (ta[0] >= 'a' && ta[0] <= 'z') || ta[0] == '-')
		parts = append(parts, "a="+ta)
		var v any
		if v, aOK = verifTyped(ta, "integer"); aOK {
			want["a"] = v
		}
	}
	if verifChoose("has_b", 2) == 1 {
		parts = append(parts, "b=true")
		want["b"] = true
	}
	if verifChoose("has_k", 2) == 1 {
		parts = append(parts, "k=x")
		want["k"] = "x"
	}
	body := strings.Join(parts, "&")
	if !aOK {
		// a field whose text is not of its type: through the validator the request must fail (known finding: dropped)
		verifKnown("C06-form-field-parse-error-dropped", true)
		rb := &openapi3.RequestBody{Required: true, Content: openapi3.Content{"application/x-www-form-urlencoded": &openapi3.MediaType{Schema: schema}}}
		op := &openapi3.Operation{RequestBody: &openapi3.RequestBodyRef{Value: rb}}
		input := verifBodyInput(op, "application/x-www-form-urlencoded", body, true, &Options{})
		verifAssert(ValidateRequestBody(context.Background(), input, rb) != nil, "C06 form compositions: a field that is not a serialisation of its declared type makes the request fail")
		verifReach("end")
		return
	}
	dec := RegisteredBodyDecoder("application/x-www-form-urlencoded")
	got, err := dec(strings.NewReader(body), http.Header{"Content-Type": []string{"application/x-www-form-urlencoded"}}, schema, func(string) *openapi3.Encoding { return nil })
	verifAssert(err == nil, "C06 form compositions: a well-formed form body decodes")
	if err != nil {
		return
	}
	verifReach("decoded")
	m, ok := got.(map[string]any)
	verifAssert(ok && len(m) == len(want), "C06 form compositions: the decoded object has exactly the fields that were sent")
	if ok {
		for _, name := range []string{"a", "b", "k"} {
			if w, has := want[name]; has {
				verifAssert(verifSame(m[name], w), "C06 form compositions: each field decodes to the value it encodes, typed by the branch that declares it")
			}
		}
	}
	if comp == 0 {
		rb := &openapi3.RequestBody{Required: len(parts) > 0, Content: openapi3.Content{"application/x-www-form-urlencoded": &openapi3.MediaType{Schema: schema}}}
		op := &openapi3.Operation{RequestBody: &openapi3.RequestBodyRef{Value: rb}}
		input := verifBodyInput(op, "application/x-www-form-urlencoded", body, true, &Options{})
		verifAssert(ValidateRequestBody(context.Background(), input, rb) == nil, "C06 form compositions: a body whose fields satisfy every allOf branch is accepted")
	}
	verifReach("end")
}

//verif:harness id=C06 tier=quick,thorough witness=end,accepted,rejected bounds="multipart/form-data bodies with an array property: object schema {l: array of strings with minItems / maxItems symbolic over 0..3, s: string}; 0-3 parts named l (texts a, b, c) and 0-2 parts named s: the decoded l is an array with one item per part, also for exactly one part, so the request is accepted exactly when the number of l parts lies within the bounds (a scalar property sent once stays a scalar)"
func verifH_C06_multipart_arrays() {
	minItems, maxItems := uint64(verifChoose("minItems", 4)), uint64(verifChoose("maxItems", 4))
	obj := &openapi3.Schema{Type: &openapi3.Types{"object"}, Properties: openapi3.Schemas{
		"l": {Value: &openapi3.Schema{Type: &openapi3.Types{"array"}, Items: &openapi3.SchemaRef{Value: &openapi3.Schema{Type: &openapi3.Types{"string"}}}, MinItems: minItems, MaxItems: &maxItems}},
		"s": {Value: &openapi3.Schema{Type: &openapi3.Types{"string"}}},
	}}
	nl := verifChoose("parts_l", 4)
	hasS := verifChoose("has_s", 2) == 1
	body := ""
	for i := 0; i < nl; i++ {
		body += "--XX\r\nContent-Disposition: form-data; name=\"l\"\r\n\r\n" + []string{"a", "b", "c"}[i] + "\r\n"
	}
	if hasS {
		body += "--XX\r\nContent-Disposition: form-data; name=\"s\"\r\n\r\nx\r\n"
	}
	body += "--XX--\r\n"
	if nl == 0 && !hasS {
		return // an empty form: nothing to decode
	}
	rb := &openapi3.RequestBody{Required: true, Content: openapi3.Content{"multipart/form-data": &openapi3.MediaType{Schema: &openapi3.SchemaRef{Value: obj}}}}
	op := &openapi3.Operation{RequestBody: &openapi3.RequestBodyRef{Value: rb}}
	input := verifBodyInput(op, "multipart/form-data; boundary=XX", body, true, &Options{})
	err := ValidateRequestBody(context.Background(), input, rb)
	ok := true
	if nl > 0 && (uint64(nl) < minItems || uint64(nl) > maxItems) {
		ok = false // an absent property is not checked; a present one is an array of nl items
	}
	if err == nil {
		verifReach("accepted")
	} else {
		verifReach("rejected")
	}
	verifAssert((err == nil) == ok, "C06 multipart arrays: an array property decodes to one item per part (also for a single part) and is validated as that array")
	verifReach("end")
}

//verif:harness id=C06 tier=quick,thorough witness=end,accepted,rejected bounds="application/json bodies against an enum whose members are an array, an object, a string and a number ({e: {enum: [[1,2], {k: 1}, s, 3]}}): ten concrete bodies (each member, the array with 2.0 for 2, near misses of each): accepted iff e equals a member (numbers compared by value)"
func verifH_C06_json_enum_members() {
	schema := &openapi3.SchemaRef{Value: &openapi3.Schema{Type: &openapi3.Types{"object"}, Properties: openapi3.Schemas{
		"e": {Value: &openapi3.Schema{Enum: []any{[]any{1.0, 2.0}, map[string]any{"k": 1.0}, "s", 3.0}}}}}}
	bodies := []struct {
		text string
		ok   bool
	}{
		{`{"e":[1,2]}`, true}, {`{"e":{"k":1}}`, true}, {`{"e":"s"}`, true}, {`{"e":3}`, true}, {`{"e":[1,2.0]}`, true}, {`{"e":3.0}`, true},
		{`{"e":[1,3]}`, false}, {`{"e":[1,2,3]}`, false}, {`{"e":{"k":2}}`, false}, {`{"e":"t"}`, false}, {`{"e":4}`, false}, {`{"e":[1,"2"]}`, false},
	}
	b := bodies[verifChoose("body", len(bodies))]
	rb := &openapi3.RequestBody{Required: true, Content: openapi3.Content{"application/json": &openapi3.MediaType{Schema: schema}}}
	op := &openapi3.Operation{RequestBody: &openapi3.RequestBodyRef{Value: rb}}
	input := verifBodyInput(op, "application/json", b.text, true, &Options{MultiError: verifNondetBool("multi")})
	err := ValidateRequestBody(context.Background(), input, rb)
	if err == nil {
		verifReach("accepted")
	} else {
		verifReach("rejected")
	}
	verifAssert((err == nil) == b.ok, "C06 JSON enum members: a body is accepted iff the value equals a member of the enum, whatever the member's JSON type")
	verifReach("end")
}
