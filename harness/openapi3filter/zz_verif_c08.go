package openapi3filter

// C08 — responses are checked against the entry chosen for their status code.

import (
	"bytes"
	"context"
	"io"
	"net/http"
	"net/url"
	"strings"

	"github.com/getkin/kin-openapi/openapi3"
	"github.com/getkin/kin-openapi/routers"
)

var verifRespKeys = []string{"200", "404", "2XX", "4XX", "default"}

func verifRespInput(op *openapi3.Operation, method string, status int, hdr http.Header, body []byte, opts *Options) *ResponseValidationInput {
	req := &http.Request{Method: method, Header: http.Header{}, URL: &url.URL{Path: "/"}}
	rvi := &RequestValidationInput{Request: req, Route: &routers.Route{Spec: &openapi3.T{}, PathItem: &openapi3.PathItem{Get: op}, Operation: op, Method: method}}
	in := &ResponseValidationInput{RequestValidationInput: rvi, Status: status, Header: hdr, Options: opts}
	if body != nil {
		in.Body = io.NopCloser(bytes.NewReader(body))
	}
	return in
}

// verifRefEntry: exact status code, then class pattern (100..599 only), then default.
func verifRefEntry(declared map[string]bool, status int) string {
	digits := func(n int) string {
		if n == 0 {
			return "0"
		}
		s := ""
		for n > 0 {
			s = string(rune('0'+n%10)) + s
			n /= 10
		}
		return s
	}
	if declared[digits(status)] {
		return digits(status)
	}
	if status >= 100 && status <= 599 {
		k := digits(status/100) + "XX"
		if declared[k] {
			return k
		}
	}
	if declared["default"] {
		return "default"
	}
	return ""
}

//verif:harness id=C08 tier=quick witness=end bounds="status selection: every subset of {200,404,2XX,4XX,default} declared, each entry demanding its own required header; every status in 0..999 (symbolic); strict-status option symbolic; methods GET/HEAD; the entry used is identified by the header it demands"
func verifH_C08_status() { verifC08Status(32, false) }

//verif:harness id=C08 tier=quick witness=end bounds="status classes: one class pattern cXX for each c in 1..5, with or without default; every status in 0..999 (symbolic); strict option symbolic"
func verifH_C08_classes() { verifC08Status(4, true) }

//verif:harness id=C08 tier=thorough witness=end bounds="status selection: every subset of {200,404,one of 1XX/2XX/3XX,one of 4XX/5XX,default}; every status in 0..999 (symbolic); strict option symbolic; GET/HEAD"
func verifH_C08_status_all() { verifC08Status(32, true) }

func verifC08Status(nsub int, anyClass bool) {
	declared := map[string]bool{}
	resps := openapi3.NewResponsesWithCapacity(5)
	sub := verifChoose("declared", nsub)
	str := &openapi3.SchemaRef{Value: &openapi3.Schema{Type: &openapi3.Types{"string"}}}
	keys := verifRespKeys
	switch {
	case anyClass && nsub == 32:
		// the two class patterns are any of 1XX..3XX and 4XX..5XX
		keys = []string{"200", "404", []string{"1XX", "2XX", "3XX"}[verifChoose("classA", 3)], []string{"4XX", "5XX"}[verifChoose("classB", 2)], "default"}
	case anyClass:
		keys = []string{[]string{"1XX", "2XX", "3XX", "4XX", "5XX"}[verifChoose("class", 5)], "default"}
	}
	for i, k := range keys {
		if sub&(1<<i) != 0 {
			declared[k] = true
			d := "d"
			resps.Set(k, &openapi3.ResponseRef{Value: &openapi3.Response{Description: &d, Headers: openapi3.Headers{
				"X-" + k: &openapi3.HeaderRef{Value: &openapi3.Header{Parameter: openapi3.Parameter{Required: true, Schema: str}}},
			}}})
		}
	}
	op := &openapi3.Operation{Responses: resps}
	status := verifNondetInt("status")
	verifAssume(status >= 0 && status <= 999)
	strict := verifNondetBool("strict")
	method := "GET"
	if verifChoose("head", 2) == 1 {
		method = "HEAD"
	}
	in := verifRespInput(op, method, status, http.Header{}, nil, &Options{IncludeResponseStatus: strict})
	err := ValidateResponse(context.Background(), in)
	skip := method == "HEAD" || status == 301 || status == 304 || status == 307 || status == 308
	want := verifRefEntry(declared, status)
	switch {
	case skip || sub == 0:
		verifAssert(err == nil, "C08 status: HEAD responses, 301/304/307/308 and operations without responses are never validated")
	case want == "":
		verifAssert((err != nil) == strict, "C08 status: a status with no definition passes unless strict status checking is requested")
	default:
		re, ok := err.(*ResponseError)
		verifAssert(ok && strings.Contains(re.Reason, "\"X-"+want+"\""), "C08 status: the definition used is the exact code, else the class pattern, else default")
	}
	verifReach("end")
}

//verif:harness id=C08 tier=quick,thorough witness=end bounds="headers and body against the selected definition (200): required/optional header of type integer with symbolic minimum, or array of integers; header absent / any printable text of 1-2 bytes; content text/plain with string maxLength (uint64) or no content; Content-Type in {text/plain, text/plain; charset=utf-8, text/html, absent}; body any 0-2 ASCII bytes; options ExcludeResponseBody/MultiError symbolic; body still readable afterwards"
func verifH_C08_content() {
	d := "d"
	resp := &openapi3.Response{Description: &d}
	min := verifNondetFloat64("min")
	verifAssume(min == min)
	intSchema := &openapi3.SchemaRef{Value: &openapi3.Schema{Type: &openapi3.Types{"integer"}, Min: &min}}
	hdrShape := verifChoose("hdr", 4) // 0 none, 1 required int, 2 optional int, 3 required array of int
	switch hdrShape {
	case 1:
		resp.Headers = openapi3.Headers{"X-H": &openapi3.HeaderRef{Value: &openapi3.Header{Parameter: openapi3.Parameter{Required: true, Schema: intSchema}}}}
	case 2:
		resp.Headers = openapi3.Headers{"X-H": &openapi3.HeaderRef{Value: &openapi3.Header{Parameter: openapi3.Parameter{Schema: intSchema}}}}
	case 3:
		arr := &openapi3.SchemaRef{Value: &openapi3.Schema{Type: &openapi3.Types{"array"}, Items: intSchema}}
		resp.Headers = openapi3.Headers{"X-H": &openapi3.HeaderRef{Value: &openapi3.Header{Parameter: openapi3.Parameter{Required: true, Schema: arr}}}}
	}
	withContent := verifChoose("withContent", 2) == 1
	maxLen := verifNondetUint64("maxLen")
	if withContent {
		resp.Content = openapi3.Content{"text/plain": &openapi3.MediaType{Schema: &openapi3.SchemaRef{Value: &openapi3.Schema{Type: &openapi3.Types{"string"}, MaxLength: &maxLen}}}}
	}
	resps := openapi3.NewResponsesWithCapacity(1)
	resps.Set("200", &openapi3.ResponseRef{Value: resp})
	op := &openapi3.Operation{Responses: resps}

	hdr := http.Header{}
	hasH := verifChoose("hasH", 2) == 1
	text := ""
	if hasH {
		text = verifLeaf("h", 2, ",")
		hdr["X-H"] = []string{text}
	}
	ct := []string{"text/plain", "text/html", "", "text/plain; charset=utf-8"}[verifChoose("ct", 4)]
	if ct != "" {
		hdr["Content-Type"] = []string{ct}
	}
	bodyText := verifNondetString("body", 2)
	for i := 0; i < len(bodyText); i++ {
		verifAssume(bodyText[i] < 0x80) // string length is counted in characters; ASCII keeps characters = bytes
	}
	body := []byte(bodyText)
	opts := &Options{ExcludeResponseBody: verifNondetBool("exclBody"), MultiError: verifNondetBool("multi")}
	in := verifRespInput(op, "GET", 200, hdr, body, opts)
	err := ValidateResponse(context.Background(), in)

	// reference
	hdrOK := true
	switch hdrShape {
	case 1, 2, 3:
		if !hasH {
			hdrOK = hdrShape == 2
		} else {
			v, ok := verifTyped(text, "integer")
			hdrOK = ok && float64(v.(int64)) >= min
		}
	}
	bodyOK := true
	if withContent && !opts.ExcludeResponseBody {
		bodyOK = (ct == "text/plain" || ct == "text/plain; charset=utf-8") && uint64(len(body)) <= maxLen
	}
	verifAssert((err == nil) == (hdrOK && bodyOK), "C08 content: response passes iff required headers are present, header and body satisfy their schemas and the content type is declared")
	// the body can still be read in full
	if in.Body != nil {
		rest, rerr := io.ReadAll(in.Body)
		verifAssert(rerr == nil && bytes.Equal(rest, body), "C08 content: the response body is still readable in full after validation")
	}
	verifReach("end")
}

//verif:harness id=C08 tier=quick,thorough witness=end bounds="response-side property rules: body application/x-verif (injected decoder) object schema with a writeOnly and a readOnly property, required flags symbolic; body object with each property present/absent; option ExcludeWriteOnlyValidations symbolic"
func verifH_C08_writeonly() {
	d := "d"
	num := func(ro, wo bool) *openapi3.SchemaRef {
		return &openapi3.SchemaRef{Value: &openapi3.Schema{Type: &openapi3.Types{"number"}, ReadOnly: ro, WriteOnly: wo}}
	}
	obj := &openapi3.Schema{Type: &openapi3.Types{"object"}, Properties: openapi3.Schemas{"w": num(false, true), "r": num(true, false)}}
	reqW, reqR := verifChoose("reqW", 2) == 1, verifChoose("reqR", 2) == 1
	if reqW {
		obj.Required = append(obj.Required, "w")
	}
	if reqR {
		obj.Required = append(obj.Required, "r")
	}
	hasW, hasR := verifChoose("hasW", 2) == 1, verifChoose("hasR", 2) == 1
	value := map[string]any{}
	if hasW {
		value["w"] = 1.0
	}
	if hasR {
		value["r"] = 2.0
	}
	RegisterBodyDecoder("application/x-verif", func(io.Reader, http.Header, *openapi3.SchemaRef, EncodingFn) (any, error) { return value, nil })
	resp := &openapi3.Response{Description: &d, Content: openapi3.Content{"application/x-verif": &openapi3.MediaType{Schema: &openapi3.SchemaRef{Value: obj}}}}
	resps := openapi3.NewResponsesWithCapacity(1)
	resps.Set("200", &openapi3.ResponseRef{Value: resp})
	op := &openapi3.Operation{Responses: resps}
	opts := &Options{ExcludeWriteOnlyValidations: verifNondetBool("exclWO")}
	in := verifRespInput(op, "GET", 200, http.Header{"Content-Type": []string{"application/x-verif"}}, []byte("x"), opts)
	err := ValidateResponse(context.Background(), in)
	// a write-only property must not appear in a response and is not required there; read-only is ordinary
	ok := true
	if hasW && !opts.ExcludeWriteOnlyValidations {
		ok = false
	}
	if reqR && !hasR {
		ok = false
	}
	verifAssert((err == nil) == ok, "C08 write-only: a response must not carry write-only properties (unless excluded) and need not contain required write-only ones")
	verifReach("end")
}

//verif:harness id=C08 tier=quick,thorough witness=end bounds="a response body that cannot be decoded (declared content type whose injected decoder reads the body and fails): the response is rejected and the body, any 0-2 bytes, can still be read in full afterwards; option MultiError symbolic"
func verifH_C08_undecodable() {
	RegisterBodyDecoder("application/x-verif-fail", func(r io.Reader, _ http.Header, _ *openapi3.SchemaRef, _ EncodingFn) (any, error) {
		_, _ = io.ReadAll(r)
		return nil, &ParseError{Kind: KindInvalidFormat, Reason: "undecodable"}
	})
	d := "d"
	resp := &openapi3.Response{Description: &d, Content: openapi3.Content{"application/x-verif-fail": &openapi3.MediaType{Schema: &openapi3.SchemaRef{Value: &openapi3.Schema{Type: &openapi3.Types{"string"}}}}}}
	resps := openapi3.NewResponsesWithCapacity(1)
	resps.Set("200", &openapi3.ResponseRef{Value: resp})
	op := &openapi3.Operation{Responses: resps}
	body := []byte(verifNondetString("body", 2))
	hdr := http.Header{"Content-Type": []string{"application/x-verif-fail"}}
	in := verifRespInput(op, "GET", 200, hdr, body, &Options{MultiError: verifNondetBool("multi")})
	err := ValidateResponse(context.Background(), in)
	verifAssert(err != nil, "C08 undecodable: a body that does not decode is rejected")
	verifAssert(in.Body != nil, "C08 undecodable: the body is still there after validation")
	if in.Body != nil {
		rest, rerr := io.ReadAll(in.Body)
		verifAssert(rerr == nil && bytes.Equal(rest, body), "C08 undecodable: the response body is still readable in full after a failed validation")
	}
	verifReach("end")
}

//verif:harness id=C08 tier=quick,thorough witness=end bounds="object-valued response header (style simple): schema {a: integer required, b: integer, additionalProperties false}; explode unset / false / true; header text from a pool of 8 (a,1 | a=1 | a,1,b,2 | a=1,b=2 | a,x | b,2 | a | a,1,c,3): with explode unset or false the text is key,value,key,value, with explode true key=value,key=value; the response passes iff the text in the declared form denotes an object the schema accepts"
func verifH_C08_object_header() {
	d := "d"
	one := 1.0
	_ = one
	intS := &openapi3.SchemaRef{Value: &openapi3.Schema{Type: &openapi3.Types{"integer"}}}
	no := false
	obj := &openapi3.SchemaRef{Value: &openapi3.Schema{Type: &openapi3.Types{"object"}, Required: []string{"a"},
		Properties:           openapi3.Schemas{"a": intS, "b": intS},
		AdditionalProperties: openapi3.AdditionalProperties{Has: &no}}}
	h := &openapi3.Header{Parameter: openapi3.Parameter{Required: true, Schema: obj}}
	explode := false
	switch verifChoose("explode", 3) {
	case 1:
		f := false
		h.Explode = &f
	case 2:
		t := true
		h.Explode = &t
		explode = true
	}
	resp := &openapi3.Response{Description: &d, Headers: openapi3.Headers{"X-O": &openapi3.HeaderRef{Value: h}}}
	resps := openapi3.NewResponsesWithCapacity(1)
	resps.Set("200", &openapi3.ResponseRef{Value: resp})
	op := &openapi3.Operation{Responses: resps}
	text := []string{"a,1", "a=1", "a,1,b,2", "a=1,b=2", "a,x", "b,2", "a", "a,1,c,3"}[verifChoose("text", 8)]
	hdr := http.Header{"X-O": []string{text}}
	in := verifRespInput(op, "GET", 200, hdr, nil, &Options{})
	err := ValidateResponse(context.Background(), in)

	// reference: the text under the declared form
	items := strings.Split(text, ",")
	props := map[string]string{}
	wellFormed := true
	if explode {
		for _, it := range items {
			kv := strings.SplitN(it, "=", 2)
			if len(kv) != 2 {
				wellFormed = false
				break
			}
			props[kv[0]] = kv[1]
		}
	} else {
		if len(items)%2 != 0 {
			wellFormed = false
		} else {
			for i := 0; i < len(items); i += 2 {
				props[items[i]] = items[i+1]
			}
		}
	}
	want := wellFormed
	if want {
		_, hasA := props["a"]
		want = hasA
		for k, v := range props {
			if k != "a" && k != "b" {
				want = false
			}
			if _, ok := verifTyped(v, "integer"); !ok {
				want = false
			}
		}
	}
	if wellFormed && !want && len(props) == 2 && props["c"] == "3" {
		verifKnown("C08-object-header-undeclared-member-dropped", true)
	}
	verifAssert((err == nil) == want, "C08 object header: the header text is read in the declared form (explode defaults to false for headers) and the object validated")
	verifReach("end")
}

//verif:harness id=C08 tier=quick,thorough witness=end bounds="response headers whose schema has no type: schema in {{}, enum [a,b], minLength 1, pattern ^a$} x header value a / zz: the response passes exactly when the text, read as the string it is, satisfies the schema"
func verifH_C08_untyped_header() {
	schema, sat := verifUntypedSchema(verifChoose("schema", 4))
	vi := verifChoose("value", 2)
	text := []string{"a", "zz"}[vi]
	d := "d"
	resp := &openapi3.Response{Description: &d, Headers: openapi3.Headers{"X-H": &openapi3.HeaderRef{Value: &openapi3.Header{Parameter: openapi3.Parameter{Schema: &openapi3.SchemaRef{Value: schema}}}}}}
	resps := openapi3.NewResponsesWithCapacity(1)
	resps.Set("200", &openapi3.ResponseRef{Value: resp})
	op := &openapi3.Operation{Responses: resps}
	in := verifRespInput(op, "GET", 200, http.Header{"X-H": []string{text}}, nil, &Options{})
	err := ValidateResponse(context.Background(), in)
	verifKnown("C08-untyped-header-schema-present-value-rejected", sat[vi])
	verifAssert((err == nil) == sat[vi], "C08 untyped header: a present header value is accepted exactly when it satisfies the type-less schema")
	verifKnown("C08-untyped-header-schema-present-value-rejected", false)
	verifReach("end")
}

//verif:harness id=C08 tier=quick,thorough witness=end bounds="response header names are case-insensitive: a required header declared as x-rate-limit / X-Rate-Limit / X-RATE-LIMIT, defined by schema (integer) or by content (application/json, integer) x response carrying it (under net/http's canonical key) with value 5 / x, or not at all: missing is rejected, present is accepted when its value satisfies the schema, in either form of definition (a header defined by application/json content is read as JSON text)"
func verifH_C08_header_names() {
	d := "d"
	name := []string{"x-rate-limit", "X-Rate-Limit", "X-RATE-LIMIT"}[verifChoose("name", 3)]
	intS := &openapi3.SchemaRef{Value: &openapi3.Schema{Type: &openapi3.Types{"integer"}}}
	h := &openapi3.Header{Parameter: openapi3.Parameter{Required: true}}
	byContent := verifChoose("byContent", 2) == 1
	if byContent {
		h.Content = openapi3.Content{"application/json": &openapi3.MediaType{Schema: intS}}
	} else {
		h.Schema = intS
	}
	resp := &openapi3.Response{Description: &d, Headers: openapi3.Headers{name: &openapi3.HeaderRef{Value: h}}}
	resps := openapi3.NewResponsesWithCapacity(1)
	resps.Set("200", &openapi3.ResponseRef{Value: resp})
	op := &openapi3.Operation{Responses: resps}
	hdr := http.Header{}
	presence := verifChoose("presence", 3) // 0 absent, 1 "5", 2 "x"
	switch presence {
	case 1:
		hdr.Set("x-rate-limit", "5")
	case 2:
		hdr.Set("x-rate-limit", "x")
	}
	err := ValidateResponse(context.Background(), verifRespInput(op, "GET", 200, hdr, nil, &Options{}))
	want := presence == 1 // x is not an integer, however the header is defined (a header defined by application/json content is read as JSON)
	verifAssert((err == nil) == want, "C08 header names: a declared response header is found whatever the spelling of its name in the document")
	verifReach("end")
}
