package openapi3filter

// C13 kernels 1 and 2b — the request stays readable after validation;
// parameter defaults are written into the forwarded request exactly once.

import (
	"bytes"
	"context"
	"encoding/json"
	"errors"
	"io"
	"net/http"
	"net/url"
	"strings"

	"github.com/getkin/kin-openapi/openapi3"
	"github.com/getkin/kin-openapi/routers"
)

// verifStream is a one-shot body stream (like a network body): bytes once read are gone.
type verifStream struct {
	data   []byte
	pos    int
	closed bool
}

func (s *verifStream) Read(p []byte) (int, error) {
	if s.closed {
		// like a network or file-backed body: nothing can be read after Close
		return 0, errors.New("read on closed body")
	}
	if s.pos >= len(s.data) {
		return 0, io.EOF
	}
	n := copy(p, s.data[s.pos:])
	s.pos += n
	return n, nil
}
func (s *verifStream) Close() error { s.closed = true; return nil }

//verif:harness id=C13 tier=quick,thorough witness=end bounds="body bookkeeping: body of 0-2 symbolic bytes as a one-shot stream that honours Close (reads fail afterwards); validated once, or (without security, GetBody nil or working) twice in a row; GetBody in {nil, working, failing}; security none / [{A}] / [{A,B}] with an authentication callback that reads 0..len bytes of the body and a symbolic verdict; body declared required/optional as text/plain (schema string maxLength symbolic) or undeclared content type; MultiError symbolic; after ValidateRequest (nil or error) reading Request.Body to EOF yields exactly the original bytes"
func verifH_C13_body_readable() {
	text := verifNondetString("body", 2)
	orig := []byte(text)
	maxLen := verifNondetUint64("maxLen")
	schema := &openapi3.SchemaRef{Value: &openapi3.Schema{Type: &openapi3.Types{"string"}, MaxLength: &maxLen}}
	rb := &openapi3.RequestBody{Required: verifChoose("required", 2) == 1, Content: openapi3.Content{"text/plain": &openapi3.MediaType{Schema: schema}}}
	op := &openapi3.Operation{RequestBody: &openapi3.RequestBodyRef{Value: rb}}
	spec := &openapi3.T{Components: &openapi3.Components{SecuritySchemes: openapi3.SecuritySchemes{
		"A": &openapi3.SecuritySchemeRef{Value: &openapi3.SecurityScheme{Type: "http", Scheme: "basic"}},
		"B": &openapi3.SecuritySchemeRef{Value: &openapi3.SecurityScheme{Type: "http", Scheme: "bearer"}},
	}}}
	sec := verifChoose("security", 3)
	switch sec {
	case 1:
		op.Security = &openapi3.SecurityRequirements{{"A": {}}}
	case 2:
		op.Security = &openapi3.SecurityRequirements{{"A": {}, "B": {}}}
	}
	req := &http.Request{Method: "POST", Header: http.Header{}, URL: &url.URL{Path: "/"}, ContentLength: int64(len(orig))}
	ct := []string{"text/plain", "application/x-undeclared"}[verifChoose("ct", 2)]
	req.Header["Content-Type"] = []string{ct}
	req.Body = &verifStream{data: orig}
	gb := verifChoose("getBody", 3)
	switch gb {
	case 1:
		req.GetBody = func() (io.ReadCloser, error) { return &verifStream{data: orig}, nil }
	case 2:
		req.GetBody = func() (io.ReadCloser, error) { return nil, errors.New("cannot rewind") }
	}
	authOK := verifNondetBool("authOK")
	readN := verifChoose("authReads", 3)
	opts := &Options{MultiError: verifNondetBool("multi"), SkipSettingDefaults: verifNondetBool("skipDefaults")}
	opts.AuthenticationFunc = func(ctx context.Context, ai *AuthenticationInput) error {
		if b := ai.RequestValidationInput.Request.Body; b != nil && readN > 0 {
			buf := make([]byte, readN)
			b.Read(buf)
		}
		if !authOK {
			return errors.New("denied")
		}
		return nil
	}
	input := &RequestValidationInput{Request: req, Route: &routers.Route{Spec: spec, PathItem: &openapi3.PathItem{Post: op}, Operation: op, Method: "POST"}, Options: opts, QueryParams: url.Values{}, PathParams: map[string]string{}}
	_ = ValidateRequest(context.Background(), input)
	if sec == 0 && gb != 2 && verifChoose("twice", 2) == 1 {
		// the forwarded request is validated again (e.g. by a second middleware) before anyone reads it
		_ = ValidateRequest(context.Background(), input)
	}

	var rest []byte
	var rerr error
	if req.Body != nil {
		rest, rerr = io.ReadAll(req.Body)
	}
	verifAssert(rerr == nil && bytes.Equal(rest, orig), "C13 body: after request validation the body can still be read in full (the body left in the request has not been closed)")
	verifAssert(req.ContentLength == int64(len(orig)), "C13 body: ContentLength still describes the body")
	verifReach("end")
}

//verif:harness id=C13 tier=quick,thorough witness=end bounds="parameter defaults: query / header / cookie parameter with schema integer default 7 / 7.0 / 1000000.0 (as decoded from JSON), string default 'd', array of integers default [1,2] (style form/spaceDelimited/pipeDelimited, explode on/off), or object default {a:1,b:x} (query deepObject / form exploded or not, header simple with explode unset / true / false, cookie form not exploded, alone or between two other cookies which must be forwarded as received); parameter absent, present with a value, or present but empty; declared on the operation, on the path item, or on the path item behind a parameter the operation overrides; SkipSettingDefaults on/off; after ValidateRequest the forwarded request carries the default exactly when it was absent and defaults are on; validating the forwarded request again (with a fresh input struct or the same one) succeeds and changes nothing; decoding the parameter again yields the default"
func verifH_C13_param_defaults() {
	verifMapOrder() // map iteration order is unspecified: ascending and descending key order
	in := []string{"query", "header", "cookie"}[verifChoose("in", 3)]
	shape := verifChoose("shape", 4)
	var schema *openapi3.Schema
	var wantDecoded any
	switch shape {
	case 0:
		// a default as a Go int, and as the float64 a JSON / YAML document yields (1000000 = 1e+06)
		switch verifChoose("intDefault", 3) {
		case 0:
			schema = &openapi3.Schema{Type: &openapi3.Types{"integer"}, Default: 7}
			wantDecoded = int64(7)
		case 1:
			schema = &openapi3.Schema{Type: &openapi3.Types{"integer"}, Default: 7.0}
			wantDecoded = int64(7)
		case 2:
			schema = &openapi3.Schema{Type: &openapi3.Types{"integer"}, Default: 1000000.0}
			wantDecoded = int64(1000000)
		}
	case 1:
		schema = &openapi3.Schema{Type: &openapi3.Types{"string"}, Default: "d"}
		wantDecoded = "d"
	case 2:
		schema = &openapi3.Schema{Type: &openapi3.Types{"array"}, Items: &openapi3.SchemaRef{Value: &openapi3.Schema{Type: &openapi3.Types{"integer"}}}, Default: []any{1, 2}}
		wantDecoded = []any{int64(1), int64(2)}
	case 3:
		// an object default (as decoded from JSON)
		schema = &openapi3.Schema{Type: &openapi3.Types{"object"}, Properties: openapi3.Schemas{"a": {Value: &openapi3.Schema{Type: &openapi3.Types{"integer"}}}, "b": {Value: &openapi3.Schema{Type: &openapi3.Types{"string"}}}},
			Default: map[string]any{"a": 1.0, "b": "x"}}
		wantDecoded = map[string]any{"a": int64(1), "b": "x"}
	}
	param := &openapi3.Parameter{Name: "P", In: in, Schema: &openapi3.SchemaRef{Value: schema}}
	if in == "query" && shape == 3 {
		param.Style = []string{"deepObject", "form", "form"}[verifChoose("ostyle", 3)]
		if verifChoose("oexplode", 2) == 1 || param.Style == "deepObject" {
			t := true
			param.Explode = &t
		} else {
			f := false
			param.Explode = &f
		}
	}
	if in == "header" && shape == 3 {
		// explode unset (= false for style simple), stated true, stated false
		switch verifChoose("hexplode", 3) {
		case 1:
			t := true
			param.Explode = &t
		case 2:
			f := false
			param.Explode = &f
		}
	}
	if in == "cookie" && shape >= 2 {
		f := false
		param.Explode = &f // arrays and objects in cookies are only defined non-exploded
	}
	if in == "query" && shape == 2 {
		param.Style = []string{"", "form", "spaceDelimited", "pipeDelimited"}[verifChoose("style", 4)]
		switch verifChoose("explode", 3) {
		case 1:
			t := true
			param.Explode = &t
		case 2:
			f := false
			param.Explode = &f
		}
	}
	if param.Validate(context.Background()) != nil {
		return
	}
	// where the parameter is declared: on the operation, or on the path item (alone, or behind another
	// path-level parameter that the operation overrides)
	op := &openapi3.Operation{}
	pathItem := &openapi3.PathItem{Get: op}
	switch verifChoose("level", 3) {
	case 0:
		op.Parameters = openapi3.Parameters{{Value: param}}
	case 1:
		pathItem.Parameters = openapi3.Parameters{{Value: param}}
	case 2:
		other := func() *openapi3.ParameterRef {
			return &openapi3.ParameterRef{Value: &openapi3.Parameter{Name: "other", In: "query", Schema: &openapi3.SchemaRef{Value: &openapi3.Schema{Type: &openapi3.Types{"string"}}}}}
		}
		pathItem.Parameters = openapi3.Parameters{other(), {Value: param}}
		op.Parameters = openapi3.Parameters{other()}
	}
	req := &http.Request{Method: "GET", Header: http.Header{}, URL: &url.URL{Path: "/"}}
	presence := verifChoose("present", 3) // 0 absent, 1 present with a value, 2 present but empty
	present := presence == 1
	if shape == 3 && presence == 2 {
		return // an object sent empty: outside the bound
	}
	if presence != 0 {
		text := []string{"", "5", ""}[presence]
		if shape == 3 {
			// the object {a: 5} in the parameter's serialisation
			explode := param.Explode != nil && *param.Explode
			switch {
			case in == "query" && param.Style == "deepObject":
				req.URL.RawQuery = "P%5Ba%5D=5"
			case in == "query" && explode:
				req.URL.RawQuery = "a=5"
			case in == "query":
				req.URL.RawQuery = "P=a,5"
			case in == "cookie":
				req.Header["Cookie"] = []string{"P=a,5"}
			case explode:
				req.Header["P"] = []string{"a=5"}
			default:
				req.Header["P"] = []string{"a,5"}
			}
		}
		switch {
		case shape == 3:
		case in == "query":
			req.URL.RawQuery = "P=" + text
		case in == "header":
			req.Header["P"] = []string{text}
		case in == "cookie":
			req.Header["Cookie"] = []string{"P=" + text}
		}
	}
	// a cookie parameter travels with the request's other cookies, which are none of its business
	otherCookies := in == "cookie" && verifChoose("otherCookies", 2) == 1
	if otherCookies {
		line := "session=abc"
		if len(req.Header["Cookie"]) == 1 {
			line += "; " + req.Header["Cookie"][0]
		}
		req.Header["Cookie"] = []string{line + "; theme=dark"}
	}
	skip := verifChoose("skip", 2) == 1
	opts := &Options{SkipSettingDefaults: skip}
	route := &routers.Route{Spec: &openapi3.T{}, PathItem: pathItem, Operation: op, Method: "GET"}
	rawBefore, hdrBefore, cookiesBefore := req.URL.RawQuery, len(req.Header["P"]), len(req.Header["Cookie"])
	// the second validation uses a fresh input struct, or the very same one (which caches its view of the query)
	sameInput := verifChoose("sameInput", 2) == 1
	first := &RequestValidationInput{Request: req, Route: route, Options: opts}
	err := ValidateRequest(context.Background(), first)
	if otherCookies {
		c1, e1 := req.Cookie("session")
		c2, e2 := req.Cookie("theme")
		verifAssert(e1 == nil && e2 == nil && c1.Value == "abc" && c2.Value == "dark", "C13 parameter defaults: the request's other cookies are forwarded as received")
	}
	if presence == 2 {
		// present but empty: whatever the verdict, validating again must not keep changing the request
		raw1, hdr1, ck1 := req.URL.RawQuery, strings.Join(req.Header["P"], "|"), strings.Join(req.Header["Cookie"], "|")
		_ = ValidateRequest(context.Background(), &RequestValidationInput{Request: req, Route: route, Options: opts})
		verifAssert(req.URL.RawQuery == raw1 && strings.Join(req.Header["P"], "|") == hdr1 && strings.Join(req.Header["Cookie"], "|") == ck1, "C13 parameter defaults: an empty parameter: a second validation changes nothing further")
		if skip {
			verifAssert(req.URL.RawQuery == rawBefore && len(req.Header["P"]) == hdrBefore && len(req.Header["Cookie"]) == cookiesBefore, "C13 parameter defaults: nothing is written when default-setting is skipped")
		}
		verifReach("end")
		return
	}
	verifAssert(err == nil, "C13 parameter defaults: an optional parameter that is absent or well-formed validates")
	if present || skip {
		verifAssert(req.URL.RawQuery == rawBefore && len(req.Header["P"]) == hdrBefore && len(req.Header["Cookie"]) == cookiesBefore, "C13 parameter defaults: nothing is written when the parameter is present or default-setting is skipped")
		verifReach("end")
		return
	}
	// the forwarded request now carries the default: decode it again
	got, found, derr := decodeStyledParameter(param, &RequestValidationInput{Request: req})
	verifAssert(derr == nil && found, "C13 parameter defaults: the forwarded request carries the defaulted parameter")
	verifAssert(verifSameJSON(got, wantDecoded), "C13 parameter defaults: the forwarded parameter decodes to the default value")
	// second validation: succeeds and changes nothing
	raw2, hdr2, ck2 := req.URL.RawQuery, len(req.Header["P"]), len(req.Header["Cookie"])
	second := &RequestValidationInput{Request: req, Route: route, Options: opts}
	if sameInput {
		second = first
	}
	err2 := ValidateRequest(context.Background(), second)
	verifAssert(err2 == nil && req.URL.RawQuery == raw2 && len(req.Header["P"]) == hdr2 && len(req.Header["Cookie"]) == ck2, "C13 parameter defaults: the forwarded request validates again and a second validation changes nothing")
	verifReach("end")
}

func verifSameJSON(a, b any) bool {
	if ma, ok := a.(map[string]any); ok {
		mb, ok2 := b.(map[string]any)
		if !ok2 || len(ma) != len(mb) {
			return false
		}
		for k, v := range ma {
			w, has := mb[k]
			if !has || !verifSame(v, w) {
				return false
			}
		}
		return true
	}
	x, ok1 := a.([]any)
	y, ok2 := b.([]any)
	if ok1 || ok2 {
		if !ok1 || !ok2 || len(x) != len(y) {
			return false
		}
		for i := range x {
			if !verifSame(x[i], y[i]) {
				return false
			}
		}
		return true
	}
	return verifSame(a, b)
}

//verif:harness id=C13 tier=quick,thorough witness=end bounds="body defaults through the real decoders and the re-encoding step: declared content type in {application/json, application/problem+json, application/ld+json, application/x-www-form-urlencoded} x Content-Type header with or without a charset parameter x object schema {a: integer, d: integer default D (symbolic, as json number 0..9)} x body with or without d (concrete JSON / form text) x SkipSettingDefaults: a valid request stays valid; the forwarded body decodes to the received value plus exactly the default; with defaults skipped the body is byte-for-byte the one received; validating the forwarded request again succeeds"
func verifH_C13_body_defaults() {
	dflt := float64(verifChoose("D", 10))
	obj := &openapi3.Schema{Type: &openapi3.Types{"object"}, Properties: openapi3.Schemas{
		"a": {Value: &openapi3.Schema{Type: &openapi3.Types{"integer"}}},
		"d": {Value: &openapi3.Schema{Type: &openapi3.Types{"integer"}, Default: dflt}},
	}}
	cts := []string{"application/json", "application/problem+json", "application/ld+json", "application/x-www-form-urlencoded"}
	cti := verifChoose("ct", len(cts))
	ct := cts[cti]
	hasD := verifChoose("hasD", 2) == 1
	body := ""
	if cti == 3 {
		body = "a=1"
		if hasD {
			body += "&d=2"
		}
	} else {
		body = `{"a":1}`
		if hasD {
			body = `{"a":1,"d":2}`
		}
	}
	header := ct
	if verifChoose("charset", 2) == 1 {
		header += "; charset=utf-8"
	}
	rb := &openapi3.RequestBody{Required: true, Content: openapi3.Content{ct: &openapi3.MediaType{Schema: &openapi3.SchemaRef{Value: obj}}}}
	op := &openapi3.Operation{RequestBody: &openapi3.RequestBodyRef{Value: rb}}
	skip := verifNondetBool("skipDefaults")
	req := &http.Request{Method: "POST", Header: http.Header{"Content-Type": []string{header}}, URL: &url.URL{Path: "/"}, ContentLength: int64(len(body))}
	req.Body = io.NopCloser(strings.NewReader(body))
	input := &RequestValidationInput{Request: req, Route: &routers.Route{Spec: &openapi3.T{}, PathItem: &openapi3.PathItem{Post: op}, Operation: op, Method: "POST"},
		Options: &Options{SkipSettingDefaults: skip}, QueryParams: url.Values{}, PathParams: map[string]string{}}
	// known finding: form bodies have no body encoder, so a default cannot be written back
	verifKnown("C13-default-rewrite-needs-json-encoder", cti == 3 && !hasD && !skip)
	err := ValidateRequest(context.Background(), input)
	verifAssert(err == nil, "C13 body defaults: a valid request stays valid whatever its (declared) content type")
	if err != nil {
		return
	}
	var rest []byte
	if req.Body != nil {
		rest, _ = io.ReadAll(req.Body)
	}
	if skip || hasD {
		verifAssert(string(rest) == body, "C13 body defaults: with nothing to default the forwarded body is byte-for-byte the one received")
	} else if cti != 3 {
		var got map[string]any
		verifAssert(json.Unmarshal(rest, &got) == nil && len(got) == 2 && got["a"] == 1.0 && got["d"] == dflt, "C13 body defaults: the forwarded body is the received value plus exactly the default")
	}
	verifAssert(req.ContentLength == int64(len(rest)), "C13 body defaults: ContentLength describes the forwarded body")
	// the forwarded request validates again
	req.Body = io.NopCloser(bytes.NewReader(rest))
	verifAssert(ValidateRequest(context.Background(), input) == nil, "C13 body defaults: the forwarded request validates again")
	verifReach("end")
}

//verif:harness id=C13 tier=quick,thorough witness=end bounds="deepObject query parameter with a nested default {kind: all, tags: [x, y], page: {size: N}} (N in 0, 7, 1000000 as float64), absent from the request, next to another query parameter or not: the forwarded request carries the default in deepObject form (members, array items by index, nested members), it decodes back to the default value, the forwarded request validates again and a second validation changes nothing"
func verifH_C13_deepobject_nested_defaults() {
	verifMapOrder()
	n := []float64{0, 7, 1000000}[verifChoose("n", 3)] // as a JSON document gives it
	str := &openapi3.SchemaRef{Value: &openapi3.Schema{Type: &openapi3.Types{"string"}}}
	schema := &openapi3.Schema{Type: &openapi3.Types{"object"}, Properties: openapi3.Schemas{
		"kind": str,
		"tags": {Value: &openapi3.Schema{Type: &openapi3.Types{"array"}, Items: str}},
		"page": {Value: &openapi3.Schema{Type: &openapi3.Types{"object"}, Properties: openapi3.Schemas{"size": {Value: &openapi3.Schema{Type: &openapi3.Types{"integer"}}}}}},
	}, Default: map[string]any{"kind": "all", "tags": []any{"x", "y"}, "page": map[string]any{"size": n}}}
	explode := true
	param := &openapi3.Parameter{Name: "f", In: "query", Style: "deepObject", Explode: &explode, Schema: &openapi3.SchemaRef{Value: schema}}
	if param.Validate(context.Background()) != nil {
		return
	}
	op := &openapi3.Operation{Parameters: openapi3.Parameters{{Value: param}}}
	req := &http.Request{Method: "GET", Header: http.Header{}, URL: &url.URL{Path: "/"}}
	if verifChoose("other", 2) == 1 {
		req.URL.RawQuery = "other=1"
	}
	route := &routers.Route{Spec: &openapi3.T{}, PathItem: &openapi3.PathItem{Get: op}, Operation: op, Method: "GET"}
	err := ValidateRequest(context.Background(), &RequestValidationInput{Request: req, Route: route, Options: &Options{}})
	verifAssert(err == nil, "C13 nested deepObject default: a request without the optional parameter validates")
	got, found, derr := decodeStyledParameter(param, &RequestValidationInput{Request: req})
	verifAssert(derr == nil && found, "C13 nested deepObject default: the forwarded request carries the defaulted parameter")
	want := map[string]any{"kind": "all", "tags": []any{"x", "y"}, "page": map[string]any{"size": int64(n)}}
	verifAssert(verifSameJSON(got, want), "C13 nested deepObject default: the forwarded parameter decodes to the default value")
	raw := req.URL.RawQuery
	err2 := ValidateRequest(context.Background(), &RequestValidationInput{Request: req, Route: route, Options: &Options{}})
	verifAssert(err2 == nil && req.URL.RawQuery == raw, "C13 nested deepObject default: the forwarded request validates again and a second validation changes nothing")
	verifReach("end")
}

//verif:harness id=C13 tier=quick,thorough witness=end bounds="defaults of parameters defined by content: a query / header / cookie parameter defined by application/json content whose schema has a default (integer 7, string d, object {a: 1}), absent or present (as JSON text), SkipSettingDefaults on/off: a present parameter and a skipped default leave the request as it was; an absent one is added exactly once, as JSON text that decodes to the default (known finding: the default of a content-defined parameter is never applied), and a second validation changes nothing"
func verifH_C13_content_param_defaults() {
	in := []string{"query", "header", "cookie"}[verifChoose("in", 3)]
	var schema *openapi3.Schema
	var present string
	switch verifChoose("shape", 3) {
	case 0:
		schema, present = &openapi3.Schema{Type: &openapi3.Types{"integer"}, Default: 7.0}, "5"
	case 1:
		schema, present = &openapi3.Schema{Type: &openapi3.Types{"string"}, Default: "d"}, `"s"`
	case 2:
		schema = &openapi3.Schema{Type: &openapi3.Types{"object"}, Properties: openapi3.Schemas{"a": {Value: &openapi3.Schema{Type: &openapi3.Types{"integer"}}}}, Default: map[string]any{"a": 1.0}}
		present = `{"a":5}`
	}
	param := &openapi3.Parameter{Name: "P", In: in, Content: openapi3.Content{"application/json": &openapi3.MediaType{Schema: &openapi3.SchemaRef{Value: schema}}}}
	if param.Validate(context.Background()) != nil {
		return
	}
	op := &openapi3.Operation{Parameters: openapi3.Parameters{{Value: param}}}
	req := &http.Request{Method: "GET", Header: http.Header{}, URL: &url.URL{Path: "/"}}
	isPresent := verifChoose("present", 2) == 1
	if isPresent {
		switch in {
		case "query":
			req.URL.RawQuery = "P=" + url.QueryEscape(present)
		case "header":
			req.Header["P"] = []string{present}
		case "cookie":
			if present != "5" {
				return // JSON text with quotes or braces is not a cookie value: outside the bound
			}
			req.Header["Cookie"] = []string{"P=" + present}
		}
	}
	skip := verifChoose("skip", 2) == 1
	opts := &Options{SkipSettingDefaults: skip}
	route := &routers.Route{Spec: &openapi3.T{}, PathItem: &openapi3.PathItem{Get: op}, Operation: op, Method: "GET"}
	state := func() string {
		return req.URL.RawQuery + "|" + strings.Join(req.Header["P"], ",") + "|" + strings.Join(req.Header["Cookie"], ",")
	}
	before := state()
	err := ValidateRequest(context.Background(), &RequestValidationInput{Request: req, Route: route, Options: opts})
	verifAssert(err == nil, "C13 content parameter defaults: an optional parameter that is absent or well-formed validates")
	if isPresent || skip {
		verifAssert(state() == before, "C13 content parameter defaults: nothing is written when the parameter is present or default-setting is skipped")
		verifReach("end")
		return
	}
	verifKnown("C13-content-parameter-default-not-applied", true)
	verifAssert(state() != before, "C13 content parameter defaults: the default of an absent parameter is added to the forwarded request")
	verifKnown("C13-content-parameter-default-not-applied", false)
	after := state()
	err2 := ValidateRequest(context.Background(), &RequestValidationInput{Request: req, Route: route, Options: opts})
	verifAssert(err2 == nil && state() == after, "C13 content parameter defaults: the forwarded request validates again and a second validation changes nothing")
	verifReach("end")
}
