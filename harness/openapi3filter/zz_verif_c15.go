package openapi3filter

// C15 (filter part) — ValidateRequest / ValidateResponse against a shared
// document and shared options perform no unsynchronised write to shared state.

import (
	"context"
	"io"
	"net/http"
	"net/url"
	"strings"

	"github.com/getkin/kin-openapi/openapi3"
	"github.com/getkin/kin-openapi/routers"
)

//verif:harness id=C15 tier=quick,thorough witness=end bounds="ValidateRequest + ValidateResponse on one shared route/document/options: query integer parameter with default, header array parameter, security with callback, text/plain body with maxLength, response with required header and text body; request/response texts symbolic (1-2 bytes), presence by fork; MultiError symbolic; footprint monitor on every path"
func verifH_C15_filter() {
	d := "d"
	maxLen := verifNondetUint64("maxLen")
	str := &openapi3.SchemaRef{Value: &openapi3.Schema{Type: &openapi3.Types{"string"}, MaxLength: &maxLen}}
	intDef := &openapi3.SchemaRef{Value: &openapi3.Schema{Type: &openapi3.Types{"integer"}, Default: 7}}
	arr := &openapi3.SchemaRef{Value: &openapi3.Schema{Type: &openapi3.Types{"array"}, Items: &openapi3.SchemaRef{Value: &openapi3.Schema{Type: &openapi3.Types{"integer"}}}}}
	resps := openapi3.NewResponsesWithCapacity(1)
	resps.Set("200", &openapi3.ResponseRef{Value: &openapi3.Response{Description: &d, Headers: openapi3.Headers{"X-R": {Value: &openapi3.Header{Parameter: openapi3.Parameter{Required: true, Schema: str}}}},
		Content: openapi3.Content{"text/plain": &openapi3.MediaType{Schema: str}}}})
	op := &openapi3.Operation{Responses: resps,
		Parameters: openapi3.Parameters{{Value: &openapi3.Parameter{Name: "q", In: "query", Schema: intDef}}, {Value: &openapi3.Parameter{Name: "X-A", In: "header", Schema: arr}}},
		RequestBody: &openapi3.RequestBodyRef{Value: &openapi3.RequestBody{Content: openapi3.Content{"text/plain": &openapi3.MediaType{Schema: str}}}},
		Security:    &openapi3.SecurityRequirements{{"A": {}}},
	}
	spec := &openapi3.T{Components: &openapi3.Components{SecuritySchemes: openapi3.SecuritySchemes{"A": {Value: &openapi3.SecurityScheme{Type: "http", Scheme: "basic"}}}}}
	route := &routers.Route{Spec: spec, PathItem: &openapi3.PathItem{Post: op}, Operation: op, Method: "POST"}
	opts := &Options{MultiError: verifNondetBool("multi")}
	opts.AuthenticationFunc = func(context.Context, *AuthenticationInput) error { return nil }

	req := &http.Request{Method: "POST", Header: http.Header{"Content-Type": []string{"text/plain"}}, URL: &url.URL{Path: "/"}}
	if verifChoose("hasQ", 2) == 1 {
		req.URL.RawQuery = "q=5"
	}
	if verifChoose("hasA", 2) == 1 {
		req.Header["X-A"] = []string{verifLeaf("a", 2, "")}
	}
	if verifChoose("hasBody", 2) == 1 {
		req.Body = io.NopCloser(strings.NewReader(verifLeaf("b", 2, "")))
	}
	rhdr := http.Header{"Content-Type": []string{"text/plain"}}
	if verifChoose("hasR", 2) == 1 {
		rhdr["X-R"] = []string{verifLeaf("r", 2, "")}
	}
	verifSharedBegin(route, opts)
	input := &RequestValidationInput{Request: req, Route: route, Options: opts}
	_ = ValidateRequest(context.Background(), input)
	_ = ValidateResponse(context.Background(), &ResponseValidationInput{RequestValidationInput: input, Status: 200, Header: rhdr, Body: io.NopCloser(strings.NewReader("ok")), Options: opts})
	verifSharedEnd()
	verifReach("end")
}
