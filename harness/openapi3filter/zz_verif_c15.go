package openapi3filter

// C15 (filter part) — ValidateRequest / ValidateResponse against a shared
// document and shared options perform no unsynchronised write to shared state.

import (
	"context"
	"io"
	"net/http"
	"net/url"
	"strings"

	"github.com/getkin/kin-openapi/openapi3"
	"github.com/getkin/kin-openapi/routers"
)

//verif:harness id=C15 tier=quick,thorough witness=end bounds="ValidateRequest + ValidateResponse on one shared route/document/options: query integer parameter with default, header array parameter, no or three path-level parameters in a slice with spare capacity, security with callback, text/plain body with maxLength, response with required header and text body; request/response texts symbolic (1-2 bytes), presence by fork; MultiError symbolic; footprint monitor on every path"
func verifH_C15_filter() {
	d := "d"
	maxLen := verifNondetUint64("maxLen")
	str := &openapi3.SchemaRef{Value: &openapi3.Schema{Type: &openapi3.Types{"string"}, MaxLength: &maxLen}}
	intDef := &openapi3.SchemaRef{Value: &openapi3.Schema{Type: &openapi3.Types{"integer"}, Default: 7}}
	arr := &openapi3.SchemaRef{Value: &openapi3.Schema{Type: &openapi3.Types{"array"}, Items: &openapi3.SchemaRef{Value: &openapi3.Schema{Type: &openapi3.Types{"integer"}}}}}
	resps := openapi3.NewResponsesWithCapacity(1)
	resps.Set("200", &openapi3.ResponseRef{Value: &openapi3.Response{Description: &d, Headers: openapi3.Headers{"X-R": {Value: &openapi3.Header{Parameter: openapi3.Parameter{Required: true, Schema: str}}}},
		Content: openapi3.Content{"text/plain": &openapi3.MediaType{Schema: str}}}})
	op := &openapi3.Operation{Responses: resps,
		Parameters:  openapi3.Parameters{{Value: &openapi3.Parameter{Name: "q", In: "query", Schema: intDef}}, {Value: &openapi3.Parameter{Name: "X-A", In: "header", Schema: arr}}},
		RequestBody: &openapi3.RequestBodyRef{Value: &openapi3.RequestBody{Content: openapi3.Content{"text/plain": &openapi3.MediaType{Schema: str}}}},
		Security:    &openapi3.SecurityRequirements{{"A": {}}},
	}
	spec := &openapi3.T{Components: &openapi3.Components{SecuritySchemes: openapi3.SecuritySchemes{"A": {Value: &openapi3.SecurityScheme{Type: "http", Scheme: "basic"}}}}}
	route := &routers.Route{Spec: spec, PathItem: &openapi3.PathItem{Post: op}, Operation: op, Method: "POST"}
	// path-level parameters: none, or three in a slice with spare capacity (as a decoder leaves it behind:
	// an append to it would write into the shared backing array)
	if verifChoose("pathLevel", 2) == 1 {
		ps := make(openapi3.Parameters, 0, 4)
		for _, name := range []string{"X-P1", "X-P2", "X-P3"} {
			ps = append(ps, &openapi3.ParameterRef{Value: &openapi3.Parameter{Name: name, In: "header", Schema: str}})
		}
		route.PathItem.Parameters = ps
	}
	opts := &Options{MultiError: verifNondetBool("multi")}
	opts.AuthenticationFunc = func(context.Context, *AuthenticationInput) error { return nil }

	req := &http.Request{Method: "POST", Header: http.Header{"Content-Type": []string{"text/plain"}}, URL: &url.URL{Path: "/"}}
	if verifChoose("hasQ", 2) == 1 {
		req.URL.RawQuery = "q=5"
	}
	if verifChoose("hasA", 2) == 1 {
		req.Header["X-A"] = []string{verifLeaf("a", 2, "")}
	}
	if verifChoose("hasBody", 2) == 1 {
		req.Body = io.NopCloser(strings.NewReader(verifLeaf("b", 2, "")))
	}
	rhdr := http.Header{"Content-Type": []string{"text/plain"}}
	if verifChoose("hasR", 2) == 1 {
		rhdr["X-R"] = []string{verifLeaf("r", 2, "")}
	}
	verifSharedBegin(route, opts)
	input := &RequestValidationInput{Request: req, Route: route, Options: opts}
	_ = ValidateRequest(context.Background(), input)
	_ = ValidateResponse(context.Background(), &ResponseValidationInput{RequestValidationInput: input, Status: 200, Header: rhdr, Body: io.NopCloser(strings.NewReader("ok")), Options: opts})
	verifSharedEnd()
	verifReach("end")
}

//verif:harness id=C15 tier=quick,thorough witness=end bounds="body decoders on a shared document: request body as application/json, application/x-www-form-urlencoded or multipart/form-data (concrete texts) against an object schema with properties, allOf or additionalProperties-with-properties; footprint monitor: decoding and validating writes nothing reachable from the shared route"
func verifH_C15_body_decoders() {
	str := &openapi3.SchemaRef{Value: &openapi3.Schema{Type: &openapi3.Types{"string"}}}
	integer := &openapi3.SchemaRef{Value: &openapi3.Schema{Type: &openapi3.Types{"integer"}}}
	obj := &openapi3.Schema{Type: &openapi3.Types{"object"}, Properties: openapi3.Schemas{"a": str, "n": integer}}
	shape := verifChoose("shape", 3)
	switch shape {
	case 1:
		obj.AdditionalProperties.Schema = &openapi3.SchemaRef{Value: &openapi3.Schema{Type: &openapi3.Types{"object"}, Properties: openapi3.Schemas{"x": str}}}
	case 2:
		obj = &openapi3.Schema{AllOf: openapi3.SchemaRefs{{Value: obj}, {Value: &openapi3.Schema{Type: &openapi3.Types{"object"}, Properties: openapi3.Schemas{"b": str}}}}}
	}
	ct, body := "", ""
	switch verifChoose("ct", 3) {
	case 0:
		ct, body = "application/json", `{"a":"v","n":3}`
	case 1:
		ct, body = "application/x-www-form-urlencoded", "a=v&n=3"
	case 2:
		ct = "multipart/form-data; boundary=XX"
		body = "--XX\r\nContent-Disposition: form-data; name=\"a\"\r\n\r\nv\r\n--XX\r\nContent-Disposition: form-data; name=\"n\"\r\nContent-Type: application/json\r\n\r\n3\r\n--XX--\r\n"
	}
	mtKey := ct
	if i := strings.IndexByte(ct, ';'); i >= 0 {
		mtKey = ct[:i]
	}
	d := "d"
	resps := openapi3.NewResponsesWithCapacity(1)
	resps.Set("200", &openapi3.ResponseRef{Value: &openapi3.Response{Description: &d}})
	op := &openapi3.Operation{Responses: resps, RequestBody: &openapi3.RequestBodyRef{Value: &openapi3.RequestBody{Required: true, Content: openapi3.Content{mtKey: &openapi3.MediaType{Schema: &openapi3.SchemaRef{Value: obj}}}}}}
	route := &routers.Route{Spec: &openapi3.T{}, PathItem: &openapi3.PathItem{Post: op}, Operation: op, Method: "POST"}
	opts := &Options{MultiError: verifNondetBool("multi")}
	req := &http.Request{Method: "POST", Header: http.Header{"Content-Type": []string{ct}}, URL: &url.URL{Path: "/"}, Body: io.NopCloser(strings.NewReader(body))}
	verifSharedBegin(route, opts)
	err := ValidateRequest(context.Background(), &RequestValidationInput{Request: req, Route: route, Options: opts})
	verifSharedEnd()
	if shape != 2 || mtKey == "application/json" {
		// (the form decoders document that they need an object schema at the top level: allOf is refused)
		verifAssert(err == nil, "C15 body decoders: the conforming body is accepted")
	}
	verifReach("end")
}

//verif:harness id=C15 tier=quick,thorough witness=end bounds="parameter decoders under the footprint monitor: the C10 parameter harness (every legal style cell x 10 schema shapes x any ASCII raw text of 0-3 bytes, error paths included) with the parameter definition and the options shared: decoding and validating a parameter writes nothing shared, whatever the text"
func verifH_C15_param_decoders() {
	verifFootprint = true
	defer func() { verifFootprint = false }()
	verifH_C10_params()
}

//verif:harness id=C15 tier=quick,thorough witness=end bounds="deepObject and content-defined parameters under the footprint monitor: the C10 deepObject harness (6 schema shapes x bracket key forms x values, error paths included) and the C10 content-parameter harness"
func verifH_C15_deepobject_decoders() {
	verifFootprint = true
	defer func() { verifFootprint = false }()
	if verifChoose("which", 2) == 0 {
		verifH_C10_deepobject()
	} else {
		verifH_C10_content_params()
	}
}
