package openapi3filter

// C06 kernels 2-4 — request body dispatch, request-side property rules, form decoding.

import (
	"context"
	"io"
	"net/http"
	"net/url"
	"strings"

	"github.com/getkin/kin-openapi/openapi3"
	"github.com/getkin/kin-openapi/routers"
)

func verifBodyInput(op *openapi3.Operation, ct string, body string, hasBody bool, opts *Options) *RequestValidationInput {
	req := &http.Request{Method: "POST", Header: http.Header{}, URL: &url.URL{Path: "/"}}
	if ct != "" {
		req.Header["Content-Type"] = []string{ct}
	}
	if hasBody {
		req.Body = io.NopCloser(strings.NewReader(body))
	}
	return &RequestValidationInput{Request: req, Route: &routers.Route{Spec: &openapi3.T{}, PathItem: &openapi3.PathItem{Post: op}, Operation: op, Method: "POST"}, Options: opts, QueryParams: url.Values{}, PathParams: map[string]string{}}
}

//verif:harness id=C06 tier=quick,thorough witness=end bounds="ValidateRequestBody dispatch: body required/optional x declared content in {text/plain, text/*, */*, none} (schema string maxLength symbolic uint64, or no schema) x Content-Type in {text/plain, text/plain;charset=x, text/html, application/x-other, absent} x body absent / empty / 1-2 bytes of printable ASCII, space, tab, CR, LF"
func verifH_C06_dispatch() {
	maxLen := verifNondetUint64("maxLen")
	schema := &openapi3.SchemaRef{Value: &openapi3.Schema{Type: &openapi3.Types{"string"}, MaxLength: &maxLen}}
	rb := &openapi3.RequestBody{Required: verifChoose("required", 2) == 1}
	declared := []string{"text/plain", "text/*", "*/*", ""}[verifChoose("declared", 4)]
	withSchema := verifChoose("withSchema", 2) == 1
	if declared != "" {
		mt := &openapi3.MediaType{}
		if withSchema {
			mt.Schema = schema
		}
		rb.Content = openapi3.Content{declared: mt}
	}
	op := &openapi3.Operation{RequestBody: &openapi3.RequestBodyRef{Value: rb}}
	ct := []string{"text/plain", "text/plain;charset=x", "text/html", "application/x-other", ""}[verifChoose("ct", 5)]
	presence := verifChoose("body", 3) // 0 absent, 1 empty, 2 text
	text := ""
	if presence == 2 {
		// printable ASCII and the white space bytes: a body of blanks is a body
		text = verifNondetStringN("b", 1+verifChoose("b.len", 2))
		for i := 0; i < len(text); i++ {
			verifAssume((text[i] >= 0x20 && text[i] < 0x7f) || text[i] == '\t' || text[i] == '\n' || text[i] == '\r')
		}
	}
	input := verifBodyInput(op, ct, text, presence != 0, &Options{})
	err := ValidateRequestBody(context.Background(), input, rb)

	var want bool
	switch {
	case presence != 2:
		want = !rb.Required // a missing (or empty) required body is rejected, an optional one accepted
	case declared == "":
		want = true // no declared content: nothing to check
	default:
		// media type selection
		matches := false
		switch declared {
		case "text/plain":
			matches = ct == "text/plain" || ct == "text/plain;charset=x"
		case "text/*":
			matches = ct == "text/plain" || ct == "text/plain;charset=x" || ct == "text/html"
		case "*/*":
			matches = true
		}
		if !matches {
			want = false // undeclared content type
		} else if !withSchema {
			want = true
		} else {
			// only text/plain has a registered decoder among these
			want = (ct == "text/plain" || ct == "text/plain;charset=x") && uint64(len(text)) <= maxLen
		}
	}
	verifAssert((err == nil) == want, "C06 dispatch: missing required body and undeclared content type are rejected; otherwise the decoded value decides")
	if err != nil && presence != 2 && rb.Required {
		re, ok := err.(*RequestError)
		verifAssert(ok && re.Err == ErrInvalidRequired, "C06 dispatch: a missing required body is ErrInvalidRequired")
	}
	verifReach("end")
}

//verif:harness id=C06 tier=quick,thorough witness=end bounds="request-side property rules: body (injected decoder) object with a readOnly and a writeOnly property, each required or not, each present or absent (the read-only one also present as an explicit null), the read-only one with or without a default; options ExcludeReadOnlyValidations and SkipSettingDefaults symbolic"
func verifH_C06_readonly() {
	num := func(ro, wo bool) *openapi3.SchemaRef {
		return &openapi3.SchemaRef{Value: &openapi3.Schema{Type: &openapi3.Types{"number"}, ReadOnly: ro, WriteOnly: wo}}
	}
	obj := &openapi3.Schema{Type: &openapi3.Types{"object"}, Properties: openapi3.Schemas{"r": num(true, false), "w": num(false, true)}}
	if verifChoose("defR", 2) == 1 {
		// a default on the read-only property must not be filled into a request (it would then be "present")
		obj.Properties["r"].Value.Default = 5.0
	}
	reqR, reqW := verifChoose("reqR", 2) == 1, verifChoose("reqW", 2) == 1
	if reqR {
		obj.Required = append(obj.Required, "r")
	}
	if reqW {
		obj.Required = append(obj.Required, "w")
	}
	rKind := verifChoose("hasR", 3) // absent, a number, an explicit null (the property is nullable then)
	hasR, hasW := rKind != 0, verifChoose("hasW", 2) == 1
	value := map[string]any{}
	switch rKind {
	case 1:
		value["r"] = 1.0
	case 2:
		obj.Properties["r"].Value.Nullable = true
		value["r"] = nil
	}
	if hasW {
		value["w"] = 2.0
	}
	RegisterBodyDecoder("application/x-verif", func(io.Reader, http.Header, *openapi3.SchemaRef, EncodingFn) (any, error) { return value, nil })
	// when a default is filled in the body is re-encoded: the content type needs an encoder too
	RegisterBodyEncoder("application/x-verif", func(any) ([]byte, error) { return []byte("x"), nil })
	rb := &openapi3.RequestBody{Required: true, Content: openapi3.Content{"application/x-verif": &openapi3.MediaType{Schema: &openapi3.SchemaRef{Value: obj}}}}
	op := &openapi3.Operation{RequestBody: &openapi3.RequestBodyRef{Value: rb}}
	opts := &Options{ExcludeReadOnlyValidations: verifNondetBool("exclRO"), SkipSettingDefaults: verifNondetBool("skipDefaults")}
	input := verifBodyInput(op, "application/x-verif", "x", true, opts)
	err := ValidateRequestBody(context.Background(), input, rb)
	ok := true
	if hasR && !opts.ExcludeReadOnlyValidations {
		ok = false // read-only properties must be absent from a request
	}
	if reqW && !hasW {
		ok = false // write-only is an ordinary property in a request
	}
	// a required read-only property need not be present
	verifAssert((err == nil) == ok, "C06 read-only: a request must not carry read-only properties (unless excluded), need not contain required read-only ones; write-only is allowed")
	verifReach("end")
}

//verif:harness id=C06 tier=quick,thorough witness=end bounds="form decoding (UrlencodedBodyDecoder -> decodeSchemaConstructs -> decodeProperty) on url-encoded bodies built from leaf texts over [0-9a-z-] of 1-2 bytes: object schema with properties {i: integer, s: string, b: boolean}, each field present or absent (the string field also present with the empty string); decoded object has exactly the present fields with the values they encode; a present field that does not parse as its type makes the request fail"
func verifH_C06_form() {
	prim := func(t string) *openapi3.SchemaRef {
		return &openapi3.SchemaRef{Value: &openapi3.Schema{Type: &openapi3.Types{t}}}
	}
	schema := &openapi3.SchemaRef{Value: &openapi3.Schema{Type: &openapi3.Types{"object"}, Properties: openapi3.Schemas{"i": prim("integer"), "s": prim("string"), "b": prim("boolean")}}}
	names := []string{"i", "s", "b"}
	types := []string{"integer", "string", "boolean"}
	body := ""
	texts := map[string]string{}
	for k, n := range names {
		if n == "s" && verifChoose("empty_s", 2) == 1 {
			// s= : the field is there and its value is the empty string
			texts[n] = ""
			if body != "" {
				body += "&"
			}
			body += "s="
			continue
		}
		if verifChoose("has_"+n, 2) == 1 {
			t := verifNondetStringN("v_"+n, 1+verifChoose("len_"+n, 2))
			for j := 0; j < len(t); j++ {
				c := t[j]
				// unreserved characters: url.ParseQuery returns them unchanged
				verifAssume((c >= '0' && c <= '9') || (c >= 'a' && c <= 'z') || c == '-')
			}
			texts[n] = t
			if body != "" {
				body += "&"
			}
			body += n + "=" + t
			_ = types[k]
		}
	}
	dec := RegisteredBodyDecoder("application/x-www-form-urlencoded")
	got, err := dec(strings.NewReader(body), http.Header{"Content-Type": []string{"application/x-www-form-urlencoded"}}, schema, func(string) *openapi3.Encoding { return nil })
	allOK := true
	for k, n := range names {
		if t, ok := texts[n]; ok {
			if _, ok := verifTyped(t, types[k]); !ok {
				allOK = false
			}
		}
	}
	if !allOK {
		verifKnown("C06-form-field-parse-error-dropped", true)
		// through the public entry point the request must fail
		rb := &openapi3.RequestBody{Required: true, Content: openapi3.Content{"application/x-www-form-urlencoded": &openapi3.MediaType{Schema: schema}}}
		op := &openapi3.Operation{RequestBody: &openapi3.RequestBodyRef{Value: rb}}
		input := verifBodyInput(op, "application/x-www-form-urlencoded", body, true, &Options{})
		verr := ValidateRequestBody(context.Background(), input, rb)
		verifAssert(err != nil || verr != nil, "C06 form: a present field that is not a serialisation of its declared type makes the request fail")
		verifReach("end")
		return
	}
	verifAssert(err == nil, "C06 form: a well-formed form body decodes")
	if err == nil {
		obj, ok := got.(map[string]any)
		if t, sent := texts["s"]; sent && t == "" {
			verifKnown("C06-form-empty-string-dropped", true)
		}
		verifAssert(ok && len(obj) == len(texts), "C06 form: the decoded object has exactly the present fields")
		if ok {
			for k, n := range names {
				if t, present := texts[n]; present {
					want, _ := verifTyped(t, types[k])
					verifAssert(verifSame(obj[n], want), "C06 form: each field decodes to the value it encodes")
				}
			}
		}
		verifKnown("C06-form-empty-string-dropped", false)
	}
	verifReach("end")
}

//verif:harness id=C06 tier=quick,thorough witness=end bounds="media type keys carrying parameters: declared content = subsets of {'text/plain; v=2', 'text/plain', 'text/*'} each with its own symbolic maxLength x Content-Type in {'text/plain; v=2' (exact key), 'text/plain', 'text/plain;v=2' (other spelling), 'text/plain; charset=utf-8; v=2' (two parameters), 'Text/PLAIN' (type and subtype are case-insensitive), 'text/plain ; v=2' (white space before the semicolon)} x body of 1-2 ASCII bytes through ValidateRequestBody: the entry is chosen by exact string, then bare type, then type/*"
func verifH_C06_paramkey() {
	keys := []string{"text/plain; v=2", "text/plain", "text/*"}
	lens := []uint64{verifNondetUint64("lenExact"), verifNondetUint64("lenBare"), verifNondetUint64("lenWild")}
	subset := 1 + verifChoose("declared", 7)
	content := openapi3.Content{}
	for i, k := range keys {
		if subset&(1<<i) != 0 {
			content[k] = &openapi3.MediaType{Schema: &openapi3.SchemaRef{Value: &openapi3.Schema{Type: &openapi3.Types{"string"}, MaxLength: &lens[i]}}}
		}
	}
	rb := &openapi3.RequestBody{Required: true, Content: content}
	op := &openapi3.Operation{RequestBody: &openapi3.RequestBodyRef{Value: rb}}
	cti := verifChoose("ct", 6)
	ct := []string{"text/plain; v=2", "text/plain", "text/plain;v=2", "text/plain; charset=utf-8; v=2", "Text/PLAIN", "text/plain ; v=2"}[cti]
	text := verifLeaf("b", 2, "")
	input := verifBodyInput(op, ct, text, true, &Options{})
	err := ValidateRequestBody(context.Background(), input, rb)
	chosen := -1
	switch {
	case cti == 0 && subset&1 != 0:
		chosen = 0
	case subset&2 != 0:
		chosen = 1
	case subset&4 != 0:
		chosen = 2
	}
	want := chosen >= 0 && uint64(len(text)) <= lens[chosen]
	verifAssert((err == nil) == want, "C06 media type keys with parameters: the declared entry is chosen by exact string, then bare type, then type/*, and its schema decides")
	verifReach("end")
}

//verif:harness id=C06 tier=quick,thorough witness=end bounds="multipart/form-data bodies (concrete text through the interpreted mime/multipart): object schema {s: string maxLength symbolic, n: integer minimum symbolic (all float64), f: string format binary}; parts s (text of 0-2 chars from a pool), n as application/json part from a pool of literals, f as a file part, each present or absent; required subset of {s,n}; the request is accepted exactly when every present part satisfies its property schema and the required ones are present"
func verifH_C06_multipart() {
	maxLen := verifNondetUint64("maxLen")
	min := verifNondetFloat64("min")
	verifAssume(min == min)
	obj := &openapi3.Schema{Type: &openapi3.Types{"object"}, Properties: openapi3.Schemas{
		"s": {Value: &openapi3.Schema{Type: &openapi3.Types{"string"}, MaxLength: &maxLen}},
		"n": {Value: &openapi3.Schema{Type: &openapi3.Types{"integer"}, Min: &min}},
		"f": {Value: &openapi3.Schema{Type: &openapi3.Types{"string"}, Format: "binary"}},
	}}
	req := verifChoose("required", 4)
	if req&1 != 0 {
		obj.Required = append(obj.Required, "s")
	}
	if req&2 != 0 {
		obj.Required = append(obj.Required, "n")
	}
	body := ""
	hasS, hasN, hasF := verifChoose("hasS", 2) == 1, verifChoose("hasN", 2) == 1, verifChoose("hasF", 2) == 1
	sText := []string{"", "a", "ab"}[verifChoose("s", 3)]
	nText := []string{"0", "7", "-3", "1.5", "\"x\""}[verifChoose("n", 5)]
	if hasS {
		body += "--XX\r\nContent-Disposition: form-data; name=\"s\"\r\n\r\n" + sText + "\r\n"
	}
	if hasN {
		body += "--XX\r\nContent-Disposition: form-data; name=\"n\"\r\nContent-Type: application/json\r\n\r\n" + nText + "\r\n"
	}
	if hasF {
		body += "--XX\r\nContent-Disposition: form-data; name=\"f\"; filename=\"f.bin\"\r\nContent-Type: application/octet-stream\r\n\r\nxyz\r\n"
	}
	body += "--XX--\r\n"
	rb := &openapi3.RequestBody{Required: true, Content: openapi3.Content{"multipart/form-data": &openapi3.MediaType{Schema: &openapi3.SchemaRef{Value: obj}}}}
	op := &openapi3.Operation{RequestBody: &openapi3.RequestBodyRef{Value: rb}}
	input := verifBodyInput(op, "multipart/form-data; boundary=XX", body, true, &Options{})
	err := ValidateRequestBody(context.Background(), input, rb)
	ok := true
	if hasS && uint64(len(sText)) > maxLen {
		ok = false
	}
	if hasN {
		switch nText {
		case "0":
			ok = ok && 0 >= min
		case "7":
			ok = ok && 7 >= min
		case "-3":
			ok = ok && -3 >= min
		default:
			ok = false // 1.5 and "x" are not integers
		}
	}
	if req&1 != 0 && !hasS {
		ok = false
	}
	if req&2 != 0 && !hasN {
		ok = false
	}
	verifAssert((err == nil) == ok, "C06 multipart: the body is accepted exactly when its parts satisfy their property schemas and the required parts are present")
	verifReach("end")
}

//verif:harness id=C06 tier=quick,thorough witness=end bounds="application/json bodies (concrete texts through the JSON contract model / native encoding/json): 15 texts (objects satisfying or violating the schema, an array, a scalar, truncated text, a value followed by garbage / by a stray closing brace or bracket / by a comma / by white space, two values, empty, whitespace only, null) against {type: object, required [a], properties {a: integer minimum symbolic}}, the empty schema {} or a schema with annotations only; accepted exactly when the text is one JSON value that satisfies the schema"
func verifH_C06_json_texts() {
	min := verifNondetFloat64("min")
	verifAssume(min == min)
	obj := &openapi3.Schema{Type: &openapi3.Types{"object"}, Required: []string{"a"}, Properties: openapi3.Schemas{"a": {Value: &openapi3.Schema{Type: &openapi3.Types{"integer"}, Min: &min}}}}
	texts := []string{`{"a":5}`, `{"a":-2}`, `{"b":1}`, `[1]`, `7`, `{"a":5`, `{"a":5} trailing`, `{"a":5}{"a":6}`, ``, `  `, `null`, `{"a":5}}`, `{"a":5}]`, `{"a":5},`, `{"a":5} ` + "\n"}
	k := verifChoose("text", len(texts))
	// ... or against a schema that constrains nothing ({} or annotations only): still one JSON value, and not null
	unconstrained := verifChoose("unconstrained", 3)
	switch unconstrained {
	case 1:
		obj = &openapi3.Schema{}
	case 2:
		obj = &openapi3.Schema{Description: "anything", Title: "t"}
	}
	rb := &openapi3.RequestBody{Required: true, Content: openapi3.Content{"application/json": &openapi3.MediaType{Schema: &openapi3.SchemaRef{Value: obj}}}}
	op := &openapi3.Operation{RequestBody: &openapi3.RequestBodyRef{Value: rb}}
	input := verifBodyInput(op, "application/json", texts[k], true, &Options{})
	err := ValidateRequestBody(context.Background(), input, rb)
	want := false
	switch k {
	case 0:
		want = 5 >= min
	case 1:
		want = -2 >= min
	case 14:
		want = 5 >= min // white space may follow the value
	}
	if unconstrained != 0 {
		want = k <= 4 || k == 14
	}
	verifAssert((err == nil) == want, "C06 json texts: a body is accepted exactly when it is one JSON value satisfying the schema")
	verifReach("end")
}

//verif:harness id=C06 tier=quick,thorough witness=end bounds="form decoding of an array property: schema {l: array of integers, s: string}; body = 0-2 occurrences of l (each one byte over [0-9a-z-]) and optionally s; the decoded object has l as an array with one item per occurrence, in order, typed; an item that is not an integer makes the request fail"
func verifH_C06_form_array() {
	prim := func(t string) *openapi3.SchemaRef {
		return &openapi3.SchemaRef{Value: &openapi3.Schema{Type: &openapi3.Types{t}}}
	}
	schema := &openapi3.SchemaRef{Value: &openapi3.Schema{Type: &openapi3.Types{"object"}, Properties: openapi3.Schemas{
		"l": {Value: &openapi3.Schema{Type: &openapi3.Types{"array"}, Items: prim("integer")}}, "s": prim("string")}}}
	body := ""
	var ltexts []string
	for k := 0; k < verifChoose("len_l", 3); k++ {
		t := verifNondetStringN("v_l", 1)
		verifAssume((t[0] >= '0' && t[0] <= '9') || (t[0] >= 'a' && t[0] <= 'z') || t[0] == '-')
		ltexts = append(ltexts, t)
		if body != "" {
			body += "&"
		}
		body += "l=" + t
	}
	hasS := verifChoose("has_s", 2) == 1
	if hasS {
		if body != "" {
			body += "&"
		}
		body += "s=x"
	}
	allOK := true
	for _, t := range ltexts {
		if _, ok := verifTyped(t, "integer"); !ok {
			allOK = false
		}
	}
	rb := &openapi3.RequestBody{Required: true, Content: openapi3.Content{"application/x-www-form-urlencoded": &openapi3.MediaType{Schema: schema}}}
	op := &openapi3.Operation{RequestBody: &openapi3.RequestBodyRef{Value: rb}}
	if !allOK {
		verifKnown("C06-form-field-parse-error-dropped", true)
		input := verifBodyInput(op, "application/x-www-form-urlencoded", body, true, &Options{})
		verifAssert(ValidateRequestBody(context.Background(), input, rb) != nil, "C06 form array: an item that is not a serialisation of its declared type makes the request fail")
		verifReach("end")
		return
	}
	dec := RegisteredBodyDecoder("application/x-www-form-urlencoded")
	got, err := dec(strings.NewReader(body), http.Header{"Content-Type": []string{"application/x-www-form-urlencoded"}}, schema, func(string) *openapi3.Encoding { return nil })
	verifAssert(err == nil, "C06 form array: a well-formed form body decodes")
	if err != nil {
		return
	}
	obj, ok := got.(map[string]any)
	want := 0
	if len(ltexts) > 0 {
		want++
	}
	if hasS {
		want++
	}
	verifAssert(ok && len(obj) == want, "C06 form array: the decoded object has exactly the present fields")
	if ok && len(ltexts) > 0 {
		arr, isArr := obj["l"].([]any)
		verifAssert(isArr && len(arr) == len(ltexts), "C06 form array: a repeated key decodes to an array with one item per occurrence")
		if isArr && len(arr) == len(ltexts) {
			for k, t := range ltexts {
				w, _ := verifTyped(t, "integer")
				verifAssert(verifSame(arr[k], w), "C06 form array: array items decode in order to the values they encode")
			}
		}
	}
	verifReach("end")
}

//verif:harness id=C06 tier=quick,thorough witness=end bounds="per-property encodings of url-encoded bodies: schema {l: array of integers / numbers / strings, s: string}; encoding of l with style unset / form / spaceDelimited / pipeDelimited x explode unset / true / false (unset = exploded for form, not exploded for the delimited styles); l carries 1-2 items of one symbolic decimal digit each, serialised by the style's rule (l=1&l=2 | l=1,2 | l=1%202 | l=1|2); the decoder returns the array the body encodes, and ValidateRequestBody accepts exactly when the item count meets a symbolic maxItems"
func verifH_C06_form_encodings() {
	itemType := []string{"integer", "number", "string"}[verifChoose("itemType", 3)]
	intS := &openapi3.SchemaRef{Value: &openapi3.Schema{Type: &openapi3.Types{itemType}}}
	maxItems := uint64(verifChoose("maxItems", 3))
	arr := &openapi3.SchemaRef{Value: &openapi3.Schema{Type: &openapi3.Types{"array"}, Items: intS, MaxItems: &maxItems}}
	schema := &openapi3.SchemaRef{Value: &openapi3.Schema{Type: &openapi3.Types{"object"}, Properties: openapi3.Schemas{"l": arr, "s": {Value: &openapi3.Schema{Type: &openapi3.Types{"string"}}}}}}
	enc := &openapi3.Encoding{Style: []string{"", "form", "spaceDelimited", "pipeDelimited"}[verifChoose("style", 4)]}
	// explode defaults to true for style form only (OpenAPI 3.0.3, Encoding Object)
	delimited := enc.Style == "spaceDelimited" || enc.Style == "pipeDelimited"
	explode := !delimited
	switch verifChoose("explode", 3) {
	case 1:
		t := true
		enc.Explode = &t
		explode = true
	case 2:
		f := false
		enc.Explode = &f
		explode = false
	}
	if enc.Validate(context.Background()) != nil {
		return
	}
	// known finding: an encoding with a delimited style and no explode member is read as exploded
	verifKnown("C06-encoding-delimited-explode-default", delimited && enc.Explode == nil)
	n := 1 + verifChoose("n", 2)
	items := make([]string, n)
	want := make([]any, n)
	for i := range items {
		d := verifNondetByteIn("d", "0123456789")
		items[i] = string([]byte{d})
		switch itemType {
		case "integer":
			want[i] = int64(d - '0')
		case "number":
			want[i] = float64(d - '0')
		default:
			want[i] = items[i]
		}
	}
	body := "s=x"
	if explode {
		for _, it := range items {
			body += "&l=" + it
		}
	} else {
		delim := ","
		switch enc.Style {
		case "spaceDelimited":
			delim = "%20"
		case "pipeDelimited":
			delim = "|"
		}
		body += "&l=" + strings.Join(items, delim)
	}
	encFn := func(name string) *openapi3.Encoding {
		if name == "l" {
			return enc
		}
		return nil
	}
	dec := RegisteredBodyDecoder("application/x-www-form-urlencoded")
	got, err := dec(strings.NewReader(body), http.Header{"Content-Type": []string{"application/x-www-form-urlencoded"}}, schema, encFn)
	verifAssert(err == nil, "C06 form encodings: a body serialised by the property's encoding decodes")
	if err == nil {
		obj, ok := got.(map[string]any)
		verifAssert(ok && len(obj) == 2 && verifSame(obj["s"], "x"), "C06 form encodings: the decoded object has both fields")
		if ok {
			l, isArr := obj["l"].([]any)
			verifAssert(isArr && len(l) == n, "C06 form encodings: the array has one item per serialised item")
			if isArr && len(l) == n {
				for i := range l {
					verifAssert(verifSame(l[i], want[i]), "C06 form encodings: each item decodes to the integer it encodes, in order")
				}
			}
		}
	}
	rb := &openapi3.RequestBody{Required: true, Content: openapi3.Content{"application/x-www-form-urlencoded": &openapi3.MediaType{Schema: schema, Encoding: map[string]*openapi3.Encoding{"l": enc}}}}
	op := &openapi3.Operation{RequestBody: &openapi3.RequestBodyRef{Value: rb}}
	input := verifBodyInput(op, "application/x-www-form-urlencoded", body, true, &Options{})
	verr := ValidateRequestBody(context.Background(), input, rb)
	verifAssert((verr == nil) == (uint64(n) <= maxItems), "C06 form encodings: the request is accepted exactly when the decoded array satisfies maxItems")
	verifReach("end")
}

//verif:harness id=C06 tier=quick,thorough witness=end bounds="multipart bodies with a part the schema does not declare: object schema {s: string} with additionalProperties absent / true / false / {type: string, maxLength 1}; body = part s and a part zz of one or two characters: as for any object, the undeclared member is allowed unless additionalProperties forbids it or its schema rejects the value"
func verifH_C06_multipart_undeclared() {
	obj := &openapi3.Schema{Type: &openapi3.Types{"object"}, Properties: openapi3.Schemas{"s": {Value: &openapi3.Schema{Type: &openapi3.Types{"string"}}}}}
	ap := verifChoose("ap", 4)
	one := uint64(1)
	switch ap {
	case 1:
		t := true
		obj.AdditionalProperties.Has = &t
	case 2:
		f := false
		obj.AdditionalProperties.Has = &f
	case 3:
		obj.AdditionalProperties.Schema = &openapi3.SchemaRef{Value: &openapi3.Schema{Type: &openapi3.Types{"string"}, MaxLength: &one}}
	}
	zz := []string{"a", "ab"}[verifChoose("zz", 2)]
	body := "--XX\r\nContent-Disposition: form-data; name=\"s\"\r\n\r\nv\r\n" +
		"--XX\r\nContent-Disposition: form-data; name=\"zz\"\r\n\r\n" + zz + "\r\n--XX--\r\n"
	rb := &openapi3.RequestBody{Required: true, Content: openapi3.Content{"multipart/form-data": &openapi3.MediaType{Schema: &openapi3.SchemaRef{Value: obj}}}}
	op := &openapi3.Operation{RequestBody: &openapi3.RequestBodyRef{Value: rb}}
	input := verifBodyInput(op, "multipart/form-data; boundary=XX", body, true, &Options{})
	err := ValidateRequestBody(context.Background(), input, rb)
	want := true
	switch ap {
	case 2:
		want = false
	case 3:
		want = len(zz) <= 1
	}
	verifKnown("C06-multipart-undeclared-part-refused", want && (ap == 0 || ap == 3))
	verifAssert((err == nil) == want, "C06 multipart undeclared: an undeclared part is judged by additionalProperties like any undeclared member")
	verifKnown("C06-multipart-undeclared-part-refused", false)
	verifReach("end")
}

//verif:harness id=C06 tier=quick,thorough witness=end bounds="url-encoded bodies with a field the schema does not declare: object schema {s: string} with additionalProperties absent / true / false / {type: string, maxLength 1}; body s=v&zz=a or zz=ab: the undeclared field is judged by additionalProperties like any undeclared member"
func verifH_C06_form_undeclared() {
	obj := &openapi3.Schema{Type: &openapi3.Types{"object"}, Properties: openapi3.Schemas{"s": {Value: &openapi3.Schema{Type: &openapi3.Types{"string"}}}}}
	ap := verifChoose("ap", 4)
	one := uint64(1)
	switch ap {
	case 1:
		t := true
		obj.AdditionalProperties.Has = &t
	case 2:
		f := false
		obj.AdditionalProperties.Has = &f
	case 3:
		obj.AdditionalProperties.Schema = &openapi3.SchemaRef{Value: &openapi3.Schema{Type: &openapi3.Types{"string"}, MaxLength: &one}}
	}
	zz := []string{"a", "ab"}[verifChoose("zz", 2)]
	body := "s=v&zz=" + zz
	rb := &openapi3.RequestBody{Required: true, Content: openapi3.Content{"application/x-www-form-urlencoded": &openapi3.MediaType{Schema: &openapi3.SchemaRef{Value: obj}}}}
	op := &openapi3.Operation{RequestBody: &openapi3.RequestBodyRef{Value: rb}}
	input := verifBodyInput(op, "application/x-www-form-urlencoded", body, true, &Options{})
	err := ValidateRequestBody(context.Background(), input, rb)
	want := true
	switch ap {
	case 2:
		want = false
	case 3:
		want = len(zz) <= 1
	}
	verifKnown("C06-form-undeclared-field-dropped", !want)
	verifAssert((err == nil) == want, "C06 form undeclared: an undeclared field is judged by additionalProperties like any undeclared member")
	verifKnown("C06-form-undeclared-field-dropped", false)
	verifReach("end")
}
