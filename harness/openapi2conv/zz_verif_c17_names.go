package openapi2conv

// C17, names that meet: a shared parameter whose key is also the name of a definition, a body
// parameter literally called "body" next to another parameter of that name, a shared body parameter
// whose key is not its name.

import (
	"context"

	"github.com/getkin/kin-openapi/openapi2"
	"github.com/getkin/kin-openapi/openapi3"
)

//verif:harness id=C17 tier=quick,thorough witness=end bounds="names that meet: (a) a shared query parameter under the key Limit or Item (Item is also a definition) used by reference from an operation that also has a body or not; (b) a body parameter named body or item, inline or shared under the key SB, next to a query parameter named body or not: v2 -> v3 keeps the parameter a parameter (name, location, maximum symbolic) and the body a request body, validates, and v3 -> v2 gives every parameter back under its name, location and constraints, references at OpenAPI 2 locations"
func verifH_C17_names() {
	maxf := verifNondetFloat64("maximum")
	verifAssume(maxf == maxf)
	doc := &openapi2.T{Swagger: "2.0", Info: openapi3.Info{Title: "t", Version: "1"}, Host: "h.example", BasePath: "/v1", Schemes: []string{"https"},
		Definitions: map[string]*openapi2.SchemaRef{"Item": {Value: &openapi2.Schema{Type: &openapi3.Types{"object"}, Properties: openapi2.Schemas{"name": {Value: &openapi2.Schema{Type: &openapi3.Types{"string"}}}}}}},
		Paths:       map[string]*openapi2.PathItem{}, Parameters: map[string]*openapi2.Parameter{}}
	op := &openapi2.Operation{OperationID: "postItem", Consumes: []string{"application/json"}, Responses: map[string]*openapi2.Response{"200": {Description: "ok"}}}
	key := []string{"Limit", "Item"}[verifChoose("sharedKey", 2)]
	doc.Parameters[key] = &openapi2.Parameter{Name: "limit", In: "query", Type: &openapi3.Types{"integer"}, Maximum: &maxf}
	op.Parameters = append(op.Parameters, &openapi2.Parameter{Ref: "#/parameters/" + key})
	bodyName := []string{"body", "item"}[verifChoose("bodyName", 2)]
	bodyKind := verifChoose("body", 3) // none, inline, shared
	body := &openapi2.Parameter{Name: bodyName, In: "body", Required: true, Schema: &openapi2.SchemaRef{Ref: "#/definitions/Item"}}
	switch bodyKind {
	case 1:
		op.Parameters = append(op.Parameters, body)
	case 2:
		doc.Parameters["SB"] = body
		op.Parameters = append(op.Parameters, &openapi2.Parameter{Ref: "#/parameters/SB"})
	}
	queryBody := verifChoose("queryNamedBody", 2) == 1
	if queryBody {
		op.Parameters = append(op.Parameters, &openapi2.Parameter{Name: "body", In: "query", Type: &openapi3.Types{"string"}})
	}
	doc.Paths["/items"] = &openapi2.PathItem{Post: op}

	doc3, err := ToV3(doc)
	verifAssert(err == nil && doc3 != nil, "C17 names: the document converts")
	if err != nil || doc3 == nil {
		return
	}
	verifAssert(doc3.Validate(context.Background()) == nil, "C17 names: the converted document passes validation")
	pi := doc3.Paths.Value("/items")
	if pi == nil || pi.Post == nil {
		verifAssert(false, "C17 names: same paths and methods")
		return
	}
	lim := pi.Post.Parameters.GetByInAndName("query", "limit")
	verifAssert(lim != nil && lim.Schema != nil && lim.Schema.Value != nil && lim.Schema.Value.Max != nil && *lim.Schema.Value.Max == maxf, "C17 names: the shared query parameter is still a query parameter of the operation, with its maximum")
	cp := doc3.Components.Parameters[key]
	verifAssert(cp != nil && cp.Value != nil && cp.Value.In == "query" && cp.Value.Name == "limit", "C17 names: the shared parameter is a component parameter under its key")
	item := doc3.Components.Schemas["Item"]
	verifAssert(item != nil && item.Value != nil && item.Value.Type.Is("object") && item.Value.Properties["name"] != nil, "C17 names: the definition is a component schema with its own content")
	rb := pi.Post.RequestBody
	if bodyKind == 0 {
		verifAssert(rb == nil, "C17 names: an operation without body or form parameters has no request body")
	} else {
		// (a shared body parameter is converted once for the document, under the document's consumes: the media type is not compared here)
		ok := rb != nil && rb.Value != nil && rb.Value.Required && len(rb.Value.Content) == 1
		if ok {
			for _, mt := range rb.Value.Content {
				ok = mt != nil && mt.Schema != nil && mt.Schema.Ref == "#/components/schemas/Item"
			}
		}
		if bodyKind == 2 {
			ok = ok && rb.Ref == "#/components/requestBodies/SB"
		}
		verifAssert(ok, "C17 names: the body parameter is the request body, its schema reference rewritten")
	}
	if queryBody {
		qb := pi.Post.Parameters.GetByInAndName("query", "body")
		verifAssert(qb != nil, "C17 names: a query parameter called body is still a query parameter")
	}

	back, err := FromV3(doc3)
	verifAssert(err == nil && back != nil, "C17 names back: the converted document converts back")
	if err != nil || back == nil {
		return
	}
	bop := (*openapi2.Operation)(nil)
	if p := back.Paths["/items"]; p != nil {
		bop = p.Post
	}
	if bop == nil {
		verifAssert(false, "C17 names back: same paths and methods")
		return
	}
	verifAssert(verifNoV3Refs(back), "C17 names back: every reference points at an OpenAPI 2 location")
	// resolve the operation's parameters (inline or by reference into back.Parameters)
	var ps openapi2.Parameters
	for _, p := range bop.Parameters {
		if p.Ref != "" {
			const pre = "#/parameters/"
			if len(p.Ref) > len(pre) && p.Ref[:len(pre)] == pre && back.Parameters[p.Ref[len(pre):]] != nil {
				ps = append(ps, back.Parameters[p.Ref[len(pre):]])
			} else {
				verifAssert(false, "C17 names back: a parameter reference names a shared parameter")
			}
			continue
		}
		ps = append(ps, p)
	}
	bl := verifFindParam(ps, "query", "limit")
	verifAssert(bl != nil && bl.Maximum != nil && *bl.Maximum == maxf && bl.Type != nil && bl.Type.Is("integer"), "C17 names back: the shared query parameter comes back with name, location, type and maximum")
	nBody := 0
	for _, p := range ps {
		if p.In == "body" || p.In == "formData" {
			nBody++
		}
	}
	if bodyKind == 0 {
		verifAssert(nBody == 0, "C17 names back: no body or form parameter appears")
	} else {
		bb := verifFindParam(ps, "body", bodyName)
		verifAssert(nBody == 1 && bb != nil && bb.Required && bb.Schema != nil && bb.Schema.Ref == "#/definitions/Item", "C17 names back: the body parameter comes back under its own name with its schema reference")
	}
	if queryBody {
		verifAssert(verifFindParam(ps, "query", "body") != nil, "C17 names back: the query parameter called body comes back")
	}
	bd := back.Definitions["Item"]
	verifAssert(bd != nil && bd.Value != nil && bd.Value.Properties["name"] != nil, "C17 names back: the definition comes back")
	verifReach("end")
}

//verif:harness id=C17 tier=quick,thorough witness=end bounds="documents at the small end of the convertible fragment: no paths (paths: {}), with or without definitions / a host / security definitions (basic, or OAuth2 of each flow with 0-2 scopes): the OpenAPI 3 document passes validation and converts back to a document with the same (empty) paths and the same definitions"
func verifH_C17_minimal() {
	doc := &openapi2.T{Swagger: "2.0", Info: openapi3.Info{Title: "t", Version: "1"}, Paths: map[string]*openapi2.PathItem{}}
	if verifChoose("host", 2) == 1 {
		doc.Host, doc.BasePath, doc.Schemes = "h.example", "/v1", []string{"https"}
	}
	hasDefs := verifChoose("definitions", 2) == 1
	if hasDefs {
		doc.Definitions = map[string]*openapi2.SchemaRef{"Item": {Value: &openapi2.Schema{Type: &openapi3.Types{"string"}}}}
	}
	var oauth *openapi2.SecurityScheme
	switch verifChoose("security", 3) {
	case 1:
		doc.SecurityDefinitions = map[string]*openapi2.SecurityScheme{"basic": {Type: "basic"}}
	case 2:
		// an OAuth2 definition of each flow with no, one or two scopes (an empty scopes object is legal)
		oauth = &openapi2.SecurityScheme{Type: "oauth2", Flow: []string{"implicit", "password", "application", "accessCode"}[verifChoose("flow", 4)]}
		oauth.Scopes = []map[string]string{{}, {"r": "read"}, {"r": "read", "w": "write"}}[verifChoose("scopes", 3)]
		switch oauth.Flow {
		case "implicit":
			oauth.AuthorizationURL = "https://a.example/auth"
		case "password", "application":
			oauth.TokenURL = "https://a.example/token"
		case "accessCode":
			oauth.AuthorizationURL, oauth.TokenURL = "https://a.example/auth", "https://a.example/token"
		}
		doc.SecurityDefinitions = map[string]*openapi2.SecurityScheme{"oauth": oauth}
	}
	doc3, err := ToV3(doc)
	verifAssert(err == nil && doc3 != nil, "C17 minimal: the document converts")
	if err != nil || doc3 == nil {
		return
	}
	verifAssert(doc3.Validate(context.Background()) == nil, "C17 minimal: the converted document passes validation")
	verifAssert(doc3.Paths != nil && doc3.Paths.Len() == 0, "C17 minimal: no paths in, no paths out")
	back, err := FromV3(doc3)
	verifAssert(err == nil && back != nil, "C17 minimal: the converted document converts back")
	if err != nil || back == nil {
		return
	}
	verifAssert(len(back.Paths) == 0 && (len(back.Definitions) == 1) == hasDefs && back.Host == doc.Host && back.BasePath == doc.BasePath, "C17 minimal: the same document comes back")
	if oauth != nil {
		bo := back.SecurityDefinitions["oauth"]
		same := bo != nil && bo.Type == "oauth2" && bo.Flow == oauth.Flow && bo.AuthorizationURL == oauth.AuthorizationURL && bo.TokenURL == oauth.TokenURL && len(bo.Scopes) == len(oauth.Scopes)
		if same {
			for k, v := range oauth.Scopes {
				same = same && bo.Scopes[k] == v
			}
		}
		verifAssert(same, "C17 minimal: the OAuth2 definition comes back with its flow, URLs and scopes")
	}
	verifReach("end")
}
