package openapi2conv

import (
	"context"
	"sort"
	"strings"

	"github.com/getkin/kin-openapi/openapi2"
	"github.com/getkin/kin-openapi/openapi3"
)

// verifDoc2 builds an OpenAPI 2 document inside the convertible fragment.
//
// focus 0 leaves every feature to the explorer (the full product); focus 1 explores the request side
// (parameters, bodies, forms) with the response/meta side fixed, focus 2 the response/meta side
// (origin, produces, responses, security) with the request side fixed.
func verifDoc2(focus int) (*openapi2.T, map[string]bool) {
	feat := map[string]bool{}
	reqSide := map[string]bool{"query": true, "sharedParam": true, "bodyKind": true}
	choose := func(name string, n int, fixed int) int {
		if focus == 0 || (focus == 1) == reqSide[name] {
			return verifChoose(name, n)
		}
		return fixed
	}
	pick := func(name string, fixed bool) bool {
		f := 0
		if fixed {
			f = 1
		}
		b := choose(name, 2, f) == 1
		feat[name] = b
		return b
	}
	minLen := verifNondetUint64("minLength")
	maxf := verifNondetFloat64("maximum")
	verifAssume(maxf == maxf)
	// where the API lives: scheme list x host, as five combinations
	origin := choose("origin", 7, 0)
	schemes := [][]string{{"https"}, {"http"}, {"https", "http"}, {"https"}, {"https"}, {"wss", "https"}, {"ws"}}[origin]
	host := []string{"h.example", "h.example", "h.example", "h.example:8443", "", "h.example", "h.example"}[origin]
	doc := &openapi2.T{Swagger: "2.0", Info: openapi3.Info{Title: "t", Version: "1"}, Host: host, BasePath: "/v1", Schemes: schemes,
		Definitions: map[string]*openapi2.SchemaRef{"Item": {Value: &openapi2.Schema{Type: &openapi3.Types{"object"}, Properties: openapi2.Schemas{
			"name": {Value: &openapi2.Schema{Type: &openapi3.Types{"string"}, MinLength: minLen}},
		}}}},
		Paths: map[string]*openapi2.PathItem{},
	}
	op := &openapi2.Operation{OperationID: "getItem", Responses: map[string]*openapi2.Response{
		"200": {Description: "ok", Schema: &openapi2.SchemaRef{Ref: "#/definitions/Item"}},
	}}
	produces := "application/json"
	switch choose("produces", 3, 0) {
	case 1:
		op.Produces = []string{"text/plain"}
		produces = "text/plain"
	case 2:
		doc.Produces = []string{"text/plain"}
		produces = "text/plain"
		feat["docProduces"] = true
	}
	feat["produces:"+produces] = true
	op.Parameters = append(op.Parameters, &openapi2.Parameter{Name: "id", In: "path", Required: true, Type: &openapi3.Types{"integer"}, Maximum: &maxf})
	if pick("query", true) {
		op.Parameters = append(op.Parameters, &openapi2.Parameter{Name: "q", In: "query", Required: verifNondetBool("qRequired"), Type: &openapi3.Types{"string"}, MinLength: minLen})
	}
	if pick("sharedParam", false) {
		doc.Parameters = map[string]*openapi2.Parameter{"Limit": {Name: "limit", In: "query", Type: &openapi3.Types{"integer"}, Maximum: &maxf}}
		op.Parameters = append(op.Parameters, &openapi2.Parameter{Ref: "#/parameters/Limit"})
	}
	post := &openapi2.Operation{OperationID: "postItem", Responses: map[string]*openapi2.Response{"201": {Description: "created"}}}
	post.Parameters = append(post.Parameters, &openapi2.Parameter{Name: "id", In: "path", Required: true, Type: &openapi3.Types{"integer"}})
	if pick("fileResponse", false) {
		// a download: the response body is a file, in a media type the operation states
		post.Produces = []string{"application/octet-stream"}
		post.Responses["201"].Schema = &openapi2.SchemaRef{Value: &openapi2.Schema{Type: &openapi3.Types{"file"}}}
	}
	switch choose("bodyKind", 4, 1) {
	case 3:
		// a shared (document-level) form parameter used by reference
		feat["sharedForm"] = true
		post.Consumes = []string{"application/x-www-form-urlencoded"}
		if doc.Parameters == nil {
			doc.Parameters = map[string]*openapi2.Parameter{}
		}
		doc.Parameters["SF"] = &openapi2.Parameter{Name: "sf", In: "formData", Required: verifNondetBool("sfRequired"), Type: &openapi3.Types{"string"}, MinLength: minLen}
		post.Parameters = append(post.Parameters, &openapi2.Parameter{Ref: "#/parameters/SF"})
	case 1:
		feat["body"] = true
		post.Consumes = []string{"application/json"}
		post.Parameters = append(post.Parameters, &openapi2.Parameter{Name: "item", In: "body", Required: verifNondetBool("bodyRequired"), Schema: &openapi2.SchemaRef{Ref: "#/definitions/Item"}})
	case 2:
		feat["form"] = true
		post.Consumes = []string{"application/x-www-form-urlencoded"}
		post.Parameters = append(post.Parameters, &openapi2.Parameter{Name: "fa", In: "formData", Required: verifNondetBool("faRequired"), Type: &openapi3.Types{"string"}, Format: []string{"date-time", "byte", "password"}[verifChoose("faFormat", 3)], MinLength: minLen})
		post.Parameters = append(post.Parameters, &openapi2.Parameter{Name: "fb", In: "formData", Required: verifNondetBool("fbRequired"), Type: &openapi3.Types{"integer"}, Format: "int64", Maximum: &maxf})
	}
	if pick("sharedResponse", false) {
		doc.Responses = map[string]*openapi2.Response{"NotFound": {Description: "nf", Headers: map[string]*openapi2.Header{"X-R": {Parameter: openapi2.Parameter{Type: &openapi3.Types{"integer"}, Maximum: &maxf}}}}}
		op.Responses["404"] = &openapi2.Response{Ref: "#/responses/NotFound"}
	}
	if pick("security", false) {
		doc.SecurityDefinitions = map[string]*openapi2.SecurityScheme{
			"key":   {Type: "apiKey", In: "header", Name: "X-Key"},
			"basic": {Type: "basic"},
			"oauth": {Type: "oauth2", Flow: []string{"implicit", "password", "application", "accessCode"}[verifChoose("flow", 4)], Scopes: map[string]string{"r": "read"}},
		}
		// the URLs each flow requires in OpenAPI 2
		switch o := doc.SecurityDefinitions["oauth"]; o.Flow {
		case "implicit":
			o.AuthorizationURL = "https://a.example/auth"
		case "password", "application":
			o.TokenURL = "https://a.example/token"
		case "accessCode":
			o.AuthorizationURL, o.TokenURL = "https://a.example/auth", "https://a.example/token"
		}
		// the document requires the key; the operation inherits that, opts out with an empty list, or states its own alternatives
		doc.Security = openapi2.SecurityRequirements{{"key": {}}}
		switch verifChoose("opSecurity", 3) {
		case 0:
			feat["opSecurity:own"] = true
			op.Security = &openapi2.SecurityRequirements{{"key": {}}, {"oauth": {"r"}}}
		case 1:
			feat["opSecurity:none"] = true
			op.Security = &openapi2.SecurityRequirements{}
		}
	}
	doc.Paths["/items/{id}"] = &openapi2.PathItem{Get: op, Post: post}
	return doc, feat
}

func verifFindParam(ps openapi2.Parameters, in, name string) *openapi2.Parameter {
	for _, p := range ps {
		if p.In == in && p.Name == name {
			return p
		}
	}
	return nil
}

func verifNoV3Refs(doc *openapi2.T) bool {
	ok := true
	checkSchema := func(s *openapi2.SchemaRef) {
		if s != nil && strings.HasPrefix(s.Ref, "#/components/") {
			ok = false
		}
	}
	for _, pi := range doc.Paths {
		for _, op := range pi.Operations() {
			for _, p := range op.Parameters {
				if strings.HasPrefix(p.Ref, "#/components/") {
					ok = false
				}
				checkSchema(p.Schema)
			}
			for _, r := range op.Responses {
				if strings.HasPrefix(r.Ref, "#/components/") {
					ok = false
				}
				checkSchema(r.Schema)
			}
		}
	}
	return ok
}

//verif:harness id=C17 tier=quick,thorough witness=end bounds="REQUEST SIDE of: whole documents in the convertible fragment: one path with GET+POST, path/query/shared parameters, one body, two formData parameters or a shared formData parameter by reference (required flags, minLength, maximum symbolic), shared response with header, a file response with its own produces, definitions by reference, apiKey/basic/oauth2 (4 flows), document-level security with the operation inheriting / opting out with an empty list / stating two alternatives, origin in 5 combinations (https / http / both on h.example, https on h.example:8443, no host = base path only); ToV3 result passes the real Validate and has the same paths, methods, operation ids, parameters and constraints; FromV3 of it describes the same API with OpenAPI 2 references only -- here the parameters, body and forms vary and the response/meta side is fixed (https://h.example, JSON, no shared response, no security)"
func verifH_C17_document_requests() { verifDocument(1) }

//verif:harness id=C17 tier=quick,thorough witness=end bounds="RESPONSE AND META SIDE of the same documents: origin, produces, shared and file responses, security vary and the request side is fixed (query parameter, JSON body)"
func verifH_C17_document_responses() { verifDocument(2) }

//verif:harness id=C17 tier=thorough witness=end maxpaths=60000 bounds="the full product of both sides"
func verifH_C17_document() { verifDocument(0) }

func verifDocument(focus int) {
	doc2, feat := verifDoc2(focus)
	doc3, err := ToV3(doc2)
	verifAssert(err == nil && doc3 != nil, "C17 document: a document in the convertible fragment converts")
	if err != nil || doc3 == nil {
		return
	}
	verifAssert(doc3.Validate(context.Background()) == nil, "C17 document: the converted document passes validation")
	pi := doc3.Paths.Value("/items/{id}")
	verifAssert(pi != nil && pi.Get != nil && pi.Post != nil && pi.Get.OperationID == "getItem" && pi.Post.OperationID == "postItem", "C17 document: same paths, methods and operation ids")
	if pi == nil || pi.Get == nil || pi.Post == nil {
		return
	}
	src := doc2.Paths["/items/{id}"]
	id := pi.Get.Parameters.GetByInAndName("path", "id")
	verifAssert(id != nil && id.Required && id.Schema != nil && id.Schema.Value != nil && id.Schema.Value.Max != nil && *id.Schema.Value.Max == *src.Get.Parameters[0].Maximum, "C17 document: path parameter keeps name, location, requiredness and maximum")
	if feat["query"] {
		q := pi.Get.Parameters.GetByInAndName("query", "q")
		sq := verifFindParam(src.Get.Parameters, "query", "q")
		verifAssert(q != nil && q.Required == sq.Required && q.Schema.Value.MinLength == sq.MinLength, "C17 document: query parameter keeps requiredness and minLength")
	}
	if feat["sharedParam"] {
		found := false
		for _, p := range pi.Get.Parameters {
			if p.Ref == "#/components/parameters/Limit" {
				found = true
			}
		}
		verifAssert(found && doc3.Components.Parameters["Limit"] != nil, "C17 document: a shared parameter becomes a component and its reference is rewritten")
	}
	if feat["body"] {
		rb := pi.Post.RequestBody
		sb := verifFindParam(src.Post.Parameters, "body", "item")
		verifAssert(rb != nil && rb.Value != nil && rb.Value.Required == sb.Required && rb.Value.Content["application/json"] != nil && rb.Value.Content["application/json"].Schema.Ref == "#/components/schemas/Item", "C17 document: the body parameter becomes the request body with its schema reference rewritten")
	}
	if feat["form"] {
		rb := pi.Post.RequestBody
		fa := verifFindParam(src.Post.Parameters, "formData", "fa")
		fb := verifFindParam(src.Post.Parameters, "formData", "fb")
		ok := rb != nil && rb.Value != nil && rb.Value.Content["application/x-www-form-urlencoded"] != nil
		verifAssert(ok, "C17 document: form parameters become an urlencoded request body")
		if ok {
			s := rb.Value.Content["application/x-www-form-urlencoded"].Schema.Value
			pa, pb := s.Properties["fa"], s.Properties["fb"]
			verifAssert(pa != nil && pb != nil && pa.Value.MinLength == fa.MinLength && pb.Value.Max != nil && *pb.Value.Max == *fb.Maximum, "C17 document: form parameters keep their constraints as properties")
			if pa != nil && pb != nil {
				verifAssert(pa.Value.Format == fa.Format && pb.Value.Format == "int64", "C17 document: form parameters keep their format as properties")
			}
			var wantReq []string
			if fa.Required {
				wantReq = append(wantReq, "fa")
			}
			if fb.Required {
				wantReq = append(wantReq, "fb")
			}
			got := append([]string(nil), s.Required...)
			sort.Strings(got)
			verifAssert(verifSameStrs(got, wantReq), "C17 document: required form parameters are the required properties")
		}
	}
	if feat["sharedResponse"] {
		r := pi.Get.Responses.Value("404")
		c := doc3.Components.Responses["NotFound"]
		verifAssert(r != nil && r.Ref == "#/components/responses/NotFound" && c != nil && c.Value != nil && c.Value.Headers["X-R"] != nil && *c.Value.Headers["X-R"].Value.Schema.Value.Max == *doc2.Responses["NotFound"].Headers["X-R"].Maximum, "C17 document: shared responses keep description, headers and are referenced at their v3 location")
	}
	r200 := pi.Get.Responses.Value("200")
	produces := "application/json"
	if feat["produces:text/plain"] {
		produces = "text/plain"
	}
	verifKnown("C17-produces-ignored", feat["docProduces"]) // the operation's own produces is honoured
	verifAssert(r200 != nil && r200.Value != nil && *r200.Value.Description == "ok" && r200.Value.Content[produces] != nil && r200.Value.Content[produces].Schema.Ref == "#/components/schemas/Item", "C17 document: response keeps description and schema reference under the media type the operation produces")
	verifKnown("C17-produces-ignored", false)
	if feat["fileResponse"] {
		r201 := pi.Post.Responses.Value("201")
		mt := (*openapi3.MediaType)(nil)
		if r201 != nil && r201.Value != nil {
			mt = r201.Value.Content["application/octet-stream"]
		}
		verifAssert(mt != nil && mt.Schema != nil && mt.Schema.Value != nil && mt.Schema.Value.Type.Is("string") && mt.Schema.Value.Format == "binary" && len(r201.Value.Content) == 1, "C17 document: a file response becomes binary content under the media type the operation produces")
	}
	item := doc3.Components.Schemas["Item"]
	verifAssert(item != nil && item.Value != nil && item.Value.Properties["name"].Value.MinLength == doc2.Definitions["Item"].Value.Properties["name"].Value.MinLength, "C17 document: definitions become component schemas with the same constraints")
	serversOK := len(doc3.Servers) == len(doc2.Schemes)
	if doc2.Host == "" {
		// no host: the API lives under the base path of whichever host serves the document (schemes cannot be said without a host)
		serversOK = len(doc3.Servers) == 1 && doc3.Servers[0].URL == "/v1"
	}
	for k, sch := range doc2.Schemes {
		if doc2.Host == "" {
			break
		}
		if k < len(doc3.Servers) && doc3.Servers[k].URL != sch+"://"+doc2.Host+"/v1" {
			serversOK = false
		}
	}
	verifKnown("C17-basepath-without-host-dropped", doc2.Host == "")
	verifAssert(serversOK, "C17 document: host, base path and schemes become servers, one per scheme")
	verifKnown("C17-basepath-without-host-dropped", false)
	if feat["security"] {
		ss := doc3.Components.SecuritySchemes
		verifAssert(ss["key"] != nil && ss["key"].Value.Type == "apiKey" && ss["key"].Value.In == "header" && ss["key"].Value.Name == "X-Key" && ss["basic"] != nil && ss["basic"].Value.Type == "http" && ss["basic"].Value.Scheme == "basic" && ss["oauth"] != nil && ss["oauth"].Value.Type == "oauth2" && ss["oauth"].Value.Flows != nil, "C17 document: security definitions become the corresponding schemes")
		// an operation's security list means the same after conversion: absent = inherit, empty = no security, else its alternatives
		os3 := pi.Get.Security
		switch {
		case feat["opSecurity:own"]:
			verifAssert(os3 != nil && len(*os3) == 2, "C17 document: an operation's own security alternatives are kept")
		case feat["opSecurity:none"]:
			verifAssert(os3 != nil && len(*os3) == 0, "C17 document: an operation that opts out of security (security: []) still opts out")
		default:
			verifAssert(os3 == nil, "C17 document: an operation without a security list still inherits the document's")
		}
		verifAssert(len(doc3.Security) == 1 && len(doc3.Security[0]) == 1 && doc3.Security[0]["key"] != nil, "C17 document: the document's security requirement is kept")
		if ss["oauth"] != nil && ss["oauth"].Value.Flows != nil {
			so := doc2.SecurityDefinitions["oauth"]
			fl := ss["oauth"].Value.Flows
			var f3 *openapi3.OAuthFlow
			switch so.Flow {
			case "implicit":
				f3 = fl.Implicit
			case "password":
				f3 = fl.Password
			case "application":
				f3 = fl.ClientCredentials
			case "accessCode":
				f3 = fl.AuthorizationCode
			}
			verifAssert(f3 != nil && f3.AuthorizationURL == so.AuthorizationURL && f3.TokenURL == so.TokenURL && len(f3.Scopes) == 1 && f3.Scopes["r"] == "read", "C17 document: the OAuth2 flow keeps its URLs and scopes")
		}
	}

	// and back
	back, err := FromV3(doc3)
	verifAssert(err == nil && back != nil, "C17 back: the converted document converts back")
	if err != nil || back == nil {
		return
	}
	sameSchemes := len(back.Schemes) == len(doc2.Schemes)
	for _, sch := range doc2.Schemes {
		found := false
		for _, b := range back.Schemes {
			if b == sch {
				found = true
			}
		}
		sameSchemes = sameSchemes && found
	}
	verifKnown("C17-basepath-without-host-dropped", doc2.Host == "")
	verifAssert((sameSchemes || doc2.Host == "") && back.Host == doc2.Host && back.BasePath == "/v1", "C17 back: host (with its port), base path and every scheme come back")
	verifKnown("C17-basepath-without-host-dropped", false)
	bpi := back.Paths["/items/{id}"]
	verifAssert(bpi != nil && bpi.Get != nil && bpi.Post != nil && bpi.Get.OperationID == "getItem" && bpi.Post.OperationID == "postItem", "C17 back: same paths, methods and operation ids")
	if bpi == nil || bpi.Get == nil || bpi.Post == nil {
		return
	}
	verifAssert(verifNoV3Refs(back), "C17 back: every reference points at an OpenAPI 2 location")
	if feat["fileResponse"] {
		b201 := bpi.Post.Responses["201"]
		verifAssert(b201 != nil && b201.Description == "created" && b201.Schema != nil && b201.Schema.Value != nil && b201.Schema.Value.Type.Is("file"), "C17 back: a file response is a file response again")
		verifAssert(len(bpi.Post.Produces) == 1 && bpi.Post.Produces[0] == "application/octet-stream", "C17 back: the operation still says which media type it produces")
	}
	if feat["produces:text/plain"] && len(src.Get.Produces) == 1 {
		verifAssert(len(bpi.Get.Produces) == 1 && bpi.Get.Produces[0] == "text/plain", "C17 back: an operation's own produces list comes back")
	}
	bid := verifFindParam(bpi.Get.Parameters, "path", "id")
	verifAssert(bid != nil && bid.Required && bid.Maximum != nil && *bid.Maximum == *src.Get.Parameters[0].Maximum, "C17 back: path parameter keeps requiredness and maximum")
	if feat["query"] {
		bq := verifFindParam(bpi.Get.Parameters, "query", "q")
		sq := verifFindParam(src.Get.Parameters, "query", "q")
		verifAssert(bq != nil && bq.Required == sq.Required && bq.MinLength == sq.MinLength, "C17 back: query parameter keeps requiredness and minLength")
	}
	if feat["body"] {
		bb := verifFindParam(bpi.Post.Parameters, "body", "item")
		sb := verifFindParam(src.Post.Parameters, "body", "item")
		verifAssert(bb != nil && bb.Required == sb.Required && bb.Schema != nil && bb.Schema.Ref == "#/definitions/Item", "C17 back: body parameter keeps name, requiredness and schema reference")
	}
	if feat["form"] {
		fa, fb := verifFindParam(src.Post.Parameters, "formData", "fa"), verifFindParam(src.Post.Parameters, "formData", "fb")
		ba, bb := verifFindParam(bpi.Post.Parameters, "formData", "fa"), verifFindParam(bpi.Post.Parameters, "formData", "fb")
		verifAssert(ba != nil && bb != nil && ba.MinLength == fa.MinLength && bb.Maximum != nil && *bb.Maximum == *fb.Maximum, "C17 back: form parameters keep their constraints")
		if ba != nil && bb != nil {
			verifAssert(ba.Type.Is("string") && ba.Format == fa.Format && bb.Type.Is("integer") && bb.Format == "int64", "C17 back: form parameters keep their type and format")
		}
		if ba != nil && bb != nil {
			verifAssert(ba.Required == fa.Required && bb.Required == fb.Required, "C17 back: form parameters keep their requiredness")
		}
	}
	if feat["sharedForm"] {
		// the shared form parameter is still a form parameter of the operation, inline or by a reference that resolves
		var got *openapi2.Parameter
		for _, p := range bpi.Post.Parameters {
			if p.Ref != "" {
				name := strings.TrimPrefix(p.Ref, "#/parameters/")
				if q := back.Parameters[name]; q != nil && q.Name == "sf" {
					got = q
				}
			} else if p.Name == "sf" {
				got = p
			}
		}
		verifKnown("C17-shared-form-parameter-dangling", true)
		verifAssert(got != nil && got.In == "formData" && got.MinLength == doc2.Parameters["SF"].MinLength && got.Required == doc2.Parameters["SF"].Required, "C17 back: a shared form parameter comes back as a form parameter the operation can reach")
		verifKnown("C17-shared-form-parameter-dangling", false)
	}
	if feat["security"] {
		bs, ss2 := back.SecurityDefinitions, doc2.SecurityDefinitions
		verifAssert(bs["key"] != nil && bs["key"].Type == "apiKey" && bs["key"].In == "header" && bs["key"].Name == "X-Key" && bs["basic"] != nil && bs["basic"].Type == "basic", "C17 back: apiKey and basic definitions come back")
		bo, so := bs["oauth"], ss2["oauth"]
		verifAssert(bo != nil && bo.Type == "oauth2" && bo.Flow == so.Flow && bo.AuthorizationURL == so.AuthorizationURL && bo.TokenURL == so.TokenURL && len(bo.Scopes) == 1 && bo.Scopes["r"] == "read", "C17 back: the OAuth2 definition keeps its flow, URLs and scopes")
		switch {
		case feat["opSecurity:own"]:
			verifAssert(bpi.Get.Security != nil && len(*bpi.Get.Security) == 2, "C17 back: operation security requirements come back")
		case feat["opSecurity:none"]:
			verifAssert(bpi.Get.Security != nil && len(*bpi.Get.Security) == 0, "C17 back: an operation that opts out of security still opts out")
		default:
			verifAssert(bpi.Get.Security == nil, "C17 back: an operation without a security list still inherits")
		}
		verifAssert(len(back.Security) == 1 && back.Security[0]["key"] != nil, "C17 back: the document's security requirement comes back")
	}
	b200 := bpi.Get.Responses["200"]
	verifAssert(b200 != nil && b200.Description == "ok" && b200.Schema != nil && b200.Schema.Ref == "#/definitions/Item", "C17 back: response keeps description and schema reference")
	bitem := back.Definitions["Item"]
	verifAssert(bitem != nil && bitem.Value != nil && bitem.Value.Properties["name"].Value.MinLength == doc2.Definitions["Item"].Value.Properties["name"].Value.MinLength, "C17 back: definitions keep their constraints")
	verifReach("end")
}
