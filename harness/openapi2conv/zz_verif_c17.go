package openapi2conv

// C17 — v2<->v3 conversion preserves the API a document describes.
// Every scalar field of the source objects is symbolic; the converters are
// straight-line field copies, so each field equality is decided for all values.

import (
	"strings"

	"github.com/getkin/kin-openapi/openapi2"
	"github.com/getkin/kin-openapi/openapi3"
)

func verifStr(name string, max int) string {
	s := verifNondetStringN(name, max) // exactly max bytes: presence of string fields is not forked
	for i := 0; i < len(s); i++ {
		verifAssume(s[i] >= 'a' && s[i] <= 'z')
	}
	return s
}

// verifPtrs: optional pointer fields are present all together or not at all (one fork per object).
var verifPtrs bool

func verifF64p(name string) *float64 {
	if !verifPtrs {
		return nil
	}
	f := verifNondetFloat64(name)
	verifAssume(f == f)
	return &f
}

func verifU64p(name string) *uint64 {
	if !verifPtrs {
		return nil
	}
	u := verifNondetUint64(name)
	return &u
}

// verifLeafV2: a v2 schema whose scalar fields are all symbolic.
func verifLeafV2(p string, light bool) *openapi2.Schema {
	s := &openapi2.Schema{}
	s.Type = &openapi3.Types{[]string{"string", "number", "integer", "boolean", "array", "object"}[verifChoose(p+"type", 6)]}
	s.Title = verifStr(p+"title", 1)
	s.Format = verifStr(p+"format", 1)
	s.Description = verifStr(p+"descr", 1)
	s.Pattern = verifStr(p+"pattern", 1)
	s.UniqueItems = verifNondetBool(p + "unique")
	s.ExclusiveMin = verifNondetBool(p + "xmin")
	s.ExclusiveMax = verifNondetBool(p + "xmax")
	s.ReadOnly = verifNondetBool(p + "ro")
	s.WriteOnly = verifNondetBool(p + "wo")
	s.AllowEmptyValue = verifNondetBool(p + "aev")
	s.Deprecated = verifNondetBool(p + "depr")
	s.MinLength = verifNondetUint64(p + "minLength")
	s.MinItems = verifNondetUint64(p + "minItems")
	s.MinProps = verifNondetUint64(p + "minProps")
	if !light {
		s.Min, s.Max, s.MultipleOf = verifF64p(p+"min"), verifF64p(p+"max"), verifF64p(p+"mul")
		s.MaxLength, s.MaxItems, s.MaxProps = verifU64p(p+"maxLength"), verifU64p(p+"maxItems"), verifU64p(p+"maxProps")
		if verifPtrs {
			s.Enum = []any{verifStr(p+"e", 1)}
			s.Default = verifStr(p+"d", 1)
			s.Required = []string{verifStr(p+"req", 1)}
		}
	}
	return s
}

func verifSameStrs(a, b []string) bool {
	if len(a) != len(b) {
		return false
	}
	for i := range a {
		if a[i] != b[i] {
			return false
		}
	}
	return true
}

func verifSameAnys(a, b []any) bool {
	if len(a) != len(b) {
		return false
	}
	for i := range a {
		if a[i] != b[i] {
			return false
		}
	}
	return true
}

func verifSameF(a, b *float64) bool {
	return (a == nil) == (b == nil) && (a == nil || *a == *b)
}

func verifSameU(a, b *uint64) bool {
	return (a == nil) == (b == nil) && (a == nil || *a == *b)
}

func verifSameTypes(a, b *openapi3.Types) bool {
	if a == nil || b == nil {
		return a == nil && b == nil
	}
	return verifSameStrs(*a, *b)
}

// verifScalarFieldsV2V3: every constraint of the v2 schema appears at its v3 place.
func verifScalarFieldsV2V3(what string, a *openapi2.Schema, b *openapi3.Schema) {
	ok := verifSameTypes(a.Type, b.Type) && a.Title == b.Title && a.Format == b.Format && a.Description == b.Description && a.Pattern == b.Pattern
	verifAssert(ok, "C17 "+what+": type, title, format, description, pattern are preserved")
	ok = a.UniqueItems == b.UniqueItems && a.ExclusiveMin == b.ExclusiveMin && a.ExclusiveMax == b.ExclusiveMax && a.ReadOnly == b.ReadOnly && a.WriteOnly == b.WriteOnly && a.AllowEmptyValue == b.AllowEmptyValue && a.Deprecated == b.Deprecated
	verifAssert(ok, "C17 "+what+": boolean flags are preserved")
	ok = a.MinLength == b.MinLength && a.MinItems == b.MinItems && a.MinProps == b.MinProps && verifSameU(a.MaxLength, b.MaxLength) && verifSameU(a.MaxItems, b.MaxItems) && verifSameU(a.MaxProps, b.MaxProps)
	verifAssert(ok, "C17 "+what+": length, item and property bounds are preserved")
	ok = verifSameF(a.Min, b.Min) && verifSameF(a.Max, b.Max) && verifSameF(a.MultipleOf, b.MultipleOf)
	verifAssert(ok, "C17 "+what+": minimum, maximum, multipleOf are preserved")
	verifAssert(verifSameAnys(a.Enum, b.Enum) && a.Default == b.Default && verifSameStrs(a.Required, b.Required), "C17 "+what+": enum, default, required are preserved")
}

func verifScalarFieldsV2V2(what string, a, b *openapi2.Schema) {
	ok := verifSameTypes(a.Type, b.Type) && a.Title == b.Title && a.Format == b.Format && a.Description == b.Description && a.Pattern == b.Pattern
	verifAssert(ok, "C17 "+what+": type, title, format, description, pattern survive the round trip")
	ok = a.UniqueItems == b.UniqueItems && a.ExclusiveMin == b.ExclusiveMin && a.ExclusiveMax == b.ExclusiveMax && a.ReadOnly == b.ReadOnly && a.WriteOnly == b.WriteOnly && a.AllowEmptyValue == b.AllowEmptyValue && a.Deprecated == b.Deprecated
	verifAssert(ok, "C17 "+what+": boolean flags survive the round trip")
	ok = a.MinLength == b.MinLength && a.MinItems == b.MinItems && a.MinProps == b.MinProps && verifSameU(a.MaxLength, b.MaxLength) && verifSameU(a.MaxItems, b.MaxItems) && verifSameU(a.MaxProps, b.MaxProps)
	verifAssert(ok, "C17 "+what+": length, item and property bounds survive the round trip")
	ok = verifSameF(a.Min, b.Min) && verifSameF(a.Max, b.Max) && verifSameF(a.MultipleOf, b.MultipleOf)
	verifAssert(ok, "C17 "+what+": minimum, maximum, multipleOf survive the round trip")
	verifAssert(verifSameAnys(a.Enum, b.Enum) && a.Default == b.Default && verifSameStrs(a.Required, b.Required), "C17 "+what+": enum, default, required survive the round trip")
}

//verif:harness id=C17 tier=quick,thorough witness=end bounds="one v2 schema with every scalar field symbolic (strings of 1 symbolic lowercase byte, all float64/uint64/bool values, optional pointer fields all present or all absent) -> ToV3SchemaRef -> field-by-field; -> FromV3SchemaRef -> equals the original"
func verifH_C17_schema_leaf() {
	verifPtrs = verifChoose("optionalFields", 2) == 1
	src := verifLeafV2("", false)
	v3 := ToV3SchemaRef(&openapi2.SchemaRef{Value: src})
	verifAssert(v3 != nil && v3.Value != nil && v3.Ref == "", "C17 schema: an inline schema converts to an inline schema")
	verifScalarFieldsV2V3("schema v2->v3", src, v3.Value)
	back, param := FromV3SchemaRef(v3, &openapi3.Components{})
	verifAssert(back != nil && back.Value != nil && param == nil, "C17 schema: converts back to an inline schema")
	if back != nil && back.Value != nil {
		verifScalarFieldsV2V2("schema v2->v3->v2", src, back.Value)
	}
	verifReach("end")
}

//verif:harness id=C17 tier=quick,thorough witness=end bounds="nested v2 schema: object with properties {p: leaf | $ref}, items leaf | $ref, allOf [leaf, $ref], additionalProperties schema | $ref | bool, discriminator, x-nullable; reference suffix = 1-2 symbolic lowercase bytes after #/definitions/; v2->v3 places, v3 prefixes; v3->v2 equals the original and no #/components/ reference remains; the OpenAPI 3 schema is unchanged by the way back and a second conversion of it gives the same result"
func verifH_C17_schema_nested() {
	verifPtrs = false
	name := verifStr("refname", 1+verifChoose("refname.len", 2))
	ref2 := "#/definitions/" + name
	ref3 := "#/components/schemas/" + name
	child := func(p string) *openapi2.SchemaRef {
		if verifChoose(p+"isRef", 2) == 1 {
			return &openapi2.SchemaRef{Ref: ref2}
		}
		return &openapi2.SchemaRef{Value: verifLeafV2(p, true)}
	}
	src := &openapi2.Schema{Type: &openapi3.Types{"object"}}
	shape := verifChoose("shape", 5)
	switch shape {
	case 0:
		src.Properties = openapi2.Schemas{"p": child("p.")}
	case 1:
		// items with the type said, or left to be understood (a schema may constrain items without saying type: array)
		if verifChoose("arrayTyped", 2) == 1 {
			src.Type = &openapi3.Types{"array"}
		} else {
			src.Type = nil
		}
		src.Items = child("i.")
	case 2:
		src.AllOf = openapi2.SchemaRefs{child("a0."), child("a1.")}
	case 3:
		switch verifChoose("ap", 5) {
		case 4:
			// a map of arrays of referenced objects
			src.AdditionalProperties.Schema = &openapi3.SchemaRef{Value: &openapi3.Schema{Type: &openapi3.Types{"array"}, Items: &openapi3.SchemaRef{Ref: ref2}}}
		case 3:
			// a map of maps: the reference sits at the second additionalProperties level
			inner := &openapi3.Schema{Type: &openapi3.Types{"object"}}
			inner.AdditionalProperties.Schema = &openapi3.SchemaRef{Ref: ref2}
			src.AdditionalProperties.Schema = &openapi3.SchemaRef{Value: inner}
		case 0:
			b := verifNondetBool("apHas")
			src.AdditionalProperties.Has = &b
		case 1:
			src.AdditionalProperties.Schema = &openapi3.SchemaRef{Ref: ref2}
		case 2:
			src.AdditionalProperties.Schema = &openapi3.SchemaRef{Value: &openapi3.Schema{Type: &openapi3.Types{"string"}, MinLength: verifNondetUint64("apMinLen")}}
		}
	case 4:
		src.Discriminator = verifStr("discr", 1)
		// x-nullable absent, true, or an explicit false
		switch verifChoose("nullable", 3) {
		case 1:
			src.Extensions = map[string]any{"x-nullable": true}
		case 2:
			src.Extensions = map[string]any{"x-nullable": false}
		}
	}
	v3 := ToV3SchemaRef(&openapi2.SchemaRef{Value: src})
	checkChild23 := func(what string, a *openapi2.SchemaRef, b *openapi3.SchemaRef) {
		verifAssert(b != nil, "C17 nested: "+what+" is kept")
		if b == nil {
			return
		}
		if a.Ref != "" {
			verifAssert(b.Ref == ref3, "C17 nested: "+what+" reference is rewritten to its v3 location")
		} else {
			verifAssert(b.Value != nil && b.Value.MinLength == a.Value.MinLength && b.Value.Title == a.Value.Title && verifSameTypes(a.Value.Type, b.Value.Type), "C17 nested: "+what+" keeps its constraints")
		}
	}
	switch shape {
	case 0:
		checkChild23("property", src.Properties["p"], v3.Value.Properties["p"])
	case 1:
		checkChild23("items", src.Items, v3.Value.Items)
	case 2:
		verifAssert(len(v3.Value.AllOf) == 2, "C17 nested: allOf keeps its members")
		if len(v3.Value.AllOf) == 2 {
			checkChild23("allOf[0]", src.AllOf[0], v3.Value.AllOf[0])
			checkChild23("allOf[1]", src.AllOf[1], v3.Value.AllOf[1])
		}
	case 3:
		ap := v3.Value.AdditionalProperties
		if src.AdditionalProperties.Has != nil {
			verifAssert(ap.Has != nil && *ap.Has == *src.AdditionalProperties.Has, "C17 nested: additionalProperties boolean is preserved")
		} else if src.AdditionalProperties.Schema.Ref != "" {
			verifAssert(ap.Schema != nil && ap.Schema.Ref == ref3, "C17 nested: additionalProperties reference is rewritten to its v3 location")
		} else if it := src.AdditionalProperties.Schema.Value.Items; it != nil {
			verifKnown("C17-ref-below-additionalProperties-not-rewritten", true)
			verifAssert(ap.Schema != nil && ap.Schema.Value != nil && ap.Schema.Value.Items != nil && ap.Schema.Value.Items.Ref == ref3, "C17 nested: a reference under additionalProperties.items is rewritten to its v3 location")
			verifKnown("C17-ref-below-additionalProperties-not-rewritten", false)
		} else if in2 := src.AdditionalProperties.Schema.Value.AdditionalProperties.Schema; in2 != nil {
			verifAssert(ap.Schema != nil && ap.Schema.Value != nil && ap.Schema.Value.AdditionalProperties.Schema != nil && ap.Schema.Value.AdditionalProperties.Schema.Ref == ref3, "C17 nested: a reference two additionalProperties levels down is rewritten to its v3 location")
		} else {
			verifAssert(ap.Schema != nil && ap.Schema.Value != nil && ap.Schema.Value.MinLength == src.AdditionalProperties.Schema.Value.MinLength, "C17 nested: additionalProperties schema keeps its constraints")
		}
	case 4:
		verifAssert(v3.Value.Discriminator != nil && v3.Value.Discriminator.PropertyName == src.Discriminator, "C17 nested: discriminator becomes discriminator.propertyName")
		verifAssert(v3.Value.Nullable == (src.Extensions != nil && src.Extensions["x-nullable"] == true), "C17 nested: x-nullable becomes nullable with its value (an explicit false stays not nullable)")
	}
	// and back
	back, _ := FromV3SchemaRef(v3, &openapi3.Components{})
	verifAssert(back != nil && back.Value != nil, "C17 nested: converts back to an inline schema")
	if back == nil || back.Value == nil {
		return
	}
	checkChild22 := func(what string, a, b *openapi2.SchemaRef) {
		verifAssert(b != nil, "C17 nested back: "+what+" is kept")
		if b == nil {
			return
		}
		if a.Ref != "" {
			verifAssert(b.Ref == ref2, "C17 nested back: "+what+" reference points at its OpenAPI 2 location")
		} else {
			verifAssert(b.Value != nil && b.Value.MinLength == a.Value.MinLength && b.Value.Title == a.Value.Title, "C17 nested back: "+what+" keeps its constraints")
		}
	}
	switch shape {
	case 0:
		checkChild22("property", src.Properties["p"], back.Value.Properties["p"])
	case 1:
		checkChild22("items", src.Items, back.Value.Items)
	case 2:
		if len(back.Value.AllOf) == 2 {
			checkChild22("allOf[0]", src.AllOf[0], back.Value.AllOf[0])
			checkChild22("allOf[1]", src.AllOf[1], back.Value.AllOf[1])
		} else {
			verifAssert(false, "C17 nested back: allOf keeps its members")
		}
	case 3:
		ap := back.Value.AdditionalProperties
		if src.AdditionalProperties.Schema != nil && src.AdditionalProperties.Schema.Ref != "" {
			verifAssert(ap.Schema != nil && !strings.HasPrefix(ap.Schema.Ref, "#/components/"), "C17 nested back: every reference points at an OpenAPI 2 location (additionalProperties)")
		}
		if src.AdditionalProperties.Schema != nil && src.AdditionalProperties.Schema.Value != nil && src.AdditionalProperties.Schema.Value.AdditionalProperties.Schema != nil {
			verifAssert(ap.Schema != nil && ap.Schema.Value != nil && ap.Schema.Value.AdditionalProperties.Schema != nil && ap.Schema.Value.AdditionalProperties.Schema.Ref == ref2, "C17 nested back: a reference two additionalProperties levels down points at its OpenAPI 2 location again")
		}
	case 4:
		verifAssert(back.Value.Discriminator == src.Discriminator, "C17 nested back: discriminator survives the round trip")
		wantNullable := src.Extensions != nil && src.Extensions["x-nullable"] == true
		verifAssert((back.Value.Extensions["x-nullable"] == true) == wantNullable, "C17 nested back: x-nullable survives the round trip")
		// converting is reading: the OpenAPI 3 schema is as it was, and converting it again gives the same answer
		_, invented := v3.Value.Extensions["x-nullable"]
		verifAssert(v3.Value.Nullable == wantNullable && !(invented && !wantNullable), "C17 nested back: converting back leaves the OpenAPI 3 schema as it was")
		again, _ := FromV3SchemaRef(v3, &openapi3.Components{})
		verifAssert(again != nil && again.Value != nil && (again.Value.Extensions["x-nullable"] == true) == wantNullable, "C17 nested back: converting the same OpenAPI 3 schema twice gives the same result")
	}
	verifReach("end")
}

//verif:harness id=C17 tier=quick,thorough witness=end bounds="non-body parameter in query/header/path, primitive or array (items leaf; collectionFormat in {absent,csv,multi,pipes,ssv}), every scalar field symbolic -> ToV3Parameter -> name, in, required (path => true), description and constraints at their v3 places -> FromV3Parameter -> equals the original"
func verifH_C17_parameter() {
	verifPtrs = verifChoose("optionalFields", 2) == 1
	in := []string{"query", "header", "path"}[verifChoose("in", 3)]
	p := &openapi2.Parameter{In: in, Name: verifStr("name", 2), Description: verifStr("descr", 1)}
	p.Required = verifNondetBool("required")
	if in == "path" {
		p.Required = true
	}
	isArray := verifChoose("array", 2) == 1
	if isArray {
		p.Type = &openapi3.Types{"array"}
		p.Items = &openapi2.SchemaRef{Value: verifLeafV2("items.", true)}
		p.MinItems = verifNondetUint64("minItems")
		p.MaxItems = verifU64p("maxItems")
		p.UniqueItems = verifNondetBool("unique")
		if in != "path" {
			p.CollectionFormat = []string{"", "csv", "multi", "pipes", "ssv"}[verifChoose("collectionFormat", 5)]
		}
	} else {
		p.Type = &openapi3.Types{[]string{"string", "integer", "number", "boolean"}[verifChoose("type", 4)]}
		p.Format = verifStr("format", 1)
		if verifChoose("wordFormat", 3) > 0 {
			// real format words: string / binary is a file only in a form, elsewhere an ordinary string
			p.Format = []string{"binary", "byte", "int32"}[verifChoose("formatWord", 3)]
		}
		p.Pattern = verifStr("pattern", 1)
		p.Minimum, p.Maximum, p.MultipleOf = verifF64p("min"), verifF64p("max"), verifF64p("mul")
		p.ExclusiveMin, p.ExclusiveMax = verifNondetBool("xmin"), verifNondetBool("xmax")
		p.MinLength = verifNondetUint64("minLength")
		p.MaxLength = verifU64p("maxLength")
		p.AllowEmptyValue = verifNondetBool("aev")
		if verifPtrs {
			p.Enum = []any{verifStr("e", 1)}
			p.Default = verifStr("d", 1)
		}
	}
	p3, body, form, err := ToV3Parameter(&openapi3.Components{}, p, nil)
	verifAssert(err == nil && p3 != nil && p3.Value != nil && body == nil && form == nil, "C17 parameter: a non-body parameter stays a parameter")
	if p3 == nil || p3.Value == nil {
		return
	}
	v := p3.Value
	verifAssert(v.Name == p.Name && v.In == p.In && v.Required == p.Required && v.Description == p.Description, "C17 parameter: name, location, requiredness, description are preserved")
	verifAssert(v.Schema != nil && v.Schema.Value != nil, "C17 parameter: constraints become the parameter's schema")
	if v.Schema == nil || v.Schema.Value == nil {
		return
	}
	s := v.Schema.Value
	ok := verifSameTypes(s.Type, p.Type) && s.Format == p.Format && s.Pattern == p.Pattern && verifSameF(s.Min, p.Minimum) && verifSameF(s.Max, p.Maximum) && verifSameF(s.MultipleOf, p.MultipleOf) &&
		s.ExclusiveMin == p.ExclusiveMin && s.ExclusiveMax == p.ExclusiveMax && s.MinLength == p.MinLength && verifSameU(s.MaxLength, p.MaxLength) &&
		s.MinItems == p.MinItems && verifSameU(s.MaxItems, p.MaxItems) && s.UniqueItems == p.UniqueItems && s.AllowEmptyValue == p.AllowEmptyValue && verifSameAnys(s.Enum, p.Enum) && s.Default == p.Default
	verifAssert(ok, "C17 parameter: every constraint appears in the v3 schema")
	if isArray {
		verifAssert(s.Items != nil && s.Items.Value != nil && s.Items.Value.MinLength == p.Items.Value.MinLength && s.Items.Value.Title == p.Items.Value.Title, "C17 parameter: array items keep their constraints")
		// how the items travel: csv (the default) = form not exploded, multi = form exploded,
		// pipes = pipeDelimited, ssv = spaceDelimited (header parameters: csv only)
		if p.CollectionFormat != "" && p.CollectionFormat != "csv" {
			sm, smErr := v.SerializationMethod()
			wantStyle, wantExplode := "form", p.CollectionFormat == "multi"
			switch p.CollectionFormat {
			case "pipes":
				wantStyle = "pipeDelimited"
			case "ssv":
				wantStyle = "spaceDelimited"
			}
			// (multi on a query parameter happens to be the default the parameter gets anyway)
			verifKnown("C17-collectionFormat-dropped", !(p.CollectionFormat == "multi" && in == "query"))
			verifAssert(smErr == nil && in == "query" && sm.Style == wantStyle && sm.Explode == wantExplode, "C17 parameter: collectionFormat becomes the corresponding style and explode")
			verifKnown("C17-collectionFormat-dropped", false)
		}
	}
	back, err := FromV3Parameter(p3, &openapi3.Components{})
	verifAssert(err == nil && back != nil, "C17 parameter: converts back")
	if back == nil {
		return
	}
	ok = back.Name == p.Name && back.In == p.In && back.Required == p.Required && back.Description == p.Description && verifSameTypes(back.Type, p.Type) && back.Format == p.Format && back.Pattern == p.Pattern &&
		verifSameF(back.Minimum, p.Minimum) && verifSameF(back.Maximum, p.Maximum) && verifSameF(back.MultipleOf, p.MultipleOf) && back.ExclusiveMin == p.ExclusiveMin && back.ExclusiveMax == p.ExclusiveMax &&
		back.MinLength == p.MinLength && verifSameU(back.MaxLength, p.MaxLength) && back.MinItems == p.MinItems && verifSameU(back.MaxItems, p.MaxItems) && back.UniqueItems == p.UniqueItems &&
		back.AllowEmptyValue == p.AllowEmptyValue && verifSameAnys(back.Enum, p.Enum) && back.Default == p.Default
	verifAssert(ok, "C17 parameter: the round trip gives the same parameter with the same constraints")
	if isArray {
		verifAssert(back.Items != nil && back.Items.Value != nil && back.Items.Value.MinLength == p.Items.Value.MinLength, "C17 parameter: array items survive the round trip")
		if p.CollectionFormat != "" && p.CollectionFormat != "csv" {
			verifKnown("C17-collectionFormat-dropped", true)
			verifAssert(back.CollectionFormat == p.CollectionFormat, "C17 parameter: collectionFormat survives the round trip")
			verifKnown("C17-collectionFormat-dropped", false)
		}
	}
	verifReach("end")
}
