package openapi3

// Reference evaluator for OpenAPI 3.0 / JSON-Schema draft-4 validation,
// written from the specification (one clause per keyword), independent of
// the library's control flow. Executed symbolically together with the
// implementation, so "implementation verdict == reference verdict" is one
// formula per path.

import (
	"math/big"
	"regexp"
)

func verifIsInt(f float64) bool { return big.NewFloat(f).IsInt() }

func verifJSONType(v any) string {
	switch v.(type) {
	case nil:
		return "null"
	case bool:
		return "boolean"
	case float64:
		return "number"
	case string:
		return "string"
	case []any:
		return "array"
	case map[string]any:
		return "object"
	}
	return "?"
}

// verifJSONEqual is JSON value equality (numbers by numeric value).
func verifJSONEqual(a, b any) bool {
	switch x := a.(type) {
	case nil:
		return b == nil
	case bool:
		y, ok := b.(bool)
		return ok && x == y
	case float64:
		y, ok := b.(float64)
		return ok && x == y
	case string:
		y, ok := b.(string)
		return ok && x == y
	case []any:
		y, ok := b.([]any)
		if !ok || len(x) != len(y) {
			return false
		}
		for i := range x {
			if !verifJSONEqual(x[i], y[i]) {
				return false
			}
		}
		return true
	case map[string]any:
		y, ok := b.(map[string]any)
		if !ok || len(x) != len(y) {
			return false
		}
		for k, xv := range x {
			yv, ok := y[k]
			if !ok || !verifJSONEqual(xv, yv) {
				return false
			}
		}
		return true
	}
	return false
}

// verifRef: does non-null JSON value v satisfy schema s?
// (null is handled by the callers: the property speaks about it separately.)
func verifRef(s *Schema, v any) bool {
	// not
	if s.Not != nil && verifRef(s.Not.Value, v) {
		return false
	}
	// oneOf
	if len(s.OneOf) > 0 {
		n := 0
		for _, b := range s.OneOf {
			if verifRef(b.Value, v) {
				n++
			}
		}
		if n != 1 {
			return false
		}
	}
	// anyOf
	if len(s.AnyOf) > 0 {
		ok := false
		for _, b := range s.AnyOf {
			if verifRef(b.Value, v) {
				ok = true
			}
		}
		if !ok {
			return false
		}
	}
	// allOf
	for _, b := range s.AllOf {
		if !verifRef(b.Value, v) {
			return false
		}
	}
	// enum
	if len(s.Enum) > 0 {
		ok := false
		for _, e := range s.Enum {
			if verifJSONEqual(e, v) {
				ok = true
			}
		}
		if !ok {
			return false
		}
	}
	// type
	jt := verifJSONType(v)
	if s.Type != nil {
		ok := false
		for _, t := range *s.Type {
			if t == jt {
				ok = true
			}
			if t == "integer" && jt == "number" && verifIsInt(v.(float64)) {
				ok = true
			}
		}
		if !ok {
			return false
		}
	}
	switch x := v.(type) {
	case float64:
		if s.Min != nil {
			if s.ExclusiveMin {
				if !(x > *s.Min) {
					return false
				}
			} else if !(x >= *s.Min) {
				return false
			}
		}
		if s.Max != nil {
			if s.ExclusiveMax {
				if !(x < *s.Max) {
					return false
				}
			} else if !(x <= *s.Max) {
				return false
			}
		}
		if s.MultipleOf != nil && !verifIsInt(x / *s.MultipleOf) {
			return false
		}
	case string:
		// length in characters; harness strings are ASCII, so characters = bytes
		n := uint64(len(x))
		if n < s.MinLength {
			return false
		}
		if s.MaxLength != nil && n > *s.MaxLength {
			return false
		}
		if s.Pattern != "" && !regexp.MustCompile(s.Pattern).MatchString(x) {
			return false
		}
	case []any:
		n := uint64(len(x))
		if n < s.MinItems {
			return false
		}
		if s.MaxItems != nil && n > *s.MaxItems {
			return false
		}
		if s.UniqueItems {
			for i := range x {
				for j := i + 1; j < len(x); j++ {
					if verifJSONEqual(x[i], x[j]) {
						return false
					}
				}
			}
		}
		if s.Items != nil {
			for _, it := range x {
				if !verifRef(s.Items.Value, it) {
					return false
				}
			}
		}
	case map[string]any:
		n := uint64(len(x))
		if n < s.MinProps {
			return false
		}
		if s.MaxProps != nil && n > *s.MaxProps {
			return false
		}
		for _, r := range s.Required {
			if _, ok := x[r]; !ok {
				return false
			}
		}
		for k, pv := range x {
			if p, ok := s.Properties[k]; ok && p != nil {
				if !verifRef(p.Value, pv) {
					return false
				}
				continue
			}
			if s.AdditionalProperties.Has != nil && !*s.AdditionalProperties.Has {
				return false
			}
			if ap := s.AdditionalProperties.Schema; ap != nil && !verifRef(ap.Value, pv) {
				return false
			}
		}
	}
	return true
}

// verifNullOK: the schema is nullable, or one of its composition branches admits null.
func verifNullOK(s *Schema) bool {
	if s.Nullable {
		return true
	}
	for _, b := range s.AllOf {
		if verifNullOK(b.Value) {
			return true
		}
	}
	for _, b := range s.AnyOf {
		if verifNullOK(b.Value) {
			return true
		}
	}
	for _, b := range s.OneOf {
		if verifNullOK(b.Value) {
			return true
		}
	}
	return false
}

// ---- input builders shared by the schema harnesses ----

func verifFiniteFloat(name string) float64 {
	f := verifNondetFloat64(name)
	verifAssume(f == f) // not NaN; the two bounds below exclude +-Inf (not JSON numbers)
	verifAssume(f <= 1.7976931348623157e308)
	verifAssume(f >= -1.7976931348623157e308)
	return f
}

// verifASCII returns a symbolic ASCII string of length <= max.
func verifASCII(name string, max int) string {
	s := verifNondetString(name, max)
	for i := 0; i < len(s); i++ {
		verifAssume(s[i] < 0x80)
	}
	return s
}

// verifVisit runs the validator in one of the three modes.
func verifVisit(s *Schema, v any, mode int) error {
	switch mode {
	case 1:
		return s.VisitJSON(v, FailFast())
	case 2:
		return s.VisitJSON(v, MultiErrors())
	}
	return s.VisitJSON(v)
}

// verifLeafValue: a scalar JSON value of the chosen kind.
func verifLeafValue(name string, kind int, strMax int) any {
	switch kind {
	case 0:
		return verifFiniteFloat(name + ".n")
	case 1:
		return verifNondetBool(name + ".b")
	case 2:
		return verifASCII(name+".s", strMax)
	}
	return nil
}
