package openapi3

// Engine self-test (not a property of the library): every summary the engine uses for a
// standard-library function on *symbolic* operands is compared, for all inputs within the
// bound, with a naive byte-loop implementation that the engine interprets instruction by
// instruction. A wrong summary makes an assertion fail in the engine but not natively, which
// `bin/selftest.sh` reports (SPURIOUS); a wrong naive implementation fails natively too.

import (
	"net/url"
	"regexp"
	"strconv"
	"strings"
	"unicode/utf8"
)

func verifNaiveIndex(s, sub string) int {
	for i := 0; i+len(sub) <= len(s); i++ {
		if s[i:i+len(sub)] == sub {
			return i
		}
	}
	return -1
}

func verifNaiveLastIndex(s, sub string) int {
	for i := len(s) - len(sub); i >= 0; i-- {
		if s[i:i+len(sub)] == sub {
			return i
		}
	}
	return -1
}

func verifNaiveCount(s, sub string) int {
	n := 0
	for i := 0; i+len(sub) <= len(s); {
		if s[i:i+len(sub)] == sub {
			n++
			i += len(sub)
		} else {
			i++
		}
	}
	return n
}

func verifNaiveSplit(s, sep string, n int) []string {
	var out []string
	for n < 0 || len(out) < n-1 {
		i := verifNaiveIndex(s, sep)
		if i < 0 {
			break
		}
		out = append(out, s[:i])
		s = s[i+len(sep):]
	}
	return append(out, s)
}

func verifInSet(b byte, set string) bool {
	for i := 0; i < len(set); i++ {
		if set[i] == b {
			return true
		}
	}
	return false
}

func verifSameStrings(a, b []string) bool {
	if len(a) != len(b) {
		return false
	}
	for i := range a {
		if a[i] != b[i] {
			return false
		}
	}
	return true
}

func verifLowerByte(b byte) byte {
	if b >= 'A' && b <= 'Z' {
		return b + 32
	}
	return b
}

func verifSelfString(name string, max int, alphabet string) string {
	n := verifChoose(name+".len", max+1)
	bs := make([]byte, n)
	for i := range bs {
		bs[i] = verifNondetByteIn(name, alphabet)
	}
	return string(bs)
}

//verif:harness id=SELF tier=selftest witness=end bounds="strings.* summaries on every string of 0-3 bytes over {a,b,A,',',' ','='} against naive byte loops"
func verifH_SELF_strings() {
	s := verifSelfString("s", 3, "abA, =")
	for _, sub := range []string{"a", "ab", ",", ""} {
		verifAssert(strings.Index(s, sub) == verifNaiveIndex(s, sub), "SELF strings.Index")
		verifAssert(strings.LastIndex(s, sub) == verifNaiveLastIndex(s, sub), "SELF strings.LastIndex")
		verifAssert(strings.Contains(s, sub) == (verifNaiveIndex(s, sub) >= 0), "SELF strings.Contains")
		verifAssert(strings.HasPrefix(s, sub) == (len(s) >= len(sub) && s[:len(sub)] == sub), "SELF strings.HasPrefix")
		verifAssert(strings.HasSuffix(s, sub) == (len(s) >= len(sub) && s[len(s)-len(sub):] == sub), "SELF strings.HasSuffix")
		if sub != "" {
			verifAssert(strings.Count(s, sub) == verifNaiveCount(s, sub), "SELF strings.Count")
			verifAssert(verifSameStrings(strings.Split(s, sub), verifNaiveSplit(s, sub, -1)), "SELF strings.Split")
			verifAssert(verifSameStrings(strings.SplitN(s, sub, 2), verifNaiveSplit(s, sub, 2)), "SELF strings.SplitN")
			before, after, found := strings.Cut(s, sub)
			i := verifNaiveIndex(s, sub)
			if i >= 0 {
				verifAssert(found && before == s[:i] && after == s[i+len(sub):], "SELF strings.Cut found")
			} else {
				verifAssert(!found && before == s && after == "", "SELF strings.Cut not found")
			}
			want := s
			if len(s) >= len(sub) && s[:len(sub)] == sub {
				want = s[len(sub):]
			}
			verifAssert(strings.TrimPrefix(s, sub) == want, "SELF strings.TrimPrefix")
			want = s
			if len(s) >= len(sub) && s[len(s)-len(sub):] == sub {
				want = s[:len(s)-len(sub)]
			}
			verifAssert(strings.TrimSuffix(s, sub) == want, "SELF strings.TrimSuffix")
			verifAssert(strings.ReplaceAll(s, sub, "xy") == strings.Join(verifNaiveSplit(s, sub, -1), "xy"), "SELF strings.ReplaceAll")
			verifAssert(strings.Replace(s, sub, "", 1) == strings.Join(verifNaiveSplit(s, sub, 2), ""), "SELF strings.Replace n=1")
		}
	}
	verifAssert(strings.IndexByte(s, 'a') == verifNaiveIndex(s, "a"), "SELF strings.IndexByte")
	verifAssert(strings.LastIndexByte(s, 'a') == verifNaiveLastIndex(s, "a"), "SELF strings.LastIndexByte")
	verifAssert(strings.IndexRune(s, 'b') == verifNaiveIndex(s, "b"), "SELF strings.IndexRune")
	verifAssert(strings.ContainsRune(s, ',') == (verifNaiveIndex(s, ",") >= 0), "SELF strings.ContainsRune")
	any := -1
	for i := 0; i < len(s); i++ {
		if verifInSet(s[i], "a,") {
			any = i
			break
		}
	}
	verifAssert(strings.IndexAny(s, "a,") == any, "SELF strings.IndexAny")
	verifAssert(strings.ContainsAny(s, "a,") == (any >= 0), "SELF strings.ContainsAny")
	// trims
	l, r := 0, len(s)
	for l < r && verifInSet(s[l], "a ") {
		l++
	}
	verifAssert(strings.TrimLeft(s, "a ") == s[l:], "SELF strings.TrimLeft")
	for r > l && verifInSet(s[r-1], "a ") {
		r--
	}
	verifAssert(strings.Trim(s, "a ") == s[l:r], "SELF strings.Trim")
	r2 := len(s)
	for r2 > 0 && verifInSet(s[r2-1], "a ") {
		r2--
	}
	verifAssert(strings.TrimRight(s, "a ") == s[:r2], "SELF strings.TrimRight")
	l, r = 0, len(s)
	for l < r && s[l] == ' ' {
		l++
	}
	for r > l && s[r-1] == ' ' {
		r--
	}
	verifAssert(strings.TrimSpace(s) == s[l:r], "SELF strings.TrimSpace")
	// case
	low, up := make([]byte, len(s)), make([]byte, len(s))
	for i := 0; i < len(s); i++ {
		low[i] = verifLowerByte(s[i])
		up[i] = s[i]
		if s[i] >= 'a' && s[i] <= 'z' {
			up[i] = s[i] - 32
		}
	}
	verifAssert(strings.ToLower(s) == string(low), "SELF strings.ToLower")
	verifAssert(strings.ToUpper(s) == string(up), "SELF strings.ToUpper")
	verifAssert(strings.EqualFold(s, "aB") == (string(low) == "ab"), "SELF strings.EqualFold")
	// fields
	var fields []string
	cur := ""
	for i := 0; i < len(s); i++ {
		if s[i] == ' ' {
			if cur != "" {
				fields = append(fields, cur)
			}
			cur = ""
		} else {
			cur += string(s[i])
		}
	}
	if cur != "" {
		fields = append(fields, cur)
	}
	verifAssert(verifSameStrings(strings.Fields(s), fields), "SELF strings.Fields")
	t := verifSelfString("t", 2, "ab")
	verifAssert(strings.Join([]string{s, t}, ",") == s+","+t, "SELF strings.Join")
	cmp := 0
	switch {
	case s < t:
		cmp = -1
	case s > t:
		cmp = 1
	}
	verifAssert(strings.Compare(s, t) == cmp, "SELF strings.Compare")
	pre, okp := strings.CutPrefix(s, "a")
	verifAssert(okp == (len(s) > 0 && s[0] == 'a') && (!okp || pre == s[1:]) && (okp || pre == s), "SELF strings.CutPrefix")
	suf, oks := strings.CutSuffix(s, "a")
	verifAssert(oks == (len(s) > 0 && s[len(s)-1] == 'a') && (!oks || suf == s[:len(s)-1]) && (oks || suf == s), "SELF strings.CutSuffix")
	verifReach("end")
}

func verifNaiveValidUTF8(s string) (valid bool, runes int) {
	for i := 0; i < len(s); {
		b := s[i]
		switch {
		case b < 0x80:
			i++
		case b >= 0xC2 && b <= 0xDF:
			if i+1 >= len(s) || s[i+1]&0xC0 != 0x80 {
				return false, 0
			}
			i += 2
		case b >= 0xE0 && b <= 0xEF:
			if i+2 >= len(s) || s[i+1]&0xC0 != 0x80 || s[i+2]&0xC0 != 0x80 {
				return false, 0
			}
			if b == 0xE0 && s[i+1] < 0xA0 {
				return false, 0
			}
			if b == 0xED && s[i+1] > 0x9F {
				return false, 0
			}
			i += 3
		default:
			return false, 0 // 4-byte forms do not fit in 3 bytes
		}
		runes++
	}
	return true, runes
}

//verif:harness id=SELF tier=selftest witness=end bounds="UTF-8: every string of 0-3 arbitrary bytes: ValidString, RuneCountInString and range-over-string against a naive decoder"
func verifH_SELF_utf8() {
	s := verifNondetString("s", 3)
	valid, runes := verifNaiveValidUTF8(s)
	verifAssert(utf8.ValidString(s) == valid, "SELF utf8.ValidString")
	n := 0
	sawError := false
	for _, r := range s {
		n++
		if r == utf8.RuneError {
			sawError = true
		}
	}
	verifAssert(utf8.RuneCountInString(s) == n, "SELF utf8.RuneCountInString equals range count")
	if valid {
		// U+FFFD itself (EF BF BD) is valid and decodes to RuneError
		verifAssert(n == runes, "SELF range over a valid string yields one rune per encoded character")
		if !sawError {
			verifAssert(len([]rune(s)) == runes, "SELF []rune(s)")
		}
	} else {
		verifAssert(sawError, "SELF range over an invalid string yields RuneError")
	}
	verifReach("end")
}

//verif:harness id=SELF tier=selftest witness=end bounds="strconv: Atoi / ParseBool / Itoa / ParseInt base 10 and 0 on every string of 0-3 bytes over {0,1,9,+,-,_,x,t} against naive parsers; Itoa on every int in 0..9999"
func verifH_SELF_strconv() {
	s := verifSelfString("s", 3, "019+-_xt")
	// naive decimal parser
	ok, val := false, 0
	{
		i, neg := 0, false
		if len(s) > 0 && (s[0] == '+' || s[0] == '-') {
			neg = s[0] == '-'
			i = 1
		}
		if i < len(s) {
			ok = true
			for ; i < len(s); i++ {
				if s[i] < '0' || s[i] > '9' {
					ok = false
					break
				}
				val = val*10 + int(s[i]-'0')
			}
			if neg {
				val = -val
			}
		}
	}
	n, err := strconv.Atoi(s)
	verifAssert((err == nil) == ok && (!ok || n == val), "SELF strconv.Atoi")
	n64, err := strconv.ParseInt(s, 10, 64)
	verifAssert((err == nil) == ok && (!ok || n64 == int64(val)), "SELF strconv.ParseInt base 10")
	n8, err := strconv.ParseInt(s, 10, 8)
	verifAssert((err == nil) == (ok && val >= -128 && val <= 127) && (err != nil || n8 == int64(val)), "SELF strconv.ParseInt bit size 8")
	u64, err := strconv.ParseUint(s, 10, 64)
	verifAssert((err == nil) == (ok && (len(s) == 0 || (s[0] != '+' && s[0] != '-'))) && (err != nil || u64 == uint64(val)), "SELF strconv.ParseUint base 10")
	b, err := strconv.ParseBool(s)
	wantB, okB := false, false
	switch s {
	case "1", "t":
		wantB, okB = true, true
	case "0":
		wantB, okB = false, true
	}
	verifAssert((err == nil) == okB && (!okB || b == wantB), "SELF strconv.ParseBool")
	k := verifNondetInt("k")
	verifAssume(k >= 0 && k <= 9999) // parsing back is exact up to 4 symbolic digits
	txt := strconv.Itoa(k)
	back, err := strconv.Atoi(txt)
	verifAssert(err == nil && back == k, "SELF strconv.Itoa round trip")
	digits := 1
	for p := 10; p <= k; p *= 10 {
		digits++
	}
	verifAssert(len(txt) == digits, "SELF strconv.Itoa length")
	verifReach("end")
}

//verif:harness id=SELF tier=selftest witness=end bounds="url.QueryUnescape / PathUnescape on every string of 0-3 bytes over {%,+,a,2,0,g}; regexp matching of 4 patterns on every string of 0-3 bytes over {a,b,c,d}"
func verifH_SELF_misc() {
	s := verifSelfString("s", 3, "%+a20g")
	isHex := func(b byte) bool { return b >= '0' && b <= '9' || b >= 'a' && b <= 'f' || b >= 'A' && b <= 'F' }
	unhex := func(b byte) byte {
		if b >= '0' && b <= '9' {
			return b - '0'
		}
		if b >= 'a' && b <= 'f' {
			return b - 'a' + 10
		}
		return b - 'A' + 10
	}
	naive := func(plus bool) (string, bool) {
		out := []byte{}
		for i := 0; i < len(s); i++ {
			switch {
			case s[i] == '%':
				if i+2 >= len(s) || !isHex(s[i+1]) || !isHex(s[i+2]) {
					return "", false
				}
				out = append(out, unhex(s[i+1])<<4|unhex(s[i+2]))
				i += 2
			case s[i] == '+' && plus:
				out = append(out, ' ')
			default:
				out = append(out, s[i])
			}
		}
		return string(out), true
	}
	got, err := url.QueryUnescape(s)
	want, ok := naive(true)
	verifAssert((err == nil) == ok && (!ok || got == want), "SELF url.QueryUnescape")
	got, err = url.PathUnescape(s)
	want, ok = naive(false)
	verifAssert((err == nil) == ok && (!ok || got == want), "SELF url.PathUnescape")

	r := verifSelfString("r", 3, "abcd")
	all := len(r) > 0
	for i := 0; i < len(r); i++ {
		if r[i] < 'a' || r[i] > 'c' {
			all = false
		}
	}
	verifAssert(regexp.MustCompile(`^[a-c]+$`).MatchString(r) == all, "SELF regexp ^[a-c]+$")
	dot := false
	for i := 0; i+2 < len(r)+0 && i+2 <= len(r)-1; i++ {
		if r[i] == 'a' && r[i+2] == 'c' {
			dot = true
		}
	}
	verifAssert(regexp.MustCompile(`a.c`).MatchString(r) == dot, "SELF regexp a.c")
	alt := false
	for i := 0; i < len(r); i++ {
		if r[i] == 'b' || r[i] == 'd' {
			alt = true
		}
	}
	verifAssert(regexp.MustCompile(`b|d`).MatchString(r) == alt, "SELF regexp b|d")
	// ^(ab|c)*$ : the string is a concatenation of "ab" and "c"
	star := true
	for i := 0; i < len(r); {
		switch {
		case r[i] == 'c':
			i++
		case r[i] == 'a' && i+1 < len(r) && r[i+1] == 'b':
			i += 2
		default:
			star = false
			i = len(r)
		}
	}
	verifAssert(regexp.MustCompile(`^(ab|c)*$`).MatchString(r) == star, "SELF regexp ^(ab|c)*$")
	verifReach("end")
}
