package openapi3

// C09 (matching-order part) — the order in which path templates are tried:
// fewer template variables first, then descending lexicographic order, so a
// literal path is always tried before a templated sibling. This is the part of
// the gorilla/mux-based router that is repository code reachable by the engine
// (route matching inside gorilla/mux itself is not applicable, see DESIGN.md).

import "strings"

//verif:harness id=C09 tier=quick witness=end bounds="Paths.InMatchingOrder on every set of 2 distinct templates with 1-2 segments drawn from {a, b, v1, {x}, v{n}, {y}.json}: the result is a permutation of the declared templates, ordered by number of template variables ascending (variables counted wherever they sit in a segment) and, within one count, descending lexicographically"
func verifH_C09_matching_order() { verifC09Order(2) }

//verif:harness id=C09 tier=thorough witness=end bounds="Paths.InMatchingOrder as quick on every set of 2-3 distinct templates"
func verifH_C09_matching_order3() { verifC09Order(3) }

func verifC09Order(max int) {
	segs := []string{"a", "b", "v1", "{x}", "v{n}", "{y}.json"}
	mk := func(p string) string {
		s := "/" + segs[verifChoose(p+"s1", len(segs))]
		if k := verifChoose(p+"s2", len(segs)+1); k < len(segs) {
			s += "/" + segs[k]
		}
		return s
	}
	n := 2 + verifChoose("n", max-1)
	paths := NewPaths()
	var keys []string
	for i := 0; i < n; i++ {
		k := mk([]string{"p", "q", "r"}[i])
		if paths.Value(k) != nil {
			return // duplicates: not a set of n templates
		}
		paths.Set(k, &PathItem{})
		keys = append(keys, k)
	}
	ord := paths.InMatchingOrder()
	verifAssert(len(ord) == len(keys), "C09 matching order: every declared template appears once")
	if len(ord) != len(keys) {
		return
	}
	for _, k := range keys {
		cnt := 0
		for _, o := range ord {
			if o == k {
				cnt++
			}
		}
		verifAssert(cnt == 1, "C09 matching order: the result is a permutation of the declared templates")
	}
	for i := 0; i+1 < len(ord); i++ {
		a, b := strings.Count(ord[i], "{"), strings.Count(ord[i+1], "{")
		verifAssert(a <= b, "C09 matching order: templates with fewer variables are tried first (a literal path wins over a templated one)")
		if a == b {
			verifAssert(ord[i] > ord[i+1], "C09 matching order: equal variable counts are tried in descending lexicographic order")
		}
	}
	verifReach("end")
}
