package openapi3

// C03 through the loader: a document is normally parsed by the Loader, which also resolves its
// references; serialising the loaded document must give the input back - a reference stays a
// reference, the object it points at is not written in its place.

import (
	"encoding/json"
	"errors"
	"net/url"
	"reflect"
)

//verif:harness id=C03 tier=quick,thorough witness=end bounds="documents parsed by the Loader (references resolved): the conforming document with references of every kind (parameter, request body, response, header, link, callback, schema incl. a self reference, items), and one with a reference of each kind at an operation position plus an external file; entry points LoadFromData / LoadFromDataWithPath / LoadFromURI; the serialised JSON equals the input JSON (references stay references), parse-serialise again is stable, also after Validate"
func verifH_C03_loaded() {
	var text string
	files := map[string]string{}
	switch verifChoose("doc", 2) {
	case 0:
		text = verifBaseDoc
	case 1:
		text = `{"openapi":"3.0.0","info":{"title":"t","version":"1"},"paths":{"/p":{"get":{"operationId":"op","parameters":[{"$ref":"#/components/parameters/P"},{"$ref":"x.json#/components/parameters/Q"}],` +
			`"requestBody":{"$ref":"#/components/requestBodies/B"},"responses":{"200":{"$ref":"#/components/responses/R"},"404":{"description":"d","headers":{"X-H":{"$ref":"#/components/headers/H"}},` +
			`"content":{"application/json":{"schema":{"$ref":"#/components/schemas/S"},"examples":{"e":{"$ref":"#/components/examples/E"}}}},"links":{"l":{"$ref":"#/components/links/L"},"l2":{"$ref":"#/components/links/L2"}}}},` +
			`"callbacks":{"cb":{"$ref":"#/components/callbacks/C"}},"security":[{"sec":[]}]}}},` +
			`"components":{"schemas":{"S":{"type":"object","properties":{"next":{"$ref":"#/components/schemas/S"},"l":{"type":"array","items":{"$ref":"#/components/schemas/T"}}}},"T":{"type":"string"},"U":{"$ref":"#/components/schemas/T"}},` +
			`"parameters":{"P":{"name":"p","in":"query","schema":{"$ref":"#/components/schemas/T"}}},"headers":{"H":{"schema":{"type":"integer"}}},"requestBodies":{"B":{"content":{"text/plain":{"schema":{"type":"string"}}}}},` +
			`"responses":{"R":{"description":"d"}},"examples":{"E":{"value":1}},"links":{"L":{"operationId":"op"},"L2":{"$ref":"#/components/links/L"}},"callbacks":{"C":{"{$request.body#/u}":{"post":{"responses":{"200":{"description":"d"}}}}}},` +
			`"securitySchemes":{"sec":{"type":"http","scheme":"basic"}}}}`
		files["/r/x.json"] = `{"components":{"parameters":{"Q":{"name":"q","in":"query","schema":{"type":"string"}}}}}`
	}
	rootLoc := &url.URL{Path: "/r/doc.json"}
	loader := NewLoader()
	loader.IsExternalRefsAllowed = true
	loader.ReadFromURIFunc = func(_ *Loader, u *url.URL) ([]byte, error) {
		if u.Path == rootLoc.Path {
			return []byte(text), nil
		}
		if t, ok := files[u.Path]; ok {
			return []byte(t), nil
		}
		return nil, errors.New("no such file")
	}
	var doc *T
	var err error
	switch verifChoose("entry", 3) {
	case 0:
		if len(files) > 0 {
			return // a relative external reference needs a location
		}
		doc, err = loader.LoadFromData([]byte(text))
	case 1:
		doc, err = loader.LoadFromDataWithPath([]byte(text), rootLoc)
	case 2:
		doc, err = loader.LoadFromURI(rootLoc)
	}
	verifAssert(err == nil && doc != nil, "C03 loaded: the document loads")
	if err != nil || doc == nil {
		return
	}
	if verifChoose("validated", 2) == 1 {
		_ = doc.Validate(loader.Context)
	}
	want, _ := verifJSONTree([]byte(text))
	out, err := json.Marshal(doc)
	verifAssert(err == nil, "C03 loaded: a loaded document serialises")
	if err != nil {
		return
	}
	got, ok := verifJSONTree(out)
	verifAssert(ok && reflect.DeepEqual(got, want), "C03 loaded: the serialised JSON of a loaded document equals the input (a reference stays a reference; nothing lost, nothing invented)")
	y := &T{}
	if json.Unmarshal(out, y) == nil {
		out2, err2 := json.Marshal(y)
		t2, ok2 := verifJSONTree(out2)
		verifAssert(err2 == nil && ok2 && reflect.DeepEqual(t2, got), "C03 loaded: serialise/parse/serialise is stable")
	} else {
		verifAssert(false, "C03 loaded: the serialised output parses again")
	}
	verifReach("end")
}
