package openapi3

import "math"

// C01 — schema validation accepts exactly what the schema allows.
// Families N (number), S (string), A (array), O (object), K (composition), Z (null).

func verifTypes(name string, opts ...[]string) *Types {
	k := verifChoose(name, len(opts)+1)
	if k == 0 {
		return nil
	}
	t := Types(opts[k-1])
	return &t
}

func verifNumberSchema(p string, withType bool) *Schema {
	s := &Schema{}
	if withType {
		s.Type = verifTypes(p+"type", []string{"number"}, []string{"integer"}, []string{"string"}, []string{"integer", "string"})
	}
	if verifChoose(p+"hasMin", 2) == 1 {
		m := verifFiniteFloat(p + "min")
		s.Min = &m
		s.ExclusiveMin = verifNondetBool(p + "xmin")
	}
	if verifChoose(p+"hasMax", 2) == 1 {
		m := verifFiniteFloat(p + "max")
		s.Max = &m
		s.ExclusiveMax = verifNondetBool(p + "xmax")
	}
	if verifChoose(p+"hasMul", 2) == 1 {
		m := verifFiniteFloat(p + "mul")
		verifAssume(m > 0)
		s.MultipleOf = &m
	}
	return s
}

//verif:harness id=C01 tier=quick,thorough witness=end bounds="N: type in {absent,number,integer,string,[integer,string]} x presence of minimum/maximum/multipleOf (all float64, exclusive flags symbolic, multipleOf>0) x 0-2 enum members (float64) x value in {any finite float64, any bool, ASCII string len<=1}; default mode (mode equivalence is C12)"
func verifH_C01_number() {
	s := verifNumberSchema("", true)
	for k, n := 0, verifChoose("enum", 3); k < n; k++ {
		s.Enum = append(s.Enum, verifFiniteFloat("e"))
	}
	v := verifLeafValue("v", verifChoose("vkind", 3), 1)
	err := verifVisit(s, v, 0)
	want := verifRef(s, v)
	verifAssert((err == nil) == want, "C01 number: accept iff reference accepts")
	verifAssert(s.IsMatching(v) == want, "C01 number: the boolean matching helper accepts iff the reference accepts")
	verifReach("end")
}

//verif:harness id=C01 tier=quick,thorough witness=end bounds="S: type in {absent,string,number,[string,integer]} x minLength/maxLength (all uint64) x pattern in {absent,^a,b$,^[a-c]+$,a|bc} x 0-1 enum member (ASCII len<=2) x value in {ASCII string len<=3, any float64, any bool}; default mode (mode equivalence is C12)"
func verifH_C01_string() {
	s := &Schema{}
	s.Type = verifTypes("type", []string{"string"}, []string{"number"}, []string{"string", "integer"})
	if verifChoose("hasMinLen", 2) == 1 {
		s.MinLength = verifNondetUint64("minLen")
	}
	if verifChoose("hasMaxLen", 2) == 1 {
		m := verifNondetUint64("maxLen")
		s.MaxLength = &m
	}
	switch verifChoose("pattern", 5) {
	case 1:
		s.Pattern = "^a"
	case 2:
		s.Pattern = "b$"
	case 3:
		s.Pattern = "^[a-c]+$"
	case 4:
		s.Pattern = "a|bc"
	}
	if verifChoose("enum", 2) == 1 {
		s.Enum = append(s.Enum, verifASCII("e", 2))
	}
	var v any
	switch verifChoose("vkind", 3) {
	case 0:
		v = verifASCII("v", 3)
	case 1:
		v = verifFiniteFloat("vn")
	case 2:
		v = verifNondetBool("vb")
	}
	err := verifVisit(s, v, 0)
	want := verifRef(s, v)
	verifAssert((err == nil) == want, "C01 string: accept iff reference accepts")
	verifAssert(s.IsMatching(v) == want, "C01 string: the boolean matching helper accepts iff the reference accepts")
	verifReach("end")
}

func verifItemSchema(p string) *SchemaRef {
	switch verifChoose(p+"items", 5) {
	case 1:
		m := verifFiniteFloat(p + "imin")
		return &SchemaRef{Value: &Schema{Type: &Types{"number"}, Min: &m}}
	case 2:
		m := verifNondetUint64(p + "imaxLen")
		return &SchemaRef{Value: &Schema{Type: &Types{"string"}, MaxLength: &m}}
	case 3:
		return &SchemaRef{Value: &Schema{}}
	case 4:
		return &SchemaRef{Value: &Schema{Type: &Types{"integer"}}}
	}
	return nil
}

func verifArrayValue(p string, maxLen int, strMax int) []any {
	n := verifChoose(p+"len", maxLen+1)
	out := make([]any, 0, n)
	for i := 0; i < n; i++ {
		out = append(out, verifLeafValue(p+"it", verifChoose(p+"ikind", 3), strMax))
	}
	return out
}

func verifHasSignedZeroPair(xs []any) bool {
	for i := range xs {
		a, ok := xs[i].(float64)
		if !ok || a != 0 {
			continue
		}
		for j := i + 1; j < len(xs); j++ {
			if b, ok := xs[j].(float64); ok && b == 0 && math.Signbit(a) != math.Signbit(b) {
				return true
			}
		}
	}
	return false
}

func verifC01Array(maxLen int) {
	s := &Schema{}
	s.Type = verifTypes("type", []string{"array"}, []string{"string"})
	if verifChoose("hasMinItems", 2) == 1 {
		s.MinItems = verifNondetUint64("minItems")
	}
	if verifChoose("hasMaxItems", 2) == 1 {
		m := verifNondetUint64("maxItems")
		s.MaxItems = &m
	}
	s.UniqueItems = verifNondetBool("unique")
	s.Items = verifItemSchema("")
	var v any
	if verifChoose("vkind", 4) == 3 {
		v = verifASCII("vs", 1)
	} else {
		arr := verifArrayValue("v", maxLen, 1)
		// known finding: uniqueness is decided on the JSON text, which tells 0 from -0
		// (the predicate is symbolic, so the flag is conjoined as a branch)
		signedZeros := false
		if s.UniqueItems && (s.Type == nil || s.Type.Is("array")) {
			signedZeros = verifHasSignedZeroPair(arr)
		}
		verifKnown("C01-uniqueItems-signed-zero", signedZeros)
		v = arr
	}
	err := verifVisit(s, v, 0)
	verifAssert((err == nil) == verifRef(s, v), "C01 array: accept iff reference accepts")
	verifReach("end")
}

//verif:harness id=C01 tier=quick witness=end bounds="A: type in {absent,array,string} x minItems/maxItems (all uint64) x uniqueItems (symbolic) x items in {absent,number+minimum,string+maxLength,{},integer} x value = array of 0..2 items each any float64 / any bool / ASCII string len<=1 (or a string); default mode (mode equivalence is C12)"
func verifH_C01_array() { verifC01Array(2) }

//verif:harness id=C01 tier=thorough witness=end bounds="A: as quick with arrays of 0..3 items"
func verifH_C01_array3() { verifC01Array(3) }

// verifC01UniquePool: uniqueItems over arrays of mixed-type items drawn from a
// pool of concrete JSON values whose Go printed forms / JSON texts are easy to
// confuse (1 vs "1", true vs "true", [1,2] vs "[1 2]", {"a":1} vs "map[a:1]").
// Selector-symbolic: the explorer forks over the pool, the solver decides only uniqueItems.
func verifC01UniquePool(maxLen int) {
	pool := func(k int) any {
		switch k {
		case 0:
			return 1.0
		case 1:
			return "1"
		case 2:
			return true
		case 3:
			return "true"
		case 4:
			return []any{1.0, 2.0}
		case 5:
			return "[1 2]"
		case 6:
			return map[string]any{"a": 1.0}
		case 7:
			return "map[a:1]"
		case 8:
			return []any{"1", 2.0}
		case 9:
			return map[string]any{"a": "1"}
		case 10:
			return "[1,2]"
		}
		return "{\"a\":1}"
	}
	s := &Schema{Type: &Types{"array"}}
	s.UniqueItems = verifNondetBool("unique")
	n := verifChoose("len", maxLen+1)
	arr := make([]any, 0, n)
	for i := 0; i < n; i++ {
		arr = append(arr, pool(verifChoose("item", 12)))
	}
	err := verifVisit(s, arr, 0)
	verifAssert((err == nil) == verifRef(s, arr), "C01 uniqueItems over mixed-type items: accept iff reference accepts")
	verifReach("end")
}

//verif:harness id=C01 tier=quick witness=end bounds="U: uniqueItems (symbolic) x arrays of 0..2 items drawn from 12 concrete JSON values of mixed types with colliding printed forms (1,'1',true,'true',[1,2],'[1 2]','[1,2]',{a:1},'map[a:1]','{\"a\":1}',['1',2],{a:'1'})"
func verifH_C01_unique_pool() { verifC01UniquePool(2) }

//verif:harness id=C01 tier=thorough witness=end bounds="U: as quick with arrays of 0..3 items"
func verifH_C01_unique_pool3() { verifC01UniquePool(3) }

func verifObjectValue(p string, keys []string, strMax int) map[string]any {
	out := map[string]any{}
	for _, k := range keys {
		if verifChoose(p+"has_"+k, 2) == 1 {
			out[k] = verifLeafValue(p+k, verifChoose(p+"kind_"+k, 2)*2, strMax) // number or string
		}
	}
	return out
}

//verif:harness id=C01 tier=quick,thorough witness=end bounds="O: properties subset of {a:number+minimum, b:string+maxLength} x required subset of {a,c} x additionalProperties in {absent,true,false,schema number+maximum} x minProperties/maxProperties (all uint64) x value = object over keys {a,b,c} each absent / any float64 / ASCII string len<=1; default mode (mode equivalence is C12)"
func verifH_C01_object() {
	s := &Schema{}
	s.Type = verifTypes("type", []string{"object"})
	props := verifChoose("props", 4)
	if props != 0 {
		s.Properties = Schemas{}
	}
	if props&1 != 0 {
		m := verifFiniteFloat("amin")
		s.Properties["a"] = &SchemaRef{Value: &Schema{Type: &Types{"number"}, Min: &m}}
	}
	if props&2 != 0 {
		m := verifNondetUint64("bmaxLen")
		s.Properties["b"] = &SchemaRef{Value: &Schema{Type: &Types{"string"}, MaxLength: &m}}
	}
	req := verifChoose("required", 4)
	for i, k := range []string{"a", "c"} {
		if req&(1<<i) != 0 {
			s.Required = append(s.Required, k)
		}
	}
	switch verifChoose("addl", 4) {
	case 1:
		t := true
		s.AdditionalProperties.Has = &t
	case 2:
		f := false
		s.AdditionalProperties.Has = &f
	case 3:
		m := verifFiniteFloat("apmax")
		s.AdditionalProperties.Schema = &SchemaRef{Value: &Schema{Type: &Types{"number"}, Max: &m}}
	}
	if verifChoose("hasMinProps", 2) == 1 {
		s.MinProps = verifNondetUint64("minProps")
	}
	if verifChoose("hasMaxProps", 2) == 1 {
		m := verifNondetUint64("maxProps")
		s.MaxProps = &m
	}
	v := verifObjectValue("v", []string{"a", "b", "c"}, 1)
	err := verifVisit(s, v, 0)
	verifAssert((err == nil) == verifRef(s, v), "C01 object: accept iff reference accepts")
	verifReach("end")
}

// verifLeafSchema: a small schema used as a composition branch.
func verifLeafSchema(p string) *Schema {
	switch verifChoose(p+"leaf", 7) {
	case 0:
		m := verifFiniteFloat(p + "min")
		return &Schema{Type: &Types{"number"}, Min: &m}
	case 1:
		m := verifFiniteFloat(p + "max")
		return &Schema{Max: &m, ExclusiveMax: verifNondetBool(p + "xmax")}
	case 2:
		m := verifNondetUint64(p + "maxLen")
		return &Schema{Type: &Types{"string"}, MaxLength: &m}
	case 3:
		return &Schema{Type: &Types{"boolean"}}
	case 4:
		return &Schema{}
	case 5:
		return &Schema{Type: &Types{"integer"}}
	}
	return &Schema{Enum: []any{verifFiniteFloat(p + "e")}}
}

func verifBranches(p string, max int) SchemaRefs {
	n := verifChoose(p+"n", max) + 1
	var out SchemaRefs
	for i := 0; i < n; i++ {
		out = append(out, &SchemaRef{Value: verifLeafSchema(p)})
	}
	return out
}

func verifComposition(p string, s *Schema, sub func(p string) SchemaRefs) {
	switch verifChoose(p+"comb", 5) {
	case 0:
		s.AllOf = sub(p + "all.")
	case 1:
		s.AnyOf = sub(p + "any.")
	case 2:
		s.OneOf = sub(p + "one.")
	case 3:
		s.Not = sub(p + "not.")[0]
	case 4:
		s.OneOf = sub(p + "one.")
		s.Not = &SchemaRef{Value: verifLeafSchema(p + "not.")}
	}
}

//verif:harness id=C01 tier=quick,thorough witness=end bounds="K: one of allOf/anyOf/oneOf (1-2 branches), not, oneOf+not over leaf schemas {number+minimum, maximum(+exclusive), string+maxLength, boolean, {}, integer, enum[x]} x own keywords {none, type number, minimum} x value in {any float64, any bool, ASCII string len<=1}; default mode (mode equivalence is C12)"
func verifH_C01_compose() {
	s := &Schema{}
	verifComposition("", s, func(p string) SchemaRefs { return verifBranches(p, 2) })
	switch verifChoose("own", 3) {
	case 1:
		s.Type = &Types{"number"}
	case 2:
		m := verifFiniteFloat("ownmin")
		s.Min = &m
	}
	v := verifLeafValue("v", verifChoose("vkind", 3), 1)
	err := verifVisit(s, v, 0)
	want := verifRef(s, v)
	verifAssert((err == nil) == want, "C01 composition: accept iff reference accepts")
	verifAssert(s.IsMatching(v) == want, "C01 composition: the boolean matching helper accepts iff the reference accepts")
	verifReach("end")
}

//verif:harness id=C01 tier=thorough witness=end bounds="KK: composition whose first branch is itself a composition (allOf/anyOf/oneOf/not of 1-2 leaves) and whose optional second branch is a leaf x value in {any float64, any bool, ASCII string len<=1}, default mode"
func verifH_C01_compose2() {
	s := &Schema{}
	verifComposition("", s, func(p string) SchemaRefs {
		// first branch: a composition of 1-2 leaves; optional second branch: a leaf
		in := &Schema{}
		verifComposition(p+"in.", in, func(q string) SchemaRefs { return verifBranches(q, 2) })
		out := SchemaRefs{&SchemaRef{Value: in}}
		if verifChoose(p+"second", 2) == 1 {
			out = append(out, &SchemaRef{Value: verifLeafSchema(p + "leaf.")})
		}
		return out
	})
	v := verifLeafValue("v", verifChoose("vkind", 3), 1)
	err := verifVisit(s, v, 0)
	want := verifRef(s, v)
	verifAssert((err == nil) == want, "C01 nested composition: accept iff reference accepts")
	verifAssert(s.IsMatching(v) == want, "C01 nested composition: the boolean matching helper accepts iff the reference accepts")
	verifReach("end")
}

//verif:harness id=C01 tier=quick,thorough witness=end bounds="Z (null): schema = leaf or composition of leaves, nullable symbolic at top and in branches; asserted one-directionally: accepted => nullable or a composition branch admits null; nullable and no other keyword => accepted"
func verifH_C01_null() {
	var s *Schema
	if verifChoose("shape", 2) == 0 {
		s = verifLeafSchema("")
	} else {
		s = &Schema{}
		verifComposition("", s, func(p string) SchemaRefs {
			bs := verifBranches(p, 2)
			for _, b := range bs {
				b.Value.Nullable = verifNondetBool(p + "bnull")
			}
			return bs
		})
	}
	s.Nullable = verifNondetBool("nullable")
	err := verifVisit(s, nil, 0)
	if err == nil {
		verifAssert(verifNullOK(s), "C01 null: accepted only if nullable (or a composition branch admits null)")
	}
	only := &Schema{Nullable: true}
	verifAssert(verifVisit(only, nil, 0) == nil, "C01 null: a nullable schema without other keywords accepts null")
	verifReach("end")
}

//verif:harness id=C01 tier=quick,thorough witness=end bounds="null inside containers (one-directional, as the property states null): arrays of 1-2 items and objects with 1-2 members where one element is null and the other any float64 / ASCII string; items / property / additionalProperties schema in {number+minimum, string+maxLength, integer, nullable number, {}}; uniqueItems symbolic; accepted => the element's schema is nullable (or there is no schema for it)"
func verifH_C01_null_elements() {
	elem := func() (*Schema, bool) {
		switch verifChoose("elem", 5) {
		case 0:
			m := verifFiniteFloat("emin")
			return &Schema{Type: &Types{"number"}, Min: &m}, false
		case 1:
			m := verifNondetUint64("emaxLen")
			return &Schema{Type: &Types{"string"}, MaxLength: &m}, false
		case 2:
			return &Schema{Type: &Types{"integer"}}, false
		case 3:
			return &Schema{Type: &Types{"number"}, Nullable: true}, true
		}
		return &Schema{}, false // the library's reading: an empty schema is not nullable
	}
	es, nullable := elem()
	other := func() any {
		if verifChoose("other", 2) == 0 {
			return verifFiniteFloat("o")
		}
		return verifASCII("os", 1)
	}
	var s *Schema
	var v any
	switch verifChoose("container", 4) {
	case 0: // items
		s = &Schema{Type: &Types{"array"}, Items: &SchemaRef{Value: es}, UniqueItems: verifNondetBool("unique")}
		if verifChoose("n", 2) == 0 {
			v = []any{nil}
		} else if verifChoose("first", 2) == 0 {
			v = []any{nil, other()}
		} else {
			v = []any{other(), nil}
		}
	case 1: // declared property
		s = &Schema{Type: &Types{"object"}, Properties: Schemas{"p": {Value: es}}}
		v = map[string]any{"p": nil}
	case 2: // additionalProperties schema
		s = &Schema{Type: &Types{"object"}}
		s.AdditionalProperties.Schema = &SchemaRef{Value: es}
		v = map[string]any{"k": nil}
	case 3: // below a composition
		s = &Schema{AllOf: SchemaRefs{{Value: &Schema{Type: &Types{"array"}, Items: &SchemaRef{Value: es}}}}}
		v = []any{nil}
	}
	err := verifVisit(s, v, 0)
	if err == nil {
		verifAssert(nullable, "C01 null element: a null element is accepted only if its schema is nullable")
	}
	verifReach("end")
}

//verif:harness id=C01 tier=quick,thorough witness=end bounds="S-utf8: string value of 1-3 arbitrary bytes forming valid UTF-8 (1-3 characters of 1-3 bytes each) against minLength / maxLength (all uint64): length is counted in characters, not bytes"
func verifH_C01_string_utf8() {
	v := verifNondetString("v", 3)
	verifAssume(len(v) > 0)
	valid, runes := verifNaiveValidUTF8(v)
	verifAssume(valid)
	s := &Schema{Type: &Types{"string"}}
	if verifChoose("hasMin", 2) == 1 {
		s.MinLength = verifNondetUint64("minLength")
	}
	if verifChoose("hasMax", 2) == 1 {
		m := verifNondetUint64("maxLength")
		s.MaxLength = &m
	}
	err := verifVisit(s, v, 0)
	want := uint64(runes) >= s.MinLength && (s.MaxLength == nil || uint64(runes) <= *s.MaxLength)
	verifAssert((err == nil) == want, "C01 string length: accepted iff the number of characters is within minLength..maxLength")
	verifReach("end")
}

//verif:harness id=C01 tier=quick,thorough witness=end bounds="annotations: object {properties {a: number+minimum, b: string}, required subset of {a,b}} whose properties carry readOnly / writeOnly / deprecated flags (each symbolic) x value over keys {a,b}; validated plainly (neither as request nor as response) the flags change nothing: accept iff the reference evaluator, which does not know them, accepts"
func verifH_C01_annotations() {
	m := verifFiniteFloat("amin")
	a := &Schema{Type: &Types{"number"}, Min: &m, ReadOnly: verifNondetBool("aRO"), WriteOnly: verifNondetBool("aWO"), Deprecated: verifNondetBool("aDep")}
	b := &Schema{Type: &Types{"string"}, ReadOnly: verifNondetBool("bRO"), WriteOnly: verifNondetBool("bWO")}
	s := &Schema{Type: &Types{"object"}, Properties: Schemas{"a": {Value: a}, "b": {Value: b}}}
	req := verifChoose("required", 4)
	for i, k := range []string{"a", "b"} {
		if req&(1<<i) != 0 {
			s.Required = append(s.Required, k)
		}
	}
	v := verifObjectValue("v", []string{"a", "b"}, 1)
	err := verifVisit(s, v, 0)
	verifAssert((err == nil) == verifRef(s, v), "C01 annotations: readOnly / writeOnly / deprecated do not change the verdict of a plain validation")
	verifReach("end")
}
