package openapi3

// C04 — document validation accepts conforming documents and rejects each single violation,
// wherever its subject occurs, and each option switches off only its own rule.
// Rule x location product: the conforming "everything" document (the base document of C20) is
// loaded by the real loader; walkers collect every position where a rule's subject occurs; the
// explorer picks the rule and the position; arithmetic subjects (default vs minimum) are symbolic.

import (
	"context"
)

type verifSites struct {
	schemas    []*Schema
	params     []*Parameter
	responses  []*Response
	ops        []*Operation
	headers    []*Header
	medias     []*MediaType
	schemaRefs []*SchemaRef
	encodings  []*Encoding
	servers    []*Server
	// objects reached only through the headers of a media type encoding (known finding:
	// Encoding.Validate swallows the errors of its headers)
	inEnc         bool
	encHeaders    map[*Header]bool
	encSchemas    map[*Schema]bool
	encSchemaRefs map[*SchemaRef]bool
}

func (s *verifSites) schemaRef(r *SchemaRef, seen map[*Schema]bool) {
	if r == nil {
		return
	}
	s.schemaRefs = append(s.schemaRefs, r)
	if s.inEnc {
		s.encSchemaRefs[r] = true
	}
	v := r.Value
	if v == nil || seen[v] {
		return
	}
	seen[v] = true
	s.schemas = append(s.schemas, v)
	if s.inEnc {
		s.encSchemas[v] = true
	}
	s.schemaRef(v.Items, seen)
	s.schemaRef(v.Not, seen)
	s.schemaRef(v.AdditionalProperties.Schema, seen)
	for _, k := range []string{"a", "l", "n", "k", "f"} {
		if p, ok := v.Properties[k]; ok {
			s.schemaRef(p, seen)
		}
	}
	for _, x := range v.OneOf {
		s.schemaRef(x, seen)
	}
	for _, x := range v.AnyOf {
		s.schemaRef(x, seen)
	}
	for _, x := range v.AllOf {
		s.schemaRef(x, seen)
	}
}

func (s *verifSites) content(c Content, seen map[*Schema]bool) {
	for _, k := range []string{"application/json", "multipart/form-data", "text/plain"} {
		if mt, ok := c[k]; ok && mt != nil {
			s.medias = append(s.medias, mt)
			s.schemaRef(mt.Schema, seen)
			for _, ek := range []string{"f"} {
				if enc := mt.Encoding[ek]; enc != nil {
					s.encodings = append(s.encodings, enc)
					was := s.inEnc
					s.inEnc = true
					s.header(enc.Headers["X-E"], seen)
					s.inEnc = was
				}
			}
		}
	}
}

func (s *verifSites) header(h *HeaderRef, seen map[*Schema]bool) {
	if h == nil || h.Value == nil {
		return
	}
	s.headers = append(s.headers, h.Value)
	if s.inEnc {
		s.encHeaders[h.Value] = true
	}
	s.schemaRef(h.Value.Schema, seen)
	s.content(h.Value.Content, seen)
}

func (s *verifSites) param(p *ParameterRef, seen map[*Schema]bool) {
	if p == nil || p.Value == nil {
		return
	}
	s.params = append(s.params, p.Value)
	s.schemaRef(p.Value.Schema, seen)
	s.content(p.Value.Content, seen)
}

func (s *verifSites) response(r *ResponseRef, seen map[*Schema]bool) {
	if r == nil || r.Value == nil {
		return
	}
	s.responses = append(s.responses, r.Value)
	for _, k := range []string{"X-H", "X-C"} {
		s.header(r.Value.Headers[k], seen)
	}
	s.content(r.Value.Content, seen)
}

func (s *verifSites) operation(op *Operation, seen map[*Schema]bool) {
	if op == nil {
		return
	}
	s.ops = append(s.ops, op)
	if op.Servers != nil {
		s.servers = append(s.servers, *op.Servers...)
	}
	for _, p := range op.Parameters {
		s.param(p, seen)
	}
	if op.RequestBody != nil && op.RequestBody.Value != nil {
		s.content(op.RequestBody.Value.Content, seen)
	}
	if op.Responses != nil {
		for _, code := range []string{"200", "default"} {
			s.response(op.Responses.Value(code), seen)
		}
	}
	for _, name := range []string{"cb", "cbi"} {
		if cb := op.Callbacks[name]; cb != nil && cb.Value != nil {
			for _, pi := range cb.Value.Map() {
				s.operation(pi.Post, seen)
			}
		}
	}
}

func verifCollectSites(doc *T) *verifSites {
	s := &verifSites{encHeaders: map[*Header]bool{}, encSchemas: map[*Schema]bool{}, encSchemaRefs: map[*SchemaRef]bool{}}
	seen := map[*Schema]bool{}
	for _, name := range []string{"S", "T"} {
		s.schemaRef(doc.Components.Schemas[name], seen)
	}
	for _, name := range []string{"Id"} {
		s.param(doc.Components.Parameters[name], seen)
	}
	s.header(doc.Components.Headers["H"], seen)
	s.header(doc.Components.Headers["HC"], seen)
	s.servers = append(s.servers, doc.Servers...)
	if l := doc.Components.Links["L"]; l != nil && l.Value != nil && l.Value.Server != nil {
		s.servers = append(s.servers, l.Value.Server) // a link's own server
	}
	s.response(doc.Components.Responses["R"], seen)
	if rb := doc.Components.RequestBodies["B"]; rb != nil && rb.Value != nil {
		s.content(rb.Value.Content, seen)
	}
	pi := doc.Paths.Value("/a/{id}")
	s.servers = append(s.servers, pi.Servers...)
	for _, p := range pi.Parameters {
		s.param(p, seen)
	}
	s.operation(pi.Get, seen)
	return s
}

func verifLoadBase() *T {
	loader := NewLoader()
	doc, err := loader.LoadFromData([]byte(verifBaseDoc))
	if err != nil {
		return nil
	}
	return doc
}

//verif:harness id=C04 tier=quick,thorough witness=end,violated bounds="conforming document using every object kind x 34 rules x every position of the rule's subject collected by walkers (schemas at 15+ positions, parameters, responses, operations, headers, media types, reference wrappers) x validation options relevant to the rule; default-vs-minimum is symbolic (all float64); a violation is rejected at every position and each option switches off only its own rule"
func verifH_C04_rules() {
	doc := verifLoadBase()
	if doc == nil {
		return
	}
	ctx := context.Background()
	verifAssert(doc.Validate(ctx) == nil, "C04: the conforming document is accepted")
	sites := verifCollectSites(doc)
	rule := verifChoose("rule", 34)
	var opts []ValidationOption
	disabled := false // the applied violation's rule is switched off by the options
	knownEnc := false // the violation sits in (or below) a header of a media type encoding
	pickSchema := func() *Schema {
		x := sites.schemas[verifChoose("site", len(sites.schemas))]
		knownEnc = knownEnc || sites.encSchemas[x]
		return x
	}
	pickHeader := func() *Header {
		x := sites.headers[verifChoose("site", len(sites.headers))]
		knownEnc = knownEnc || sites.encHeaders[x]
		return x
	}
	// a fresh sub-schema position: a new property of any object schema, or a new component
	// (adding an optional property does not invalidate examples written for the object)
	newSchemaAt := func(bad *Schema) {
		var objs []*Schema
		for _, s := range sites.schemas {
			if s.Type != nil && s.Type.Is("object") {
				objs = append(objs, s)
			}
		}
		k := verifChoose("site", len(objs)+1)
		if k == len(objs) {
			doc.Components.Schemas["Zz"] = &SchemaRef{Value: bad}
			return
		}
		if objs[k].Properties == nil {
			objs[k].Properties = Schemas{}
		}
		objs[k].Properties["zz"] = &SchemaRef{Value: bad}
	}
	switch rule {
	case 0:
		doc.OpenAPI = ""
	case 1:
		doc.Info.Title = ""
	case 2:
		doc.Info.Version = ""
	case 3:
		doc.Info = nil
	case 4:
		doc.Paths = nil
	case 5: // path without leading slash
		doc.Paths.Set("b", &PathItem{})
	case 6: // template variable without a parameter
		doc.Paths.Set("/b/{x}", &PathItem{Get: &Operation{Responses: sites.ops[0].Responses}})
	case 7: // conflicting templates
		pi := doc.Paths.Value("/a/{id}")
		doc.Paths.Set("/a/{other}", &PathItem{Parameters: Parameters{{Value: &Parameter{Name: "other", In: "path", Required: true, Schema: &SchemaRef{Value: &Schema{Type: &Types{"string"}}}}}}, Get: &Operation{OperationID: "other", Responses: pi.Get.Responses}})
	case 8: // duplicate operationId
		doc.Paths.Set("/c", &PathItem{Get: &Operation{OperationID: "get", Responses: sites.ops[0].Responses}})
	case 9: // operation without responses
		op := sites.ops[verifChoose("site", len(sites.ops))]
		if verifChoose("how", 2) == 0 {
			op.Responses = nil
		} else {
			op.Responses = NewResponsesWithCapacity(0)
		}
	case 10: // response without description
		sites.responses[verifChoose("site", len(sites.responses))].Description = nil
	case 11: // parameter name blank / location illegal
		p := sites.params[verifChoose("site", len(sites.params))]
		if verifChoose("how", 2) == 0 {
			p.Name = ""
		} else {
			p.In = "body"
		}
	case 12: // path parameter not required
		for _, p := range sites.params {
			if p.In == "path" {
				p.Required = false
			}
		}
	case 13: // illegal style for the location
		p := sites.params[verifChoose("site", len(sites.params))]
		if p.In == "path" {
			p.Style = "form"
		} else {
			p.Style = "matrix"
		}
	case 14: // both / neither of schema and content
		p := sites.params[verifChoose("site", len(sites.params))]
		if verifChoose("how", 2) == 0 {
			p.Content = Content{"application/json": &MediaType{Schema: &SchemaRef{Value: &Schema{Type: &Types{"string"}}}}}
			if p.Schema == nil {
				p.Schema = &SchemaRef{Value: &Schema{Type: &Types{"string"}}}
			}
		} else {
			p.Schema, p.Content = nil, nil
		}
	case 15: // header with a name / illegal style
		h := pickHeader()
		if verifChoose("how", 2) == 0 {
			h.Name = "x"
		} else {
			h.Style = "form"
		}
	case 16: // schema readOnly and writeOnly
		s := pickSchema()
		s.ReadOnly, s.WriteOnly = true, true
	case 17: // unsupported type
		pickSchema().Type = &Types{"float"}
	case 18: // array without items
		s := pickSchema()
		s.Type, s.Items = &Types{"array"}, nil
	case 19: // additionalProperties both boolean and schema
		s := pickSchema()
		t := true
		s.AdditionalProperties.Has, s.AdditionalProperties.Schema = &t, &SchemaRef{Value: &Schema{}}
	case 20: // pattern that does not compile (option: DisableSchemaPatternValidation)
		if verifChoose("typed", 2) == 1 {
			newSchemaAt(&Schema{Type: &Types{"string"}, Pattern: "("})
		} else {
			newSchemaAt(&Schema{Pattern: "("}) // no type: the pattern still applies to every string
		}
		if verifChoose("opt", 2) == 1 {
			opts, disabled = append(opts, DisableSchemaPatternValidation()), true
		}
	case 21: // default violating the schema: symbolic minimum and default (option: DisableSchemaDefaultsValidation)
		m, d := verifFiniteFloat("min"), verifFiniteFloat("default")
		verifAssume(d < m)
		newSchemaAt(&Schema{Type: &Types{"number"}, Min: &m, Default: d})
		if verifChoose("opt", 2) == 1 {
			opts, disabled = append(opts, DisableSchemaDefaultsValidation()), true
		}
	case 22: // example violating the schema, at a media type, a parameter or a header (option: DisableExamplesValidation)
		strS := &SchemaRef{Value: &Schema{Type: &Types{"string"}}}
		bad := Examples{"e": &ExampleRef{Value: &Example{Value: 3.0}}}
		switch verifChoose("subject", 5) {
		case 0:
			mt := sites.medias[verifChoose("site", len(sites.medias))]
			mt.Schema = strS
			mt.Example, mt.Examples = 3.0, nil
		case 1:
			p := sites.params[verifChoose("site", len(sites.params))]
			p.Schema, p.Content, p.Example, p.Examples = strS, nil, 3.0, nil
		case 2:
			p := sites.params[verifChoose("site", len(sites.params))]
			p.Schema, p.Content, p.Example, p.Examples = strS, nil, nil, bad
		case 3:
			h := sites.headers[verifChoose("site", len(sites.headers))]
			knownEnc = knownEnc || sites.encHeaders[h]
			h.Schema, h.Content, h.Example, h.Examples = strS, nil, 3.0, nil
		case 4:
			h := sites.headers[verifChoose("site", len(sites.headers))]
			knownEnc = knownEnc || sites.encHeaders[h]
			h.Schema, h.Content, h.Example, h.Examples = strS, nil, nil, bad
		}
		if verifChoose("opt", 2) == 1 {
			opts, disabled = append(opts, DisableExamplesValidation()), true
		}
	case 23: // unresolved reference at a schema position
		r := sites.schemaRefs[verifChoose("site", len(sites.schemaRefs))]
		knownEnc = knownEnc || sites.encSchemaRefs[r]
		r.Ref, r.Value = "#/components/schemas/Nope", nil
	case 24: // malformed component name
		doc.Components.Schemas["a b"] = &SchemaRef{Value: &Schema{Type: &Types{"string"}}}
	case 25: // non-extension extra field
		switch verifChoose("where", 3) {
		case 0:
			doc.Extensions = map[string]any{"foo": 1}
		case 1:
			doc.Info.Extensions = map[string]any{"foo": 1}
		case 2:
			pickSchema().Extensions = map[string]any{"foo": 1}
		}
	case 26: // ill-formed security scheme
		ss := doc.Components.SecuritySchemes["sec"].Value
		switch verifChoose("how", 4) {
		case 0:
			ss.Type = "magic"
		case 1:
			*ss = SecurityScheme{Type: "http"}
		case 2:
			*ss = SecurityScheme{Type: "apiKey", In: "header"}
		case 3:
			ss.Flows = nil
		}
	case 28: // a declared path parameter that the template does not contain (path item level or operation level)
		extra := &ParameterRef{Value: &Parameter{Name: "zz", In: "path", Required: true, Schema: &SchemaRef{Value: &Schema{Type: &Types{"string"}}}}}
		var items []*PathItem
		for _, k := range doc.Paths.InMatchingOrder() {
			items = append(items, doc.Paths.Value(k))
		}
		pi := items[verifChoose("site", len(items))]
		if verifChoose("how", 2) == 0 {
			pi.Parameters = append(pi.Parameters, extra)
		} else {
			for _, op := range pi.Operations() {
				op.Parameters = append(op.Parameters, extra)
				break
			}
		}
	case 29: // illegal style/explode cell at any parameter position: deepObject needs explode, cookie has only form
		p := sites.params[verifChoose("site", len(sites.params))]
		f := false
		switch p.In {
		case "query":
			p.Style, p.Explode = "deepObject", &f
		case "cookie":
			p.Style = "simple"
		case "header":
			p.Style = "label"
		default:
			p.Style = "deepObject"
		}
	case 27: // ill-formed server (document, path item and operation level)
		if verifChoose("how", 2) == 0 {
			sites.servers[verifChoose("site", len(sites.servers))].URL = ""
		} else {
			doc.Servers[0].Variables["h"].Default = ""
		}
	case 30: // the path parameter is declared under another name than the template's variable
		doc.Components.Parameters["Id"].Value.Name = "other"
	case 31: // a non-extension extra field at further positions; the examples option must not hide it
		// a field that is not an extension: "x-" is the prefix, not "x"
		bad := map[string]any{[]string{"foo", "xlogo"}[verifChoose("field", 2)]: 1}
		switch verifChoose("where", 8) {
		case 0:
			sites.params[verifChoose("site", len(sites.params))].Extensions = bad
		case 1:
			pickHeader().Extensions = bad
		case 2:
			sites.responses[verifChoose("site", len(sites.responses))].Extensions = bad
		case 3:
			sites.ops[verifChoose("site", len(sites.ops))].Extensions = bad
		case 4:
			sites.medias[verifChoose("site", len(sites.medias))].Extensions = bad
		case 5:
			sites.encodings[verifChoose("site", len(sites.encodings))].Extensions = bad
		case 6:
			sites.servers[verifChoose("site", len(sites.servers))].Extensions = bad
		case 7:
			doc.Tags[0].Extensions = bad
		}
		if verifChoose("opt", 2) == 1 {
			opts = append(opts, DisableExamplesValidation()) // switches off examples only
		}
	case 32: // encoding with a style that does not exist
		sites.encodings[verifChoose("site", len(sites.encodings))].Style = "bogus"
	case 33: // tag without a name
		doc.Tags[0].Name = ""
	}
	err := doc.Validate(ctx, opts...)
	verifReach("violated")
	verifKnown("C04-encoding-header-errors-swallowed", knownEnc)
	verifKnown("C04-path-parameter-renamed", rule == 30)
	if disabled {
		verifAssert(err == nil, "C04: a validation option switches off the check it names")
	} else {
		verifAssert(err != nil, "C04: a document with a single violation of an enforced rule is rejected wherever the violation sits")
	}
	verifReach("end")
}

//verif:harness id=C04 tier=quick,thorough witness=end bounds="options on the conforming document and on unrelated violations: every subset of {DisableExamplesValidation, DisableSchemaDefaultsValidation, DisableSchemaPatternValidation, EnableSchemaFormatValidation} keeps the conforming document accepted and does not hide a missing response description / blank parameter name / unresolved reference / an example object with value next to externalValue (under a parameter, under every media type); a default (example) violating its schema, in a component or a property, is reported exactly when the option naming defaults (examples) is not given"
func verifH_C04_options() {
	doc := verifLoadBase()
	if doc == nil {
		return
	}
	var opts []ValidationOption
	set := verifChoose("options", 16)
	if set&1 != 0 {
		opts = append(opts, DisableExamplesValidation())
	}
	if set&2 != 0 {
		opts = append(opts, DisableSchemaDefaultsValidation())
	}
	if set&4 != 0 {
		opts = append(opts, DisableSchemaPatternValidation())
	}
	if set&8 != 0 {
		opts = append(opts, EnableSchemaFormatValidation())
	}
	ctx := context.Background()
	verifAssert(doc.Validate(ctx, opts...) == nil, "C04 options: the conforming document is accepted under every option set")
	sites := verifCollectSites(doc)
	violation := verifChoose("violation", 7)
	bad := &Schema{Type: &Types{"integer"}}
	switch violation {
	case 0:
		sites.responses[0].Description = nil
	case 1:
		sites.params[0].Name = ""
	case 2:
		sites.schemaRefs[0].Ref, sites.schemaRefs[0].Value = "#/components/schemas/Nope", nil
	case 5, 6: // an example object that breaks its own rules (value next to externalValue), under a parameter or a media type:
		// the examples option only concerns the comparison of example values with schemas
		badExample := Examples{"e": {Value: &Example{Value: "a", ExternalValue: "https://e.example/x"}}}
		if violation == 5 {
			var p *Parameter
			for _, c := range sites.params {
				if c.Schema != nil && c.Schema.Value != nil && c.Schema.Value.Type != nil && c.Schema.Value.Type.Is("string") && p == nil {
					p = c
				}
			}
			if p == nil {
				return
			}
			p.Example, p.Examples = nil, badExample
		} else {
			mt := sites.medias[verifChoose("media", len(sites.medias))]
			mt.Example, mt.Examples = nil, badExample
		}
	case 3: // a default that violates its schema: switched off by the defaults option only
		bad.Default = "x"
	case 4: // an example that violates its schema: switched off by the examples option only
		bad.Example = "x"
	}
	if violation == 3 || violation == 4 {
		// ... in a component schema, or in a property of one
		if verifChoose("nested", 2) == 1 {
			bad = &Schema{Type: &Types{"object"}, Properties: Schemas{"p": {Value: bad}}}
		}
		if doc.Components.Schemas == nil {
			doc.Components.Schemas = Schemas{}
		}
		doc.Components.Schemas["VerifBadValue"] = &SchemaRef{Value: bad}
		off := violation == 3 && set&2 != 0 || violation == 4 && set&1 != 0
		verifAssert((doc.Validate(ctx, opts...) != nil) == !off, "C04 options: a default (an example) violating its schema is reported unless the option that names defaults (examples) is given")
		verifReach("end")
		return
	}
	verifAssert(doc.Validate(ctx, opts...) != nil, "C04 options: an option does not switch off checks it does not name")
	verifReach("end")
}

//verif:harness id=C04 tier=quick,thorough witness=end,legal,illegal bounds="the whole parameter location x style x explode table: in in {path,query,header,cookie} x style in {absent,matrix,label,form,simple,spaceDelimited,pipeDelimited,deepObject,bogus} x explode in {absent,true,false}: Parameter.Validate accepts exactly the cells of the OpenAPI 3.0 style table (deepObject only exploded)"
func verifH_C04_style_table() {
	in := []string{"path", "query", "header", "cookie"}[verifChoose("in", 4)]
	style := []string{"", "matrix", "label", "form", "simple", "spaceDelimited", "pipeDelimited", "deepObject", "bogus"}[verifChoose("style", 9)]
	p := &Parameter{Name: "p", In: in, Style: style, Required: in == "path", Schema: &SchemaRef{Value: &Schema{Type: &Types{"string"}}}}
	var explode *bool
	switch verifChoose("explode", 3) {
	case 1:
		t := true
		explode = &t
	case 2:
		f := false
		explode = &f
	}
	p.Explode = explode
	// effective values as the library documents them (Parameter.SerializationMethod): style and
	// explode default per location (query/cookie: form, exploded; path/header: simple, not exploded)
	eff := style
	if eff == "" {
		if in == "query" || in == "cookie" {
			eff = "form"
		} else {
			eff = "simple"
		}
	}
	ex := in == "query" || in == "cookie"
	if explode != nil {
		ex = *explode
	}
	legal := false
	switch in {
	case "path":
		legal = eff == "simple" || eff == "label" || eff == "matrix"
	case "query":
		legal = eff == "form" || eff == "spaceDelimited" || eff == "pipeDelimited" || (eff == "deepObject" && ex)
	case "header":
		legal = eff == "simple"
	case "cookie":
		legal = eff == "form"
	}
	err := p.Validate(context.Background())
	verifAssert((err == nil) == legal, "C04 style table: a parameter is accepted exactly for the legal location/style/explode cells")
	if legal {
		verifReach("legal")
	} else {
		verifReach("illegal")
	}
	verifReach("end")
}

//verif:harness id=C04 tier=quick,thorough witness=end bounds="conforming variations of the conforming document that must stay accepted: a server URL using one variable twice, a server variable with an enum containing its default, an operation-level empty security list, a response with only a default entry, a schema with nullable and an enum, a parameter with both example-free content and required false, a path item with only parameters"
func verifH_C04_conforming_variants() {
	doc := verifLoadBase()
	if doc == nil {
		return
	}
	v := verifChoose("variant", 7)
	switch v {
	case 0:
		doc.Servers = Servers{{URL: "https://{v}.example.com/{v}", Variables: map[string]*ServerVariable{"v": {Default: "a"}}}}
	case 1:
		doc.Servers[0].Variables["h"].Enum = []string{"a", "b"}
	case 2:
		doc.Paths.Value("/a/{id}").Get.Security = &SecurityRequirements{}
	case 3:
		d := "d"
		r := NewResponsesWithCapacity(1)
		r.Set("default", &ResponseRef{Value: &Response{Description: &d}})
		doc.Paths.Value("/a/{id}").Get.Responses = r
	case 4:
		doc.Components.Schemas["N"] = &SchemaRef{Value: &Schema{Type: &Types{"string"}, Nullable: true, Enum: []any{"a", nil}}}
	case 5:
		doc.Paths.Value("/a/{id}").Get.Parameters = append(doc.Paths.Value("/a/{id}").Get.Parameters, &ParameterRef{Value: &Parameter{Name: "opt", In: "cookie", Content: Content{"application/json": &MediaType{Schema: &SchemaRef{Value: &Schema{Type: &Types{"object"}}}}}}})
	case 6:
		doc.Paths.Set("/only/{id}", &PathItem{Parameters: Parameters{{Value: &Parameter{Name: "id", In: "path", Required: true, Schema: &SchemaRef{Value: &Schema{Type: &Types{"string"}}}}}}})
	}
	err := doc.Validate(context.Background())
	verifAssert(err == nil, "C04 conforming variants: a document that satisfies the rules is accepted")
	verifReach("end")
}

//verif:harness id=C04 tier=quick,thorough witness=end bounds="examples are read in the direction of the place they stand in, whatever options are passed: a request body example carrying a read-only property, a response example carrying a write-only property, and the two harmless opposites (write-only in a request, read-only in a response) x every subset of {DisableExamplesValidation, DisableSchemaDefaultsValidation, DisableSchemaPatternValidation, EnableSchemaFormatValidation} incl. the empty one: the two violations are rejected exactly when example validation is on, the harmless ones always accepted; optionally further harmless examples at positions validated after a response (path-item parameters by schema / examples / content, a later path): the direction of one position does not leak to the next"
func verifH_C04_example_direction() {
	which := verifChoose("which", 4)
	reqEx, respEx := `{"n":1}`, `{"n":1}`
	switch which {
	case 0:
		reqEx = `{"n":1,"ro":2}` // a request must not carry read-only properties
	case 1:
		respEx = `{"n":1,"wo":2}` // a response must not carry write-only properties
	case 2:
		reqEx = `{"n":1,"wo":2}`
	case 3:
		respEx = `{"n":1,"ro":2}`
	}
	schema := `{"type":"object","properties":{"n":{"type":"integer"},"ro":{"type":"integer","readOnly":true},"wo":{"type":"integer","writeOnly":true}}}`
	// further, harmless examples at positions that are validated after a response: the direction of one
	// position must not stay switched on for the next (parameters carry no direction of their own)
	piParams, later := "", ""
	switch verifChoose("after", 4) {
	case 1:
		piParams = `"parameters":[{"name":"cred","in":"query","schema":` + schema + `,"example":{"n":1,"wo":2}}],`
	case 2:
		later = `,"/b":{"post":{"requestBody":{"content":{"application/json":{"schema":` + schema + `,"example":{"n":1,"wo":2}}}},"responses":{"200":{"description":"d","content":{"application/json":{"schema":` + schema + `,"example":{"n":1,"ro":2}}}}}}}`
	case 3:
		piParams = `"parameters":[{"name":"cred","in":"query","schema":` + schema + `,"examples":{"e":{"value":{"n":1,"wo":2}}}},{"name":"X-C","in":"header","content":{"application/json":{"schema":` + schema + `,"example":{"n":1,"wo":2}}}}],`
	}
	text := `{"openapi":"3.0.0","info":{"title":"t","version":"1"},"paths":{"/a":{` + piParams + `"post":{"requestBody":{"content":{"application/json":{"schema":` + schema + `,"example":` + reqEx + `}}},` +
		`"responses":{"200":{"description":"d","content":{"application/json":{"schema":` + schema + `,"example":` + respEx + `}}}}}}` + later + `}}`
	doc, err := NewLoader().LoadFromData([]byte(text))
	if err != nil || doc == nil {
		verifAssert(false, "C04 example direction: the document loads")
		return
	}
	var opts []ValidationOption
	set := verifChoose("options", 16)
	if set&1 != 0 {
		opts = append(opts, DisableExamplesValidation())
	}
	if set&2 != 0 {
		opts = append(opts, DisableSchemaDefaultsValidation())
	}
	if set&4 != 0 {
		opts = append(opts, DisableSchemaPatternValidation())
	}
	if set&8 != 0 {
		opts = append(opts, EnableSchemaFormatValidation())
	}
	verr := doc.Validate(context.Background(), opts...)
	wantReject := which < 2 && set&1 == 0
	verifAssert((verr != nil) == wantReject, "C04 example direction: a request example with a read-only property / a response example with a write-only one is rejected exactly when example validation is on, with or without other options")
	verifReach("end")
}
