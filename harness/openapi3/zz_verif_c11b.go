package openapi3

// C11, one loader used for several loads: what an earlier load read or cached gives a later load
// with external references disallowed no licence to read or follow anything.

import (
	"errors"
	"net/url"
)

//verif:harness id=C11 tier=quick,thorough witness=end bounds="one Loader, two loads: first x.json (a document of its own, loaded through LoadFromURI or LoadFromDataWithPath, external references allowed or not), then a root with one reference (fragment form x.json#/..., whole-file form, ./x.json#/..., or the same through d/../) into that already loaded file at each of 14 positions, external references disallowed for the second load, entry point LoadFromDataWithPath or LoadFromURI: during the second load nothing but its root is read and the load fails"
func verifH_C11_loader_reuse() {
	slot := verifChoose("slot", 14)
	ref := []string{"x.json#/components/schemas/A", "x.json", "./x.json#/components/schemas/A", "d/../x.json#/a", "/root/x.json#/components/schemas/A"}[verifChoose("spelling", 5)]
	rootLoc := &url.URL{Path: "/root/doc.json"}
	xLoc := &url.URL{Path: "/root/x.json"}
	rootText := verifDocWithRef(slot, ref)
	xText := `{"openapi":"3.0.0","info":{"title":"x","version":"1"},"paths":{},` + verifExternalContent("x.json")[1:]
	var reads []string
	loader := NewLoader()
	loader.ReadFromURIFunc = func(l *Loader, u *url.URL) ([]byte, error) {
		reads = append(reads, u.String())
		switch u.String() {
		case rootLoc.String():
			return []byte(rootText), nil
		case xLoc.String():
			return []byte(xText), nil
		}
		return nil, errors.New("no such file")
	}
	loader.IsExternalRefsAllowed = verifChoose("firstAllowed", 2) == 1
	var err1 error
	if verifChoose("entry1", 2) == 0 {
		_, err1 = loader.LoadFromURI(xLoc)
	} else {
		_, err1 = loader.LoadFromDataWithPath([]byte(xText), xLoc)
	}
	verifAssert(err1 == nil, "C11 loader reuse: the first document loads")
	reads = nil
	loader.IsExternalRefsAllowed = false
	var err error
	if verifChoose("entry2", 2) == 0 {
		_, err = loader.LoadFromURI(rootLoc)
	} else {
		_, err = loader.LoadFromDataWithPath([]byte(rootText), rootLoc)
	}
	for _, r := range reads {
		verifAssert(r == rootLoc.String(), "C11 loader reuse: with external references disallowed nothing but the root document is read, whatever the loader loaded before")
	}
	verifAssert(err != nil, "C11 loader reuse: a reference into another file is reported as an error when external references are disallowed, also when that file was loaded before")
	verifReach("end")
}
