package openapi3

// C11, one loader used for several loads: what an earlier load read or cached gives a later load
// with external references disallowed no licence to read or follow anything.

import (
	"errors"
	"net/url"
)

//verif:harness id=C11 tier=quick,thorough witness=end bounds="one Loader, two loads: first x.json (a document of its own, loaded through LoadFromURI or LoadFromDataWithPath, external references allowed or not), then a root with one reference (fragment form x.json#/..., whole-file form, ./x.json#/..., or the same through d/../) into that already loaded file at each of 14 positions, external references disallowed for the second load, entry point LoadFromDataWithPath or LoadFromURI: during the second load nothing but its root is read and the load fails"
func verifH_C11_loader_reuse() {
	slot := verifChoose("slot", 14)
	ref := []string{"x.json#/components/schemas/A", "x.json", "./x.json#/components/schemas/A", "d/../x.json#/a", "/root/x.json#/components/schemas/A"}[verifChoose("spelling", 5)]
	rootLoc := &url.URL{Path: "/root/doc.json"}
	xLoc := &url.URL{Path: "/root/x.json"}
	rootText := verifDocWithRef(slot, ref)
	xText := `{"openapi":"3.0.0","info":{"title":"x","version":"1"},"paths":{},` + verifExternalContent("x.json")[1:]
	var reads []string
	loader := NewLoader()
	loader.ReadFromURIFunc = func(l *Loader, u *url.URL) ([]byte, error) {
		reads = append(reads, u.String())
		switch u.String() {
		case rootLoc.String():
			return []byte(rootText), nil
		case xLoc.String():
			return []byte(xText), nil
		}
		return nil, errors.New("no such file")
	}
	loader.IsExternalRefsAllowed = verifChoose("firstAllowed", 2) == 1
	var err1 error
	if verifChoose("entry1", 2) == 0 {
		_, err1 = loader.LoadFromURI(xLoc)
	} else {
		_, err1 = loader.LoadFromDataWithPath([]byte(xText), xLoc)
	}
	verifAssert(err1 == nil, "C11 loader reuse: the first document loads")
	reads = nil
	loader.IsExternalRefsAllowed = false
	var err error
	if verifChoose("entry2", 2) == 0 {
		_, err = loader.LoadFromURI(rootLoc)
	} else {
		_, err = loader.LoadFromDataWithPath([]byte(rootText), rootLoc)
	}
	for _, r := range reads {
		verifAssert(r == rootLoc.String(), "C11 loader reuse: with external references disallowed nothing but the root document is read, whatever the loader loaded before")
	}
	verifAssert(err != nil, "C11 loader reuse: a reference into another file is reported as an error when external references are disallowed, also when that file was loaded before")
	verifReach("end")
}

//verif:harness id=C11 tier=quick,thorough witness=end bounds="documents in different directories that refer to each other: root (/a/root.json) -> sub/b.json -> ../root.json#/... whose target in the partially loaded root is itself a not yet resolved relative reference (other/d.json), for schemas / parameters / responses / headers, with the component order in the root chosen so that the target is met resolved or unresolved; external references allowed: every location read is one that a reference resolves to against its own document's location, the load succeeds and the reference chain ends at d.json's object"
func verifH_C11_cross_directory_cycle() {
	kind := verifChoose("kind", 4)
	kinds := []string{"schemas", "parameters", "responses", "headers"}[kind]
	leaf := []string{`{"type":"string","description":"leaf"}`, `{"name":"p","in":"query","description":"leaf","schema":{"type":"string"}}`, `{"description":"leaf"}`, `{"description":"leaf","schema":{"type":"string"}}`}[kind]
	// the component through which b.json comes back into the root sorts before or after the entry that leads out
	back := []string{"R", "0R"}[verifChoose("order", 2)]
	head := func(t string) string {
		return `{"openapi":"3.0.0","info":{"title":"` + t + `","version":"1"},"paths":{},`
	}
	var inB string
	if kind == 0 {
		inB = `{"type":"object","properties":{"back":{"$ref":"../root.json#/components/schemas/` + back + `"}}}`
	} else {
		inB = `{"$ref":"../root.json#/components/` + kinds + `/` + back + `"}`
	}
	files := map[string]string{
		"/a/root.json":    head("t") + `"components":{"` + kinds + `":{"A":{"$ref":"sub/b.json#/components/` + kinds + `/B"},"` + back + `":{"$ref":"other/d.json#/components/` + kinds + `/D"}}}}`,
		"/a/sub/b.json":   head("b") + `"components":{"` + kinds + `":{"B":` + inB + `}}}`,
		"/a/other/d.json": head("d") + `"components":{"` + kinds + `":{"D":` + leaf + `}}}`,
	}
	var reads []string
	loader := NewLoader()
	loader.IsExternalRefsAllowed = true
	loader.ReadFromURIFunc = func(_ *Loader, u *url.URL) ([]byte, error) {
		reads = append(reads, u.String())
		if t, ok := files[u.Path]; ok && u.Host == "" && u.Scheme == "" {
			return []byte(t), nil
		}
		return nil, errors.New("no such file")
	}
	doc, err := loader.LoadFromURI(&url.URL{Path: "/a/root.json"})
	for _, r := range reads {
		_, ok := files[r]
		verifAssert(ok, "C11 cross-directory cycle: only locations that a reference resolves to against its own document's location are read")
	}
	verifAssert(err == nil && doc != nil, "C11 cross-directory cycle: the documents load")
	if err != nil || doc == nil {
		return
	}
	desc := ""
	switch kind {
	case 0:
		if a := doc.Components.Schemas["A"]; a != nil && a.Value != nil && a.Value.Properties["back"] != nil && a.Value.Properties["back"].Value != nil {
			desc = a.Value.Properties["back"].Value.Description
		}
	case 1:
		if a := doc.Components.Parameters["A"]; a != nil && a.Value != nil {
			desc = a.Value.Description
		}
	case 2:
		if a := doc.Components.Responses["A"]; a != nil && a.Value != nil && a.Value.Description != nil {
			desc = *a.Value.Description
		}
	case 3:
		if a := doc.Components.Headers["A"]; a != nil && a.Value != nil {
			desc = a.Value.Description
		}
	}
	verifAssert(desc == "leaf", "C11 cross-directory cycle: the chain of references ends at the object of d.json")
	verifReach("end")
}

// verifPathItemLibrary: a path item taken from a library file (not an OpenAPI document) in another
// directory, by fragment or as the whole file; inside it relative references, which are spelled
// relative to the library file. Decoy files of the same name stand in the root's directory.
func verifPathItemLibrary(id string) {
	nestedAt := verifChoose("nestedAt", 4)
	r := `{"$ref":"s.json"}`
	var item string
	switch nestedAt {
	case 0: // a path-level parameter's schema
		item = `{"parameters":[{"name":"q","in":"query","schema":` + r + `}],"get":{"responses":{"200":{"description":"d"}}}}`
	case 1: // an operation parameter's schema
		item = `{"get":{"parameters":[{"name":"q","in":"query","schema":` + r + `}],"responses":{"200":{"description":"d"}}}}`
	case 2: // a response body
		item = `{"get":{"responses":{"200":{"description":"d","content":{"application/json":{"schema":` + r + `}}}}}}`
	case 3: // a request body
		item = `{"post":{"requestBody":{"content":{"application/json":{"schema":` + r + `}}},"responses":{"200":{"description":"d"}}}}`
	}
	files := map[string]string{
		"/r/s.json":     `{"type":"boolean","description":"decoy"}`,
		"/r/lib/s.json": `{"type":"integer","description":"wanted"}`,
		"/s.json":       `{"type":"number","description":"decoy"}`,
	}
	ref := ""
	containing := "/r/lib/items.json"
	switch verifChoose("form", 3) {
	case 0: // by fragment into a library of path items
		ref = "lib/items.json#/things"
		files[containing] = `{"things":` + item + `}`
	case 1: // the whole file
		ref = "lib/items.json"
		files[containing] = item
	case 2: // by fragment, two levels deep
		ref = "lib/items.json#/x/things"
		files[containing] = `{"x":{"things":` + item + `}}`
	}
	rootText := `{"openapi":"3.0.0","info":{"title":"t","version":"1"},"paths":{"/things":{"$ref":"` + ref + `"}}}`
	rootLoc := &url.URL{Path: "/r/doc.json"}
	var reads []string
	loader := NewLoader()
	loader.IsExternalRefsAllowed = true
	loader.ReadFromURIFunc = func(_ *Loader, u *url.URL) ([]byte, error) {
		reads = append(reads, u.Path)
		if u.Path == rootLoc.Path {
			return []byte(rootText), nil
		}
		if t, ok := files[u.Path]; ok {
			return []byte(t), nil
		}
		return nil, errors.New("no such file")
	}
	doc, err := loader.LoadFromDataWithPath([]byte(rootText), rootLoc)
	verifAssert(err == nil && doc != nil, id+" path item library: the document loads")
	if err != nil || doc == nil {
		return
	}
	pi := doc.Paths.Value("/things")
	verifAssert(pi != nil, id+" path item library: the path item is there")
	if pi == nil {
		return
	}
	var got *SchemaRef
	switch nestedAt {
	case 0:
		if len(pi.Parameters) == 1 && pi.Parameters[0].Value != nil {
			got = pi.Parameters[0].Value.Schema
		}
	case 1:
		if pi.Get != nil && len(pi.Get.Parameters) == 1 && pi.Get.Parameters[0].Value != nil {
			got = pi.Get.Parameters[0].Value.Schema
		}
	case 2:
		if pi.Get != nil && pi.Get.Responses != nil && pi.Get.Responses.Value("200") != nil && pi.Get.Responses.Value("200").Value != nil {
			if mt := pi.Get.Responses.Value("200").Value.Content["application/json"]; mt != nil {
				got = mt.Schema
			}
		}
	case 3:
		if pi.Post != nil && pi.Post.RequestBody != nil && pi.Post.RequestBody.Value != nil {
			if mt := pi.Post.RequestBody.Value.Content["application/json"]; mt != nil {
				got = mt.Schema
			}
		}
	}
	verifAssert(got != nil && got.Value != nil && got.Value.Description == "wanted", id+" path item library: a reference inside the path item resolves against the file the path item came from")
	for _, rd := range reads {
		verifAssert(rd == rootLoc.Path || rd == containing || rd == "/r/lib/s.json", id+" path item library: only the files the references designate are read")
	}
	verifReach("end")
}

//verif:harness id=C11 tier=quick,thorough witness=end bounds="external references allowed: a path item taken from a library file in a sub-directory (by fragment one or two levels deep, or as the whole file) containing a relative reference (schema of a path-level parameter, of an operation parameter, of a response body, of a request body) with same-named decoy files in the root's directory and above: only the root, the library and the file next to the library are read, and the reference resolves to that file"
func verifH_C11_path_item_library() { verifPathItemLibrary("C11") }

//verif:harness id=C02 tier=quick,thorough witness=end bounds="as C11's path_item_library (shared): the reference inside a path item taken from a library file resolves to the file next to the library"
func verifH_C02_path_item_library() { verifPathItemLibrary("C02") }
