package openapi3

// C06 kernel 1 — Content.Get: media-type lookup by the documented precedence.

// verifRefContentGet: exact string, then without parameters (white space trimmed; as written, then in lower case), then type/*, then */*.
func verifRefContentGet(declared map[string]bool, mime string) string {
	if mime == "" {
		if declared["*/*"] {
			return "*/*"
		}
		return ""
	}
	if declared[mime] {
		return mime
	}
	base := mime
	for i := 0; i < len(mime); i++ {
		if mime[i] == ';' {
			base = mime[:i]
			break
		}
	}
	// white space around the bare type is not part of it
	for len(base) > 0 && base[0] == ' ' {
		base = base[1:]
	}
	for len(base) > 0 && base[len(base)-1] == ' ' {
		base = base[:len(base)-1]
	}
	if declared[base] {
		return base
	}
	// type and subtype are case-insensitive: a spelling with capitals also selects the lower-case key
	lower := []byte(base)
	for i, c := range lower {
		if c >= 'A' && c <= 'Z' {
			lower[i] = c + 32
		}
	}
	base = string(lower)
	if declared[base] {
		return base
	}
	slash := -1
	for i := 0; i < len(base); i++ {
		if base[i] == '/' {
			slash = i
			break
		}
	}
	if slash < 0 {
		return "" // no subtype: never resolved through a wildcard
	}
	if w := base[:slash] + "/*"; declared[w] {
		return w
	}
	if declared["*/*"] {
		return "*/*"
	}
	return ""
}

func verifC06Get(maxLen int, capitals bool) {
	keys := []string{"a/b", "a/b;p", "a/*", "*/*", "b/b"}
	declared := map[string]bool{}
	content := Content{}
	tag := map[*MediaType]string{}
	sub := verifChoose("declared", 32)
	for i, k := range keys {
		if sub&(1<<i) != 0 {
			mt := &MediaType{}
			content[k] = mt
			tag[mt] = k
			declared[k] = true
		}
	}
	mime := verifNondetString("mime", maxLen)
	for i := 0; i < len(mime); i++ {
		c := mime[i]
		verifAssume(c == 'a' || c == 'b' || c == '/' || c == '*' || c == ';' || c == 'p' || c == ' ' || capitals && (c == 'A' || c == 'B'))
	}
	got := content.Get(mime)
	want := verifRefContentGet(declared, mime)
	if want == "" {
		verifAssert(got == nil, "C06 Content.Get: no declared media type matches, so none is selected")
	} else {
		verifAssert(got != nil && tag[got] == want, "C06 Content.Get: selects exact string, then without parameters, then type/*, then */*")
	}
	verifReach("end")
}

//verif:harness id=C06 tier=quick witness=end bounds="Content.Get: every subset of declared keys {a/b, a/b;p, a/*, */*, b/b} x every Content-Type of 0..4 bytes over {a,b,p,/,*,;,space}"
func verifH_C06_content_get() { verifC06Get(4, false) }

//verif:harness id=C06 tier=thorough witness=end bounds="Content.Get as quick with Content-Type of 0..5 bytes" maxpaths=2000000
func verifH_C06_content_get5() { verifC06Get(5, false) }

//verif:harness id=C06 tier=quick witness=end bounds="Content.Get with capitals: every subset of declared keys {a/b, a/b;p, a/*, */*, b/b} x every Content-Type of 0..3 bytes over {a,b,A,B,p,/,*,;,space}: type and subtype are case-insensitive"
func verifH_C06_content_get_capitals() { verifC06Get(3, true) }

//verif:harness id=C06 tier=thorough witness=end bounds="Content.Get with capitals, Content-Type of 0..4 bytes" maxpaths=2000000
func verifH_C06_content_get_capitals4() { verifC06Get(4, true) }
