package openapi3

// C03 — marshalling then reloading loses and invents nothing.
// Selector-symbolic over member subsets: for each object kind a normal-form JSON object
// with every field the specification defines, one x- extension (and, where the type keeps
// them, nothing else); variants: all members, each member dropped, each member alone.
// The text is decoded by the JSON contract model (every UnmarshalJSON of the repository is
// interpreted), re-encoded through the interpreted MarshalJSON/MarshalYAML, and compared as JSON.

import (
	"encoding/json"
	"reflect"
)

type verifKindSample struct {
	name string
	mk   func() any
	text string
	keep []string // members that must stay for the object to parse (none: any subset is fine)
}

var verifSamples = []verifKindSample{
	{"Schema", func() any { return &Schema{} }, `{"type":"object","title":"t","format":"f","description":"d","enum":[1,"a"],"default":{"a":1},"example":[1],"externalDocs":{"url":"https://e"},"uniqueItems":true,"exclusiveMinimum":true,"exclusiveMaximum":true,"nullable":true,"readOnly":true,"allowEmptyValue":true,"deprecated":true,"xml":{"name":"n"},"minimum":1.5,"maximum":2.5,"multipleOf":0.5,"minLength":1,"maxLength":2,"pattern":"^a","minItems":1,"maxItems":2,"items":{"type":"string"},"required":["a"],"properties":{"a":{"type":"integer"}},"minProperties":1,"maxProperties":2,"additionalProperties":{"type":"string"},"discriminator":{"propertyName":"a"},"oneOf":[{"type":"string"}],"anyOf":[{"type":"number"}],"allOf":[{"$ref":"#/components/schemas/X"}],"not":{"type":"boolean"},"x-ext":1}`, nil},
	{"SchemaZeros", func() any { return &Schema{} }, `{"type":"array","maxItems":0,"maxLength":0,"maxProperties":0,"minimum":0,"maximum":0,"default":0,"example":0,"enum":[0,false,""],"x-ext":0}`, nil},
	{"SchemaDateTime", func() any { return &Schema{} }, `{"type":"string","format":"date-time","example":"2020-01-01T00:00:00Z","default":"2020-01-01T00:00:00Z","enum":["2020-01-01T00:00:00Z"],"x-ext":"2020-01-01T00:00:00Z"}`, nil},
	{"SchemaNulls", func() any { return &Schema{} }, `{"type":"string","nullable":true,"default":null,"example":null,"enum":[null,"a"],"x-ext":null}`, nil},
	{"ExampleNull", func() any { return &Example{} }, `{"summary":"s","value":null}`, nil},
	{"SchemaAP", func() any { return &Schema{} }, `{"type":"object","writeOnly":true,"additionalProperties":false,"x-ext":{"k":[1,2]}}`, nil},
	{"Parameter", func() any { return &Parameter{} }, `{"name":"p","in":"query","description":"d","style":"form","explode":true,"allowEmptyValue":true,"allowReserved":true,"deprecated":true,"required":true,"schema":{"type":"string"},"example":"e","examples":{"e":{"value":1}},"content":{"application/json":{"schema":{"type":"string"}}},"x-ext":"v"}`, nil},
	{"Header", func() any { return &Header{} }, `{"description":"d","style":"simple","explode":false,"deprecated":true,"required":true,"schema":{"type":"string"},"example":"e","x-ext":1}`, nil},
	{"MediaType", func() any { return &MediaType{} }, `{"schema":{"type":"string"},"example":"e","examples":{"e":{"value":1}},"encoding":{"f":{"contentType":"text/plain","headers":{"X":{"schema":{"type":"string"}}},"style":"form","explode":true,"allowReserved":true}},"x-ext":1}`, nil},
	{"RequestBody", func() any { return &RequestBody{} }, `{"description":"d","required":true,"content":{"text/plain":{"schema":{"type":"string"}}},"x-ext":1}`, []string{"content"}},
	{"Response", func() any { return &Response{} }, `{"description":"d","headers":{"X":{"schema":{"type":"string"}}},"content":{"text/plain":{"schema":{"type":"string"}}},"links":{"l":{"operationId":"op"}},"x-ext":1}`, nil},
	{"Operation", func() any { return &Operation{} }, `{"tags":["t"],"summary":"s","description":"d","operationId":"op","parameters":[{"name":"p","in":"query","schema":{"type":"string"}}],"requestBody":{"content":{"text/plain":{"schema":{"type":"string"}}}},"responses":{"200":{"description":"d"}},"callbacks":{"cb":{"{$request.body#/u}":{"post":{"responses":{"200":{"description":"d"}}}}}},"deprecated":true,"security":[{"s":["a"]}],"servers":[{"url":"https://s"}],"externalDocs":{"url":"https://e"},"x-ext":1}`, []string{"responses"}},
	{"OperationOptOut", func() any { return &Operation{} }, `{"responses":{"200":{"description":"d"}},"security":[],"x-ext":1}`, []string{"responses"}},
	{"PathItem", func() any { return &PathItem{} }, `{"summary":"s","description":"d","get":{"responses":{"200":{"description":"d"}}},"put":{"responses":{"200":{"description":"d"}}},"post":{"responses":{"200":{"description":"d"}}},"delete":{"responses":{"200":{"description":"d"}}},"options":{"responses":{"200":{"description":"d"}}},"head":{"responses":{"200":{"description":"d"}}},"patch":{"responses":{"200":{"description":"d"}}},"trace":{"responses":{"200":{"description":"d"}}},"servers":[{"url":"https://s"}],"parameters":[{"$ref":"#/components/parameters/P"}],"x-ext":1}`, nil},
	{"Components", func() any { return &Components{} }, `{"schemas":{"S":{"type":"string"}},"parameters":{"P":{"name":"p","in":"query","schema":{"type":"string"}}},"headers":{"H":{"schema":{"type":"string"}}},"requestBodies":{"B":{"content":{"text/plain":{"schema":{"type":"string"}}}}},"responses":{"R":{"description":"d"}},"securitySchemes":{"s":{"type":"http","scheme":"basic"}},"examples":{"E":{"value":1}},"links":{"L":{"operationId":"op"}},"callbacks":{"C":{"{$request.body#/u}":{"post":{"responses":{"200":{"description":"d"}}}}}},"x-ext":1}`, nil},
	{"SecurityScheme", func() any { return &SecurityScheme{} }, `{"type":"oauth2","description":"d","name":"n","in":"header","scheme":"bearer","bearerFormat":"jwt","flows":{"implicit":{"authorizationUrl":"https://a","refreshUrl":"https://r","scopes":{"a":"b"},"x-ext":1},"password":{"tokenUrl":"https://t","scopes":{}},"clientCredentials":{"tokenUrl":"https://t","scopes":{}},"authorizationCode":{"authorizationUrl":"https://a","tokenUrl":"https://t","scopes":{}},"x-ext":1},"openIdConnectUrl":"https://o","x-ext":1}`, nil},
	{"Server", func() any { return &Server{} }, `{"url":"https://{h}","description":"d","variables":{"h":{"enum":["a","b"],"default":"a","description":"d","x-ext":1}},"x-ext":1}`, []string{"url"}},
	{"Info", func() any { return &Info{} }, `{"title":"t","description":"d","termsOfService":"https://t","contact":{"name":"n","url":"https://u","email":"e@e","x-ext":1},"license":{"name":"MIT","url":"https://l","x-ext":1},"version":"1","x-ext":1}`, []string{"title", "version"}},
	{"Tag", func() any { return &Tag{} }, `{"name":"n","description":"d","externalDocs":{"description":"d","url":"https://e","x-ext":1},"x-ext":1}`, nil},
	{"Link", func() any { return &Link{} }, `{"operationRef":"#/paths/~1a/get","operationId":"op","description":"d","parameters":{"p":"$response.body#/a"},"server":{"url":"https://s"},"requestBody":{"a":1},"x-ext":1}`, nil},
	{"Example", func() any { return &Example{} }, `{"summary":"s","description":"d","value":{"a":[1,true,null]},"externalValue":"https://e","x-ext":1}`, nil},
	{"Discriminator", func() any { return &Discriminator{} }, `{"propertyName":"p","mapping":{"a":"#/components/schemas/A"},"x-ext":1}`, []string{"propertyName"}},
	{"XML", func() any { return &XML{} }, `{"name":"n","namespace":"ns","prefix":"p","attribute":true,"wrapped":true,"x-ext":1}`, nil},
	{"T", func() any { return &T{} }, verifBaseDoc, []string{"openapi", "info", "paths"}},
	// a type list that is empty says something else than no type at all
	{"SchemaEmptyTypes", func() any { return &Schema{} }, `{"type":[],"description":"d","properties":{"p":{"type":[]}}}`, nil},
	{"SchemaTwoTypes", func() any { return &Schema{} }, `{"type":["integer","string"],"description":"d"}`, nil},
	// names and values whose letter case matters to the reader of the output: they come back as written
	{"ResponseMixedCase", func() any { return &Response{} }, `{"description":"D","headers":{"X-Rate-Limit":{"schema":{"type":"integer"}},"ETag":{"schema":{"type":"string"}}},"content":{"text/plain; charset=UTF-8":{"schema":{"type":"string"}},"application/vnd.Acme.v1+json":{"schema":{"type":"string"},"examples":{"Small":{"value":"V"}},"encoding":{"Field":{"contentType":"Text/Plain"}}},"Application/JSON":{"schema":{"type":"string"}}},"links":{"NextPage":{"operationId":"GetNext"}}}`, nil},
	{"SecuritySchemeMixedCase", func() any { return &SecurityScheme{} }, `{"type":"http","scheme":"Bearer","bearerFormat":"JWT","description":"Use The Token"}`, nil},
	{"SecuritySchemeKeyMixedCase", func() any { return &SecurityScheme{} }, `{"type":"apiKey","name":"X-API-Key","in":"header"}`, nil},
	{"ParameterMixedCase", func() any { return &Parameter{} }, `{"name":"X-Request-ID","in":"header","schema":{"type":"string","enum":["A","a"],"default":"A","pattern":"^[A-Za-z]$","format":"UUID"},"examples":{"Upper":{"value":"A"}}}`, nil},
	{"ComponentsMixedCase", func() any { return &Components{} }, `{"schemas":{"Pet":{"type":"string"},"pet":{"type":"integer"}},"parameters":{"PageSize":{"name":"pageSize","in":"query","schema":{"type":"string"}}},"headers":{"RateLimit":{"schema":{"type":"string"}}},"requestBodies":{"NewPet":{"content":{"application/JSON":{"schema":{"type":"string"}}}}},"responses":{"NotFound":{"description":"d"}},"securitySchemes":{"BearerAuth":{"type":"http","scheme":"Bearer"}},"examples":{"Ex":{"value":1}},"links":{"Li":{"operationId":"Op"}},"callbacks":{"OnEvent":{"{$request.body#/CallbackURL}":{"post":{"responses":{"2XX":{"description":"d"}}}}}}}`, nil},
	{"ServerMixedCase", func() any { return &Server{} }, `{"url":"HTTPS://{Host}.Example.COM/Base%20Path","variables":{"Host":{"enum":["A","a"],"default":"A"}}}`, []string{"url"}},
	{"PathItemMixedCase", func() any { return &PathItem{} }, `{"get":{"operationId":"GetThing","tags":["Things","things"],"responses":{"200":{"description":"d"},"4XX":{"description":"d"},"default":{"description":"d"}},"security":[{"BearerAuth":["Read:All"]}]}}`, nil},
	// member names that look like extensions: in a name -> object map "x-..." is an ordinary name
	{"SchemaXNames", func() any { return &Schema{} }, `{"type":"object","properties":{"x-trace-id":{"type":"string"},"a":{"type":"integer"}},"required":["x-trace-id"]}`, nil},
	{"ResponseXNames", func() any { return &Response{} }, `{"description":"d","headers":{"x-rate-limit":{"schema":{"type":"integer"}}},"content":{"application/json":{"schema":{"type":"string"},"examples":{"x-small":{"value":"s"}}}},"links":{"x-next":{"operationId":"op"}}}`, []string{"description"}},
	{"ComponentsXNames", func() any { return &Components{} }, `{"schemas":{"x-foo":{"type":"string"}},"parameters":{"x-p":{"name":"p","in":"query","schema":{"type":"string"}}},"headers":{"x-h":{"schema":{"type":"string"}}},"requestBodies":{"x-b":{"content":{"text/plain":{"schema":{"type":"string"}}}}},"responses":{"x-r":{"description":"d"}},"securitySchemes":{"x-s":{"type":"http","scheme":"basic"}},"examples":{"x-e":{"value":1}},"links":{"x-l":{"operationId":"op"}},"callbacks":{"x-c":{"{$request.body#/u}":{"post":{"responses":{"200":{"description":"d"}}}}}}}`, nil},
}

func verifJSONTree(text []byte) (any, bool) {
	var t any
	if json.Unmarshal(text, &t) != nil {
		return nil, false
	}
	return t, true
}

func verifSortedKeys(m map[string]any) []string {
	keys := make([]string, 0, len(m))
	for k := range m {
		keys = append(keys, k)
	}
	for i := 1; i < len(keys); i++ {
		for j := i; j > 0 && keys[j] < keys[j-1]; j-- {
			keys[j], keys[j-1] = keys[j-1], keys[j]
		}
	}
	return keys
}

// verifFlipBools: the tree with every boolean negated (all depths).
func verifFlipBools(t any) any {
	switch x := t.(type) {
	case bool:
		return !x
	case []any:
		out := make([]any, len(x))
		for i := range x {
			out[i] = verifFlipBools(x[i])
		}
		return out
	case map[string]any:
		out := map[string]any{}
		for k, v := range x {
			if k == "example" || k == "default" || k == "value" || k == "enum" {
				out[k] = v // free-form data stays as it is
				continue
			}
			out[k] = verifFlipBools(v)
		}
		return out
	}
	return t
}

// verifDropDefaultFalse: a member whose value is false says the same as its absence for every
// boolean of the specification except "explode" (default depends on style) and
// "additionalProperties" (false forbids); free-form data is left alone.
func verifDropDefaultFalse(t any) any {
	switch x := t.(type) {
	case []any:
		out := make([]any, len(x))
		for i := range x {
			out[i] = verifDropDefaultFalse(x[i])
		}
		return out
	case map[string]any:
		out := map[string]any{}
		for k, v := range x {
			if k == "example" || k == "default" || k == "value" || k == "enum" {
				out[k] = v
				continue
			}
			if b, isBool := v.(bool); isBool && !b && k != "explode" && k != "additionalProperties" {
				continue
			}
			out[k] = verifDropDefaultFalse(v)
		}
		return out
	}
	return t
}

func verifC03(samples []verifKindSample) {
	smp := samples[verifChoose("kind", len(samples))]
	tree, ok := verifJSONTree([]byte(smp.text))
	obj, isObj := tree.(map[string]any)
	if !ok || !isObj {
		return
	}
	keys := verifSortedKeys(obj)
	// variant: 0 = all members; 1..n = member i dropped; n+1..2n = member i alone.
	// Members the specification requires always stay: the serialisers emit them even when
	// empty, and a document without them is not one "written in normal form".
	required := map[string]bool{}
	for _, k := range smp.keep {
		required[k] = true
	}
	v := verifChoose("variant", 3*len(keys)+3)
	in := map[string]any{}
	flipped := false
	capitalised := false
	switch {
	case v >= 2*len(keys)+3:
		// one member written with a capital first letter: another name, so an unknown field like any other
		// (known finding: encoding/json matches field names case-insensitively, so the member is ALSO read as
		// the known field and written back under both names)
		k := keys[v-2*len(keys)-3]
		for k2, m := range obj {
			in[k2] = m
		}
		if k[0] >= 'a' && k[0] <= 'z' && !required[k] && k != "x-ext" && smp.name != "SchemaNulls" && smp.name != "ExampleNull" {
			delete(in, k)
			in[string([]byte{k[0] - 32})+k[1:]] = obj[k]
			capitalised = true
		}
	case v == 2*len(keys)+2:
		// a field the specification does not know (and that is not an x- extension) next to all the others
		for k, m := range obj {
			in[k] = m
		}
		in["unknownField"] = map[string]any{"k": []any{1.0, "u"}}
	case v == 2*len(keys)+1:
		// every boolean of the specification's own members negated (explode:false, additionalProperties:true, ...)
		in = verifFlipBools(obj).(map[string]any)
		flipped = true
	case v == 0:
		in = obj
	case v <= len(keys):
		for i, k := range keys {
			if i != v-1 || required[k] {
				in[k] = obj[k]
			}
		}
	default:
		k := keys[v-len(keys)-1]
		in[k] = obj[k]
		for r := range required {
			in[r] = obj[r]
		}
	}
	text, err := json.Marshal(in)
	if err != nil {
		return
	}
	x := smp.mk()
	if err := json.Unmarshal(text, x); err != nil {
		// a subset the type refuses to parse is outside the property (which speaks of parsed documents)
		verifReach("end")
		return
	}
	out, err := json.Marshal(x)
	verifAssert(err == nil, "C03 "+smp.name+": a parsed object serialises")
	if err != nil {
		return
	}
	got, ok := verifJSONTree(out)
	if smp.name == "SchemaNulls" || smp.name == "ExampleNull" {
		// default / example / value members whose value is null: lost (known finding); everything else must still be there
		hasNull := false
		for k, m := range in {
			if m == nil && (k == "default" || k == "example" || k == "value") {
				hasNull = true
			}
		}
		if !flipped {
			verifKnown("C03-null-valued-member-lost", hasNull)
			verifAssert(ok && reflect.DeepEqual(got, any(in)), "C03 "+smp.name+": a member whose value is null survives the trip")
			verifKnown("C03-null-valued-member-lost", false)
		}
		rest := map[string]any{}
		for k, m := range in {
			if m == nil && (k == "default" || k == "example" || k == "value") {
				continue
			}
			rest[k] = m
		}
		in = rest
	}
	if capitalised {
		verifKnown("C03-capitalised-field-name-duplicated", true)
		verifAssert(ok && reflect.DeepEqual(got, any(in)), "C03 "+smp.name+": a member whose name differs from a specified field by letter case is another field: it comes back once, as written")
		verifKnown("C03-capitalised-field-name-duplicated", false)
		verifReach("end")
		return
	}
	if flipped {
		verifAssert(ok && reflect.DeepEqual(verifDropDefaultFalse(got), verifDropDefaultFalse(any(in))), "C03 "+smp.name+": with every boolean negated the serialised JSON equals the input up to members that are false by default")
	} else {
		verifAssert(ok && reflect.DeepEqual(got, any(in)), "C03 "+smp.name+": the serialised JSON equals the normal-form input (nothing lost, nothing invented)")
	}
	// parsing the output and serialising again gives the same JSON
	y := smp.mk()
	if json.Unmarshal(out, y) == nil {
		out2, err2 := json.Marshal(y)
		t2, ok2 := verifJSONTree(out2)
		verifAssert(err2 == nil && ok2 && reflect.DeepEqual(t2, got), "C03 "+smp.name+": serialise/parse/serialise is stable")
	} else {
		verifAssert(false, "C03 "+smp.name+": the serialised output parses again")
	}
	verifReach("end")
}

//verif:harness id=C03 tier=quick,thorough witness=end bounds="19 OpenAPI 3 object kinds (Schema x2, Parameter, Header, MediaType+Encoding, RequestBody, Response, Operation, PathItem, Components, SecurityScheme+OAuthFlows, Server+Variable, Info+Contact+License, Tag+ExternalDocs, Link, Example, Discriminator, XML, whole document) in normal form with every specified field and an x- extension; plus samples with mixed-case names and values (media types, header names, HTTP scheme Bearer, component names differing in case only, server URL, status classes); variants: all members, each member dropped, each member alone, every boolean negated, each member's name capitalised; JSON reader/writer only (YAML and byte-level syntax are not applicable)"
func verifH_C03_openapi3() { verifC03(verifSamples) }
