package openapi3

// C02 — loading resolves every $ref to exactly the object it designates.
// Selector-symbolic: the reference text of one slot is chosen among candidates
// (internal, whole file, fragment, nested directory, relative spellings, chain,
// dangling, wrong kind); files come from an in-memory table through
// ReadFromURIFunc; JSON texts are decoded by the JSON contract model so every
// UnmarshalJSON of the repository runs as real code.

import (
	"encoding/json"
	"errors"
	"net/url"
	"path"
	"reflect"
	"strconv"
	"strings"
)

var verifKinds = []string{"schemas", "parameters", "responses", "requestBodies", "headers", "examples", "links", "securitySchemes", "callbacks"}

// normal-form target objects, one per kind
var verifTargets = map[string]string{
	"schemas":         `{"type":"string","minLength":3}`,
	"parameters":      `{"name":"p","in":"query","schema":{"type":"string"}}`,
	"responses":       `{"description":"d"}`,
	"requestBodies":   `{"content":{"text/plain":{"schema":{"type":"string"}}}}`,
	"headers":         `{"schema":{"type":"string"}}`,
	"examples":        `{"value":1}`,
	"links":           `{"operationId":"op"}`,
	"securitySchemes": `{"type":"http","scheme":"basic"}`,
	"callbacks":       `{"{$request.body#/u}":{"post":{"responses":{"200":{"description":"d"}}}}}`,
}

// two further distinct objects per kind, stored under the keys "a~1b" and "a/b"
// (reference tokens "a~01b" and "a~1b": JSON-pointer escapes must be undone in the right order)
var verifTargetsTilde = map[string]string{
	"schemas":         `{"type":"string","minLength":4}`,
	"parameters":      `{"name":"p4","in":"query","schema":{"type":"string"}}`,
	"responses":       `{"description":"d4"}`,
	"requestBodies":   `{"description":"d4","content":{"text/plain":{"schema":{"type":"string"}}}}`,
	"headers":         `{"description":"d4","schema":{"type":"string"}}`,
	"examples":        `{"value":4}`,
	"links":           `{"operationId":"op4"}`,
	"securitySchemes": `{"type":"http","scheme":"bearer"}`,
	"callbacks":       `{"{$request.body#/u4}":{"post":{"responses":{"200":{"description":"d"}}}}}`,
}

var verifTargetsSlash = map[string]string{
	"schemas":         `{"type":"string","minLength":5}`,
	"parameters":      `{"name":"p5","in":"query","schema":{"type":"string"}}`,
	"responses":       `{"description":"d5"}`,
	"requestBodies":   `{"description":"d5","content":{"text/plain":{"schema":{"type":"string"}}}}`,
	"headers":         `{"description":"d5","schema":{"type":"string"}}`,
	"examples":        `{"value":5}`,
	"links":           `{"operationId":"op5"}`,
	"securitySchemes": `{"type":"http","scheme":"digest"}`,
	"callbacks":       `{"{$request.body#/u5}":{"post":{"responses":{"200":{"description":"d"}}}}}`,
}

func verifEscapedEntries(k string) string {
	return `"a~1b":` + verifTargetsTilde[k] + `,"a/b":` + verifTargetsSlash[k]
}

func verifComponentsFile(extra map[string]string) string {
	var sb strings.Builder
	sb.WriteString(`{"components":{`)
	for i, k := range verifKinds {
		if i > 0 {
			sb.WriteString(",")
		}
		sb.WriteString(`"` + k + `":{"T":` + verifTargets[k])
		if e, ok := extra[k]; ok {
			sb.WriteString(`,` + e)
		}
		sb.WriteString(`}`)
	}
	sb.WriteString(`}}`)
	return sb.String()
}

// verifFiles: the external files of the layout (root is /r/doc.json).
func verifFiles() map[string]string {
	files := map[string]string{}
	esc := map[string]string{}
	for _, k := range verifKinds {
		esc[k] = verifEscapedEntries(k)
	}
	files["/r/x.json"] = verifComponentsFile(esc)
	// nested directory: every T refers back to ../x.json (a chain through two files)
	chain := map[string]string{}
	var sb strings.Builder
	sb.WriteString(`{"components":{`)
	for i, k := range verifKinds {
		if i > 0 {
			sb.WriteString(",")
		}
		sb.WriteString(`"` + k + `":{"T":{"$ref":"../x.json#/components/` + k + `/T"},"Own":` + verifTargets[k] + `}`)
	}
	sb.WriteString(`}}`)
	files["/r/d/y.json"] = sb.String()
	_ = chain
	for _, k := range verifKinds {
		files["/r/whole_"+k+".json"] = verifTargets[k]
	}
	return files
}

// verifSlotDoc: root document with one reference of the given kind.
func verifSlotDoc(kind, ref string) string {
	r := `{"$ref":"` + ref + `"}`
	comps := map[string]string{}
	for _, k := range verifKinds {
		comps[k] = `"T":` + verifTargets[k] + `,` + verifEscapedEntries(k)
	}
	comps[kind] += `,"Slot":` + r
	var sb strings.Builder
	sb.WriteString(`{"openapi":"3.0.0","info":{"title":"t","version":"1"},"paths":{},"components":{`)
	for i, k := range verifKinds {
		if i > 0 {
			sb.WriteString(",")
		}
		sb.WriteString(`"` + k + `":{` + comps[k] + `}`)
	}
	sb.WriteString(`}}`)
	return sb.String()
}

// verifFollow: the harness's own resolver: join the reference to the containing
// file's location (RFC 3986 for relative file paths), walk the JSON pointer, follow chains.
func verifFollow(files map[string]string, rootText string, base string, ref string, depth int) (tree any, finalURL string, ok bool) {
	if depth > 8 {
		return nil, "", false
	}
	file, frag := ref, ""
	if i := strings.IndexByte(ref, '#'); i >= 0 {
		file, frag = ref[:i], ref[i+1:]
	}
	loc := base
	if file != "" {
		if strings.HasPrefix(file, "/") {
			loc = path.Clean(file)
		} else {
			loc = path.Join(path.Dir(base), file)
		}
	}
	text, found := files[loc]
	if loc == "/r/doc.json" {
		text, found = rootText, true
	}
	if !found {
		return nil, "", false
	}
	var cur any
	if err := json.Unmarshal([]byte(text), &cur); err != nil {
		return nil, "", false
	}
	if frag != "" {
		for _, tok := range strings.Split(strings.TrimPrefix(frag, "/"), "/") {
			tok = strings.ReplaceAll(strings.ReplaceAll(tok, "~1", "/"), "~0", "~")
			m, isMap := cur.(map[string]any)
			if !isMap {
				return nil, "", false
			}
			next, has := m[tok]
			if !has {
				return nil, "", false
			}
			cur = next
		}
	}
	if m, isMap := cur.(map[string]any); isMap {
		if r, has := m["$ref"].(string); has {
			return verifFollow(files, rootText, loc, r, depth+1)
		}
	}
	u := loc
	if frag != "" {
		u += "#" + frag
	}
	return cur, u, true
}

func verifAsTree(v any) (any, bool) {
	b, err := json.Marshal(v)
	if err != nil {
		return nil, false
	}
	var out any
	if json.Unmarshal(b, &out) != nil {
		return nil, false
	}
	return out, true
}

// verifSlotValue returns the resolved Value of the slot and its RefPath.
func verifSlotValue(doc *T, kind string) (any, *url.URL, bool) {
	c := doc.Components
	switch kind {
	case "schemas":
		r := c.Schemas["Slot"]
		return r.Value, r.RefPath(), r.Value != nil
	case "parameters":
		r := c.Parameters["Slot"]
		return r.Value, r.RefPath(), r.Value != nil
	case "responses":
		r := c.Responses["Slot"]
		return r.Value, r.RefPath(), r.Value != nil
	case "requestBodies":
		r := c.RequestBodies["Slot"]
		return r.Value, r.RefPath(), r.Value != nil
	case "headers":
		r := c.Headers["Slot"]
		return r.Value, r.RefPath(), r.Value != nil
	case "examples":
		r := c.Examples["Slot"]
		return r.Value, r.RefPath(), r.Value != nil
	case "links":
		r := c.Links["Slot"]
		return r.Value, r.RefPath(), r.Value != nil
	case "securitySchemes":
		r := c.SecuritySchemes["Slot"]
		return r.Value, r.RefPath(), r.Value != nil
	case "callbacks":
		r := c.Callbacks["Slot"]
		return r.Value, r.RefPath(), r.Value != nil
	}
	return nil, nil, false
}

func verifC02Candidates(kind string) []string {
	other := "schemas"
	if kind == "schemas" {
		other = "parameters"
	}
	return []string{
		"#/components/" + kind + "/T",
		"whole_" + kind + ".json",
		"x.json#/components/" + kind + "/T",
		"./x.json#/components/" + kind + "/T",
		"d/../x.json#/components/" + kind + "/T",
		"d/y.json#/components/" + kind + "/Own",
		"d/y.json#/components/" + kind + "/T", // chain back into ../x.json
		"/r/x.json#/components/" + kind + "/T",
		"#/components/" + kind + "/a~01b",       // key "a~1b" (not "a/b")
		"#/components/" + kind + "/a~1b",        // key "a/b"
		"x.json#/components/" + kind + "/a~01b", // the same in an external file
		"x.json#/components/" + kind + "/a~1b",
		"x.json#/components/" + kind + "/Missing", // dangling
		"nofile.json#/components/" + kind + "/T",  // dangling file
		"x.json#/components/" + other + "/T",      // wrong kind
	}
}

//verif:harness id=C02 tier=quick,thorough witness=end,loaded,rejected bounds="one reference slot of each of the nine component kinds x 15 candidates (same document, whole external file, fragment, ./ and d/../ spellings, nested directory, chain through two files, absolute path, keys needing the JSON-pointer escapes ~0 and ~1 internal and external, dangling fragment, dangling file, wrong kind) x entry point in {LoadFromDataWithPath, LoadFromURI}; files in memory; resolved Value compared (as JSON) with the object found by the harness's own resolver"
func verifH_C02_slots() {
	kind := verifKinds[verifChoose("kind", len(verifKinds))]
	cands := verifC02Candidates(kind)
	ci := verifChoose("candidate", len(cands))
	ref := cands[ci]
	files := verifFiles()
	rootText := verifSlotDoc(kind, ref)
	rootLoc := &url.URL{Path: "/r/doc.json"}
	loader := NewLoader()
	loader.IsExternalRefsAllowed = true
	loader.ReadFromURIFunc = func(l *Loader, u *url.URL) ([]byte, error) {
		if u.Path == rootLoc.Path {
			return []byte(rootText), nil
		}
		if t, ok := files[u.Path]; ok {
			return []byte(t), nil
		}
		return nil, errors.New("no such file")
	}
	var doc *T
	var err error
	if verifChoose("entry", 2) == 0 {
		doc, err = loader.LoadFromDataWithPath([]byte(rootText), rootLoc)
	} else {
		doc, err = loader.LoadFromURI(rootLoc)
	}
	want, wantURL, resolvable := verifFollow(files, rootText, rootLoc.Path, ref, 0)
	wrongKind := ci == len(cands)-1
	if !resolvable {
		verifAssert(err != nil, "C02: a reference whose target does not exist makes loading fail")
		verifReach("rejected")
		verifReach("end")
		return
	}
	if wrongKind {
		verifAssert(err != nil, "C02: a reference whose target is of the wrong kind makes loading fail")
		verifReach("end")
		return
	}
	verifAssert(err == nil && doc != nil, "C02: a document whose references all have targets loads")
	if err != nil || doc == nil {
		return
	}
	verifReach("loaded")
	val, refPath, resolved := verifSlotValue(doc, kind)
	verifAssert(resolved, "C02: after a successful load every reference is resolved")
	if !resolved {
		return
	}
	got, ok := verifAsTree(val)
	verifAssert(ok && reflect.DeepEqual(got, want), "C02: the resolved object equals the object found by following the reference's URI and JSON pointer")
	if refPath != nil {
		gotURL := refPath.Path
		if refPath.Fragment != "" {
			gotURL += "#" + refPath.Fragment
		}
		verifAssert(gotURL == wantURL, "C02: RefPath is the location the reference designates")
	}
	verifReach("end")
}

//verif:harness id=C02 tier=quick,thorough witness=end bounds="reference cycles among schemas: self reference through properties/items/allOf/additionalProperties, mutual cycle A<->B within one file and across two files, chain of length 3; loading terminates and every schema reference on the cycle resolves to the component it names"
func verifH_C02_cycles() {
	via := []string{`{"type":"object","properties":{"next":{"$ref":"%s"}}}`, `{"type":"array","items":{"$ref":"%s"}}`, `{"allOf":[{"$ref":"%s"}]}`, `{"type":"object","additionalProperties":{"$ref":"%s"}}`}[verifChoose("via", 4)]
	mk := func(ref string) string { return strings.Replace(via, "%s", ref, 1) }
	shape := verifChoose("shape", 4)
	files := map[string]string{}
	var schemas string
	switch shape {
	case 0: // self
		schemas = `"A":` + mk("#/components/schemas/A")
	case 1: // mutual, same file
		schemas = `"A":` + mk("#/components/schemas/B") + `,"B":` + mk("#/components/schemas/A")
	case 2: // mutual across files
		schemas = `"A":` + mk("x.json#/components/schemas/B")
		files["/r/x.json"] = `{"components":{"schemas":{"B":` + mk("doc.json#/components/schemas/A") + `}}}`
	case 3: // chain of three
		schemas = `"A":` + mk("#/components/schemas/B") + `,"B":` + mk("#/components/schemas/C") + `,"C":{"type":"string"}`
	}
	rootText := `{"openapi":"3.0.0","info":{"title":"t","version":"1"},"paths":{},"components":{"schemas":{` + schemas + `}}}`
	rootLoc := &url.URL{Path: "/r/doc.json"}
	loader := NewLoader()
	loader.IsExternalRefsAllowed = true
	loader.ReadFromURIFunc = func(l *Loader, u *url.URL) ([]byte, error) {
		if u.Path == rootLoc.Path {
			return []byte(rootText), nil
		}
		if t, ok := files[u.Path]; ok {
			return []byte(t), nil
		}
		return nil, errors.New("no such file")
	}
	doc, err := loader.LoadFromDataWithPath([]byte(rootText), rootLoc)
	verifAssert(err == nil && doc != nil, "C02 cycles: a document with reference cycles loads")
	if err != nil || doc == nil {
		return
	}
	inner := func(s *Schema) *SchemaRef {
		switch {
		case s.Properties["next"] != nil:
			return s.Properties["next"]
		case s.Items != nil:
			return s.Items
		case len(s.AllOf) > 0:
			return s.AllOf[0]
		}
		return s.AdditionalProperties.Schema
	}
	a := doc.Components.Schemas["A"]
	verifAssert(a != nil && a.Value != nil, "C02 cycles: component A is present")
	r := inner(a.Value)
	verifAssert(r != nil && r.Value != nil, "C02 cycles: the reference on the cycle is resolved")
	if r == nil || r.Value == nil {
		return
	}
	switch shape {
	case 0:
		verifAssert(r.Value == a.Value, "C02 cycles: a self reference resolves to the schema itself")
	case 1:
		b := doc.Components.Schemas["B"]
		verifAssert(r.Value == b.Value && inner(b.Value).Value == a.Value, "C02 cycles: mutual references resolve to each other")
	case 2:
		back := inner(r.Value)
		verifAssert(back != nil && back.Value != nil, "C02 cycles: the reference back into the root document is resolved")
	case 3:
		b := doc.Components.Schemas["B"]
		verifAssert(r.Value == b.Value && inner(b.Value).Value == doc.Components.Schemas["C"].Value, "C02 cycles: chains resolve link by link")
	}
	verifReach("end")
}

//verif:harness id=C02 tier=quick,thorough witness=end bounds="an internal or external-fragment reference at each of 16 nested positions of an operation (parameter, parameter schema, parameter example, parameter content schema, request body, body schema, body example, encoding header, response, response header, header schema, header example, response content schema, response link, callback, callback operation's response); after a successful load the reference is resolved"
func verifH_C02_positions() {
	pos := verifChoose("position", 16)
	external := verifChoose("external", 2) == 1
	pre := "#"
	if external {
		pre = "x.json#"
	}
	ref := func(kind string) string { return `{"$ref":"` + pre + `/components/` + kind + `/T"}` }
	p := make([]string, 16)
	kinds := []string{"parameters", "schemas", "examples", "schemas", "requestBodies", "schemas", "examples", "headers", "responses", "headers", "schemas", "examples", "schemas", "links", "callbacks", "responses"}
	defaults := []string{`{"name":"q","in":"query","schema":{"type":"string"}}`, `{"type":"string"}`, `{"value":1}`, `{"type":"string"}`, `{"content":{"text/plain":{"schema":{"type":"string"}}}}`, `{"type":"string"}`, `{"value":1}`, `{"schema":{"type":"string"}}`, `{"description":"d"}`, `{"schema":{"type":"string"}}`, `{"type":"string"}`, `{"value":1}`, `{"type":"string"}`, `{"operationId":"op"}`, `{}`, `{"description":"d"}`}
	for i := range p {
		p[i] = defaults[i]
	}
	p[pos] = ref(kinds[pos])
	op := `{"operationId":"op","parameters":[` + p[0] + `,{"name":"a","in":"query","schema":` + p[1] + `,"examples":{"e":` + p[2] + `}},{"name":"c","in":"query","content":{"application/json":{"schema":` + p[3] + `}}}],`
	if pos == 4 {
		op += `"requestBody":` + p[4] + `,`
	} else {
		op += `"requestBody":{"content":{"multipart/form-data":{"schema":` + p[5] + `,"examples":{"e":` + p[6] + `},"encoding":{"f":{"headers":{"X-E":` + p[7] + `}}}}}},`
	}
	op += `"responses":{"200":` + p[8] + `,"201":{"description":"d","headers":{"X-H":` + p[9] + `,"X-S":{"schema":` + p[10] + `,"examples":{"e":` + p[11] + `}}},"content":{"application/json":{"schema":` + p[12] + `}},"links":{"l":` + p[13] + `}}},`
	op += `"callbacks":{"cb":` + p[14] + `,"cb2":{"{$request.body#/u}":{"post":{"responses":{"200":` + p[15] + `}}}}}}`
	var comps strings.Builder
	for i, k := range verifKinds {
		if i > 0 {
			comps.WriteString(",")
		}
		comps.WriteString(`"` + k + `":{"T":` + verifTargets[k] + `}`)
	}
	rootText := `{"openapi":"3.0.0","info":{"title":"t","version":"1"},"paths":{"/a":{"post":` + op + `}},"components":{` + comps.String() + `}}`
	files := verifFiles()
	rootLoc := &url.URL{Path: "/r/doc.json"}
	loader := NewLoader()
	loader.IsExternalRefsAllowed = true
	loader.ReadFromURIFunc = func(l *Loader, u *url.URL) ([]byte, error) {
		if t, ok := files[u.Path]; ok {
			return []byte(t), nil
		}
		return nil, errors.New("no such file")
	}
	doc, err := loader.LoadFromDataWithPath([]byte(rootText), rootLoc)
	verifAssert(err == nil && doc != nil, "C02 positions: the document loads")
	if err != nil || doc == nil {
		return
	}
	o := doc.Paths.Value("/a").Post
	resolved := false
	switch pos {
	case 0:
		resolved = o.Parameters[0].Value != nil
	case 1:
		resolved = o.Parameters[1].Value.Schema.Value != nil
	case 2:
		resolved = o.Parameters[1].Value.Examples["e"].Value != nil
	case 3:
		resolved = o.Parameters[2].Value.Content["application/json"].Schema.Value != nil
	case 4:
		resolved = o.RequestBody.Value != nil
	case 5:
		resolved = o.RequestBody.Value.Content["multipart/form-data"].Schema.Value != nil
	case 6:
		resolved = o.RequestBody.Value.Content["multipart/form-data"].Examples["e"].Value != nil
	case 7:
		resolved = o.RequestBody.Value.Content["multipart/form-data"].Encoding["f"].Headers["X-E"].Value != nil
	case 8:
		resolved = o.Responses.Value("200").Value != nil
	case 9:
		resolved = o.Responses.Value("201").Value.Headers["X-H"].Value != nil
	case 10:
		resolved = o.Responses.Value("201").Value.Headers["X-S"].Value.Schema.Value != nil
	case 11:
		resolved = o.Responses.Value("201").Value.Headers["X-S"].Value.Examples["e"].Value != nil
	case 12:
		resolved = o.Responses.Value("201").Value.Content["application/json"].Schema.Value != nil
	case 13:
		resolved = o.Responses.Value("201").Value.Links["l"].Value != nil
	case 14:
		resolved = o.Callbacks["cb"].Value != nil
	case 15:
		resolved = o.Callbacks["cb2"].Value.Value("{$request.body#/u}").Post.Responses.Value("200").Value != nil
	}

	verifAssert(resolved, "C02 positions: after a successful load every reference is resolved")
	verifReach("end")
}

// ---- references nested inside externally loaded objects ----

var verifNestedKinds = []string{"schemas", "parameters", "responses", "requestBodies", "headers"}

func verifNestedObject(kind, nestedRef string) string {
	r := `{"$ref":"` + nestedRef + `"}`
	switch kind {
	case "schemas":
		return `{"type":"object","properties":{"n":` + r + `}}`
	case "parameters":
		return `{"name":"p","in":"query","schema":` + r + `}`
	case "responses":
		return `{"description":"d","content":{"text/plain":{"schema":` + r + `}}}`
	case "requestBodies":
		return `{"content":{"text/plain":{"schema":` + r + `}}}`
	case "headers":
		return `{"schema":` + r + `}`
	}
	return ""
}

func verifNestedSchemaRef(doc *T, kind string) *SchemaRef {
	c := doc.Components
	switch kind {
	case "schemas":
		if r := c.Schemas["Slot"]; r != nil && r.Value != nil {
			return r.Value.Properties["n"]
		}
	case "parameters":
		if r := c.Parameters["Slot"]; r != nil && r.Value != nil {
			return r.Value.Schema
		}
	case "responses":
		if r := c.Responses["Slot"]; r != nil && r.Value != nil {
			if mt := r.Value.Content["text/plain"]; mt != nil {
				return mt.Schema
			}
		}
	case "requestBodies":
		if r := c.RequestBodies["Slot"]; r != nil && r.Value != nil {
			if mt := r.Value.Content["text/plain"]; mt != nil {
				return mt.Schema
			}
		}
	case "headers":
		if r := c.Headers["Slot"]; r != nil && r.Value != nil {
			return r.Value.Schema
		}
	}
	return nil
}

//verif:harness id=C02 tier=quick,thorough witness=end bounds="a reference nested inside an externally loaded object (schema property, parameter/header schema, response/request-body media type schema) x the object reached by whole-file reference or by fragment, in a sub-directory or next to the root x nested reference spelled relative to its own file (same directory, child directory, parent directory), with a same-named decoy file next to the root document x both entry points; the nested reference resolves against the file that contains it and no other file is read"
func verifH_C02_nested() { verifNestedRefs("C02") }

func verifNestedRefs(id string) {
	kind := verifNestedKinds[verifChoose("kind", len(verifNestedKinds))]
	type layout struct{ ref, containing, nested string }
	layouts := []layout{
		{"d/w_" + kind + ".json", "/r/d/w.json", "s.json"},               // sub-directory, sibling file
		{"w_" + kind + ".json", "/r/w.json", "d/s.json"},                 // next to root, child directory
		{"d/w_" + kind + ".json", "/r/d/w.json", "../s.json"},            // sub-directory, parent directory
		{"d/c.json#/components/" + kind + "/N", "/r/d/c.json", "s.json"}, // by fragment
		{"d/e/w_" + kind + ".json", "/r/d/e/w.json", "../s.json"},        // two levels down, one up
	}
	li := verifChoose("layout", len(layouts))
	l := layouts[li]
	files := map[string]string{
		"/r/s.json":     `{"type":"boolean"}`,
		"/r/d/s.json":   `{"type":"integer","minimum":7}`,
		"/s.json":       `{"type":"number"}`,
		"/r/d/e/s.json": `{"type":"array"}`,
	}
	obj := verifNestedObject(kind, l.nested)
	containing := ""
	switch li {
	case 3:
		containing = "/r/d/c.json"
		files[containing] = `{"components":{"` + kind + `":{"N":` + obj + `}}}`
	default:
		containing = path.Join("/r", l.ref)
		files[containing] = obj
	}
	rootText := verifSlotDoc(kind, l.ref)
	rootLoc := &url.URL{Path: "/r/doc.json"}
	var reads []string
	loader := NewLoader()
	loader.IsExternalRefsAllowed = true
	loader.ReadFromURIFunc = func(_ *Loader, u *url.URL) ([]byte, error) {
		reads = append(reads, u.Path)
		if u.Path == rootLoc.Path {
			return []byte(rootText), nil
		}
		if t, ok := files[u.Path]; ok {
			return []byte(t), nil
		}
		return nil, errors.New("no such file")
	}
	var doc *T
	var err error
	if verifChoose("entry", 2) == 0 {
		doc, err = loader.LoadFromDataWithPath([]byte(rootText), rootLoc)
	} else {
		doc, err = loader.LoadFromURI(rootLoc)
	}
	verifAssert(err == nil && doc != nil, id+" nested: a document whose references all have targets loads")
	if err != nil || doc == nil {
		return
	}
	wantLoc := path.Join(path.Dir(containing), l.nested)
	var want any
	_ = json.Unmarshal([]byte(files[wantLoc]), &want)
	nested := verifNestedSchemaRef(doc, kind)
	verifAssert(nested != nil && nested.Value != nil, id+" nested: the nested reference is resolved")
	if nested == nil || nested.Value == nil {
		return
	}
	got, ok := verifAsTree(nested.Value)
	verifAssert(ok && reflect.DeepEqual(got, want), id+" nested: a reference inside an external object resolves against the file that contains it")
	for _, r := range reads {
		verifAssert(r == rootLoc.Path || r == containing || r == wantLoc, id+" nested: only the files the references designate are read")
	}
	verifReach("end")
}

//verif:harness id=C02 tier=quick,thorough witness=end bounds="the same reference text in two documents: the root and an external file each have a schema UseB whose property refers to '#/components/schemas/B' (its own file's B, different in the two files), through properties / items / allOf; the root refers to the external UseB from a component sorting before or after its own UseB, or from an operation; each reference resolves to the B of the file that contains it"
func verifH_C02_same_fragment() {
	via := []string{`{"type":"object","properties":{"n":%s}}`, `{"type":"array","items":%s}`, `{"allOf":[%s]}`}[verifChoose("via", 3)]
	use := strings.Replace(via, "%s", `{"$ref":"#/components/schemas/B"}`, 1)
	files := map[string]string{
		"/r/x2.json": `{"components":{"schemas":{"B":{"type":"string","minLength":6},"UseB":` + use + `}}}`,
	}
	extName := []string{"AExt", "ZExt"}[verifChoose("order", 2)]
	paths := `{}`
	comps := `"B":{"type":"integer"},"UseB":` + use
	if verifChoose("from", 2) == 0 {
		comps += `,"` + extName + `":{"$ref":"x2.json#/components/schemas/UseB"}`
	} else {
		paths = `{"/a":{"get":{"operationId":"op","responses":{"200":{"description":"d","content":{"application/json":{"schema":{"$ref":"x2.json#/components/schemas/UseB"}}}}}}}}`
	}
	rootText := `{"openapi":"3.0.0","info":{"title":"t","version":"1"},"paths":` + paths + `,"components":{"schemas":{` + comps + `}}}`
	rootLoc := &url.URL{Path: "/r/doc.json"}
	loader := NewLoader()
	loader.IsExternalRefsAllowed = true
	loader.ReadFromURIFunc = func(_ *Loader, u *url.URL) ([]byte, error) {
		if u.Path == rootLoc.Path {
			return []byte(rootText), nil
		}
		if t, ok := files[u.Path]; ok {
			return []byte(t), nil
		}
		return nil, errors.New("no such file")
	}
	doc, err := loader.LoadFromDataWithPath([]byte(rootText), rootLoc)
	verifAssert(err == nil && doc != nil, "C02 same fragment: the document loads")
	if err != nil || doc == nil {
		return
	}
	inner := func(r *SchemaRef) *SchemaRef {
		if r == nil || r.Value == nil {
			return nil
		}
		switch {
		case r.Value.Properties["n"] != nil:
			return r.Value.Properties["n"]
		case r.Value.Items != nil:
			return r.Value.Items
		case len(r.Value.AllOf) == 1:
			return r.Value.AllOf[0]
		}
		return nil
	}
	own := inner(doc.Components.Schemas["UseB"])
	verifAssert(own != nil && own.Value != nil && own.Value.Type.Is("integer"), "C02 same fragment: the root's own reference resolves to the root's B")
	var ext *SchemaRef
	if r := doc.Components.Schemas[extName]; r != nil {
		ext = inner(r)
	} else if pi := doc.Paths.Value("/a"); pi != nil {
		ext = inner(pi.Get.Responses.Value("200").Value.Content["application/json"].Schema)
	}
	verifAssert(ext != nil && ext.Value != nil && ext.Value.Type.Is("string") && ext.Value.MinLength == 6, "C02 same fragment: the reference inside the external file resolves to that file's B")
	verifReach("end")
}

//verif:harness id=C02 tier=quick,thorough witness=end bounds="path item references: paths./a is a reference to a whole external file, to a fragment of an external file's paths (with the ~1 escape), to a path item in a sub-directory whose operation refers to a schema file next to it, or to another path item of the same document, or through a chain of two or three path item references (within the document, or into a file whose path item refers on) x both entry points; after loading the path item has the target's operations and their nested references are resolved against the target's file"
func verifH_C02_path_items() {
	files := map[string]string{
		"/r/pi.json":    `{"get":{"operationId":"fromFile","responses":{"200":{"description":"d"}}}}`,
		"/r/x3.json":    `{"paths":{"/p":{"get":{"operationId":"fromFragment","responses":{"200":{"description":"d"}}}}}}`,
		"/r/d/pi2.json": `{"get":{"operationId":"fromDir","responses":{"200":{"description":"d","content":{"application/json":{"schema":{"$ref":"s.json"}}}}}}}`,
		"/r/d/s.json":   `{"type":"integer","minimum":7}`,
		"/r/s.json":     `{"type":"boolean"}`,
	}
	shape := verifChoose("shape", 7)
	// 4-6: chains of path item references (through a path that sorts later, through two, through another file's path item that refers on)
	files["/r/x4.json"] = `{"paths":{"/q":{"$ref":"x3.json#/paths/~1p"}}}`
	ref := []string{"pi.json", "x3.json#/paths/~1p", "d/pi2.json", "#/paths/~1other", "#/paths/~1b", "#/paths/~1c", "x4.json#/paths/~1q"}[shape]
	wantID := []string{"fromFile", "fromFragment", "fromDir", "other", "other", "other", "fromFragment"}[shape]
	rootText := `{"openapi":"3.0.0","info":{"title":"t","version":"1"},"paths":{"/a":{"$ref":"` + ref + `"},"/b":{"$ref":"#/paths/~1other"},"/c":{"$ref":"#/paths/~1b"},"/other":{"get":{"operationId":"other","responses":{"200":{"description":"d"}}}}}}`
	rootLoc := &url.URL{Path: "/r/doc.json"}
	loader := NewLoader()
	loader.IsExternalRefsAllowed = true
	loader.ReadFromURIFunc = func(_ *Loader, u *url.URL) ([]byte, error) {
		if u.Path == rootLoc.Path {
			return []byte(rootText), nil
		}
		if t, ok := files[u.Path]; ok {
			return []byte(t), nil
		}
		return nil, errors.New("no such file")
	}
	var doc *T
	var err error
	if verifChoose("entry", 2) == 0 {
		doc, err = loader.LoadFromDataWithPath([]byte(rootText), rootLoc)
	} else {
		doc, err = loader.LoadFromURI(rootLoc)
	}
	verifAssert(err == nil && doc != nil, "C02 path items: a document whose path item reference has a target loads")
	if err != nil || doc == nil {
		return
	}
	pi := doc.Paths.Value("/a")
	verifAssert(pi != nil && pi.Get != nil && pi.Get.OperationID == wantID, "C02 path items: the path item has the operations of the object the reference designates")
	if shape == 2 && pi != nil && pi.Get != nil {
		r := pi.Get.Responses.Value("200")
		ok := r != nil && r.Value != nil && r.Value.Content["application/json"] != nil && r.Value.Content["application/json"].Schema != nil && r.Value.Content["application/json"].Schema.Value != nil
		verifAssert(ok && r.Value.Content["application/json"].Schema.Value.Type.Is("integer"), "C02 path items: a reference inside an external path item resolves against the path item's file")
	}
	verifReach("end")
}

//verif:harness id=C02 tier=quick,thorough witness=end bounds="the same reference text in two documents while one of them is being resolved: root B -> '#/components/schemas/A' (root's A, an object whose property refers to x2.json#/components/schemas/UseA), and x2.json's UseA refers to '#/components/schemas/A' (x2's own A); entry through the component B, through A directly, or through an operation; each reference resolves to the A of the file that contains it"
func verifH_C02_same_fragment_in_progress() {
	files := map[string]string{
		"/r/x2.json": `{"components":{"schemas":{"A":{"type":"string","minLength":6},"UseA":{"type":"object","properties":{"n":{"$ref":"#/components/schemas/A"}}}}}}`,
	}
	comps := `"A":{"type":"object","properties":{"x":{"$ref":"x2.json#/components/schemas/UseA"}}}`
	paths := `{}`
	switch verifChoose("entry", 3) {
	case 0:
		comps += `,"B":{"$ref":"#/components/schemas/A"}`
	case 1:
		comps = `"0B":{"$ref":"#/components/schemas/A"},` + comps // B sorts before A
	case 2:
		paths = `{"/a":{"get":{"operationId":"op","responses":{"200":{"description":"d","content":{"application/json":{"schema":{"$ref":"#/components/schemas/A"}}}}}}}}`
	}
	rootText := `{"openapi":"3.0.0","info":{"title":"t","version":"1"},"paths":` + paths + `,"components":{"schemas":{` + comps + `}}}`
	rootLoc := &url.URL{Path: "/r/doc.json"}
	loader := NewLoader()
	loader.IsExternalRefsAllowed = true
	loader.ReadFromURIFunc = func(_ *Loader, u *url.URL) ([]byte, error) {
		if u.Path == rootLoc.Path {
			return []byte(rootText), nil
		}
		if t, ok := files[u.Path]; ok {
			return []byte(t), nil
		}
		return nil, errors.New("no such file")
	}
	doc, err := loader.LoadFromDataWithPath([]byte(rootText), rootLoc)
	verifAssert(err == nil && doc != nil, "C02 in progress: the document loads")
	if err != nil || doc == nil {
		return
	}
	a := doc.Components.Schemas["A"]
	ok := a != nil && a.Value != nil && a.Value.Properties["x"] != nil && a.Value.Properties["x"].Value != nil
	verifAssert(ok, "C02 in progress: the root's A and its external property are resolved")
	if !ok {
		return
	}
	n := a.Value.Properties["x"].Value.Properties["n"]
	verifKnown("C02-in-progress-set-keyed-by-text", true)
	verifAssert(n != nil && n.Value != nil && n.Value.Type.Is("string") && n.Value.MinLength == 6, "C02 in progress: the reference inside the external file resolves to that file's own A, not to the root's A that is being resolved")
	verifKnown("C02-in-progress-set-keyed-by-text", false)
	verifReach("end")
}

//verif:harness id=C02 tier=quick,thorough witness=end bounds="a reference at every schema keyword position (not, allOf, oneOf, anyOf, items, properties, additionalProperties, and one level deeper below properties) x internal / external fragment / whole external file: after loading it resolves to the object it designates"
func verifH_C02_schema_keywords() {
	targets := []string{"#/components/schemas/T", "x.json#/components/schemas/T", "whole_schemas.json"}
	r := `{"$ref":"` + targets[verifChoose("target", 3)] + `"}`
	pos := verifChoose("position", 8)
	var s string
	switch pos {
	case 0:
		s = `{"not":` + r + `}`
	case 1:
		s = `{"allOf":[{"type":"string"},` + r + `]}`
	case 2:
		s = `{"oneOf":[` + r + `]}`
	case 3:
		s = `{"anyOf":[` + r + `,{"type":"integer"}]}`
	case 4:
		s = `{"type":"array","items":` + r + `}`
	case 5:
		s = `{"type":"object","properties":{"p":` + r + `}}`
	case 6:
		s = `{"type":"object","additionalProperties":` + r + `}`
	case 7:
		s = `{"type":"object","properties":{"q":{"not":{"type":"array","items":` + r + `}}}}`
	}
	rootText := `{"openapi":"3.0.0","info":{"title":"t","version":"1"},"paths":{},"components":{"schemas":{"S":` + s + `,"T":` + verifTargets["schemas"] + `}}}`
	files := verifFiles()
	rootLoc := &url.URL{Path: "/r/doc.json"}
	loader := NewLoader()
	loader.IsExternalRefsAllowed = true
	loader.ReadFromURIFunc = func(_ *Loader, u *url.URL) ([]byte, error) {
		if u.Path == rootLoc.Path {
			return []byte(rootText), nil
		}
		if t, ok := files[u.Path]; ok {
			return []byte(t), nil
		}
		return nil, errors.New("no such file")
	}
	doc, err := loader.LoadFromDataWithPath([]byte(rootText), rootLoc)
	verifAssert(err == nil && doc != nil, "C02 keywords: the document loads")
	if err != nil || doc == nil {
		return
	}
	v := doc.Components.Schemas["S"].Value
	var at *SchemaRef
	switch pos {
	case 0:
		at = v.Not
	case 1:
		at = v.AllOf[1]
	case 2:
		at = v.OneOf[0]
	case 3:
		at = v.AnyOf[0]
	case 4:
		at = v.Items
	case 5:
		at = v.Properties["p"]
	case 6:
		at = v.AdditionalProperties.Schema
	case 7:
		at = v.Properties["q"].Value.Not.Value.Items
	}
	verifAssert(at != nil && at.Value != nil && at.Value.Type.Is("string") && at.Value.MinLength == 3, "C02 keywords: a reference below a schema keyword resolves to the object it designates")
	verifReach("end")
}

//verif:harness id=C02 tier=quick,thorough witness=end bounds="references whose JSON pointer goes into an object: 14 fragments that exist and 11 whose array token is not an index of the array (signed spellings +0 -0 +1 -1, fractions, hexadecimal, beyond the end: loading fails), the existing ones being (the first / last / only member of allOf, oneOf, anyOf and of a parameter list, properties/p, items, properties/p/items, additionalProperties, a parameter's schema, a response's and a request body's media type schema, a schema below an operation of a path) x in the root document or in an external file: the reference resolves to the schema found there (each target carries its own minLength)"
func verifH_C02_deep_fragments() {
	mk := func(n int) string { return `{"type":"string","minLength":` + strconv.Itoa(n) + `}` }
	body := `"paths":{"/a":{"get":{"parameters":[{"name":"p0","in":"query","schema":` + mk(20) + `},{"name":"p1","in":"query","schema":` + mk(21) + `}],"responses":{"200":{"description":"d","content":{"application/json":{"schema":` + mk(22) + `}}}}}}},` +
		`"components":{"schemas":{"D":{"allOf":[` + mk(1) + `,` + mk(2) + `],"oneOf":[` + mk(3) + `],"anyOf":[` + mk(4) + `,` + mk(5) + `,` + mk(6) + `],"properties":{"p":{"type":"array","items":` + mk(7) + `}},"items":` + mk(8) + `,"additionalProperties":` + mk(9) + `}},` +
		`"parameters":{"P":{"name":"p","in":"query","schema":` + mk(10) + `}},` +
		`"responses":{"R":{"description":"d","content":{"application/json":{"schema":` + mk(11) + `}}}},` +
		`"requestBodies":{"B":{"content":{"application/json":{"schema":` + mk(12) + `}}}}}`
	frags := []struct {
		frag string
		want uint64
	}{
		{"/components/schemas/D/allOf/0", 1}, {"/components/schemas/D/allOf/1", 2}, {"/components/schemas/D/oneOf/0", 3},
		{"/components/schemas/D/anyOf/1", 5}, {"/components/schemas/D/anyOf/2", 6},
		{"/components/schemas/D/properties/p/items", 7}, {"/components/schemas/D/items", 8}, {"/components/schemas/D/additionalProperties", 9},
		{"/components/parameters/P/schema", 10}, {"/components/responses/R/content/application~1json/schema", 11},
		{"/components/requestBodies/B/content/application~1json/schema", 12},
		{"/paths/~1a/get/parameters/0/schema", 20}, {"/paths/~1a/get/parameters/1/schema", 21},
		{"/paths/~1a/get/responses/200/content/application~1json/schema", 22},
		// tokens that are not array indexes (want 0: loading must fail): signed spellings, fractions, beyond the end
		{"/components/schemas/D/allOf/+0", 0}, {"/components/schemas/D/allOf/-0", 0}, {"/components/schemas/D/anyOf/+1", 0}, {"/components/schemas/D/anyOf/-1", 0},
		{"/components/schemas/D/anyOf/3", 0}, {"/components/schemas/D/anyOf/1.0", 0}, {"/components/schemas/D/anyOf/1e0", 0}, {"/components/schemas/D/anyOf/0x1", 0},
		{"/paths/~1a/get/parameters/+1/schema", 0}, {"/paths/~1a/get/parameters/-0/schema", 0}, {"/paths/~1a/get/parameters/2/schema", 0},
		// leading zeros are not an index either (RFC 6901)
		{"/components/schemas/D/anyOf/01", 0}, {"/components/schemas/D/allOf/00", 0}, {"/paths/~1a/get/parameters/01/schema", 0},
	}
	f := frags[verifChoose("fragment", len(frags))]
	external := verifChoose("external", 2) == 1
	ref := "#" + f.frag
	if external {
		ref = "deep.json#" + f.frag
	}
	deepText := `{"openapi":"3.0.0","info":{"title":"t","version":"1"},` + body + `}`
	rootText := deepText
	if external {
		rootText = `{"openapi":"3.0.0","info":{"title":"t","version":"1"},"paths":{},"components":{"schemas":{"User":{"$ref":"` + ref + `"}}}}`
	} else {
		rootText = `{"openapi":"3.0.0","info":{"title":"t","version":"1"},` + strings.Replace(body, `"components":{"schemas":{`, `"components":{"schemas":{"User":{"$ref":"`+ref+`"},`, 1) + `}`
	}
	rootLoc := &url.URL{Path: "/r/doc.json"}
	loader := NewLoader()
	loader.IsExternalRefsAllowed = true
	loader.ReadFromURIFunc = func(_ *Loader, u *url.URL) ([]byte, error) {
		switch u.Path {
		case rootLoc.Path:
			return []byte(rootText), nil
		case "/r/deep.json":
			return []byte(deepText), nil
		}
		return nil, errors.New("no such file")
	}
	doc, err := loader.LoadFromDataWithPath([]byte(rootText), rootLoc)
	if f.want == 0 {
		verifAssert(err != nil && doc == nil, "C02 deep fragments: a pointer token that is not an index of the array makes loading fail")
		verifReach("end")
		return
	}
	verifAssert(err == nil && doc != nil, "C02 deep fragments: a reference into an existing object loads")
	if err != nil || doc == nil {
		return
	}
	u := doc.Components.Schemas["User"]
	verifAssert(u != nil && u.Value != nil && u.Value.Type.Is("string") && u.Value.MinLength == f.want, "C02 deep fragments: the reference resolves to the schema its JSON pointer designates")
	verifReach("end")
}

//verif:harness id=C02 tier=quick,thorough witness=end bounds="one Loader used twice: a first document that loads, or fails on a dangling reference, or fails on a reference to the wrong kind of object, then a second, valid document using the same reference text (at a schema, a parameter and a response position); each load through LoadFromData / LoadFromDataWithPath / LoadFromURI: the second load resolves every reference whatever happened before"
func verifH_C02_loader_reuse() {
	doc := func(comps string) string {
		return `{"openapi":"3.0.0","info":{"title":"t","version":"1"},"paths":{"/a":{"get":{"parameters":[{"$ref":"#/components/parameters/P"}],"responses":{"200":{"$ref":"#/components/responses/R"}}}}},"components":{` + comps + `}}`
	}
	good := doc(`"schemas":{"Thing":{"type":"string","minLength":3},"User":{"$ref":"#/components/schemas/Thing"}},"parameters":{"P":{"name":"p","in":"query","schema":{"$ref":"#/components/schemas/Thing"}}},"responses":{"R":{"description":"d"}}`)
	first := []string{
		good,
		doc(`"schemas":{"User":{"$ref":"#/components/schemas/Thing"}},"parameters":{"P":{"name":"p","in":"query","schema":{"$ref":"#/components/schemas/Thing"}}},"responses":{"R":{"description":"d"}}`),                          // dangling schema
		doc(`"schemas":{"Thing":{"type":"string"},"User":{"$ref":"#/components/schemas/Thing"}},"parameters":{"P":{"name":"p","in":"query","schema":{"$ref":"#/components/schemas/Thing"}}}`),                                      // dangling response
		doc(`"schemas":{"Thing":{"type":"string"},"User":{"$ref":"#/components/parameters/P"}},"parameters":{"P":{"name":"p","in":"query","schema":{"$ref":"#/components/schemas/Thing"}}},"responses":{"R":{"description":"d"}}`), // wrong kind
	}[verifChoose("first", 4)]
	loader := NewLoader()
	loader.IsExternalRefsAllowed = true
	texts := map[string]string{}
	loader.ReadFromURIFunc = func(_ *Loader, u *url.URL) ([]byte, error) {
		if t, ok := texts[u.Path]; ok {
			return []byte(t), nil
		}
		return nil, errors.New("no such file")
	}
	load := func(which int, text, path string) (*T, error) {
		texts[path] = text
		switch which {
		case 0:
			return loader.LoadFromData([]byte(text))
		case 1:
			return loader.LoadFromDataWithPath([]byte(text), &url.URL{Path: path})
		}
		return loader.LoadFromURI(&url.URL{Path: path})
	}
	_, _ = load(verifChoose("entry1", 3), first, "/r/one.json")
	d2, err := load(verifChoose("entry2", 3), good, "/s/two.json")
	verifAssert(err == nil && d2 != nil, "C02 loader reuse: a valid document loads on a loader that was used before")
	if err != nil || d2 == nil {
		return
	}
	u := d2.Components.Schemas["User"]
	p := d2.Paths.Value("/a").Get.Parameters[0]
	r := d2.Paths.Value("/a").Get.Responses.Value("200")
	verifAssert(u != nil && u.Value != nil && u.Value.MinLength == 3 && p != nil && p.Value != nil && p.Value.Schema != nil && p.Value.Schema.Value != nil && p.Value.Schema.Value.MinLength == 3 && r != nil && r.Value != nil, "C02 loader reuse: every reference of the second document is resolved, whatever the first load left behind")
	verifReach("end")
}

//verif:harness id=C02 tier=quick,thorough witness=end bounds="a schema reference inside the content of an object defined by content: a parameter, a response header, a component header, an encoding header x internal / external-fragment reference: after a successful load the reference is resolved to the target schema"
func verifH_C02_content_positions() {
	pos := verifChoose("position", 4)
	ref := `{"$ref":"#/components/schemas/T"}`
	if verifChoose("external", 2) == 1 {
		ref = `{"$ref":"x.json#/components/schemas/T"}`
	}
	byContent := `{"content":{"application/json":{"schema":` + ref + `}}}`
	plain := `{"schema":{"type":"integer"}}`
	hs := []string{plain, plain, plain}
	param := `{"name":"q","in":"query","schema":{"type":"integer"}}`
	switch pos {
	case 0:
		param = `{"name":"q","in":"query","content":{"application/json":{"schema":` + ref + `}}}`
	default:
		hs[pos-1] = byContent
	}
	rootText := `{"openapi":"3.0.0","info":{"title":"t","version":"1"},"paths":{"/a":{"post":{"operationId":"op","parameters":[` + param + `],` +
		`"requestBody":{"content":{"multipart/form-data":{"schema":{"type":"object"},"encoding":{"f":{"headers":{"X-E":` + hs[2] + `}}}}}},` +
		`"responses":{"200":{"description":"d","headers":{"X-R":` + hs[0] + `}}}}}},` +
		`"components":{"schemas":{"T":` + verifTargets["schemas"] + `},"headers":{"CH":` + hs[1] + `}}}`
	files := verifFiles()
	rootLoc := &url.URL{Path: "/r/doc.json"}
	loader := NewLoader()
	loader.IsExternalRefsAllowed = true
	loader.ReadFromURIFunc = func(l *Loader, u *url.URL) ([]byte, error) {
		if t, ok := files[u.Path]; ok {
			return []byte(t), nil
		}
		return nil, errors.New("no such file")
	}
	doc, err := loader.LoadFromDataWithPath([]byte(rootText), rootLoc)
	verifAssert(err == nil && doc != nil, "C02 content positions: the document loads")
	if err != nil || doc == nil {
		return
	}
	o := doc.Paths.Value("/a").Post
	var c Content
	switch pos {
	case 0:
		c = o.Parameters[0].Value.Content
	case 1:
		c = o.Responses.Value("200").Value.Headers["X-R"].Value.Content
	case 2:
		c = doc.Components.Headers["CH"].Value.Content
	case 3:
		c = o.RequestBody.Value.Content["multipart/form-data"].Encoding["f"].Headers["X-E"].Value.Content
	}
	mt := c["application/json"]
	// encoding headers are not visited by the loader at all (known finding)

	verifAssert(mt != nil && mt.Schema != nil && mt.Schema.Value != nil && mt.Schema.Value.Type.Is("string") && mt.Schema.Value.MinLength == 3, "C02 content positions: a schema reference inside content is resolved to the schema it designates")

	verifReach("end")
}
