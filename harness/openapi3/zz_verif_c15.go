package openapi3

// C15 — a loaded document can be shared by concurrent validations.
// Schedules are not enumerated: the property is reduced to a per-call
// footprint claim. After verifSharedBegin every object reachable from the
// package variables and from the declared roots is shared; the engine reports
// any write to a shared object that is not made inside sync.Map / sync.Once /
// under a held mutex. If every call only reads shared state, any
// interleaving of such calls is race-free and each call's result is a
// function of its own inputs.

//verif:harness id=C15 tier=quick,thorough witness=end bounds="VisitJSON on shared schemas: string with pattern (first use compiles and caches it), array with uniqueItems, object with defaults and oneOf branches (request mode with DefaultsSet), object/array-valued defaults with nested defaults, number with format; values symbolic as in C01/C13; footprint monitor on every path"
func verifH_C15_visit() {
	var s *Schema
	var v any
	opts := []SchemaValidationOption{}
	switch verifChoose("family", 5) {
	case 0:
		s = &Schema{Type: &Types{"string"}, Pattern: "^[a-c]+$", Format: "date"}
		v = verifASCII("v", 2)
	case 1:
		s = &Schema{Type: &Types{"array"}, UniqueItems: true, Items: &SchemaRef{Value: &Schema{Type: &Types{"number"}}}}
		v = []any{verifFiniteFloat("a"), verifFiniteFloat("b")}
	case 2:
		d := verifFiniteFloat("d")
		branch := func(t string) *SchemaRef {
			return &SchemaRef{Value: &Schema{Type: &Types{"object"}, Properties: Schemas{"k": {Value: &Schema{Type: &Types{t}}}, "f": {Value: &Schema{Type: &Types{"number"}, Default: d}}}}}
		}
		s = &Schema{OneOf: SchemaRefs{branch("number"), branch("string")}}
		o := map[string]any{}
		if verifChoose("kkind", 2) == 0 {
			o["k"] = verifFiniteFloat("k")
		} else {
			o["k"] = verifASCII("ks", 1)
		}
		v = o
		opts = append(opts, VisitAsRequest(), DefaultsSet(func() {}))
	case 3:
		m := verifFiniteFloat("min")
		s = &Schema{Type: &Types{"integer"}, Format: "int32", Min: &m}
		v = verifFiniteFloat("n")
	case 4:
		// an object-valued (or array-valued) default whose own schema has a nested default: the
		// default belongs to the shared document and must be copied into the value, not aliased
		d := verifFiniteFloat("d")
		var dflt any = map[string]any{}
		inner := &Schema{Type: &Types{"object"}, Properties: Schemas{"n": {Value: &Schema{Type: &Types{"number"}, Default: d}}}}
		if verifChoose("arr", 2) == 1 {
			dflt = []any{map[string]any{}}
			inner = &Schema{Type: &Types{"array"}, Items: &SchemaRef{Value: inner}}
		}
		inner.Default = dflt
		s = &Schema{Type: &Types{"object"}, Properties: Schemas{"cfg": {Value: inner}}}
		v = map[string]any{}
		opts = append(opts, VisitAsRequest(), DefaultsSet(func() {}))
	}
	if verifChoose("multi", 2) == 1 {
		opts = append(opts, MultiErrors())
	}
	verifSharedBegin(s)
	_ = s.VisitJSON(v, opts...)
	_ = s.VisitJSON(v, opts...) // a second call on the same shared schema (cached pattern path)
	verifSharedEnd()
	verifReach("end")
}
