package openapi3

// C15 — a loaded document can be shared by concurrent validations.
// Schedules are not enumerated: the property is reduced to a per-call
// footprint claim. After verifSharedBegin every object reachable from the
// package variables and from the declared roots is shared; the engine reports
// any write to a shared object that is not made inside sync.Map / sync.Once /
// under a held mutex. If every call only reads shared state, any
// interleaving of such calls is race-free and each call's result is a
// function of its own inputs.

import "regexp"

//verif:harness id=C15 tier=quick,thorough witness=end bounds="VisitJSON on shared schemas: string with pattern (first use compiles and caches it), array with uniqueItems, object with a required list (a read-only name first), defaults and oneOf branches (request mode with DefaultsSet), object/array-valued defaults with nested defaults, number with format; values symbolic as in C01/C13; footprint monitor on every path"
func verifH_C15_visit() {
	var s *Schema
	var v any
	opts := []SchemaValidationOption{}
	switch verifChoose("family", 5) {
	case 0:
		s = &Schema{Type: &Types{"string"}, Pattern: "^[a-c]+$", Format: "date"}
		v = verifASCII("v", 2)
	case 1:
		s = &Schema{Type: &Types{"array"}, UniqueItems: true, Items: &SchemaRef{Value: &Schema{Type: &Types{"number"}}}}
		v = []any{verifFiniteFloat("a"), verifFiniteFloat("b")}
	case 2:
		d := verifFiniteFloat("d")
		branch := func(t string) *SchemaRef {
			return &SchemaRef{Value: &Schema{Type: &Types{"object"}, Required: []string{"ro", "k"}, Properties: Schemas{"k": {Value: &Schema{Type: &Types{t}}}, "f": {Value: &Schema{Type: &Types{"number"}, Default: d}}, "ro": {Value: &Schema{Type: &Types{"string"}, ReadOnly: true}}}}}
		}
		s = &Schema{OneOf: SchemaRefs{branch("number"), branch("string")}}
		o := map[string]any{}
		if verifChoose("kkind", 2) == 0 {
			o["k"] = verifFiniteFloat("k")
		} else {
			o["k"] = verifASCII("ks", 1)
		}
		v = o
		opts = append(opts, VisitAsRequest(), DefaultsSet(func() {}))
	case 3:
		m := verifFiniteFloat("min")
		s = &Schema{Type: &Types{"integer"}, Format: "int32", Min: &m}
		v = verifFiniteFloat("n")
	case 4:
		// an object-valued (or array-valued) default whose own schema has a nested default: the
		// default belongs to the shared document and must be copied into the value, not aliased
		d := verifFiniteFloat("d")
		var dflt any = map[string]any{}
		inner := &Schema{Type: &Types{"object"}, Properties: Schemas{"n": {Value: &Schema{Type: &Types{"number"}, Default: d}}}}
		if verifChoose("arr", 2) == 1 {
			dflt = []any{map[string]any{}}
			inner = &Schema{Type: &Types{"array"}, Items: &SchemaRef{Value: inner}}
		}
		inner.Default = dflt
		s = &Schema{Type: &Types{"object"}, Properties: Schemas{"cfg": {Value: inner}}}
		v = map[string]any{}
		opts = append(opts, VisitAsRequest(), DefaultsSet(func() {}))
	}
	if verifChoose("multi", 2) == 1 {
		opts = append(opts, MultiErrors())
	}
	verifSharedBegin(s)
	_ = s.VisitJSON(v, opts...)
	_ = s.VisitJSON(v, opts...) // a second call on the same shared schema (cached pattern path)
	verifSharedEnd()
	verifReach("end")
}

// verifFoldMatcher is a per-call regular-expression engine with other semantics
// than the default one: it matches case-insensitively.
type verifFoldMatcher struct{ lower RegexMatcher }

func (m verifFoldMatcher) MatchString(s string) bool {
	b := []byte(s)
	for i := range b {
		if b[i] >= 'A' && b[i] <= 'Z' {
			b[i] += 'a' - 'A'
		}
	}
	return m.lower.MatchString(string(b))
}

//verif:harness id=C15 tier=quick,thorough witness=end bounds="the verdict of a call is the one it has when run alone: two schemas with the same pattern text (as in two documents), three calls in an order chosen by the explorer, each either with the default regular-expression engine or with a per-call RegexCompiler of other semantics (case-insensitive); values from {ab, AB, zz}: every call's verdict is what its own engine says, whatever ran before it"
func verifH_C15_verdict_alone() {
	s1 := &Schema{Type: &Types{"string"}, Pattern: "^[a-c]+$"}
	s2 := &Schema{Type: &Types{"string"}, Pattern: "^[a-c]+$"}
	fold := func(expr string) (RegexMatcher, error) {
		var m RegexMatcher
		var err error
		m, err = verifCompileDefault(expr)
		if err != nil {
			return nil, err
		}
		return verifFoldMatcher{m}, nil
	}
	values := []string{"ab", "AB", "zz"}
	wantDefault := []bool{true, false, false}
	wantFold := []bool{true, true, false}
	verifSharedBegin(s1, s2)
	for call := 0; call < 3; call++ {
		s := s1
		if verifChoose("schema", 2) == 1 {
			s = s2
		}
		vi := verifChoose("value", 3)
		if verifChoose("engine", 2) == 0 {
			err := s.VisitJSON(values[vi])
			verifAssert((err == nil) == wantDefault[vi], "C15 verdict alone: a call with the default engine gets the default engine's verdict whatever ran before")
		} else {
			err := s.VisitJSON(values[vi], SetSchemaRegexCompiler(fold))
			verifAssert((err == nil) == wantFold[vi], "C15 verdict alone: a call with its own regular-expression compiler gets that engine's verdict whatever ran before")
		}
	}
	verifSharedEnd()
	verifReach("end")
}

func verifCompileDefault(expr string) (RegexMatcher, error) {
	return regexp.Compile(expr)
}
