package openapi3

// C12 under the options that select what is validated (direction, read-only / write-only
// switches, format validation, pattern validation): they may change the verdict, but for one
// setting of them the verdict is the same in every mode.

import "errors"

func verifModesWith(s *Schema, v any, what string, base ...SchemaValidationOption) {
	with := func(extra ...SchemaValidationOption) []SchemaValidationOption {
		return append(append([]SchemaValidationOption{}, base...), extra...)
	}
	eDefault := s.VisitJSON(v, base...)
	eFast := s.VisitJSON(v, with(FailFast())...)
	eMulti := s.VisitJSON(v, with(MultiErrors())...)
	eCustom := s.VisitJSON(v, with(SetSchemaErrorMessageCustomizer(func(err *SchemaError) string { return "custom" }))...)
	// mode options given before the others
	eFastFirst := s.VisitJSON(v, append([]SchemaValidationOption{FailFast()}, base...)...)
	eMultiFirst := s.VisitJSON(v, append([]SchemaValidationOption{MultiErrors()}, base...)...)
	verifAssert((eDefault == nil) == (eFast == nil), "C12 "+what+": fail-fast verdict equals default verdict")
	verifAssert((eDefault == nil) == (eMulti == nil), "C12 "+what+": multi-error verdict equals default verdict")
	verifAssert((eDefault == nil) == (eCustom == nil), "C12 "+what+": message customizer does not change the verdict")
	verifAssert((eDefault == nil) == (eFastFirst == nil), "C12 "+what+": fail-fast verdict equals default verdict (mode option first)")
	verifAssert((eDefault == nil) == (eMultiFirst == nil), "C12 "+what+": multi-error verdict equals default verdict (mode option first)")
	verifCheckErrors(eDefault, v, what+" (default)")
	verifCheckErrors(eMulti, v, what+" (multi)")
	verifCheckErrors(eCustom, v, what+" (customizer)")
	var se *SchemaError
	if eFast != nil && errors.As(eFast, &se) {
		verifCheckErrors(eFast, v, what+" (fail-fast)")
	}
}

//verif:harness id=C12 tier=thorough witness=end,accepted,rejected bounds="directions, full product: every required subset of {a,b,c} and every combination of the two switches"
func verifH_C12_directions_full() { verifC12Directions(true) }

//verif:harness id=C12 tier=quick witness=end,accepted,rejected bounds="directions: object {a: number+minimum (symbolic) readOnly?, b: string writeOnly?, c: object {d: integer readOnly?}} with required in {none, a, c, all three} and c.required subset of {d}; value over keys a / b / c.d present or absent, a any float64; direction in {plain, as request, as response} x read-only and write-only validation both disabled or not: for each setting the verdict is the same in default, fail-fast, multi-error and customizer modes, whichever order the options are given in"
func verifH_C12_directions() { verifC12Directions(false) }

func verifC12Directions(full bool) {
	m := verifFiniteFloat("amin")
	a := &Schema{Type: &Types{"number"}, Min: &m, ReadOnly: verifChoose("a.ro", 2) == 1}
	b := &Schema{Type: &Types{"string"}, WriteOnly: verifChoose("b.wo", 2) == 1}
	d := &Schema{Type: &Types{"integer"}, ReadOnly: verifChoose("d.ro", 2) == 1}
	c := &Schema{Type: &Types{"object"}, Properties: Schemas{"d": {Value: d}}}
	if verifChoose("c.req", 2) == 1 {
		c.Required = []string{"d"}
	}
	s := &Schema{Type: &Types{"object"}, Properties: Schemas{"a": {Value: a}, "b": {Value: b}, "c": {Value: c}}}
	req := 0
	if full {
		req = verifChoose("required", 8)
	} else {
		req = []int{0, 1, 4, 7}[verifChoose("required", 4)]
	}
	for i, k := range []string{"a", "b", "c"} {
		if req&(1<<i) != 0 {
			s.Required = append(s.Required, k)
		}
	}
	v := map[string]any{}
	if verifChoose("va", 2) == 1 {
		v["a"] = verifFiniteFloat("va.n")
	}
	if verifChoose("vb", 2) == 1 {
		v["b"] = "x"
	}
	switch verifChoose("vc", 3) {
	case 1:
		v["c"] = map[string]any{}
	case 2:
		v["c"] = map[string]any{"d": 1.0}
	}
	var base []SchemaValidationOption
	switch verifChoose("direction", 3) {
	case 1:
		base = append(base, VisitAsRequest())
	case 2:
		base = append(base, VisitAsResponse())
	}
	sw := 0
	if full {
		sw = verifChoose("switches", 4)
	} else {
		sw = 3 * verifChoose("switches", 2)
	}
	if sw&1 != 0 {
		base = append(base, DisableReadOnlyValidation())
	}
	if sw&2 != 0 {
		base = append(base, DisableWriteOnlyValidation())
	}
	if s.VisitJSON(v, base...) == nil {
		verifReach("accepted")
	} else {
		verifReach("rejected")
	}
	verifModesWith(s, v, "directions", base...)
	verifReach("end")
}

//verif:harness id=C12 tier=quick,thorough witness=end,accepted,rejected bounds="content options: string schema with pattern in {^a, an uncompilable one} or format in {date, an unknown name} or integer schema with format int32 x {no option, EnableFormatValidation, DisablePatternValidation, both}; value ASCII string of 1-2 bytes or any float64: for each setting the verdict is the same in every mode"
func verifH_C12_content_options() {
	var s *Schema
	var v any
	switch verifChoose("schema", 5) {
	case 0:
		s, v = &Schema{Type: &Types{"string"}, Pattern: "^a"}, verifASCII("v", 2)
	case 1:
		s, v = &Schema{Type: &Types{"string"}, Pattern: "("}, verifASCII("v", 2)
	case 2:
		s, v = &Schema{Type: &Types{"string"}, Format: "date"}, verifASCII("v", 2)
	case 3:
		s, v = &Schema{Type: &Types{"string"}, Format: "no-such-format"}, verifASCII("v", 2)
	case 4:
		s, v = &Schema{Type: &Types{"integer"}, Format: "int32"}, verifFiniteFloat("vn")
	}
	var base []SchemaValidationOption
	o := verifChoose("options", 4)
	if o&1 != 0 {
		base = append(base, EnableFormatValidation())
	}
	if o&2 != 0 {
		base = append(base, DisablePatternValidation())
	}
	if s.VisitJSON(v, base...) == nil {
		verifReach("accepted")
	} else {
		verifReach("rejected")
	}
	verifModesWith(s, v, "content options", base...)
	verifReach("end")
}
