package openapi3

// C16, external callbacks and external path items: the file-local references inside them must
// follow them into the root document.

import (
	"context"
	"encoding/json"
	"errors"
	"net/url"
	"strings"
)

//verif:harness id=C16 tier=quick,thorough witness=end bounds="external callbacks and path items: an operation whose callback is a reference into another file (c.json#/components/callbacks/CB), or a path that is a reference to a path item of another file whose operation has an inline callback; the callback's operation uses its own file's components (request body schema, parameter, response header) by #/ references, the root having different components under the same names: after internalising, serialising and reloading with external references disallowed every schema reached through the callback dereferences to the same content as before"
func verifH_C16_external_callbacks() {
	verifMapOrder() // map iteration order is unspecified: ascending and descending key order
	cbOp := `{"post":{"parameters":[{"$ref":"#/components/parameters/P"}],"requestBody":{"content":{"application/json":{"schema":{"$ref":"#/components/schemas/S"}}}},"responses":{"200":{"description":"d","headers":{"X":{"$ref":"#/components/headers/H"}}}}}}`
	comps := `"components":{"schemas":{"S":{"type":"string","minLength":9}},"parameters":{"P":{"name":"p","in":"query","schema":{"$ref":"#/components/schemas/S"}}},"headers":{"H":{"schema":{"$ref":"#/components/schemas/S"}}},` +
		`"callbacks":{"CB":{"{$request.body#/u}":` + cbOp + `}}}`
	files := map[string]string{"/r/c.json": `{"paths":{"/x":{"post":{"operationId":"ext","responses":{"200":{"description":"d"}},"callbacks":{"cb":{"{$request.body#/u}":` + cbOp + `}}}}},` + comps + `}`}
	var paths string
	byPathItem := verifChoose("via", 2) == 1
	if byPathItem {
		paths = `{"/x":{"$ref":"c.json#/paths/~1x"}}`
	} else {
		paths = `{"/x":{"post":{"operationId":"op","responses":{"200":{"description":"d"}},"callbacks":{"cb":{"$ref":"c.json#/components/callbacks/CB"}}}}}`
	}
	rootText := `{"openapi":"3.0.0","info":{"title":"t","version":"1"},"paths":` + paths + `,"components":{"schemas":{"S":{"type":"integer"}},"parameters":{"P":{"name":"other","in":"header","schema":{"type":"integer"}}},"headers":{"H":{"schema":{"type":"integer"}}}}}`
	rootLoc := &url.URL{Path: "/r/doc.json"}
	loader := NewLoader()
	loader.IsExternalRefsAllowed = true
	loader.ReadFromURIFunc = func(l *Loader, u *url.URL) ([]byte, error) {
		if u.Path == rootLoc.Path {
			return []byte(rootText), nil
		}
		if t, ok := files[u.Path]; ok {
			return []byte(t), nil
		}
		return nil, errors.New("no such file")
	}
	doc, err := loader.LoadFromDataWithPath([]byte(rootText), rootLoc)
	verifAssert(err == nil && doc != nil, "C16 callbacks: the multi-file document loads")
	if err != nil || doc == nil {
		return
	}
	probe := func(d *T) any {
		out := map[string]any{}
		pi := d.Paths.Value("/x")
		if pi == nil || pi.Post == nil || pi.Post.Callbacks["cb"] == nil || pi.Post.Callbacks["cb"].Value == nil {
			return "no callback"
		}
		cpi := pi.Post.Callbacks["cb"].Value.Value("{$request.body#/u}")
		if cpi == nil || cpi.Post == nil {
			return "no callback operation"
		}
		op := cpi.Post
		if len(op.Parameters) == 1 && op.Parameters[0].Value != nil {
			out["param"] = op.Parameters[0].Value.Name + "/" + op.Parameters[0].Value.In
			out["paramSchema"] = verifDerefSchema(op.Parameters[0].Value.Schema, 0)
		}
		if op.RequestBody != nil && op.RequestBody.Value != nil && op.RequestBody.Value.Content["application/json"] != nil {
			out["body"] = verifDerefSchema(op.RequestBody.Value.Content["application/json"].Schema, 0)
		}
		if r := op.Responses.Value("200"); r != nil && r.Value != nil && r.Value.Headers["X"] != nil && r.Value.Headers["X"].Value != nil {
			out["header"] = verifDerefSchema(r.Value.Headers["X"].Value.Schema, 0)
		}
		return out
	}
	before := probe(doc)
	doc.InternalizeRefs(context.Background(), nil)
	b, merr := json.Marshal(doc)
	verifAssert(merr == nil, "C16 callbacks: the internalised document serialises")
	if merr != nil {
		return
	}
	l2 := NewLoader()
	l2.ReadFromURIFunc = func(*Loader, *url.URL) ([]byte, error) { return nil, errors.New("no reads expected") }
	doc2, rerr := l2.LoadFromData(b)
	verifAssert(rerr == nil && doc2 != nil, "C16 callbacks: the internalised document loads with external references disallowed")
	if rerr != nil || doc2 == nil {
		return
	}
	after := probe(doc2)
	bj, _ := json.Marshal(before)
	aj, _ := json.Marshal(after)
	verifAssert(string(bj) == string(aj), "C16 callbacks: after internalising, serialising and reloading everything reached through the callback dereferences to the same content as before")
	verifReach("end")
}

//verif:harness id=C16 tier=quick,thorough witness=end bounds="spellings and names that coincide: (a) two external files in different directories (cats/cat.json, dogs/dog.json) that each say ./common.json#/components/schemas/Id and thereby mean different files with different content; (b) a root /r/api/doc.json referring to a file of the same base name in another directory (v1/doc.json#/components/schemas/Item) while the root has a different Item of its own; (c) both at once; (d) two files with the same tail, one below the root's directory (common/id.json) and one beside it (../common/id.json): after internalising, serialising and reloading with external references disallowed every schema of the operation dereferences to the same content as before (distinct targets are not merged)"
func verifH_C16_coinciding_spellings() {
	verifMapOrder()
	layout := verifChoose("layout", 4)
	files := map[string]string{
		"/r/api/common/id.json":   `{"type":"string","minLength":2}`,
		"/r/common/id.json":       `{"type":"integer","minimum":2}`,
		"/r/api/cats/cat.json":    `{"components":{"schemas":{"Cat":{"type":"object","properties":{"id":{"$ref":"./common.json#/components/schemas/Id"}}}}}}`,
		"/r/api/cats/common.json": `{"components":{"schemas":{"Id":{"type":"string","minLength":3}}}}`,
		"/r/api/dogs/dog.json":    `{"components":{"schemas":{"Dog":{"type":"object","properties":{"id":{"$ref":"./common.json#/components/schemas/Id"}}}}}}`,
		"/r/api/dogs/common.json": `{"components":{"schemas":{"Id":{"type":"integer","minimum":7}}}}`,
		"/r/api/v1/doc.json":      `{"components":{"schemas":{"Item":{"type":"string","maxLength":5}}}}`,
	}
	props := ""
	if layout == 3 {
		// (d) the same tail below the root's directory and beside it
		props = `"below":{"$ref":"common/id.json"},"beside":{"$ref":"../common/id.json"}`
	} else if layout != 1 {
		props = `"cat":{"$ref":"cats/cat.json#/components/schemas/Cat"},"dog":{"$ref":"dogs/dog.json#/components/schemas/Dog"}`
	}
	if layout != 0 && layout != 3 {
		if props != "" {
			props += ","
		}
		props += `"item":{"$ref":"v1/doc.json#/components/schemas/Item"},"own":{"$ref":"#/components/schemas/Item"}`
	}
	rootText := `{"openapi":"3.0.0","info":{"title":"t","version":"1"},"paths":{"/a":{"post":{"operationId":"op","requestBody":{"content":{"application/json":{"schema":{"type":"object","properties":{` + props + `}}}}},"responses":{"200":{"description":"d"}}}}},` +
		`"components":{"schemas":{"Item":{"type":"boolean"}}}}`
	rootLoc := &url.URL{Path: "/r/api/doc.json"}
	loader := NewLoader()
	loader.IsExternalRefsAllowed = true
	loader.ReadFromURIFunc = func(l *Loader, u *url.URL) ([]byte, error) {
		if u.Path == rootLoc.Path {
			return []byte(rootText), nil
		}
		if t, ok := files[u.Path]; ok {
			return []byte(t), nil
		}
		return nil, errors.New("no such file")
	}
	doc, err := loader.LoadFromDataWithPath([]byte(rootText), rootLoc)
	verifAssert(err == nil && doc != nil, "C16 coinciding spellings: the multi-file document loads")
	if err != nil || doc == nil {
		return
	}
	probe := func(d *T) any {
		mt := d.Paths.Value("/a").Post.RequestBody.Value.Content["application/json"]
		return verifDerefSchema(mt.Schema, 0)
	}
	before := probe(doc)
	doc.InternalizeRefs(context.Background(), nil)
	b, merr := json.Marshal(doc)
	verifAssert(merr == nil, "C16 coinciding spellings: the internalised document serialises")
	if merr != nil {
		return
	}
	l2 := NewLoader()
	l2.ReadFromURIFunc = func(*Loader, *url.URL) ([]byte, error) { return nil, errors.New("no reads expected") }
	doc2, rerr := l2.LoadFromData(b)
	verifAssert(rerr == nil && doc2 != nil, "C16 coinciding spellings: the internalised document loads with external references disallowed")
	if rerr != nil || doc2 == nil {
		return
	}
	after := probe(doc2)
	bj, _ := json.Marshal(before)
	aj, _ := json.Marshal(after)
	verifAssert(string(bj) == string(aj), "C16 coinciding spellings: after internalising, serialising and reloading every schema dereferences to the same content as before (distinct targets are not merged)")
	verifReach("end")
}

//verif:harness id=C16 tier=quick,thorough witness=end bounds="external references at the positions the loader visits last: an example under a parameter's examples, under a response header's examples, under the examples of a parameter's content media type, and a header under a request body media type's encoding, each a reference into ex.json (every non-empty subset of the four): they are resolved by loading, and after internalising, serialising and reloading with external references disallowed each still designates the same content; the serialised document names no other file"
func verifH_C16_late_positions() {
	verifMapOrder()
	subset := 1 + verifChoose("positions", 15)
	exRef := `{"$ref":"ex.json#/components/examples/E"}`
	files := map[string]string{
		"/r/ex.json": `{"components":{"examples":{"E":{"summary":"the example","value":"v"}},"headers":{"H":{"description":"the header","schema":{"type":"string"}}}}}`,
	}
	param := `{"name":"q","in":"query","schema":{"type":"string"}`
	if subset&1 != 0 {
		param += `,"examples":{"e1":` + exRef + `}`
	}
	param += `}`
	cparam := `{"name":"c","in":"query","content":{"application/json":{"schema":{"type":"string"}`
	if subset&4 != 0 {
		cparam += `,"examples":{"e3":` + exRef + `}`
	}
	cparam += `}}}`
	hdr := `{"schema":{"type":"string"}`
	if subset&2 != 0 {
		hdr += `,"examples":{"e2":` + exRef + `}`
	}
	hdr += `}`
	enc := ``
	if subset&8 != 0 {
		enc = `,"encoding":{"f":{"headers":{"X-E":{"$ref":"ex.json#/components/headers/H"}}}}`
	}
	rootText := `{"openapi":"3.0.0","info":{"title":"t","version":"1"},"paths":{"/a":{"post":{"operationId":"op","parameters":[` + param + `,` + cparam + `],` +
		`"requestBody":{"content":{"multipart/form-data":{"schema":{"type":"object","properties":{"f":{"type":"string"}}}` + enc + `}}},` +
		`"responses":{"200":{"description":"d","headers":{"X-R":` + hdr + `}}}}}}}`
	rootLoc := &url.URL{Path: "/r/doc.json"}
	loader := NewLoader()
	loader.IsExternalRefsAllowed = true
	loader.ReadFromURIFunc = func(l *Loader, u *url.URL) ([]byte, error) {
		if u.Path == rootLoc.Path {
			return []byte(rootText), nil
		}
		if t, ok := files[u.Path]; ok {
			return []byte(t), nil
		}
		return nil, errors.New("no such file")
	}
	doc, err := loader.LoadFromDataWithPath([]byte(rootText), rootLoc)
	verifAssert(err == nil && doc != nil, "C16 late positions: the multi-file document loads")
	if err != nil || doc == nil {
		return
	}
	probe := func(d *T, what string) {
		op := d.Paths.Value("/a").Post
		if subset&1 != 0 {
			e := op.Parameters[0].Value.Examples["e1"]
			verifAssert(e != nil && e.Value != nil && e.Value.Summary == "the example", "C16 late positions: the example under a parameter designates the external example "+what)
		}
		if subset&4 != 0 {
			e := op.Parameters[1].Value.Content["application/json"].Examples["e3"]
			verifAssert(e != nil && e.Value != nil && e.Value.Summary == "the example", "C16 late positions: the example under a parameter's media type designates the external example "+what)
		}
		if subset&2 != 0 {
			e := op.Responses.Value("200").Value.Headers["X-R"].Value.Examples["e2"]
			verifAssert(e != nil && e.Value != nil && e.Value.Summary == "the example", "C16 late positions: the example under a response header designates the external example "+what)
		}
		if subset&8 != 0 {
			h := op.RequestBody.Value.Content["multipart/form-data"].Encoding["f"].Headers["X-E"]
			verifAssert(h != nil && h.Value != nil && h.Value.Description == "the header", "C16 late positions: the header under an encoding designates the external header "+what)
		}
	}
	probe(doc, "after loading")
	doc.InternalizeRefs(context.Background(), nil)
	b, merr := json.Marshal(doc)
	verifAssert(merr == nil, "C16 late positions: the internalised document serialises")
	if merr != nil {
		return
	}
	verifAssert(!strings.Contains(string(b), "ex.json"), "C16 late positions: the internalised document names no other file")
	l2 := NewLoader()
	l2.ReadFromURIFunc = func(*Loader, *url.URL) ([]byte, error) { return nil, errors.New("no reads expected") }
	doc2, rerr := l2.LoadFromData(b)
	verifAssert(rerr == nil && doc2 != nil, "C16 late positions: the internalised document loads with external references disallowed")
	if rerr != nil || doc2 == nil {
		return
	}
	probe(doc2, "after internalising and reloading")
	verifReach("end")
}

//verif:harness id=C16 tier=quick,thorough witness=end,accepted,rejected bounds="discriminator mappings follow their schemas: a polymorphic schema (oneOf or anyOf [Dog, Cat] with discriminator kind and a mapping) whose members live in pets.json, written in the root with external references in members and mapping, or itself in pets.json with that file's own references; four values (a dog, a cat, a dog with a cat's member type, an unmapped kind): the verdict of the schema is the same before internalising and after internalising, serialising and reloading with external references disallowed, and the serialised document names no other file"
func verifH_C16_discriminator_mapping() {
	verifMapOrder()
	keyword := []string{"oneOf", "anyOf"}[verifChoose("keyword", 2)]
	pets := `"Dog":{"type":"object","required":["kind","bark"],"properties":{"kind":{"type":"string"},"bark":{"type":"string"}}},"Cat":{"type":"object","required":["kind","lives"],"properties":{"kind":{"type":"string"},"lives":{"type":"integer"}}}`
	poly := func(prefix string) string {
		return `{"` + keyword + `":[{"$ref":"` + prefix + `#/components/schemas/Dog"},{"$ref":"` + prefix + `#/components/schemas/Cat"}],"discriminator":{"propertyName":"kind","mapping":{"dog":"` + prefix + `#/components/schemas/Dog","cat":"` + prefix + `#/components/schemas/Cat"}}}`
	}
	files := map[string]string{}
	var schema string
	if verifChoose("where", 2) == 0 {
		files["/r/pets.json"] = `{"components":{"schemas":{` + pets + `}}}`
		schema = poly("pets.json")
	} else {
		files["/r/pets.json"] = `{"components":{"schemas":{` + pets + `,"Pet":` + poly("") + `}}}`
		schema = `{"$ref":"pets.json#/components/schemas/Pet"}`
	}
	rootText := `{"openapi":"3.0.0","info":{"title":"t","version":"1"},"paths":{"/a":{"get":{"operationId":"op","responses":{"200":{"description":"d","content":{"application/json":{"schema":` + schema + `}}}}}}}}`
	rootLoc := &url.URL{Path: "/r/doc.json"}
	loader := NewLoader()
	loader.IsExternalRefsAllowed = true
	loader.ReadFromURIFunc = func(l *Loader, u *url.URL) ([]byte, error) {
		if u.Path == rootLoc.Path {
			return []byte(rootText), nil
		}
		if t, ok := files[u.Path]; ok {
			return []byte(t), nil
		}
		return nil, errors.New("no such file")
	}
	doc, err := loader.LoadFromDataWithPath([]byte(rootText), rootLoc)
	verifAssert(err == nil && doc != nil, "C16 discriminator: the multi-file document loads")
	if err != nil || doc == nil {
		return
	}
	values := []map[string]any{
		{"kind": "dog", "bark": "wuff"},
		{"kind": "cat", "lives": 9.0},
		{"kind": "dog", "lives": 9.0},
		{"kind": "bird", "bark": "wuff"},
	}
	v := values[verifChoose("value", len(values))]
	verdict := func(d *T) bool {
		s := d.Paths.Value("/a").Get.Responses.Value("200").Value.Content["application/json"].Schema
		return s != nil && s.Value != nil && s.Value.VisitJSON(v) == nil
	}
	before := verdict(doc)
	if before {
		verifReach("accepted")
	} else {
		verifReach("rejected")
	}
	doc.InternalizeRefs(context.Background(), nil)
	verifAssert(verdict(doc) == before, "C16 discriminator: the internalised document gives the same verdict")
	b, merr := json.Marshal(doc)
	verifAssert(merr == nil, "C16 discriminator: the internalised document serialises")
	if merr != nil {
		return
	}
	verifAssert(!strings.Contains(string(b), "pets.json"), "C16 discriminator: the internalised document names no other file (mapping values included)")
	l2 := NewLoader()
	l2.ReadFromURIFunc = func(*Loader, *url.URL) ([]byte, error) { return nil, errors.New("no reads expected") }
	doc2, rerr := l2.LoadFromData(b)
	verifAssert(rerr == nil && doc2 != nil, "C16 discriminator: the internalised document loads with external references disallowed")
	if rerr != nil || doc2 == nil {
		return
	}
	verifAssert(verdict(doc2) == before, "C16 discriminator: after internalising, serialising and reloading the schema gives the same verdict")
	verifReach("end")
}
