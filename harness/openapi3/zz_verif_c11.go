package openapi3

// C11 — the loader reads nothing beyond the root unless external refs are allowed.
// Selector-symbolic: the reference text and its position are chosen by the
// explorer; every read goes through Loader.ReadFromURIFunc, which records it.

import (
	"errors"
	"net/url"
	"strings"
)

var verifRefSpellings = []string{
	"x.json",
	"x.json#/components/schemas/A",
	"./x.json",
	"../x.json",
	"d/../x.json",
	"/abs/x.json",
	"file:///abs/x.json",
	"http://h.example/x.json",
	"https://h.example/x.json#/a",
	"//h.example/x.json",
	"x.json#",
	"#/components/schemas/Missing",
	"#bad",
	"doc.json",
	"doc.json#/components/schemas/A",
	"../x.json#/components/schemas/A",
	"/abs/x.json#/a",
	"http://h.example/x.json#/components/schemas/A",
	"http://h.example/root/doc.json#/components/schemas/A", // the root's own path on another host
	"//h.example/root/doc.json#/components/schemas/A",
	"x.json?v=2", // a reference with its own query
	"x.json?v=2#/components/schemas/A",
	"?v=3#/components/schemas/A", // a query only: the same document under another query
}

// verifDocWithRef builds a root document (JSON text) with one reference at the chosen position.
// kind is the component kind the fragment-less spellings should point at.
func verifDocWithRef(slot int, ref string) string {
	r := `{"$ref":"` + ref + `"}`
	okSchema := `{"type":"string"}`
	okResp := `{"description":"d"}`
	parts := map[string]string{"schema": okSchema, "param": `{"name":"p","in":"query","schema":{"type":"string"}}`, "resp": okResp,
		"body": `{"content":{"text/plain":{"schema":{"type":"string"}}}}`, "header": `{"schema":{"type":"string"}}`, "example": `{"value":1}`,
		"link": `{"operationId":"op"}`, "callback": `{}`, "secscheme": `{"type":"http","scheme":"basic"}`, "pathitem": `{"get":{"operationId":"op","responses":{"200":{"description":"d"}}}}`,
		"nestedSchemaInHeader": okSchema, "paramInCallback": `{"name":"q","in":"query","schema":{"type":"string"}}`, "itemsSchema": okSchema, "mediaSchema": okSchema}
	names := []string{"schema", "param", "resp", "body", "header", "example", "link", "callback", "secscheme", "pathitem", "nestedSchemaInHeader", "paramInCallback", "itemsSchema", "mediaSchema"}
	parts[names[slot]] = r
	return `{"openapi":"3.0.0","info":{"title":"t","version":"1"},` +
		`"paths":{"/a":` + parts["pathitem"] + `,"/b":{"post":{"operationId":"opb","parameters":[` + parts["param"] + `],"requestBody":` + parts["body"] + `,` +
		`"callbacks":{"cb":{"{$request.body#/u}":{"post":{"parameters":[` + parts["paramInCallback"] + `],"responses":{"200":{"description":"d"}}}}},"cb2":` + parts["callback"] + `},` +
		`"responses":{"200":` + parts["resp"] + `,"201":{"description":"d","headers":{"X-H":` + parts["header"] + `,"X-N":{"schema":` + parts["nestedSchemaInHeader"] + `}},` +
		`"content":{"application/json":{"schema":` + parts["mediaSchema"] + `,"examples":{"e":` + parts["example"] + `}}},"links":{"l":` + parts["link"] + `}}}}}},` +
		`"components":{"schemas":{"A":` + okSchema + `,"S":` + parts["schema"] + `,"Arr":{"type":"array","items":` + parts["itemsSchema"] + `}},"securitySchemes":{"sec":` + parts["secscheme"] + `}}}`
}

func verifExternalContent(u string) string {
	// a file that serves every kind well enough to let loading proceed
	if strings.HasSuffix(u, "doc.json") {
		return ""
	}
	return `{"type":"string","description":"d","name":"p","in":"query","schema":{"type":"string"},"content":{"text/plain":{"schema":{"type":"string"}}},"value":1,"operationId":"op","scheme":"basic",` +
		`"components":{"schemas":{"A":{"type":"string"}}},"a":{"type":"string"},"get":{"operationId":"opx","responses":{"200":{"description":"d"}}}}`
}

// verifExpectedRead: where a reference found in the document at base must be read from.
func verifExpectedRead(base *url.URL, ref string) string {
	if i := strings.IndexByte(ref, '#'); i >= 0 {
		ref = ref[:i]
	}
	ru, err := url.Parse(ref)
	if err != nil {
		return "?"
	}
	if ru.Scheme != "" || ru.Host != "" || base == nil {
		if base != nil && ru.Scheme == "" {
			return base.ResolveReference(ru).String()
		}
		return ru.String()
	}
	return base.ResolveReference(ru).String()
}

//verif:harness id=C11 tier=quick,thorough witness=end bounds="one reference at each of 14 positions (the ten resolver kinds, a schema inside a header, a parameter inside a callback, array items, media-type schema) x 23 spellings (relative, with a query of its own, ./, ../, d/../, absolute path, file://, http(s)://, scheme-relative, empty fragment, internal missing, malformed fragment, the root's own name, the root's own path on another host) x entry point in {LoadFromData, LoadFromDataWithPath, LoadFromURI from a path, LoadFromURI from an http URL, LoadFromURI from an http URL with a query} x IsExternalRefsAllowed; every read goes through ReadFromURIFunc"
func verifH_C11_reads() {
	slot := verifChoose("slot", 14)
	ref := verifRefSpellings[verifChoose("spelling", len(verifRefSpellings))]
	allowed := verifChoose("allowed", 2) == 1
	entry := verifChoose("entry", 5)
	rootLoc := &url.URL{Path: "/root/doc.json"}
	if entry >= 3 {
		// the root document itself comes from an http location (entry 4: one with a query)
		rootLoc = &url.URL{Scheme: "http", Host: "r.example", Path: "/root/doc.json"}
		if entry == 4 {
			rootLoc.RawQuery = "token=1"
		}
	}
	rootText := verifDocWithRef(slot, ref)
	var reads []string
	loader := NewLoader()
	loader.IsExternalRefsAllowed = allowed
	loader.ReadFromURIFunc = func(l *Loader, u *url.URL) ([]byte, error) {
		reads = append(reads, u.String())
		if u.String() == rootLoc.String() {
			return []byte(rootText), nil
		}
		c := verifExternalContent(u.String())
		if c == "" {
			return nil, errors.New("no such file")
		}
		return []byte(c), nil
	}
	var err error
	var base *url.URL
	switch entry {
	case 0:
		_, err = loader.LoadFromData([]byte(rootText))
	case 1:
		base = rootLoc
		_, err = loader.LoadFromDataWithPath([]byte(rootText), rootLoc)
	case 2, 3, 4:
		base = rootLoc
		_, err = loader.LoadFromURI(rootLoc)
	}
	external := !strings.HasPrefix(ref, "#")
	want := verifExpectedRead(base, ref)
	for _, r := range reads {
		if !allowed {
			verifAssert(base != nil && r == rootLoc.String(), "C11: with external references disallowed nothing but the root document is read")
		} else {
			verifAssert(r == rootLoc.String() || (external && r == want), "C11: with external references allowed only locations obtained by resolving a reference against its document's location are read")
		}
	}
	if !allowed && external && !(base != nil && verifExpectedRead(base, ref) == rootLoc.String()) {
		verifAssert(err != nil, "C11: a reference that needs a read is reported as an error when external references are disallowed")
	}
	verifReach("end")
}

// verifRefDoc builds an in-memory document whose reference of the chosen kind has the given text.
func verifRefDoc(kind int, ref string) *T {
	d := "d"
	str := &SchemaRef{Value: &Schema{Type: &Types{"string"}}}
	resps := NewResponsesWithCapacity(1)
	resp := &ResponseRef{Value: &Response{Description: &d}}
	resps.Set("200", resp)
	op := &Operation{OperationID: "op", Responses: resps}
	pi := &PathItem{Get: op}
	doc := &T{OpenAPI: "3.0.0", Info: &Info{Title: "t", Version: "1"}, Paths: NewPathsWithCapacity(2), Components: &Components{Schemas: Schemas{"A": str}}}
	doc.Paths.Set("/a", pi)
	switch kind {
	case 0:
		doc.Components.Schemas["S"] = &SchemaRef{Ref: ref}
	case 1:
		op.Parameters = Parameters{{Ref: ref}}
	case 2:
		resps.Set("201", &ResponseRef{Ref: ref})
	case 3:
		op.RequestBody = &RequestBodyRef{Ref: ref}
	case 4:
		resp.Value.Headers = Headers{"X-H": {Ref: ref}}
	case 5:
		resp.Value.Content = Content{"application/json": &MediaType{Schema: str, Examples: Examples{"e": {Ref: ref}}}}
	case 6:
		resp.Value.Links = Links{"l": {Ref: ref}}
	case 7:
		op.Callbacks = Callbacks{"cb": {Ref: ref}}
	case 8:
		doc.Components.SecuritySchemes = SecuritySchemes{"s": {Ref: ref}}
	case 9:
		doc.Paths.Set("/b", &PathItem{Ref: ref})
	case 10:
		resp.Value.Headers = Headers{"X-H": {Value: &Header{Parameter: Parameter{Schema: &SchemaRef{Ref: ref}}}}}
	case 11:
		doc.Components.Schemas["Arr"] = &SchemaRef{Value: &Schema{Type: &Types{"array"}, Items: &SchemaRef{Ref: ref}}}
	}
	return doc
}

//verif:harness id=C11 tier=quick witness=end bounds="reference text = every string of 1-4 bytes over {#,/,.,:,a,j} placed at each of 12 positions (ten resolver kinds, schema in header, array items) of an in-memory document; ResolveRefsIn with a file location or without; external references disallowed: no location other than the root's own may be passed to ReadFromURIFunc"
func verifH_C11_symbolic_ref() { verifC11SymbolicRef(4) }

//verif:harness id=C11 tier=thorough witness=end bounds="as symbolic_ref with reference texts of 1-6 bytes"
func verifH_C11_symbolic_ref6() { verifC11SymbolicRef(6) }

func verifC11SymbolicRef(maxLen int) {
	kind := verifChoose("kind", 12)
	n := 1 + verifChoose("len", maxLen)
	bs := make([]byte, n)
	for i := range bs {
		bs[i] = verifNondetByteIn("r", "#/.:aj")
	}
	ref := string(bs)
	doc := verifRefDoc(kind, ref)
	rootLoc := &url.URL{Path: "/root/doc.json"}
	var base *url.URL
	if verifChoose("withLocation", 2) == 1 {
		base = rootLoc
	}
	badRead := false
	loader := NewLoader()
	loader.ReadFromURIFunc = func(l *Loader, u *url.URL) ([]byte, error) {
		if u.String() != rootLoc.String() {
			badRead = true
		}
		return nil, errors.New("no such file")
	}
	_ = loader.ResolveRefsIn(doc, base)
	verifAssert(!badRead, "C11: with external references disallowed no location other than the root document is read, whatever the reference text")
	verifReach("end")
}

//verif:harness id=C11 tier=quick,thorough witness=end bounds="external references allowed: a reference nested inside an externally loaded object of five kinds, reached by whole-file reference or fragment from sub-directories, spelled relative to its own file, with same-named decoy files in the root's directory and above: only the root, the containing file and the file the nested reference designates are read (shared with C02's nested harness)"
func verifH_C11_nested() { verifNestedRefs("C11") }

//verif:harness id=C11 tier=quick,thorough witness=end bounds="the library's own readers (no I/O happens: the file system stub has no files and no request is sent): ReadFromFile and ReadFromHTTP on 10 locations (absolute and relative paths, file: URLs with and without a host, scheme-relative //host/path, http / https / ftp URLs, an empty location): a location that names a host or a non-file scheme is refused by the file reader with ErrURINotSupported before any file is touched, and a location without a host is refused by the HTTP reader"
func verifH_C11_default_readers() {
	locs := []struct {
		text     string
		fileLike bool
	}{
		{"/verif-no-such-dir/x.json", true}, {"verif-no-such-dir/x.json", true}, {"file:///verif-no-such-dir/x.json", true},
		{"//h.example/verif-no-such-dir/x.json", false}, {"file://h.example/verif-no-such-dir/x.json", false},
		{"http://h.example/verif-no-such-dir/x.json", false}, {"https://h.example/x.json", false}, {"ftp://h.example/x.json", false},
		{"", false}, {"#/components/schemas/A", false},
	}
	l := locs[verifChoose("location", len(locs))]
	u, err := url.Parse(l.text)
	if err != nil {
		return
	}
	_, ferr := ReadFromFile(nil, u)
	if l.fileLike {
		verifAssert(ferr != nil && ferr != ErrURINotSupported, "C11 readers: a local path is tried as a file (and is not there)")
	} else {
		verifAssert(ferr == ErrURINotSupported, "C11 readers: the file reader refuses a location that names a host or another scheme without touching any file")
	}
	if u.Scheme == "" || u.Host == "" {
		_, herr := ReadFromHTTP(nil)(nil, u)
		verifAssert(herr == ErrURINotSupported, "C11 readers: the HTTP reader refuses a location without scheme or host without sending anything")
	}
	verifReach("end")
}
