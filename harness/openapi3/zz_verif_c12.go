package openapi3

// C12 — validation modes change the report, never the verdict; errors point at data.

import (
	"errors"
	"reflect"
	"strconv"
)

// verifResolve walks a JSON pointer (token list) through v.
func verifResolve(v any, ptr []string) (any, bool) {
	cur := v
	for _, tok := range ptr {
		switch x := cur.(type) {
		case map[string]any:
			nv, ok := x[tok]
			if !ok {
				return nil, false
			}
			cur = nv
		case []any:
			idx, err := strconv.Atoi(tok)
			if err != nil || idx < 0 || idx >= len(x) {
				return nil, false
			}
			cur = x[idx]
		default:
			return nil, false
		}
	}
	return cur, true
}

// verifCheckSchemaError: the pointer resolves inside v and Value is what is found there.
func verifCheckSchemaError(se *SchemaError, v any, what string) {
	ptr := append([]string(nil), se.JSONPointer()...)
	// reading the pointer is not an event: a second reading gives the same tokens
	again := se.JSONPointer()
	same := len(again) == len(ptr)
	for i := range ptr {
		if same && again[i] != ptr[i] {
			same = false
		}
	}
	verifAssert(same, "C12 "+what+": the JSON pointer of a schema error reads the same every time")
	if se.SchemaField == "required" && len(ptr) > 0 {
		ptr = ptr[:len(ptr)-1] // points at the missing member: the enclosing object must exist
	}
	found, ok := verifResolve(v, ptr)
	verifAssert(ok, "C12 "+what+": JSON pointer of a schema error resolves inside the validated value")
	if se.Value == nil && (se.SchemaField == "discriminator" || se.SchemaField == "pattern" && se.Origin != nil) {
		// errors that quote no value: a missing discriminator property, a pattern that does not compile
		return
	}
	if ok {
		verifAssert(reflect.DeepEqual(se.Value, found), "C12 "+what+": SchemaError.Value is the value at its JSON pointer")
	}
}

func verifCheckErrors(err error, v any, what string) {
	switch e := err.(type) {
	case *SchemaError:
		verifCheckSchemaError(e, v, what)
	case MultiError:
		for _, m := range e {
			verifCheckErrors(m, v, what)
		}
	}
}

// verifModes runs all modes and asserts verdict equality and error locations.
func verifModes(s *Schema, v any, what string) {
	eDefault := s.VisitJSON(v)
	eFast := s.VisitJSON(v, FailFast())
	eMulti := s.VisitJSON(v, MultiErrors())
	eCustom := s.VisitJSON(v, SetSchemaErrorMessageCustomizer(func(err *SchemaError) string { return "custom" }))
	m := s.IsMatching(v)
	verifAssert((eDefault == nil) == (eFast == nil), "C12 "+what+": fail-fast verdict equals default verdict")
	verifAssert((eDefault == nil) == (eMulti == nil), "C12 "+what+": multi-error verdict equals default verdict")
	verifAssert((eDefault == nil) == (eCustom == nil), "C12 "+what+": message customizer does not change the verdict")
	verifAssert((eDefault == nil) == m, "C12 "+what+": IsMatching equals default verdict")
	verifCheckErrors(eDefault, v, what+" (default)")
	verifCheckErrors(eMulti, v, what+" (multi)")
	verifCheckErrors(eCustom, v, what+" (customizer)")
	var se *SchemaError
	if eFast != nil && errors.As(eFast, &se) {
		verifCheckErrors(eFast, v, what+" (fail-fast)")
	}
}

//verif:harness id=C12 tier=quick,thorough witness=end bounds="number family of C01 plus format in {absent,int32,int64,unknown}; value any finite float64 / bool / ASCII string len<=1; all 5 modes compared"
func verifH_C12_number() {
	s := verifNumberSchema("", true)
	switch verifChoose("format", 4) {
	case 1:
		s.Format = "int32"
	case 2:
		s.Format = "int64"
	case 3:
		s.Format = "no-such-format"
	}
	for k, n := 0, verifChoose("enum", 2); k < n; k++ {
		s.Enum = append(s.Enum, verifFiniteFloat("e"))
	}
	v := verifLeafValue("v", verifChoose("vkind", 3), 1)
	verifModes(s, v, "number")
	verifReach("end")
}

//verif:harness id=C12 tier=quick,thorough witness=end bounds="string family: type in {absent,string,number}, minLength/maxLength (all uint64), pattern in {absent,^a,^[a-c]+$}, format in {absent,date,byte,unknown}; value ASCII string len<=3 / float64 / bool; all 5 modes"
func verifH_C12_string() {
	s := &Schema{}
	s.Type = verifTypes("type", []string{"string"}, []string{"number"})
	if verifChoose("hasMinLen", 2) == 1 {
		s.MinLength = verifNondetUint64("minLen")
	}
	if verifChoose("hasMaxLen", 2) == 1 {
		m := verifNondetUint64("maxLen")
		s.MaxLength = &m
	}
	switch verifChoose("pattern", 3) {
	case 1:
		s.Pattern = "^a"
	case 2:
		s.Pattern = "^[a-c]+$"
	}
	switch verifChoose("format", 4) {
	case 1:
		s.Format = "date"
	case 2:
		s.Format = "byte"
	case 3:
		s.Format = "no-such-format"
	}
	var v any
	switch verifChoose("vkind", 3) {
	case 0:
		v = verifASCII("v", 3)
	case 1:
		v = verifFiniteFloat("vn")
	case 2:
		v = verifNondetBool("vb")
	}
	verifModes(s, v, "string")
	verifReach("end")
}

//verif:harness id=C12 tier=quick,thorough witness=end bounds="pattern that does not compile ('(' and '[a'), with and without minLength; value ASCII string len<=1; all 5 modes"
func verifH_C12_badpattern() {
	s := &Schema{Type: &Types{"string"}}
	if verifChoose("pattern", 2) == 0 {
		s.Pattern = "("
	} else {
		s.Pattern = "[a"
	}
	if verifChoose("hasMinLen", 2) == 1 {
		s.MinLength = verifNondetUint64("minLen")
	}
	v := verifASCII("v", 1)
	verifModes(s, v, "uncompilable pattern")
	verifReach("end")
}

func verifC12ArraySchema() *Schema {
	s := &Schema{Type: &Types{"array"}}
	if verifChoose("hasMinItems", 2) == 1 {
		s.MinItems = verifNondetUint64("minItems")
	}
	if verifChoose("hasMaxItems", 2) == 1 {
		m := verifNondetUint64("maxItems")
		s.MaxItems = &m
	}
	s.UniqueItems = verifNondetBool("unique")
	return s
}

// verifKind maps a choice to a leaf kind: with 2 kinds float64/string, with 3 float64/bool/string.
func verifKind(k, kinds int) int {
	if kinds == 2 {
		return k * 2
	}
	return k
}

func verifC12ArrayFlat(maxLen, kinds int) {
	s := verifC12ArraySchema()
	s.Items = verifItemSchema("")
	n := verifChoose("vlen", maxLen+1)
	out := make([]any, 0, n)
	for i := 0; i < n; i++ {
		out = append(out, verifLeafValue("vit", verifKind(verifChoose("vikind", kinds), kinds), 1))
	}
	verifModes(s, any(out), "array")
	verifReach("end")
}

//verif:harness id=C12 tier=quick witness=end bounds="array family: minItems/maxItems (all uint64), uniqueItems, items in {absent,number+minimum,string+maxLength,{},integer}; arrays of 0..2 items (any float64 / ASCII len<=1); all 5 modes; pointer /i checked"
func verifH_C12_array() { verifC12ArrayFlat(2, 2) }

//verif:harness id=C12 tier=thorough witness=end bounds="array family as quick with items float64/bool/ASCII len<=1 and arrays of 0..3 items"
func verifH_C12_array3() { verifC12ArrayFlat(3, 3) }

//verif:harness id=C12 tier=quick witness=end bounds="nested arrays: items = array(maxItems?) of number+minimum; outer 0..2 arrays of 0..1 items (float64 / ASCII len<=1); all 5 modes; pointers /i and /i/j checked"
func verifH_C12_array_nested() { verifC12ArrayNested(2, 1) }

//verif:harness id=C12 tier=thorough witness=end bounds="nested arrays as quick with inner arrays of 0..2 items"
func verifH_C12_array_nested2() { verifC12ArrayNested(2, 2) }

func verifC12ArrayNested(maxOuter, maxInner int) {
	s := verifC12ArraySchema()
	m := verifFiniteFloat("imin")
	inner := &Schema{Type: &Types{"array"}, Items: &SchemaRef{Value: &Schema{Type: &Types{"number"}, Min: &m}}}
	if verifChoose("innerMax", 2) == 1 {
		k := verifNondetUint64("innerMaxItems")
		inner.MaxItems = &k
	}
	s.Items = &SchemaRef{Value: inner}
	n := verifChoose("vlen", maxOuter+1)
	out := make([]any, 0, n)
	for i := 0; i < n; i++ {
		k := verifChoose("vvlen", maxInner+1)
		in := make([]any, 0, k)
		for j := 0; j < k; j++ {
			in = append(in, verifLeafValue("vvit", verifChoose("vvkind", 2)*2, 1))
		}
		out = append(out, any(in))
	}
	verifModes(s, any(out), "nested array")
	verifReach("end")
}

//verif:harness id=C12 tier=quick,thorough witness=end bounds="object family: properties {a:number+minimum, b:object{c:string+maxLength, required c}}, required subset of {a,b}, additionalProperties in {absent,false,schema number+maximum}, min/maxProperties; value object over keys {a,b,z}, b an object over {c}; all 5 modes; pointers /k and /b/c checked (required: enclosing object)"
func verifH_C12_object() {
	s := &Schema{Type: &Types{"object"}, Properties: Schemas{}}
	m := verifFiniteFloat("amin")
	s.Properties["a"] = &SchemaRef{Value: &Schema{Type: &Types{"number"}, Min: &m}}
	ml := verifNondetUint64("cmaxLen")
	inner := &Schema{Type: &Types{"object"}, Properties: Schemas{"c": &SchemaRef{Value: &Schema{Type: &Types{"string"}, MaxLength: &ml}}}}
	if verifChoose("innerReq", 2) == 1 {
		inner.Required = []string{"c"}
	}
	s.Properties["b"] = &SchemaRef{Value: inner}
	req := verifChoose("required", 4)
	for i, k := range []string{"a", "b"} {
		if req&(1<<i) != 0 {
			s.Required = append(s.Required, k)
		}
	}
	switch verifChoose("addl", 3) {
	case 1:
		f := false
		s.AdditionalProperties.Has = &f
	case 2:
		mx := verifFiniteFloat("apmax")
		s.AdditionalProperties.Schema = &SchemaRef{Value: &Schema{Type: &Types{"number"}, Max: &mx}}
	}
	if verifChoose("hasMaxProps", 2) == 1 {
		k := verifNondetUint64("maxProps")
		s.MaxProps = &k
	}
	v := map[string]any{}
	switch verifChoose("va", 3) {
	case 1:
		v["a"] = verifFiniteFloat("va.n")
	case 2:
		v["a"] = verifASCII("va.s", 1)
	}
	switch verifChoose("vb", 3) {
	case 1:
		b := map[string]any{}
		switch verifChoose("vc", 3) {
		case 1:
			b["c"] = verifASCII("vc.s", 2)
		case 2:
			b["c"] = verifFiniteFloat("vc.n")
		}
		v["b"] = b
	case 2:
		v["b"] = verifFiniteFloat("vb.n")
	}
	if verifChoose("vz", 2) == 1 {
		v["z"] = verifFiniteFloat("vz.n")
	}
	verifModes(s, v, "object")
	verifReach("end")
}

//verif:harness id=C12 tier=quick,thorough witness=end bounds="composition family of C01 (allOf/anyOf/oneOf 1-2 branches, not) + own keywords; value float64/bool/ASCII len<=1; all 5 modes"
func verifH_C12_compose() {
	s := &Schema{}
	verifComposition("", s, func(p string) SchemaRefs { return verifBranches(p, 2) })
	switch verifChoose("own", 3) {
	case 1:
		s.Type = &Types{"number"}
	case 2:
		m := verifFiniteFloat("ownmin")
		s.Min = &m
	}
	v := verifLeafValue("v", verifChoose("vkind", 3), 1)
	verifModes(s, v, "composition")
	verifReach("end")
}

//verif:harness id=C12 tier=quick,thorough witness=end bounds="oneOf with discriminator (propertyName kind; mapping absent / {x:#/components/schemas/X, y:#/components/schemas/Y}) over two object branches; value object with kind absent / ASCII string len<=1 / number, and property n number; all 5 modes"
func verifH_C12_discriminator() {
	mx := verifFiniteFloat("xmin")
	X := &Schema{Type: &Types{"object"}, Properties: Schemas{"n": &SchemaRef{Value: &Schema{Type: &Types{"number"}, Min: &mx}}}}
	Y := &Schema{Type: &Types{"object"}, Properties: Schemas{"n": &SchemaRef{Value: &Schema{Type: &Types{"string"}}}}}
	s := &Schema{OneOf: SchemaRefs{{Ref: "#/components/schemas/X", Value: X}, {Ref: "#/components/schemas/Y", Value: Y}}}
	s.Discriminator = &Discriminator{PropertyName: "kind"}
	if verifChoose("mapping", 2) == 1 {
		s.Discriminator.Mapping = map[string]string{"x": "#/components/schemas/X", "y": "#/components/schemas/Y"}
	}
	var v any
	if verifChoose("vobj", 4) == 3 {
		v = verifFiniteFloat("vnum")
	} else {
		o := map[string]any{}
		switch verifChoose("vkind", 3) {
		case 1:
			o["kind"] = verifASCII("kind", 1)
		case 2:
			o["kind"] = verifFiniteFloat("kindn")
		}
		switch verifChoose("vn", 3) {
		case 1:
			o["n"] = verifFiniteFloat("n")
		case 2:
			o["n"] = verifASCII("ns", 1)
		}
		v = o
	}
	verifModes(s, v, "discriminator")
	verifReach("end")
}

//verif:harness id=C12 tier=quick,thorough witness=end bounds="schemas with (almost) nothing in them: {}, {nullable: true}, {description}, {type string, nullable}, {enum [null]} x value null / 1.5 / a / true / [] / {}; all 5 modes and IsMatching agree; the typed matching helpers (IsMatchingJSONBoolean / Number / String / Array / Object) agree with VisitJSON on values of their type"
func verifH_C12_null_and_empty() {
	var s *Schema
	switch verifChoose("schema", 5) {
	case 0:
		s = &Schema{}
	case 1:
		s = &Schema{Nullable: true}
	case 2:
		s = &Schema{Description: "d"}
	case 3:
		s = &Schema{Type: &Types{"string"}, Nullable: true}
	case 4:
		s = &Schema{Enum: []any{nil}, Nullable: true}
	}
	var v any
	vi := verifChoose("value", 6)
	switch vi {
	case 1:
		v = 1.5
	case 2:
		v = "a"
	case 3:
		v = true
	case 4:
		v = []any{}
	case 5:
		v = map[string]any{}
	}
	verifModes(s, v, "null and empty")
	ok := s.VisitJSON(v) == nil
	switch x := v.(type) {
	case float64:
		verifAssert(s.IsMatchingJSONNumber(x) == ok, "C12 null and empty: IsMatchingJSONNumber equals the default verdict")
	case string:
		verifAssert(s.IsMatchingJSONString(x) == ok, "C12 null and empty: IsMatchingJSONString equals the default verdict")
	case bool:
		verifAssert(s.IsMatchingJSONBoolean(x) == ok, "C12 null and empty: IsMatchingJSONBoolean equals the default verdict")
	case []any:
		verifAssert(s.IsMatchingJSONArray(x) == ok, "C12 null and empty: IsMatchingJSONArray equals the default verdict")
	case map[string]any:
		verifAssert(s.IsMatchingJSONObject(x) == ok, "C12 null and empty: IsMatchingJSONObject equals the default verdict")
	}
	verifReach("end")
}
