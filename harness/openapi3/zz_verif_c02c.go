package openapi3

import (
	"errors"
	"net/url"
)

//verif:harness id=C02 tier=quick,thorough witness=end bounds="a recursive schema that refers back to itself from 1-3 properties (left / mid / right) and optionally from array items, kept in a file of its own (whole-file element), under the components of another file, or in the document's components; referred to from the document's components and optionally from a path operation too: after loading every one of the back references is resolved, to the recursive schema"
func verifH_C02_recursive_many_back_references() {
	where := verifChoose("where", 3)
	n := 1 + verifChoose("backrefs", 3)
	viaItems := verifChoose("items", 2) == 1
	var self string
	switch where {
	case 0:
		self = "tree.json"
	case 1:
		self = "lib.json#/components/schemas/Tree"
	case 2:
		self = "#/components/schemas/Tree"
	}
	names := []string{"left", "mid", "right"}[:n]
	props := ""
	for k, name := range names {
		if k > 0 {
			props += ","
		}
		props += `"` + name + `":{"$ref":"` + self + `"}`
	}
	if viaItems {
		props += `,"kids":{"type":"array","items":{"$ref":"` + self + `"}}`
	}
	tree := `{"type":"object","description":"tree","properties":{` + props + `}}`
	files := map[string]string{}
	entry := `{"$ref":"` + self + `"}`
	switch where {
	case 0:
		files["/r/tree.json"] = tree
	case 1:
		files["/r/lib.json"] = `{"components":{"schemas":{"Tree":` + tree + `}}}`
	case 2:
		entry = tree
	}
	paths := `{}`
	if where != 2 && verifChoose("alsoFromPath", 2) == 1 {
		paths = `{"/x":{"get":{"responses":{"200":{"description":"d","content":{"application/json":{"schema":{"$ref":"` + self + `"}}}}}}}}`
	}
	rootText := `{"openapi":"3.0.0","info":{"title":"t","version":"1"},"paths":` + paths + `,"components":{"schemas":{"Tree":` + entry + `}}}`
	doc, err := verifLoadFiles(rootText, files)
	verifAssert(err == nil && doc != nil, "C02 recursive schema: the document loads")
	if err != nil || doc == nil {
		return
	}
	top := doc.Components.Schemas["Tree"]
	verifAssert(top != nil && top.Value != nil && top.Value.Description == "tree", "C02 recursive schema: the entry resolves to the recursive schema")
	if top == nil || top.Value == nil {
		return
	}
	for _, name := range names {
		p := top.Value.Properties[name]
		verifAssert(p != nil && p.Value != nil && p.Value.Description == "tree", "C02 recursive schema: every back reference is resolved to the recursive schema")
		if p != nil && p.Value != nil {
			for _, inner := range names {
				q := p.Value.Properties[inner]
				verifAssert(q != nil && q.Value != nil && q.Value.Description == "tree", "C02 recursive schema: every back reference is resolved at the next level too")
			}
		}
	}
	if viaItems {
		k := top.Value.Properties["kids"]
		verifAssert(k != nil && k.Value != nil && k.Value.Items != nil && k.Value.Items.Value != nil && k.Value.Items.Value.Description == "tree", "C02 recursive schema: the back reference under items is resolved")
	}
	verifReach("end")
}

//verif:harness id=C02 tier=quick,thorough witness=end bounds="the process-wide read cache (URIMapCache, as behind DefaultReadFromURI) across two loads by fresh loaders: the same location spelling (relative path doc.json / sub/doc.json, or ./doc.json) read while the files behind it differ (another working directory): each load resolves its reference to the object in the files it was given; an absolute path or a URL may be answered from the cache (not asserted)"
func verifH_C02_read_cache_relative_locations() {
	current := map[string]string{}
	cached := URIMapCache(func(l *Loader, u *url.URL) ([]byte, error) {
		if t, ok := current[u.String()]; ok {
			return []byte(t), nil
		}
		return nil, errors.New("no such file: " + u.String())
	})
	spelling := verifChoose("location", 3)
	root := []string{"doc.json", "sub/doc.json", "./doc.json"}[spelling]
	other := []string{"other.json", "sub/other.json", "other.json"}[spelling]
	rootText := `{"openapi":"3.0.0","info":{"title":"t","version":"1"},"paths":{},"components":{"schemas":{"S":{"$ref":"other.json#/components/schemas/S"}}}}`
	load := func(desc string) string {
		current[root] = rootText
		current[other] = `{"components":{"schemas":{"S":{"type":"string","description":"` + desc + `"}}}}`
		loader := NewLoader()
		loader.IsExternalRefsAllowed = true
		loader.ReadFromURIFunc = cached
		doc, err := loader.LoadFromURI(&url.URL{Path: root})
		verifAssert(err == nil && doc != nil, "C02 read cache: the document loads")
		if err != nil || doc == nil || doc.Components.Schemas["S"] == nil || doc.Components.Schemas["S"].Value == nil {
			return "?"
		}
		return doc.Components.Schemas["S"].Value.Description
	}
	first := load("first directory")
	second := load("second directory")
	verifAssert(first == "first directory" && second == "second directory", "C02 read cache: a relative location is read anew, so each load resolves to the files it was given")
	verifReach("end")
}

//verif:harness id=C02 tier=quick,thorough witness=end bounds="percent-encoding in the fragment: a file (the document itself, or another file) has the components 'a%20b' and 'a b' (and 'x~y', 'x/y'); references spell them '#/components/schemas/a%2520b' (the name with a percent sign), 'a%20b' (the name with a blank), 'x~0y', 'x~1y', in internal and in external form: each resolves to the component its once-decoded pointer names, the same in both forms"
func verifH_C02_fragment_percent_encoding() {
	comps := `"a%20b":{"description":"percent"},"a b":{"description":"blank"},"x~y":{"description":"tilde"},"x/y":{"description":"slash"}`
	type tc struct{ frag, want string }
	cases := []tc{{"a%2520b", "percent"}, {"a%20b", "blank"}, {"x~0y", "tilde"}, {"x~1y", "slash"}, {"x%7E0y", "tilde"}}
	c := cases[verifChoose("case", len(cases))]
	external := verifChoose("external", 2) == 1
	files := map[string]string{"/r/other.json": `{"components":{"schemas":{` + comps + `}}}`}
	ref := "#/components/schemas/" + c.frag
	if external {
		ref = "other.json" + ref
	}
	rootText := `{"openapi":"3.0.0","info":{"title":"t","version":"1"},"paths":{},"components":{"schemas":{"User":{"$ref":"` + ref + `"},` + comps + `}}}`
	doc, err := verifLoadFiles(rootText, files)
	verifAssert(err == nil && doc != nil, "C02 fragment encoding: the document loads")
	if err != nil || doc == nil {
		return
	}
	u := doc.Components.Schemas["User"]
	verifAssert(u != nil && u.Value != nil && u.Value.Description == c.want, "C02 fragment encoding: the reference resolves to the component its pointer, percent-decoded once, names (internal and external form alike)")
	verifReach("end")
}
