package openapi3

// C16 — internalising refs yields a self-contained, equivalent document.
// Selector-symbolic over the reference layouts of C02 (documents come out of the
// real loader, so reference paths are the real ones).

import (
	"context"
	"encoding/json"
	"errors"
	"net/url"
	"reflect"
	"strings"
)

// verifCollectRefs returns every "$ref" string in a JSON tree.
func verifCollectRefs(tree any, out *[]string) {
	switch x := tree.(type) {
	case map[string]any:
		for k, v := range x {
			if k == "$ref" {
				if s, ok := v.(string); ok {
					*out = append(*out, s)
				}
				continue
			}
			verifCollectRefs(v, out)
		}
	case []any:
		for _, v := range x {
			verifCollectRefs(v, out)
		}
	}
}

func verifComponentExists(tree any, ref string) bool {
	if !strings.HasPrefix(ref, "#/components/") {
		return false
	}
	cur := tree
	for _, tok := range strings.Split(strings.TrimPrefix(ref, "#/"), "/") {
		m, ok := cur.(map[string]any)
		if !ok {
			return false
		}
		if cur, ok = m[tok]; !ok {
			return false
		}
	}
	// not a reference to itself
	if m, ok := cur.(map[string]any); ok {
		if r, has := m["$ref"].(string); has && r == ref {
			return false
		}
	}
	return true
}

func verifC16Check(doc *T, what string) {
	origValid := doc.Validate(context.Background()) == nil
	doc.InternalizeRefs(context.Background(), nil)
	b, err := json.Marshal(doc)
	verifAssert(err == nil, "C16 "+what+": the internalised document serialises")
	if err != nil {
		return
	}
	var tree any
	if json.Unmarshal(b, &tree) != nil {
		verifAssert(false, "C16 "+what+": the serialised document is JSON")
		return
	}
	var refs []string
	verifCollectRefs(tree, &refs)
	for _, r := range refs {
		verifAssert(verifComponentExists(tree, r), "C16 "+what+": every reference points at an existing entry of the document's own components (and no component refers to itself)")
	}
	verifAssert((doc.Validate(context.Background()) == nil) == origValid, "C16 "+what+": the internalised document validates exactly when the original does")
	// reload with external references disallowed
	l2 := NewLoader()
	l2.ReadFromURIFunc = func(*Loader, *url.URL) ([]byte, error) { return nil, errors.New("no reads expected") }
	_, rerr := l2.LoadFromData(b)
	verifAssert(rerr == nil, "C16 "+what+": the internalised document loads with external references disallowed")
}

//verif:harness id=C16 tier=quick,thorough witness=end bounds="documents from the real loader: one top-level component of each of the nine kinds that is itself a reference (same document, whole external file, fragment, ./ and d/../ spellings, nested directory, chain through two files, absolute path) x root loaded from /r/doc.json; InternalizeRefs with the default name resolver; every $ref in the serialised result names an existing component that is not a reference to itself, the result validates as before and reloads with external references disallowed, resolved values are the same objects as before"
func verifH_C16_slots() {
	kind := verifKinds[verifChoose("kind", len(verifKinds))]
	cands := verifC02Candidates(kind)[:8] // resolvable candidates only
	ref := cands[verifChoose("candidate", len(cands))]
	files := verifFiles()
	rootText := verifSlotDoc(kind, ref)
	rootLoc := &url.URL{Path: "/r/doc.json"}
	loader := NewLoader()
	loader.IsExternalRefsAllowed = true
	loader.ReadFromURIFunc = func(l *Loader, u *url.URL) ([]byte, error) {
		if u.Path == rootLoc.Path {
			return []byte(rootText), nil
		}
		if t, ok := files[u.Path]; ok {
			return []byte(t), nil
		}
		return nil, errors.New("no such file")
	}
	doc, err := loader.LoadFromDataWithPath([]byte(rootText), rootLoc)
	if err != nil || doc == nil {
		return
	}
	before, _, resolved := verifSlotValue(doc, kind)

	verifC16Check(doc, "slot")
	after, _, _ := verifSlotValue(doc, kind)
	if resolved {
		verifAssert(after == before, "C16 slot: every reference resolves to the same content as before")
	}
	verifReach("end")
}

//verif:harness id=C16 tier=quick,thorough witness=end bounds="operation-level references (parameter, request body, response, response header, schema in content, callback) to external files: the same file under two spellings (x.json and ./d/../x.json), two different files with equally named components (x.json and d/y.json 'Own'), a file that refers back into the root document, two versions of one file name (m.v1 / m.v2) and a directory-versus-underscore pair (a/b_c, a_b/c); after InternalizeRefs distinct targets have distinct component names, equal targets one name"
func verifH_C16_operation_refs() {
	verifMapOrder() // map iteration order is unspecified: ascending and descending key order
	shape := verifChoose("shape", 5)
	a, b := "x.json#/components/schemas/T", "./d/../x.json#/components/schemas/T" // same target, two spellings
	switch shape {
	case 1:
		b = "d/y.json#/components/schemas/Own" // different file, different content location
	case 2:
		b = "back.json#/components/schemas/B" // refers back into the root
	case 3:
		// two versions of a file: only the dotted middle part of the name differs
		a, b = "m.v1.json#/components/schemas/X", "m.v2.json#/components/schemas/X"
	case 4:
		// directory separator versus underscore
		a, b = "a/b_c.json#/components/schemas/X", "a_b/c.json#/components/schemas/X"
	}
	// known finding: the default name resolver maps these pairs of distinct targets to one name
	files := verifFiles()
	files["/r/m.v1.json"] = `{"components":{"schemas":{"X":{"type":"string","minLength":1}}}}`
	files["/r/m.v2.json"] = `{"components":{"schemas":{"X":{"type":"string","minLength":2}}}}`
	files["/r/a/b_c.json"] = `{"components":{"schemas":{"X":{"type":"string","minLength":3}}}}`
	files["/r/a_b/c.json"] = `{"components":{"schemas":{"X":{"type":"string","minLength":4}}}}`
	files["/r/back.json"] = `{"components":{"schemas":{"B":{"type":"object","properties":{"r":{"$ref":"doc.json#/components/schemas/Local"}}}}}}`
	rootText := `{"openapi":"3.0.0","info":{"title":"t","version":"1"},"paths":{"/a":{"post":{"operationId":"op",` +
		`"parameters":[{"$ref":"x.json#/components/parameters/T"}],"requestBody":{"$ref":"x.json#/components/requestBodies/T"},` +
		`"responses":{"200":{"$ref":"x.json#/components/responses/T"},"201":{"description":"d","headers":{"X-H":{"$ref":"x.json#/components/headers/T"}},` +
		`"content":{"application/json":{"schema":{"type":"object","properties":{"a":{"$ref":"` + a + `"},"b":{"$ref":"` + b + `"}}}}}}}}}},` +
		`"components":{"schemas":{"Local":{"type":"string"}}}}`
	rootLoc := &url.URL{Path: "/r/doc.json"}
	loader := NewLoader()
	loader.IsExternalRefsAllowed = true
	loader.ReadFromURIFunc = func(l *Loader, u *url.URL) ([]byte, error) {
		if u.Path == rootLoc.Path {
			return []byte(rootText), nil
		}
		if t, ok := files[u.Path]; ok {
			return []byte(t), nil
		}
		return nil, errors.New("no such file")
	}
	doc, err := loader.LoadFromDataWithPath([]byte(rootText), rootLoc)
	verifAssert(err == nil && doc != nil, "C16 operation refs: the multi-file document loads")
	if err != nil || doc == nil {
		return
	}
	props := doc.Paths.Value("/a").Post.Responses.Value("201").Value.Content["application/json"].Schema.Value.Properties
	va, vb := props["a"].Value, props["b"].Value
	// known finding: the default name resolver maps these pairs of distinct targets to one name (it shows
	// in what is internalised and compared from here on, not in the loading above)
	verifKnown("C16-default-names-collide", shape == 3 || shape == 4)
	verifC16Check(doc, "operation refs")
	ra, rb := props["a"].Ref, props["b"].Ref
	verifAssert(props["a"].Value == va && props["b"].Value == vb, "C16 operation refs: references resolve to the same content as before")
	if shape == 0 {
		verifAssert(ra == rb, "C16 operation refs: the same target under two spellings is internalised once")
	} else {
		verifAssert(ra != rb, "C16 operation refs: distinct external targets are never merged under one component name")
	}
	verifReach("end")
}

// verifDerefSchema: the JSON tree of a schema with every reference replaced by the tree of the
// object it resolves to (through the Value pointers), to a fixed depth.
func verifDerefSchema(r *SchemaRef, depth int) any {
	if r == nil {
		return nil
	}
	if r.Value == nil {
		return "unresolved:" + r.Ref
	}
	if depth > 6 {
		return "..."
	}
	s := r.Value
	out := map[string]any{}
	if s.Type != nil {
		out["type"] = s.Type.Slice()
	}
	if s.MinLength != 0 {
		out["minLength"] = s.MinLength
	}
	if s.Format != "" {
		out["format"] = s.Format
	}
	if s.Items != nil {
		out["items"] = verifDerefSchema(s.Items, depth+1)
	}
	if s.Not != nil {
		out["not"] = verifDerefSchema(s.Not, depth+1)
	}
	if s.AdditionalProperties.Schema != nil {
		out["additionalProperties"] = verifDerefSchema(s.AdditionalProperties.Schema, depth+1)
	}
	for k, p := range s.Properties {
		out["p:"+k] = verifDerefSchema(p, depth+1)
	}
	for i, p := range s.AllOf {
		out["allOf:"+string(rune('0'+i))] = verifDerefSchema(p, depth+1)
	}
	for i, p := range s.OneOf {
		out["oneOf:"+string(rune('0'+i))] = verifDerefSchema(p, depth+1)
	}
	for i, p := range s.AnyOf {
		out["anyOf:"+string(rune('0'+i))] = verifDerefSchema(p, depth+1)
	}
	return out
}

//verif:harness id=C16 tier=quick,thorough witness=end bounds="external schemas whose own file-local references sit below inline sub-schemas: an operation schema refers to e.json#/components/schemas/V where V reaches e.json's Leaf through inline items / additionalProperties / not / allOf / oneOf / anyOf / nested properties, the root having its own different component named Leaf; and a root component that is a whole-file reference next to an earlier-sorting component referring to an element inside the same file; after InternalizeRefs + serialise + reload (no external reads) every schema dereferences to the same content as before"
func verifH_C16_external_structures() {
	inner := `{"type":"object","properties":{"p":{"$ref":"#/components/schemas/Leaf"}}}`
	vias := []string{
		`{"type":"array","items":` + inner + `}`,
		`{"type":"object","additionalProperties":` + inner + `}`,
		`{"not":` + inner + `}`,
		`{"allOf":[` + inner + `]}`,
		`{"oneOf":[` + inner + `]}`,
		`{"anyOf":[` + inner + `]}`,
		`{"type":"object","properties":{"q":` + inner + `}}`,
		`{"type":"array","items":{"type":"array","items":` + inner + `}}`,
	}
	shape := verifChoose("shape", len(vias)+1)
	files := map[string]string{}
	var rootText string
	if shape < len(vias) {
		files["/r/e.json"] = `{"components":{"schemas":{"V":` + vias[shape] + `,"Leaf":{"type":"string","minLength":9}}}}`
		rootText = `{"openapi":"3.0.0","info":{"title":"t","version":"1"},"paths":{"/a":{"get":{"operationId":"op","responses":{"200":{"description":"d","content":{"application/json":{"schema":{"$ref":"e.json#/components/schemas/V"}}}}}}}},` +
			`"components":{"schemas":{"Leaf":{"type":"integer"}}}}`
	} else {
		files["/r/rec.json"] = `{"type":"object","properties":{"owner":{"type":"string","minLength":7},"n":{"type":"integer"}}}`
		rootText = `{"openapi":"3.0.0","info":{"title":"t","version":"1"},"paths":{"/a":{"get":{"operationId":"op","responses":{"200":{"description":"d","content":{"application/json":{"schema":{"$ref":"#/components/schemas/Alpha"}}}}}}}},` +
			`"components":{"schemas":{"Alpha":{"type":"object","properties":{"o":{"$ref":"rec.json#/properties/owner"}}},"Record":{"$ref":"rec.json"}}}}`
	}
	rootLoc := &url.URL{Path: "/r/doc.json"}
	loader := NewLoader()
	loader.IsExternalRefsAllowed = true
	loader.ReadFromURIFunc = func(l *Loader, u *url.URL) ([]byte, error) {
		if u.Path == rootLoc.Path {
			return []byte(rootText), nil
		}
		if t, ok := files[u.Path]; ok {
			return []byte(t), nil
		}
		return nil, errors.New("no such file")
	}
	doc, err := loader.LoadFromDataWithPath([]byte(rootText), rootLoc)
	verifAssert(err == nil && doc != nil, "C16 structures: the multi-file document loads")
	if err != nil || doc == nil {
		return
	}
	probe := func(d *T) any {
		out := map[string]any{"op": verifDerefSchema(d.Paths.Value("/a").Get.Responses.Value("200").Value.Content["application/json"].Schema, 0)}
		for _, name := range []string{"Leaf", "Alpha", "Record"} {
			if r := d.Components.Schemas[name]; r != nil {
				out[name] = verifDerefSchema(r, 0)
			}
		}
		return out
	}
	before := probe(doc)
	doc.InternalizeRefs(context.Background(), nil)
	b, merr := json.Marshal(doc)
	verifAssert(merr == nil, "C16 structures: the internalised document serialises")
	if merr != nil {
		return
	}
	l2 := NewLoader()
	l2.ReadFromURIFunc = func(*Loader, *url.URL) ([]byte, error) { return nil, errors.New("no reads expected") }
	doc2, rerr := l2.LoadFromData(b)
	verifAssert(rerr == nil && doc2 != nil, "C16 structures: the internalised document loads with external references disallowed")
	if rerr != nil || doc2 == nil {
		return
	}
	after := probe(doc2)
	verifAssert(reflect.DeepEqual(before, after), "C16 structures: after internalising, serialising and reloading every schema dereferences to the same content as before")
	verifReach("end")
}

//verif:harness id=C16 tier=quick,thorough witness=end bounds="external operation-level objects whose own file-local references must follow them: a response (header by local reference, content schema by local reference), a parameter and a request body referenced from e.json, each reaching e.json's own components, the root having different components under the same names; after InternalizeRefs + serialise + reload (no external reads) every probed schema dereferences to the same content as before"
func verifH_C16_external_objects() {
	verifMapOrder() // map iteration order is unspecified: ascending and descending key order
	files := map[string]string{
		"/r/e.json": `{"components":{` +
			`"schemas":{"Leaf":{"type":"string","minLength":9}},` +
			`"headers":{"EH":{"schema":{"$ref":"#/components/schemas/Leaf"}}},` +
			`"parameters":{"EP":{"name":"p","in":"query","schema":{"$ref":"#/components/schemas/Leaf"}}},` +
			`"requestBodies":{"EB":{"content":{"application/json":{"schema":{"$ref":"#/components/schemas/Leaf"}}}}},` +
			`"responses":{"NF":{"description":"d","headers":{"X":{"$ref":"#/components/headers/EH"}},"content":{"application/json":{"schema":{"$ref":"#/components/schemas/Leaf"}}}}}}}`,
	}
	which := verifChoose("which", 4) // which of the operation's parts is external (the others are inline)
	param := `{"name":"p","in":"query","schema":{"type":"boolean"}}`
	body := `{"content":{"application/json":{"schema":{"type":"boolean"}}}}`
	resp := `{"description":"d"}`
	switch which {
	case 0:
		param = `{"$ref":"e.json#/components/parameters/EP"}`
	case 1:
		body = `{"$ref":"e.json#/components/requestBodies/EB"}`
	case 2:
		resp = `{"$ref":"e.json#/components/responses/NF"}`
	case 3:
		param, body, resp = `{"$ref":"e.json#/components/parameters/EP"}`, `{"$ref":"e.json#/components/requestBodies/EB"}`, `{"$ref":"e.json#/components/responses/NF"}`
	}
	rootText := `{"openapi":"3.0.0","info":{"title":"t","version":"1"},"paths":{"/a":{"post":{"operationId":"op","parameters":[` + param + `],"requestBody":` + body + `,"responses":{"404":` + resp + `}}}},` +
		`"components":{"schemas":{"Leaf":{"type":"integer"}},"headers":{"EH":{"schema":{"type":"integer"}}}}}`
	rootLoc := &url.URL{Path: "/r/doc.json"}
	loader := NewLoader()
	loader.IsExternalRefsAllowed = true
	loader.ReadFromURIFunc = func(l *Loader, u *url.URL) ([]byte, error) {
		if u.Path == rootLoc.Path {
			return []byte(rootText), nil
		}
		if t, ok := files[u.Path]; ok {
			return []byte(t), nil
		}
		return nil, errors.New("no such file")
	}
	doc, err := loader.LoadFromDataWithPath([]byte(rootText), rootLoc)
	verifAssert(err == nil && doc != nil, "C16 objects: the multi-file document loads")
	if err != nil || doc == nil {
		return
	}
	probe := func(d *T) any {
		op := d.Paths.Value("/a").Post
		out := map[string]any{}
		if p := op.Parameters[0]; p != nil && p.Value != nil {
			out["param"] = verifDerefSchema(p.Value.Schema, 0)
		}
		if op.RequestBody != nil && op.RequestBody.Value != nil {
			if mt := op.RequestBody.Value.Content["application/json"]; mt != nil {
				out["body"] = verifDerefSchema(mt.Schema, 0)
			}
		}
		if r := op.Responses.Value("404"); r != nil && r.Value != nil {
			if h := r.Value.Headers["X"]; h != nil && h.Value != nil {
				out["header"] = verifDerefSchema(h.Value.Schema, 0)
			} else if h != nil {
				out["header"] = "unresolved:" + h.Ref
			}
			if mt := r.Value.Content["application/json"]; mt != nil {
				out["content"] = verifDerefSchema(mt.Schema, 0)
			}
		}
		return out
	}
	before := probe(doc)
	doc.InternalizeRefs(context.Background(), nil)
	b, merr := json.Marshal(doc)
	verifAssert(merr == nil, "C16 objects: the internalised document serialises")
	if merr != nil {
		return
	}
	l2 := NewLoader()
	l2.ReadFromURIFunc = func(*Loader, *url.URL) ([]byte, error) { return nil, errors.New("no reads expected") }
	doc2, rerr := l2.LoadFromData(b)
	verifAssert(rerr == nil && doc2 != nil, "C16 objects: the internalised document loads with external references disallowed")
	if rerr != nil || doc2 == nil {
		return
	}
	verifAssert(reflect.DeepEqual(before, probe(doc2)), "C16 objects: after internalising, serialising and reloading every schema of the operation dereferences to the same content as before")
	verifReach("end")
}

//verif:harness id=C16 tier=quick,thorough witness=end bounds="one external file whose components of different kinds share one name (Pet as schema, header, parameter, request body and response), referenced from one operation in every subset of {parameter, request body, response 200, response 404 with two headers that are the same external header, an earlier path using the external response}: after InternalizeRefs + serialise + reload (no external reads) every probed schema dereferences to the same content as before"
func verifH_C16_same_name_kinds() {
	verifMapOrder() // map iteration order is unspecified: ascending and descending key order
	files := map[string]string{
		"/r/e.json": `{"components":{` +
			`"schemas":{"Pet":{"type":"string","minLength":9}},` +
			`"headers":{"Pet":{"schema":{"type":"string","minLength":8}}},` +
			`"parameters":{"Pet":{"name":"p","in":"query","schema":{"type":"string","minLength":7}}},` +
			`"requestBodies":{"Pet":{"content":{"application/json":{"schema":{"type":"string","minLength":6}}}}},` +
			`"responses":{"Pet":{"description":"d","headers":{"X":{"$ref":"#/components/headers/Pet"}},"content":{"application/json":{"schema":{"$ref":"#/components/schemas/Pet"}}}}}}}`,
	}
	param := `{"name":"p","in":"query","schema":{"type":"boolean"}}`
	body := `{"content":{"application/json":{"schema":{"type":"boolean"}}}}`
	r200 := `{"description":"d"}`
	r404 := `{"description":"d"}`
	if verifChoose("param", 2) == 1 {
		param = `{"$ref":"e.json#/components/parameters/Pet"}`
	}
	if verifChoose("body", 2) == 1 {
		body = `{"$ref":"e.json#/components/requestBodies/Pet"}`
	}
	if verifChoose("r200", 2) == 1 {
		r200 = `{"$ref":"e.json#/components/responses/Pet"}`
	}
	if verifChoose("r404", 2) == 1 {
		r404 = `{"description":"d","headers":{"X":{"$ref":"e.json#/components/headers/Pet"},"Y":{"$ref":"e.json#/components/headers/Pet"}}}`
	}
	early := ""
	if verifChoose("early", 2) == 1 {
		// an earlier path that brings the external response in before /a's request body is looked at
		early = `"/0":{"get":{"operationId":"op0","responses":{"200":{"$ref":"e.json#/components/responses/Pet"}}}},`
	}
	rootText := `{"openapi":"3.0.0","info":{"title":"t","version":"1"},"paths":{` + early + `"/a":{"post":{"operationId":"op","parameters":[` + param + `],"requestBody":` + body + `,"responses":{"200":` + r200 + `,"404":` + r404 + `}}}}}`
	rootLoc := &url.URL{Path: "/r/doc.json"}
	loader := NewLoader()
	loader.IsExternalRefsAllowed = true
	loader.ReadFromURIFunc = func(l *Loader, u *url.URL) ([]byte, error) {
		if u.Path == rootLoc.Path {
			return []byte(rootText), nil
		}
		if t, ok := files[u.Path]; ok {
			return []byte(t), nil
		}
		return nil, errors.New("no such file")
	}
	doc, err := loader.LoadFromDataWithPath([]byte(rootText), rootLoc)
	verifAssert(err == nil && doc != nil, "C16 same name: the multi-file document loads")
	if err != nil || doc == nil {
		return
	}
	probe := func(d *T) any {
		op := d.Paths.Value("/a").Post
		out := map[string]any{}
		if p := op.Parameters[0]; p != nil && p.Value != nil {
			out["param"] = verifDerefSchema(p.Value.Schema, 0)
		} else {
			out["param"] = "unresolved"
		}
		if op.RequestBody != nil && op.RequestBody.Value != nil {
			if mt := op.RequestBody.Value.Content["application/json"]; mt != nil {
				out["body"] = verifDerefSchema(mt.Schema, 0)
			}
		} else {
			out["body"] = "unresolved"
		}
		for _, code := range []string{"200", "404"} {
			r := op.Responses.Value(code)
			if r == nil || r.Value == nil {
				out[code] = "unresolved"
				continue
			}
			for _, hn := range []string{"X", "Y"} {
				if h := r.Value.Headers[hn]; h != nil && h.Value != nil {
					out[code+"."+hn] = verifDerefSchema(h.Value.Schema, 0)
				} else if h != nil {
					out[code+"."+hn] = "unresolved:" + h.Ref
				}
			}
			if mt := r.Value.Content["application/json"]; mt != nil {
				out[code+".content"] = verifDerefSchema(mt.Schema, 0)
			}
		}
		if p0 := d.Paths.Value("/0"); p0 != nil {
			if r := p0.Get.Responses.Value("200"); r != nil && r.Value != nil {
				if mt := r.Value.Content["application/json"]; mt != nil {
					out["0.content"] = verifDerefSchema(mt.Schema, 0)
				}
			} else {
				out["0"] = "unresolved"
			}
		}
		return out
	}
	before := probe(doc)
	doc.InternalizeRefs(context.Background(), nil)
	b, merr := json.Marshal(doc)
	verifAssert(merr == nil, "C16 same name: the internalised document serialises")
	if merr != nil {
		return
	}
	verifAssert(!strings.Contains(string(b), "e.json"), "C16 same name: no reference to the external file is left")
	l2 := NewLoader()
	l2.ReadFromURIFunc = func(*Loader, *url.URL) ([]byte, error) { return nil, errors.New("no reads expected") }
	doc2, rerr := l2.LoadFromData(b)
	verifAssert(rerr == nil && doc2 != nil, "C16 same name: the internalised document loads with external references disallowed")
	if rerr != nil || doc2 == nil {
		return
	}
	verifAssert(reflect.DeepEqual(before, probe(doc2)), "C16 same name: after internalising, serialising and reloading every schema of the operation dereferences to the same content as before")
	verifReach("end")
}

//verif:harness id=C16 tier=quick,thorough witness=end bounds="root components that are themselves references into another file whose target uses that file's own #/components references: components.parameters / requestBodies / responses / headers entry = e.json#/components/<kind>/E, E reaching e.json's Leaf (and, for the response, e.json's header and example) while the root has a different Leaf; plus a media type without schema whose examples are external references; after InternalizeRefs + serialise + reload (no external reads) every probed schema dereferences to the same content as before and nothing names e.json any more"
func verifH_C16_component_refs() {
	files := map[string]string{
		"/r/e.json": `{"components":{` +
			`"schemas":{"Leaf":{"type":"string","minLength":9}},` +
			`"examples":{"Ex":{"value":"exexexexex"}},` +
			`"headers":{"E":{"schema":{"$ref":"#/components/schemas/Leaf"}}},` +
			`"parameters":{"E":{"name":"p","in":"query","schema":{"$ref":"#/components/schemas/Leaf"}}},` +
			`"requestBodies":{"E":{"content":{"application/json":{"schema":{"$ref":"#/components/schemas/Leaf"}}}}},` +
			`"responses":{"E":{"description":"d","headers":{"X":{"$ref":"#/components/headers/E"}},"content":{"application/json":{"schema":{"$ref":"#/components/schemas/Leaf"},"examples":{"x":{"$ref":"#/components/examples/Ex"}}}}}}}}`,
	}
	kind := verifChoose("kind", 5)
	comps := `"schemas":{"Leaf":{"type":"integer"}}`
	op := `"responses":{"200":{"description":"d"}}`
	switch kind {
	case 0:
		comps += `,"parameters":{"RP":{"$ref":"e.json#/components/parameters/E"}}`
		op = `"parameters":[{"$ref":"#/components/parameters/RP"}],` + op
	case 1:
		comps += `,"requestBodies":{"RB":{"$ref":"e.json#/components/requestBodies/E"}}`
		op = `"requestBody":{"$ref":"#/components/requestBodies/RB"},` + op
	case 2:
		comps += `,"responses":{"RR":{"$ref":"e.json#/components/responses/E"}}`
		op = `"responses":{"200":{"$ref":"#/components/responses/RR"}}`
	case 3:
		comps += `,"headers":{"RH":{"$ref":"e.json#/components/headers/E"}}`
		op = `"responses":{"200":{"description":"d","headers":{"X":{"$ref":"#/components/headers/RH"}}}}`
	case 4:
		// no schema at all: only examples, by external reference
		op = `"responses":{"200":{"description":"d","content":{"application/json":{"examples":{"x":{"$ref":"e.json#/components/examples/Ex"}}}}}}`
	}
	rootText := `{"openapi":"3.0.0","info":{"title":"t","version":"1"},"paths":{"/a":{"post":{"operationId":"op",` + op + `}}},"components":{` + comps + `}}`
	rootLoc := &url.URL{Path: "/r/doc.json"}
	loader := NewLoader()
	loader.IsExternalRefsAllowed = true
	loader.ReadFromURIFunc = func(l *Loader, u *url.URL) ([]byte, error) {
		if u.Path == rootLoc.Path {
			return []byte(rootText), nil
		}
		if t, ok := files[u.Path]; ok {
			return []byte(t), nil
		}
		return nil, errors.New("no such file")
	}
	doc, err := loader.LoadFromDataWithPath([]byte(rootText), rootLoc)
	verifAssert(err == nil && doc != nil, "C16 component refs: the multi-file document loads")
	if err != nil || doc == nil {
		return
	}
	probe := func(d *T) any {
		out := map[string]any{}
		o := d.Paths.Value("/a").Post
		if len(o.Parameters) > 0 && o.Parameters[0] != nil && o.Parameters[0].Value != nil {
			out["param"] = verifDerefSchema(o.Parameters[0].Value.Schema, 0)
		}
		if o.RequestBody != nil && o.RequestBody.Value != nil {
			if mt := o.RequestBody.Value.Content["application/json"]; mt != nil {
				out["body"] = verifDerefSchema(mt.Schema, 0)
			}
		}
		if r := o.Responses.Value("200"); r != nil && r.Value != nil {
			if h := r.Value.Headers["X"]; h != nil && h.Value != nil {
				out["header"] = verifDerefSchema(h.Value.Schema, 0)
			} else if h != nil {
				out["header"] = "unresolved"
			}
			if mt := r.Value.Content["application/json"]; mt != nil {
				if mt.Schema != nil {
					out["content"] = verifDerefSchema(mt.Schema, 0)
				}
				if ex := mt.Examples["x"]; ex != nil && ex.Value != nil {
					out["example"] = ex.Value.Value
				} else if ex != nil {
					out["example"] = "unresolved"
				}
			}
		} else if r != nil {
			out["response"] = "unresolved"
		}
		return out
	}
	before := probe(doc)
	doc.InternalizeRefs(context.Background(), nil)
	b, merr := json.Marshal(doc)
	verifAssert(merr == nil, "C16 component refs: the internalised document serialises")
	if merr != nil {
		return
	}
	verifAssert(!strings.Contains(string(b), "e.json"), "C16 component refs: no reference to the external file is left")
	l2 := NewLoader()
	l2.ReadFromURIFunc = func(*Loader, *url.URL) ([]byte, error) { return nil, errors.New("no reads expected") }
	doc2, rerr := l2.LoadFromData(b)
	verifAssert(rerr == nil && doc2 != nil, "C16 component refs: the internalised document loads with external references disallowed")
	if rerr != nil || doc2 == nil {
		return
	}
	verifAssert(reflect.DeepEqual(before, probe(doc2)), "C16 component refs: after internalising, serialising and reloading every probed schema and example is the same content as before")
	verifReach("end")
}
