package openapi3

// C16 — internalising refs yields a self-contained, equivalent document.
// Selector-symbolic over the reference layouts of C02 (documents come out of the
// real loader, so reference paths are the real ones).

import (
	"context"
	"encoding/json"
	"errors"
	"net/url"
	"strings"
)

// verifCollectRefs returns every "$ref" string in a JSON tree.
func verifCollectRefs(tree any, out *[]string) {
	switch x := tree.(type) {
	case map[string]any:
		for k, v := range x {
			if k == "$ref" {
				if s, ok := v.(string); ok {
					*out = append(*out, s)
				}
				continue
			}
			verifCollectRefs(v, out)
		}
	case []any:
		for _, v := range x {
			verifCollectRefs(v, out)
		}
	}
}

func verifComponentExists(tree any, ref string) bool {
	if !strings.HasPrefix(ref, "#/components/") {
		return false
	}
	cur := tree
	for _, tok := range strings.Split(strings.TrimPrefix(ref, "#/"), "/") {
		m, ok := cur.(map[string]any)
		if !ok {
			return false
		}
		if cur, ok = m[tok]; !ok {
			return false
		}
	}
	// not a reference to itself
	if m, ok := cur.(map[string]any); ok {
		if r, has := m["$ref"].(string); has && r == ref {
			return false
		}
	}
	return true
}

func verifC16Check(doc *T, what string) {
	origValid := doc.Validate(context.Background()) == nil
	doc.InternalizeRefs(context.Background(), nil)
	b, err := json.Marshal(doc)
	verifAssert(err == nil, "C16 "+what+": the internalised document serialises")
	if err != nil {
		return
	}
	var tree any
	if json.Unmarshal(b, &tree) != nil {
		verifAssert(false, "C16 "+what+": the serialised document is JSON")
		return
	}
	var refs []string
	verifCollectRefs(tree, &refs)
	for _, r := range refs {
		verifAssert(verifComponentExists(tree, r), "C16 "+what+": every reference points at an existing entry of the document's own components (and no component refers to itself)")
	}
	verifAssert((doc.Validate(context.Background()) == nil) == origValid, "C16 "+what+": the internalised document validates exactly when the original does")
	// reload with external references disallowed
	l2 := NewLoader()
	l2.ReadFromURIFunc = func(*Loader, *url.URL) ([]byte, error) { return nil, errors.New("no reads expected") }
	_, rerr := l2.LoadFromData(b)
	verifAssert(rerr == nil, "C16 "+what+": the internalised document loads with external references disallowed")
}

//verif:harness id=C16 tier=quick,thorough witness=end bounds="documents from the real loader: one top-level component of each of the nine kinds that is itself a reference (same document, whole external file, fragment, ./ and d/../ spellings, nested directory, chain through two files, absolute path) x root loaded from /r/doc.json; InternalizeRefs with the default name resolver; every $ref in the serialised result names an existing component that is not a reference to itself, the result validates as before and reloads with external references disallowed, resolved values are the same objects as before"
func verifH_C16_slots() {
	kind := verifKinds[verifChoose("kind", len(verifKinds))]
	cands := verifC02Candidates(kind)[:8] // resolvable candidates only
	ref := cands[verifChoose("candidate", len(cands))]
	files := verifFiles()
	rootText := verifSlotDoc(kind, ref)
	rootLoc := &url.URL{Path: "/r/doc.json"}
	loader := NewLoader()
	loader.IsExternalRefsAllowed = true
	loader.ReadFromURIFunc = func(l *Loader, u *url.URL) ([]byte, error) {
		if u.Path == rootLoc.Path {
			return []byte(rootText), nil
		}
		if t, ok := files[u.Path]; ok {
			return []byte(t), nil
		}
		return nil, errors.New("no such file")
	}
	doc, err := loader.LoadFromDataWithPath([]byte(rootText), rootLoc)
	if err != nil || doc == nil {
		return
	}
	before, _, resolved := verifSlotValue(doc, kind)
	wholeFile := !strings.Contains(ref, "#")
	verifKnown("C16-top-level-whole-file-component-self-reference", wholeFile && (kind == "responses" || kind == "headers" || kind == "examples" || kind == "links" || kind == "securitySchemes"))

	verifC16Check(doc, "slot")
	after, _, _ := verifSlotValue(doc, kind)
	if resolved {
		verifAssert(after == before, "C16 slot: every reference resolves to the same content as before")
	}
	verifReach("end")
}

//verif:harness id=C16 tier=quick,thorough witness=end bounds="operation-level references (parameter, request body, response, response header, schema in content, callback) to external files: the same file under two spellings (x.json and ./d/../x.json), two different files with equally named components (x.json and d/y.json 'Own'), and a file that refers back into the root document; after InternalizeRefs distinct targets have distinct component names, equal targets one name"
func verifH_C16_operation_refs() {
	shape := verifChoose("shape", 3)
	a, b := "x.json#/components/schemas/T", "./d/../x.json#/components/schemas/T" // same target, two spellings
	switch shape {
	case 1:
		b = "d/y.json#/components/schemas/Own" // different file, different content location
	case 2:
		b = "back.json#/components/schemas/B" // refers back into the root
	}
	files := verifFiles()
	files["/r/back.json"] = `{"components":{"schemas":{"B":{"type":"object","properties":{"r":{"$ref":"doc.json#/components/schemas/Local"}}}}}}`
	rootText := `{"openapi":"3.0.0","info":{"title":"t","version":"1"},"paths":{"/a":{"post":{"operationId":"op",` +
		`"parameters":[{"$ref":"x.json#/components/parameters/T"}],"requestBody":{"$ref":"x.json#/components/requestBodies/T"},` +
		`"responses":{"200":{"$ref":"x.json#/components/responses/T"},"201":{"description":"d","headers":{"X-H":{"$ref":"x.json#/components/headers/T"}},` +
		`"content":{"application/json":{"schema":{"type":"object","properties":{"a":{"$ref":"` + a + `"},"b":{"$ref":"` + b + `"}}}}}}}}}},` +
		`"components":{"schemas":{"Local":{"type":"string"}}}}`
	rootLoc := &url.URL{Path: "/r/doc.json"}
	loader := NewLoader()
	loader.IsExternalRefsAllowed = true
	loader.ReadFromURIFunc = func(l *Loader, u *url.URL) ([]byte, error) {
		if u.Path == rootLoc.Path {
			return []byte(rootText), nil
		}
		if t, ok := files[u.Path]; ok {
			return []byte(t), nil
		}
		return nil, errors.New("no such file")
	}
	doc, err := loader.LoadFromDataWithPath([]byte(rootText), rootLoc)
	verifAssert(err == nil && doc != nil, "C16 operation refs: the multi-file document loads")
	if err != nil || doc == nil {
		return
	}
	props := doc.Paths.Value("/a").Post.Responses.Value("201").Value.Content["application/json"].Schema.Value.Properties
	va, vb := props["a"].Value, props["b"].Value
	verifC16Check(doc, "operation refs")
	ra, rb := props["a"].Ref, props["b"].Ref
	verifAssert(props["a"].Value == va && props["b"].Value == vb, "C16 operation refs: references resolve to the same content as before")
	if shape == 0 {
		verifAssert(ra == rb, "C16 operation refs: the same target under two spellings is internalised once")
	} else {
		verifAssert(ra != rb, "C16 operation refs: distinct external targets are never merged under one component name")
	}
	verifReach("end")
}
