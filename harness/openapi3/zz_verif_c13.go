package openapi3

// C13 kernel 2a — default injection during request-side validation:
// each absent property with a default gets exactly that default, nothing
// else changes, defaults of non-matching oneOf/anyOf branches are not
// applied, a second pass changes nothing.

import "reflect"

func verifCopyJSON(v any) any {
	switch x := v.(type) {
	case map[string]any:
		out := make(map[string]any, len(x))
		for k, e := range x {
			out[k] = verifCopyJSON(e)
		}
		return out
	case []any:
		out := make([]any, len(x))
		for i, e := range x {
			out[i] = verifCopyJSON(e)
		}
		return out
	}
	return v
}

//verif:harness id=C13 tier=quick,thorough witness=end bounds="object schema {a: number default Da (symbolic), b: string, z: nullable number default Da (absent / explicit null / number), c: object{d: number default Dd}} + allOf[{e: number default De}] x value: each of a,b,c,c.d,e present (symbolic number / ASCII len<=1) or absent; VisitAsRequest + DefaultsSet; after one pass: absent defaulted properties hold exactly their default, present ones unchanged, no other key appears; callback runs once iff something was defaulted; second pass changes nothing"
func verifH_C13_defaults() {
	da, dd, de := verifFiniteFloat("Da"), verifFiniteFloat("Dd"), verifFiniteFloat("De")
	num := func(def any) *SchemaRef {
		return &SchemaRef{Value: &Schema{Type: &Types{"number"}, Default: def}}
	}
	inner := &Schema{Type: &Types{"object"}, Properties: Schemas{"d": num(dd)}}
	s := &Schema{Type: &Types{"object"}, Properties: Schemas{
		"a": num(da),
		"b": &SchemaRef{Value: &Schema{Type: &Types{"string"}}},
		// nullable with a default: an explicit null is a present value, not an absent property
		"z": &SchemaRef{Value: &Schema{Type: &Types{"number"}, Nullable: true, Default: da}},
		"c": &SchemaRef{Value: inner},
	}, AllOf: SchemaRefs{{Value: &Schema{Type: &Types{"object"}, Properties: Schemas{"e": num(de)}}}}}
	v := map[string]any{}
	hasA, hasB, hasC, hasD, hasE := verifChoose("hasA", 2) == 1, verifChoose("hasB", 2) == 1, verifChoose("hasC", 2) == 1, verifChoose("hasD", 2) == 1, verifChoose("hasE", 2) == 1
	if hasA {
		v["a"] = verifFiniteFloat("va")
	}
	if hasB {
		v["b"] = verifASCII("vb", 1)
	}
	if hasC {
		c := map[string]any{}
		if hasD {
			c["d"] = verifFiniteFloat("vd")
		}
		v["c"] = c
	}
	if hasE {
		v["e"] = verifFiniteFloat("ve")
	}
	zKind := verifChoose("z", 3) // absent, explicit null, number
	switch zKind {
	case 1:
		v["z"] = nil
	case 2:
		v["z"] = verifFiniteFloat("vz")
	}
	before := verifCopyJSON(v).(map[string]any)
	calls := 0
	err := s.VisitJSON(v, VisitAsRequest(), DefaultsSet(func() { calls++ }))
	verifAssert(err == nil, "C13 defaults: a request whose absent members have defaults validates")

	// expected document
	want := verifCopyJSON(before).(map[string]any)
	defaulted := false
	if !hasA {
		want["a"] = da
		defaulted = true
	}
	if hasC && !hasD {
		want["c"].(map[string]any)["d"] = dd
		defaulted = true
	}
	if !hasE {
		want["e"] = de
		defaulted = true
	}
	if zKind == 0 {
		want["z"] = da
		defaulted = true
	}
	verifAssert(reflect.DeepEqual(v, want), "C13 defaults: each absent property with a default holds exactly that default and nothing else changed")
	verifAssert((calls == 1) == defaulted && calls <= 1, "C13 defaults: the defaults-set callback runs once iff a default was applied")
	// second pass: nothing further
	calls2 := 0
	after := verifCopyJSON(v)
	err2 := s.VisitJSON(v, VisitAsRequest(), DefaultsSet(func() { calls2++ }))
	verifAssert(err2 == nil && calls2 == 0 && reflect.DeepEqual(v, after), "C13 defaults: a second validation changes nothing further")
	verifReach("end")
}

//verif:harness id=C13 tier=quick,thorough witness=end bounds="oneOf / anyOf of two object branches {k: number, f default F1, a:{g default G1}} and {k: string, f default F2, a:{g default G2}} (plus array items of that shape) x value k number / string / boolean, f absent or present, a absent or {}; only the matching branch's default is applied, a rejected value is left untouched"
func verifH_C13_branch_defaults() {
	f1, f2 := verifFiniteFloat("F1"), verifFiniteFloat("F2")
	g1, g2 := verifFiniteFloat("G1"), verifFiniteFloat("G2")
	branch := func(t string, def float64) *SchemaRef {
		g := g1
		if t == "string" {
			g = g2
		}
		return &SchemaRef{Value: &Schema{Type: &Types{"object"}, Required: []string{"k"}, Properties: Schemas{
			"k": &SchemaRef{Value: &Schema{Type: &Types{t}}},
			"f": &SchemaRef{Value: &Schema{Type: &Types{"number"}, Default: def}},
			// a default one object level down, in a property visited before the discriminating one
			"a": &SchemaRef{Value: &Schema{Type: &Types{"object"}, Properties: Schemas{"g": &SchemaRef{Value: &Schema{Type: &Types{"number"}, Default: g}}}}},
		}}}
	}
	comb := &Schema{}
	if verifChoose("comb", 2) == 0 {
		comb.OneOf = SchemaRefs{branch("number", f1), branch("string", f2)}
	} else {
		comb.AnyOf = SchemaRefs{branch("number", f1), branch("string", f2)}
	}
	o := map[string]any{}
	kind := verifChoose("kkind", 3)
	switch kind {
	case 0:
		o["k"] = verifFiniteFloat("k")
	case 1:
		o["k"] = verifASCII("ks", 1)
	case 2:
		o["k"] = verifNondetBool("kb")
	}
	hasF := verifChoose("hasF", 2) == 1
	if hasF {
		o["f"] = verifFiniteFloat("f")
	}
	hasA := verifChoose("hasA", 2) == 1
	if hasA {
		o["a"] = map[string]any{}
	}
	var s *Schema
	var v any
	inArray := verifChoose("inArray", 2) == 1
	if inArray {
		s = &Schema{Type: &Types{"array"}, Items: &SchemaRef{Value: comb}}
		v = []any{o}
	} else {
		s, v = comb, o
	}
	before := verifCopyJSON(o).(map[string]any)
	err := s.VisitJSON(v, VisitAsRequest(), DefaultsSet(func() {}))
	verifAssert((err == nil) == (kind != 2), "C13 branch defaults: the value validates iff one branch matches")
	want := verifCopyJSON(before).(map[string]any)
	if !hasF {
		switch kind {
		case 0:
			want["f"] = f1
		case 1:
			want["f"] = f2
		}
	}
	if hasA {
		switch kind {
		case 0:
			want["a"] = map[string]any{"g": g1}
		case 1:
			want["a"] = map[string]any{"g": g2}
		}
	}
	verifAssert(reflect.DeepEqual(o, want), "C13 branch defaults: only the matching branch's default is applied; nothing else changes")
	verifReach("end")
}

//verif:harness id=C13 tier=quick,thorough witness=end bounds="defaults below `not`: schema {type: object, not: {required: [zz], properties: {inj: {default D}}}} (also with the not-schema below allOf) x value {x: number} with or without inj; VisitAsRequest + DefaultsSet: the value validates (it does not match the not-schema) and is left exactly as it was: a schema that must NOT match contributes no defaults"
func verifH_C13_not_defaults() {
	d := verifFiniteFloat("D")
	notSchema := &Schema{Type: &Types{"object"}, Required: []string{"zz"}, Properties: Schemas{"inj": {Value: &Schema{Type: &Types{"number"}, Default: d}}}}
	s := &Schema{Type: &Types{"object"}}
	if verifChoose("below", 2) == 0 {
		s.Not = &SchemaRef{Value: notSchema}
	} else {
		s.AllOf = SchemaRefs{{Value: &Schema{Not: &SchemaRef{Value: notSchema}}}}
	}
	v := map[string]any{"x": verifFiniteFloat("x")}
	if verifChoose("hasInj", 2) == 1 {
		v["inj"] = verifFiniteFloat("inj")
	}
	before := verifCopyJSON(v)
	calls := 0
	err := s.VisitJSON(v, VisitAsRequest(), DefaultsSet(func() { calls++ }))
	verifAssert(err == nil, "C13 not-defaults: a value that does not match the not-schema validates")
	verifAssert(reflect.DeepEqual(any(v), before), "C13 not-defaults: defaults of a schema that must not match are never applied")
	verifAssert(calls == 0, "C13 not-defaults: the defaults-set callback does not fire")
	verifReach("end")
}
