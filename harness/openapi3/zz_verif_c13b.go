package openapi3

// C13, defaults that are objects (or arrays of objects) whose own members have defaults.

import "reflect"

//verif:harness id=C13 tier=quick,thorough witness=end bounds="object-valued defaults: property retry (absent / {} / {max: number}) with default {max: M} whose schema gives delay the default D and nested.k the default K inside a nested object default; property list (absent / present) with default [{}] whose items give n the default N, with or without uniqueItems; M, D, K, N symbolic numbers: after ONE validation every absent member at every depth holds its default (the injected default object receives the defaults of its own absent members in the same pass), the document's default values are not modified, the value validates again and a second validation changes nothing"
func verifH_C13_object_defaults() {
	m, d, k, n := verifFiniteFloat("M"), verifFiniteFloat("D"), verifFiniteFloat("K"), verifFiniteFloat("N")
	num := func(def any) *SchemaRef {
		return &SchemaRef{Value: &Schema{Type: &Types{"number"}, Default: def}}
	}
	retryDefault := map[string]any{"max": m, "nested": map[string]any{}}
	listDefault := []any{map[string]any{}}
	retry := &Schema{Type: &Types{"object"}, Default: retryDefault, Properties: Schemas{
		"max":    {Value: &Schema{Type: &Types{"number"}}},
		"delay":  num(d),
		"nested": {Value: &Schema{Type: &Types{"object"}, Properties: Schemas{"k": num(k)}}},
	}}
	list := &Schema{Type: &Types{"array"}, Default: listDefault, Items: &SchemaRef{Value: &Schema{Type: &Types{"object"}, Properties: Schemas{"n": num(n)}}}}
	// uniqueItems is judged on the items as they are forwarded (with their defaults), or the forwarded request would not validate again
	list.UniqueItems = verifChoose("unique", 2) == 1
	s := &Schema{Type: &Types{"object"}, Properties: Schemas{"retry": {Value: retry}, "list": {Value: list}}}
	v := map[string]any{}
	retryKind := verifChoose("retry", 3)
	switch retryKind {
	case 1:
		v["retry"] = map[string]any{}
	case 2:
		v["retry"] = map[string]any{"max": verifFiniteFloat("vmax")}
	}
	hasList := verifChoose("list", 2) == 1
	vn := 0.0
	if hasList {
		vn = verifFiniteFloat("vn")
		v["list"] = []any{map[string]any{"n": vn}, map[string]any{}}
	}
	want := verifCopyJSON(v).(map[string]any)
	switch retryKind {
	case 0:
		want["retry"] = map[string]any{"max": m, "delay": d, "nested": map[string]any{"k": k}}
	default:
		want["retry"].(map[string]any)["delay"] = d // an absent nested object has no default of its own: it stays absent
	}
	if hasList {
		want["list"].([]any)[1].(map[string]any)["n"] = n
	} else {
		want["list"] = []any{map[string]any{"n": n}}
	}
	calls := 0
	err := s.VisitJSON(v, VisitAsRequest(), DefaultsSet(func() { calls++ }))
	if list.UniqueItems && hasList && vn == n && vn == 0 {
		return // 0 and -0: uniqueness of signed zeros is C01's known finding
	}
	if list.UniqueItems && hasList && vn == n {
		// with its default the second item equals the first
		verifAssert(err != nil, "C13 object defaults: items that are duplicates once their defaults are filled in are rejected by uniqueItems at the first validation")
		verifReach("end")
		return
	}
	verifAssert(err == nil, "C13 object defaults: the request validates")
	verifAssert(reflect.DeepEqual(v, want), "C13 object defaults: after one validation every absent member at every depth holds its default, nothing else changed")
	verifAssert(calls == 1, "C13 object defaults: the defaults-set callback runs once")
	verifAssert(len(retryDefault) == 2 && len(retryDefault["nested"].(map[string]any)) == 0 && len(listDefault[0].(map[string]any)) == 0, "C13 object defaults: the document's own default values are not modified")
	calls2 := 0
	after := verifCopyJSON(v)
	err2 := s.VisitJSON(v, VisitAsRequest(), DefaultsSet(func() { calls2++ }))
	verifAssert(err2 == nil && calls2 == 0 && reflect.DeepEqual(v, after), "C13 object defaults: a second validation changes nothing further")
	verifReach("end")
}

//verif:harness id=C13 tier=quick,thorough witness=end bounds="defaults after a `not`: anyOf / oneOf whose first candidate is refused by its own not-clause (the value matches the not-schema) or by a plain type clause, and whose second candidate matches and gives f the default F (symbolic), plus a sibling property g of the enclosing object with the default G that is visited after the composition; value {k: number} without f and g: after one validation f and g hold their defaults, the callback ran once, a second validation changes nothing"
func verifH_C13_defaults_after_not() {
	f, g := verifFiniteFloat("F"), verifFiniteFloat("G")
	num := func(def any) *SchemaRef { return &SchemaRef{Value: &Schema{Type: &Types{"number"}, Default: def}} }
	hasK := &Schema{Type: &Types{"object"}, Required: []string{"k"}}
	var first *Schema
	if verifChoose("refusedBy", 2) == 0 {
		first = &Schema{Type: &Types{"object"}, Not: &SchemaRef{Value: hasK}, Properties: Schemas{"f": num(1.0)}}
	} else {
		first = &Schema{Type: &Types{"object"}, Properties: Schemas{"k": {Value: &Schema{Type: &Types{"string"}}}, "f": num(1.0)}}
	}
	second := &Schema{Type: &Types{"object"}, Properties: Schemas{"k": {Value: &Schema{Type: &Types{"number"}}}, "f": num(f)}}
	inner := &Schema{}
	if verifChoose("comp", 2) == 0 {
		inner.AnyOf = SchemaRefs{{Value: first}, {Value: second}}
	} else {
		inner.OneOf = SchemaRefs{{Value: first}, {Value: second}}
	}
	// the composition sits in property "a"; "z" sorts after it and has a default of its own
	s := &Schema{Type: &Types{"object"}, Properties: Schemas{"a": {Value: inner}, "z": {Value: &Schema{Type: &Types{"object"}, Properties: Schemas{"g": num(g)}}}}}
	v := map[string]any{"a": map[string]any{"k": verifFiniteFloat("k")}, "z": map[string]any{}}
	want := verifCopyJSON(v).(map[string]any)
	want["a"].(map[string]any)["f"] = f
	want["z"].(map[string]any)["g"] = g
	calls := 0
	err := s.VisitJSON(v, VisitAsRequest(), DefaultsSet(func() { calls++ }))
	verifAssert(err == nil, "C13 defaults after not: the value validates (the second candidate matches)")
	verifAssert(reflect.DeepEqual(v, want), "C13 defaults after not: the matching candidate's default and the later sibling's default are applied, nothing else")
	verifAssert(calls == 1, "C13 defaults after not: the defaults-set callback runs once")
	after := verifCopyJSON(v)
	calls2 := 0
	err2 := s.VisitJSON(v, VisitAsRequest(), DefaultsSet(func() { calls2++ }))
	verifAssert(err2 == nil && calls2 == 0 && reflect.DeepEqual(v, after), "C13 defaults after not: a second validation changes nothing further")
	verifReach("end")
}
