package openapi3

// C02, further reference layouts: cycles through callbacks (the other kind of object that can
// contain itself), and documents whose locations differ only in the query.

import (
	"errors"
	"net/url"
	"strings"
)

func verifLoadFiles(rootText string, files map[string]string) (*T, error) {
	rootLoc := &url.URL{Path: "/r/doc.json"}
	loader := NewLoader()
	loader.IsExternalRefsAllowed = true
	loader.ReadFromURIFunc = func(l *Loader, u *url.URL) ([]byte, error) {
		key := u.Path
		if u.RawQuery != "" {
			key += "?" + u.RawQuery
		}
		if key == rootLoc.Path {
			return []byte(rootText), nil
		}
		if t, ok := files[key]; ok {
			return []byte(t), nil
		}
		return nil, errors.New("no such file")
	}
	return loader.LoadFromDataWithPath([]byte(rootText), rootLoc)
}

//verif:harness id=C02 tier=quick,thorough witness=end bounds="reference cycles through callbacks: a callback whose operation uses, under callbacks, the same callback again (self), two callbacks using each other (same file / across files), a chain of three, and the cycle entered from an operation of the document or from the component; every callback reference on the cycle is resolved after loading, to the callback it names"
func verifH_C02_callback_cycles() {
	cb := func(ref string) string {
		return `{"{$request.body#/u}":{"post":{"responses":{"200":{"description":"d"}},"callbacks":{"again":{"$ref":"` + ref + `"}}}}}`
	}
	shape := verifChoose("shape", 4)
	files := map[string]string{}
	var cbs string
	switch shape {
	case 0:
		cbs = `"A":` + cb("#/components/callbacks/A")
	case 1:
		cbs = `"A":` + cb("#/components/callbacks/B") + `,"B":` + cb("#/components/callbacks/A")
	case 2:
		cbs = `"A":` + cb("x.json#/components/callbacks/B")
		files["/r/x.json"] = `{"components":{"callbacks":{"B":` + cb("doc.json#/components/callbacks/A") + `}}}`
	case 3:
		cbs = `"A":` + cb("#/components/callbacks/B") + `,"B":` + cb("#/components/callbacks/C") + `,"C":{"{$request.body#/u}":{"post":{"responses":{"200":{"description":"d"}}}}}`
	}
	paths := `{}`
	fromOp := verifChoose("entered", 2) == 1
	if fromOp {
		// paths are resolved after components; the operation enters the cycle at A
		paths = `{"/p":{"post":{"responses":{"200":{"description":"d"}},"callbacks":{"first":{"$ref":"#/components/callbacks/A"}}}}}`
	}
	rootText := `{"openapi":"3.0.0","info":{"title":"t","version":"1"},"paths":` + paths + `,"components":{"callbacks":{` + cbs + `}}}`
	doc, err := verifLoadFiles(rootText, files)
	verifAssert(err == nil && doc != nil, "C02 callback cycles: a document with callback cycles loads")
	if err != nil || doc == nil {
		return
	}
	inner := func(c *Callback) *CallbackRef {
		if c == nil {
			return nil
		}
		pi := c.Value("{$request.body#/u}")
		if pi == nil || pi.Post == nil {
			return nil
		}
		return pi.Post.Callbacks["again"]
	}
	a := doc.Components.Callbacks["A"]
	verifAssert(a != nil && a.Value != nil, "C02 callback cycles: component A is present")
	if a == nil || a.Value == nil {
		return
	}
	r := inner(a.Value)
	verifAssert(r != nil && r.Value != nil, "C02 callback cycles: the reference on the cycle is resolved")
	if r == nil || r.Value == nil {
		return
	}
	switch shape {
	case 0:
		verifAssert(r.Value == a.Value, "C02 callback cycles: a self reference resolves to the callback itself")
	case 1:
		b := doc.Components.Callbacks["B"]
		back := inner(b.Value)
		verifAssert(r.Value == b.Value && back != nil && back.Value == a.Value, "C02 callback cycles: mutual references resolve to each other")
	case 2:
		back := inner(r.Value)
		verifAssert(back != nil && back.Value != nil, "C02 callback cycles: the reference back into the root document is resolved")
	case 3:
		b := doc.Components.Callbacks["B"]
		bc := inner(b.Value)
		verifAssert(r.Value == b.Value && bc != nil && bc.Value == doc.Components.Callbacks["C"].Value, "C02 callback cycles: chains resolve link by link")
	}
	if fromOp {
		first := doc.Paths.Value("/p").Post.Callbacks["first"]
		verifAssert(first != nil && first.Value == a.Value, "C02 callback cycles: the operation's reference resolves to the component")
	}
	verifReach("end")
}

//verif:harness id=C02 tier=quick,thorough witness=end bounds="documents whose locations differ only in the query (lib.json?rev=1 / lib.json?rev=2 / lib.json, served with different contents), referenced from two positions of the root in either order, by fragment or as whole files, for schemas / parameters / responses: each reference resolves to the content of the location it names"
func verifH_C02_query_locations() {
	kind := verifChoose("kind", 3)
	kinds := []string{"schemas", "parameters", "responses"}[kind]
	mk := func(mark string) string {
		switch kind {
		case 0:
			return `{"type":"string","description":"` + mark + `"}`
		case 1:
			return `{"name":"q","in":"query","description":"` + mark + `","schema":{"type":"string"}}`
		}
		return `{"description":"` + mark + `"}`
	}
	whole := verifChoose("whole", 2) == 1
	files := map[string]string{}
	locs := [][2]string{{"lib.json?rev=1", "one"}, {"lib.json?rev=2", "two"}, {"lib.json", "none"}}
	for _, l := range locs {
		if whole {
			files["/r/"+l[0]] = mk(l[1])
		} else {
			files["/r/"+l[0]] = `{"components":{"` + kinds + `":{"X":` + mk(l[1]) + `}}}`
		}
	}
	i := verifChoose("first", 3)
	j := verifChoose("second", 3)
	ref := func(k int) string {
		if whole {
			return `{"$ref":"` + locs[k][0] + `"}`
		}
		return `{"$ref":"` + locs[k][0] + `#/components/` + kinds + `/X"}`
	}
	rootText := `{"openapi":"3.0.0","info":{"title":"t","version":"1"},"paths":{},"components":{"` + kinds + `":{"A":` + ref(i) + `,"B":` + ref(j) + `}}}`
	doc, err := verifLoadFiles(rootText, files)
	verifAssert(err == nil && doc != nil, "C02 query locations: the document loads")
	if err != nil || doc == nil {
		return
	}
	desc := func(name string) string {
		switch kind {
		case 0:
			if r := doc.Components.Schemas[name]; r != nil && r.Value != nil {
				return r.Value.Description
			}
		case 1:
			if r := doc.Components.Parameters[name]; r != nil && r.Value != nil {
				return r.Value.Description
			}
		case 2:
			if r := doc.Components.Responses[name]; r != nil && r.Value != nil && r.Value.Description != nil {
				return *r.Value.Description
			}
		}
		return ""
	}
	verifAssert(desc("A") == locs[i][1], "C02 query locations: the first reference resolves to the content of the location it names")
	verifAssert(desc("B") == locs[j][1], "C02 query locations: the second reference resolves to the content of the location it names")
	_ = strings.Contains
	verifReach("end")
}

//verif:harness id=C02 tier=quick,thorough witness=end,rejected,resolved bounds="decoys in the referring document: (a) a reference into another file to a member that file does not have, while the referring document has a member of that name (nine component kinds, the referring document being the root or a second external file): loading fails; (b) an internal reference (#/x-defs/X, #/definitions/X) inside a file loaded as a whole-file schema / parameter / response, while the root document has or has not a different object at the same pointer: it resolves to the object of the file that contains the reference"
func verifH_C02_decoys() {
	if verifChoose("case", 2) == 0 {
		kind := verifKinds[verifChoose("kind", len(verifKinds))]
		comp := func(entries string) string { return `"components":{"` + kind + `":{` + entries + `}}` }
		files := map[string]string{"/r/x.json": `{` + comp(`"Other":`+verifTargets[kind]) + `}`}
		var rootText string
		head := `{"openapi":"3.0.0","info":{"title":"t","version":"1"},"paths":{},`
		if verifChoose("referrer", 2) == 0 {
			rootText = head + comp(`"OnlyHere":`+verifTargets[kind]+`,"A":{"$ref":"x.json#/components/`+kind+`/OnlyHere"}`) + `}`
		} else {
			// the referrer is a second file: y.json has OnlyHere and refers to x.json's (missing) OnlyHere
			files["/r/y.json"] = `{` + comp(`"OnlyHere":`+verifTargets[kind]+`,"A":{"$ref":"x.json#/components/`+kind+`/OnlyHere"}`) + `}`
			rootText = head + comp(`"A":{"$ref":"y.json#/components/`+kind+`/A"}`) + `}`
		}
		doc, err := verifLoadFiles(rootText, files)
		verifReach("rejected")
		verifAssert(err != nil && doc == nil, "C02 decoys: a reference to a member the designated file does not have makes loading fail (it is not looked up in the referring document)")
		verifReach("end")
		return
	}
	mark := func(m string) string { return `{"type":"string","description":"` + m + `"}` }
	area := []string{"x-defs", "definitions"}[verifChoose("area", 2)]
	inner := `{"$ref":"#/` + area + `/X"}`
	local := `"` + area + `":{"X":` + mark("file") + `}`
	kind := verifChoose("kind", 3)
	var file, slot string
	switch kind {
	case 0:
		file = `{"type":"object","properties":{"x":` + inner + `},` + local + `}`
		slot = `"schemas":{"S":{"$ref":"s.json"}}`
	case 1:
		file = `{"name":"p","in":"query","schema":` + inner + `,` + local + `}`
		slot = `"parameters":{"S":{"$ref":"s.json"}}`
	case 2:
		file = `{"description":"d","content":{"text/plain":{"schema":` + inner + `}},` + local + `}`
		slot = `"responses":{"S":{"$ref":"s.json"}}`
	}
	decoy := ""
	if verifChoose("decoy", 2) == 1 {
		decoy = `"` + area + `":{"X":` + mark("root") + `},`
	}
	rootText := `{"openapi":"3.0.0","info":{"title":"t","version":"1"},` + decoy + `"paths":{},"components":{` + slot + `}}`
	doc, err := verifLoadFiles(rootText, map[string]string{"/r/s.json": file})
	verifAssert(err == nil && doc != nil, "C02 decoys: a whole-file element with an internal reference loads")
	if err != nil || doc == nil {
		return
	}
	var r *SchemaRef
	switch kind {
	case 0:
		if s := doc.Components.Schemas["S"]; s != nil && s.Value != nil {
			r = s.Value.Properties["x"]
		}
	case 1:
		if p := doc.Components.Parameters["S"]; p != nil && p.Value != nil {
			r = p.Value.Schema
		}
	case 2:
		if p := doc.Components.Responses["S"]; p != nil && p.Value != nil && p.Value.Content["text/plain"] != nil {
			r = p.Value.Content["text/plain"].Schema
		}
	}
	verifReach("resolved")
	verifAssert(r != nil && r.Value != nil && r.Value.Description == "file", "C02 decoys: an internal reference inside a whole-file element resolves to the object of the file that contains it")
	verifReach("end")
}

//verif:harness id=C02 tier=quick,thorough witness=end,failed_again,repaired bounds="one Loader, one location, two loads (LoadFromDataWithPath / LoadFromURI): a first document that fails to load (dangling schema reference, dangling response reference, reference to the wrong kind), then either the same text again - it fails again, it is not answered with the half-resolved document of the first attempt - or the repaired text: it loads with every reference resolved"
func verifH_C02_loader_reuse_same_location() {
	doc := func(comps string) string {
		return `{"openapi":"3.0.0","info":{"title":"t","version":"1"},"paths":{"/a":{"get":{"parameters":[{"$ref":"#/components/parameters/P"}],"responses":{"200":{"$ref":"#/components/responses/R"}}}}},"components":{` + comps + `}}`
	}
	good := doc(`"schemas":{"Thing":{"type":"string","minLength":3},"User":{"$ref":"#/components/schemas/Thing"}},"parameters":{"P":{"name":"p","in":"query","schema":{"$ref":"#/components/schemas/Thing"}}},"responses":{"R":{"description":"d"}}`)
	bad := []string{
		doc(`"schemas":{"User":{"$ref":"#/components/schemas/Thing"}},"parameters":{"P":{"name":"p","in":"query","schema":{"$ref":"#/components/schemas/Thing"}}},"responses":{"R":{"description":"d"}}`),
		doc(`"schemas":{"Thing":{"type":"string"},"User":{"$ref":"#/components/schemas/Thing"}},"parameters":{"P":{"name":"p","in":"query","schema":{"$ref":"#/components/schemas/Thing"}}}`),
		doc(`"schemas":{"Thing":{"type":"string"},"User":{"$ref":"#/components/parameters/P"}},"parameters":{"P":{"name":"p","in":"query","schema":{"$ref":"#/components/schemas/Thing"}}},"responses":{"R":{"description":"d"}}`),
	}[verifChoose("first", 3)]
	loader := NewLoader()
	loader.IsExternalRefsAllowed = true
	current := bad
	loader.ReadFromURIFunc = func(_ *Loader, u *url.URL) ([]byte, error) {
		if u.Path == "/r/one.json" {
			return []byte(current), nil
		}
		return nil, errors.New("no such file")
	}
	load := func(which int) (*T, error) {
		if which == 0 {
			return loader.LoadFromDataWithPath([]byte(current), &url.URL{Path: "/r/one.json"})
		}
		return loader.LoadFromURI(&url.URL{Path: "/r/one.json"})
	}
	d1, err1 := load(verifChoose("entry1", 2))
	verifAssert(err1 != nil && d1 == nil, "C02 same location: the first document fails to load")
	if verifChoose("repaired", 2) == 0 {
		d2, err2 := load(verifChoose("entry2", 2))
		verifReach("failed_again")
		verifAssert(err2 != nil && d2 == nil, "C02 same location: loading the same failing document again fails again (no half-resolved document is returned as loaded)")
		verifReach("end")
		return
	}
	current = good
	d2, err := load(verifChoose("entry2", 2))
	verifReach("repaired")
	verifAssert(err == nil && d2 != nil, "C02 same location: the repaired document loads")
	if err != nil || d2 == nil {
		return
	}
	u := d2.Components.Schemas["User"]
	p := d2.Paths.Value("/a").Get.Parameters[0]
	r := d2.Paths.Value("/a").Get.Responses.Value("200")
	verifAssert(u != nil && u.Value != nil && u.Value.MinLength == 3 && p != nil && p.Value != nil && p.Value.Schema != nil && p.Value.Schema.Value != nil && p.Value.Schema.Value.MinLength == 3 && r != nil && r.Value != nil, "C02 same location: every reference of the repaired document is resolved")
	verifReach("end")
}

//verif:harness id=C02 tier=quick,thorough witness=end bounds="a reference to the wrong kind of object, met while that object is still being resolved: inside component Y (response / parameter / header / request body) a position of another kind (header, schema, example, link) refers back to Y or to X = {$ref: Y}, in either order of X and Y, in the root or with Y as a whole file that refers to itself by name; through three entry points: loading fails, the position is not left unresolved or filled with the other kind's object"
func verifH_C02_wrong_kind_in_progress() {
	type nest struct{ kind, inner string }
	nests := []nest{
		{"responses", `{"description":"d","headers":{"H":%s}}`},
		{"responses", `{"description":"d","content":{"application/json":{"schema":%s}}}`},
		{"responses", `{"description":"d","content":{"application/json":{"examples":{"e":%s}}}}`},
		{"responses", `{"description":"d","links":{"l":%s}}`},
		{"parameters", `{"name":"p","in":"query","schema":%s}`},
		{"parameters", `{"name":"p","in":"query","examples":{"e":%s}}`},
		{"headers", `{"schema":%s}`},
		{"requestBodies", `{"content":{"application/json":{"schema":%s}}}`},
	}
	ni := verifChoose("nest", len(nests))
	n := nests[ni]
	// known finding: the examples of a parameter are never visited by the loader, so a wrong-kind reference there is not noticed either

	files := map[string]string{}
	var comps string
	if verifChoose("wholeFile", 2) == 1 {
		// Y is a file of its own, and the inner position refers to that file
		files["/r/y.json"] = strings.Replace(n.inner, "%s", `{"$ref":"y.json"}`, 1)
		comps = `"X":{"$ref":"y.json"}`
	} else {
		target := []string{"X", "Y"}[verifChoose("target", 2)]
		back := `{"$ref":"#/components/` + n.kind + `/` + target + `"}`
		x, y := `{"$ref":"#/components/`+n.kind+`/Y"}`, strings.Replace(n.inner, "%s", back, 1)
		if verifChoose("order", 2) == 1 {
			x, y = strings.Replace(n.inner, "%s", back, 1), `{"$ref":"#/components/`+n.kind+`/X"}`
		}
		comps = `"X":` + x + `,"Y":` + y
	}
	rootText := `{"openapi":"3.0.0","info":{"title":"t","version":"1"},"paths":{},"components":{"` + n.kind + `":{` + comps + `}}}`
	doc, err := verifLoadFiles(rootText, files)
	verifAssert(err != nil && doc == nil, "C02 wrong kind in progress: a reference to an object of another kind makes loading fail, also when that object is still being resolved")
	verifReach("end")
}

//verif:harness id=C02 tier=quick,thorough witness=end bounds="a whole-file reference to a file whose whole content is itself a reference (A -> a.json = {$ref: b.json} -> b.json, or -> {$ref: b.json#/components/.../X}, or -> a file in a sub-directory that refers to its neighbour) for schemas / parameters / responses: after loading A is the object at the end of the chain"
func verifH_C02_whole_file_chain() {
	kind := verifChoose("kind", 3)
	kinds := []string{"schemas", "parameters", "responses"}[kind]
	leaf := []string{`{"type":"string","description":"leaf"}`, `{"name":"p","in":"query","description":"leaf","schema":{"type":"string"}}`, `{"description":"leaf"}`}[kind]
	files := map[string]string{}
	via := verifChoose("via", 3)
	switch via {
	case 0:
		files["/r/a.json"] = `{"$ref":"b.json"}`
		files["/r/b.json"] = leaf
	case 1:
		files["/r/a.json"] = `{"$ref":"b.json#/components/` + kinds + `/X"}`
		files["/r/b.json"] = `{"components":{"` + kinds + `":{"X":` + leaf + `}}}`
	case 2:
		files["/r/a.json"] = `{"$ref":"d/c.json"}`
		files["/r/d/c.json"] = `{"$ref":"e.json"}`
		files["/r/d/e.json"] = leaf
		files["/r/e.json"] = `{"description":"decoy"}`
	}
	rootText := `{"openapi":"3.0.0","info":{"title":"t","version":"1"},"paths":{},"components":{"` + kinds + `":{"A":{"$ref":"a.json"}}}}`
	doc, err := verifLoadFiles(rootText, files)
	verifAssert(err == nil && doc != nil, "C02 whole-file chain: the document loads")
	if err != nil || doc == nil {
		return
	}
	desc := ""
	switch kind {
	case 0:
		if r := doc.Components.Schemas["A"]; r != nil && r.Value != nil {
			desc = r.Value.Description
		}
	case 1:
		if r := doc.Components.Parameters["A"]; r != nil && r.Value != nil {
			desc = r.Value.Description
		}
	case 2:
		if r := doc.Components.Responses["A"]; r != nil && r.Value != nil && r.Value.Description != nil {
			desc = *r.Value.Description
		}
	}
	// known finding: a file whose whole content is a reference *with a fragment* is taken for the object itself
	verifKnown("C02-whole-file-content-is-fragment-reference", via == 1)
	verifAssert(desc == "leaf", "C02 whole-file chain: the reference resolves to the object at the end of the chain of files")
	verifKnown("C02-whole-file-content-is-fragment-reference", false)
	verifReach("end")
}

//verif:harness id=C02 tier=quick,thorough witness=end bounds="cycles that consist of references only (A: {$ref: A}; A: {$ref: B}, B: {$ref: A}; a chain of three) for the nine component kinds: no object stands at the end of such a chain, so loading fails (known finding: it succeeds and leaves the references unresolved)"
func verifH_C02_pure_cycles() {
	kind := verifKinds[verifChoose("kind", len(verifKinds))]
	ref := func(n string) string { return `{"$ref":"#/components/` + kind + `/` + n + `"}` }
	var comps string
	switch verifChoose("shape", 3) {
	case 0:
		comps = `"A":` + ref("A")
	case 1:
		comps = `"A":` + ref("B") + `,"B":` + ref("A")
	case 2:
		comps = `"A":` + ref("B") + `,"B":` + ref("C") + `,"C":` + ref("A")
	}
	rootText := `{"openapi":"3.0.0","info":{"title":"t","version":"1"},"paths":{},"components":{"` + kind + `":{` + comps + `}}}`
	doc, err := verifLoadFiles(rootText, nil)
	verifKnown("C02-pure-reference-cycle-loads-unresolved", true)
	verifAssert(err != nil && doc == nil, "C02 pure cycles: a cycle of references with no object in it makes loading fail (nothing is left unresolved in a document that loads)")
	verifReach("end")
}
