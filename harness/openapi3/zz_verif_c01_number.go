package openapi3

import (
	"math"
	"math/big"
)

func verifIsInt(f float64) bool { return big.NewFloat(f).IsInt() }

// reference evaluator for the number family (non-null numbers only)
func verifRefNumber(s *Schema, v float64) bool {
	if s.Type != nil {
		ok := false
		for _, t := range *s.Type {
			if t == "number" || (t == "integer" && verifIsInt(v)) {
				ok = true
			}
		}
		if !ok {
			return false
		}
	}
	if s.Min != nil {
		if s.ExclusiveMin {
			if !(v > *s.Min) {
				return false
			}
		} else if !(v >= *s.Min) {
			return false
		}
	}
	if s.Max != nil {
		if s.ExclusiveMax {
			if !(v < *s.Max) {
				return false
			}
		} else if !(v <= *s.Max) {
			return false
		}
	}
	if s.MultipleOf != nil && !verifIsInt(v / *s.MultipleOf) {
		return false
	}
	return true
}

//verif:harness id=C01 tier=quick,thorough witness=end bounds="number family: type in {absent,number,integer,string,[integer string]} x min/max/multipleOf presence; all float64 values (no NaN/Inf); 3 modes"
func verifH_C01_number() {
	s := &Schema{}
	switch verifChoose("type", 5) {
	case 1:
		s.Type = &Types{"number"}
	case 2:
		s.Type = &Types{"integer"}
	case 3:
		s.Type = &Types{"string"}
	case 4:
		s.Type = &Types{"integer", "string"}
	}
	if verifChoose("hasMin", 2) == 1 {
		m := verifNondetFloat64("min")
		verifAssume(m == m)
		s.Min = &m
	}
	if verifChoose("hasMax", 2) == 1 {
		m := verifNondetFloat64("max")
		verifAssume(m == m)
		s.Max = &m
	}
	if verifChoose("hasMul", 2) == 1 {
		m := verifNondetFloat64("mul")
		verifAssume(m > 0)
		s.MultipleOf = &m
	}
	s.ExclusiveMin = verifNondetBool("xmin")
	s.ExclusiveMax = verifNondetBool("xmax")
	s.Nullable = verifNondetBool("nullable")
	verifAssume(!s.ExclusiveMin || s.Min != nil)
	verifAssume(!s.ExclusiveMax || s.Max != nil)

	f := verifNondetFloat64("v")
	verifAssume(f == f)
	verifAssume(f <= math.MaxFloat64)
	verifAssume(f >= -math.MaxFloat64)
	mode := verifChoose("mode", 3)
	var err error
	switch mode {
	case 0:
		err = s.VisitJSON(f)
	case 1:
		err = s.VisitJSON(f, FailFast())
	case 2:
		err = s.VisitJSON(f, MultiErrors())
	}
	got := err == nil
	verifAssert(got == verifRefNumber(s, f), "C01 number: accept iff reference accepts")
	verifReach("end")
}
