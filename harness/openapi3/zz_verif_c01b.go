package openapi3

// C01, integer formats: int32 / int64 are the two formats the validator enforces without being
// asked to; they bound the value to the range of the named Go type.

//verif:harness id=C01 tier=quick,thorough witness=end bounds="F: type in {integer,[integer,string]} x format in {absent,int32,int64,an unknown name} x optional minimum (any float64) x value any finite float64: accepted iff the value is integral, inside the format's range (int32: -2^31..2^31-1, int64: -2^63..2^63-1; an unknown format constrains nothing) and not below the minimum"
func verifH_C01_integer_format() {
	s := &Schema{Type: &Types{"integer"}}
	if verifChoose("types", 2) == 1 {
		s.Type = &Types{"integer", "string"}
	}
	format := verifChoose("format", 4)
	s.Format = []string{"", "int32", "int64", "int128"}[format]
	if verifChoose("hasMin", 2) == 1 {
		m := verifFiniteFloat("min")
		s.Min = &m
	}
	v := verifFiniteFloat("v")
	err := verifVisit(s, v, 0)
	want := verifIsInt(v)
	if format == 1 {
		if v < -2147483648 {
			want = false
		}
		if v > 2147483647 {
			want = false
		}
	}
	if format == 2 {
		if v < -9223372036854775808 {
			want = false
		}
		if v >= 9223372036854775808 {
			want = false
		}
	}
	if s.Min != nil {
		if v < *s.Min {
			want = false
		}
	}
	// known finding: the value is converted to int64 before the format's range check; beyond the range the
	// conversion yields MinInt64, which is in range (TestIntMax pins the acceptance of MaxInt64+1, "not yet fixed")
	verifKnown("C01-int64-format-beyond-range-accepted", format == 2 && (v < -9223372036854775808 || v >= 9223372036854775808))
	verifAssert((err == nil) == want, "C01 integer format: accepted iff integral, inside the format's range and not below the minimum")
	verifReach("end")
}

//verif:harness id=C01 tier=quick,thorough witness=end,accepted,rejected bounds="patterns written with ECMA \\u escapes (the dialect of OpenAPI patterns), hex digits in either case: ^\\u0061$, ^\\u006a+$, ^\\u006A+$, ^[\\u0061-\\u0063]\\u007a$, x\\u002eY against every ASCII string of 0-3 bytes: accepted iff the string matches the pattern the escapes spell out"
func verifH_C01_pattern_escapes() {
	pairs := [][2]string{
		{`^\u0061$`, `^a$`}, {`^\u006a+$`, `^j+$`}, {`^\u006A+$`, `^j+$`}, {`^[\u0061-\u0063]\u007a$`, `^[a-c]z$`}, {`x\u002eY`, `x\.Y`},
	}
	p := pairs[verifChoose("pattern", len(pairs))]
	s := &Schema{Type: &Types{"string"}, Pattern: p[0]}
	v := verifASCII("v", 3)
	err := s.VisitJSON(v)
	want := (&Schema{Type: &Types{"string"}, Pattern: p[1]}).VisitJSON(v) == nil
	if err == nil {
		verifReach("accepted")
	} else {
		verifReach("rejected")
	}
	verifAssert((err == nil) == want, "C01 pattern escapes: a \\u escape stands for its character, whatever the case of its hex digits")
	verifReach("end")
}
