package openapi3

// C19 — schema error reasons never contain the rejected value.
// Every string leaf of the value is a marker of symbolic bytes over a
// reserved alphabet that occurs nowhere in the schemas or in the library's
// message literals; "Reason contains marker" must be unsatisfiable.

import (
	"errors"
	"fmt"
	"strings"
)

const verifMarkerAlphabet = "~`"

var verifMarkers []string

// verifMarkerExtra: how many more bytes a marker may have (set by the thorough-tier wrappers)
var verifMarkerExtra int

func verifLongMarkers(harness func()) {
	verifMarkerExtra = 2
	defer func() { verifMarkerExtra = 0 }()
	harness()
}

func verifMarker(name string) string {
	n := 2 + verifChoose(name+".mlen", 2+verifMarkerExtra) // 2..3 bytes (2..5 in the thorough-tier variants)
	bs := make([]byte, n)
	for i := range bs {
		bs[i] = verifNondetByteIn(name+".m", verifMarkerAlphabet)
	}
	m := string(bs)
	verifMarkers = append(verifMarkers, m)
	return m
}

func verifWalkSchemaErrors(err error, f func(*SchemaError), depth int) {
	if err == nil || depth > 12 {
		return
	}
	switch e := err.(type) {
	case *SchemaError:
		f(e)
		verifWalkSchemaErrors(e.Origin, f, depth+1)
	case MultiError:
		for _, m := range e {
			verifWalkSchemaErrors(m, f, depth+1)
		}
	default:
		// anything else that wraps (the oneOf error list unwraps to a MultiError)
		verifWalkSchemaErrors(errors.Unwrap(err), f, depth+1)
	}
}

func verifNoLeak(text string, what string) {
	for _, m := range verifMarkers {
		verifAssert(!strings.Contains(text, m), "C19 "+what+" does not contain a string value of the rejected input")
	}
}

func verifCheckLeaks(s *Schema, v any, what string) {
	modes := [][]SchemaValidationOption{
		nil,
		{MultiErrors()},
		{SetSchemaErrorMessageCustomizer(func(e *SchemaError) string { return "reason: " + e.Reason })},
		{VisitAsRequest(), MultiErrors()},
	}
	for _, opts := range modes {
		err := s.VisitJSON(v, opts...)
		if err == nil {
			continue
		}
		verifReach("rejected")
		verifWalkSchemaErrors(err, func(se *SchemaError) {
			verifNoLeak(se.Reason, what+": Reason")
		}, 0)
	}
	// reason-only message through the customizer (never empty: an empty result means "use the default message"), and Error() with details disabled
	err := s.VisitJSON(v, MultiErrors(), SetSchemaErrorMessageCustomizer(func(e *SchemaError) string { return "reason: " + e.Reason }))
	if err != nil {
		verifNoLeak(err.Error(), what+": Error() through a reason-only customizer")
	}
	SchemaErrorDetailsDisabled = true
	if err := s.VisitJSON(v, MultiErrors()); err != nil {
		verifNoLeak(err.Error(), what+": Error() with SchemaErrorDetailsDisabled")
	}
	if err := s.VisitJSON(v); err != nil {
		verifNoLeak(err.Error(), what+": Error() with SchemaErrorDetailsDisabled")
	}
	SchemaErrorDetailsDisabled = false
}

func verifMarkerReset() { verifMarkers = nil }

//verif:harness id=C19 tier=quick,thorough witness=end,rejected bounds="string value = marker (2-3 symbolic bytes over a reserved alphabet) against: type in {string,number,boolean,array,object,integer}, minLength/maxLength (uint64), pattern ^[a-c]+$, format in {date,byte,email-regexp,unknown}, enum of schema strings, not{}, oneOf/anyOf/allOf over string leaves; modes default/multi/customizer/request; Reason of every SchemaError reachable + Error() reason-only + Error() details disabled"
func verifH_C19_string() {
	verifMarkerReset()
	s := &Schema{}
	switch verifChoose("kw", 9) {
	case 0:
		s.Type = verifTypes("type", []string{"number"}, []string{"boolean"}, []string{"array"}, []string{"object"}, []string{"integer"}, []string{"integer", "number"})
	case 1:
		s.Type = &Types{"string"}
		s.MinLength = verifNondetUint64("minLen")
	case 2:
		s.Type = &Types{"string"}
		m := verifNondetUint64("maxLen")
		s.MaxLength = &m
	case 3:
		s.Pattern = "^[a-c]+$"
	case 4:
		s.Type = &Types{"string"}
		switch verifChoose("format", 3) {
		case 0:
			s.Format = "date"
		case 1:
			s.Format = "byte"
		case 2:
			s.Format = "date-time"
		}
	case 5:
		s.Enum = []any{"red", "green", 1.5}
	case 6:
		s.Not = &SchemaRef{Value: &Schema{Type: &Types{"string"}}}
	case 7:
		a := &Schema{Type: &Types{"string"}, MaxLength: Uint64Ptr(1)}
		b := &Schema{Type: &Types{"string"}, Pattern: "^x"}
		switch verifChoose("comb", 3) {
		case 0:
			s.OneOf = SchemaRefs{{Value: a}, {Value: b}}
		case 1:
			s.AnyOf = SchemaRefs{{Value: a}, {Value: b}}
		case 2:
			s.AllOf = SchemaRefs{{Value: a}, {Value: b}}
		}
	case 8:
		s.OneOf = SchemaRefs{{Value: &Schema{Type: &Types{"string"}}}, {Value: &Schema{}}} // matches both
	}
	v := verifMarker("v")
	verifCheckLeaks(s, v, "string leaf")
	verifReach("end")
}

//verif:harness id=C19 tier=quick,thorough witness=end,rejected bounds="array [marker, marker|number] against items{string maxLength / number / pattern}, maxItems, minItems, uniqueItems (equal markers), type object; and object {a: marker, b: marker|absent, z: marker} against properties{a: number|string maxLength, b: required}, additionalProperties false / schema number, maxProperties, nested object {o:{c: marker}}; same modes and observation points"
func verifH_C19_nested() {
	verifMarkerReset()
	var s *Schema
	var v any
	if verifChoose("shape", 2) == 0 {
		s = &Schema{Type: &Types{"array"}}
		switch verifChoose("kw", 6) {
		case 0:
			s.Items = &SchemaRef{Value: &Schema{Type: &Types{"string"}, MaxLength: Uint64Ptr(1)}}
		case 1:
			s.Items = &SchemaRef{Value: &Schema{Type: &Types{"number"}}}
		case 2:
			s.Items = &SchemaRef{Value: &Schema{Type: &Types{"string"}, Pattern: "^[a-c]+$"}}
		case 3:
			s.Items = &SchemaRef{Value: &Schema{}}
			m := verifNondetUint64("maxItems")
			s.MaxItems = &m
			s.MinItems = verifNondetUint64("minItems")
		case 4:
			s.Items = &SchemaRef{Value: &Schema{}}
			s.UniqueItems = true
		case 5:
			s = &Schema{Type: &Types{"object"}}
		}
		first := verifMarker("v0")
		arr := []any{first}
		switch verifChoose("second", 3) {
		case 1:
			arr = append(arr, verifMarker("v1"))
		case 2:
			arr = append(arr, first) // duplicate (uniqueItems)
		}
		v = arr
	} else {
		s = &Schema{Type: &Types{"object"}, Properties: Schemas{}}
		switch verifChoose("kw", 6) {
		case 0:
			s.Properties["a"] = &SchemaRef{Value: &Schema{Type: &Types{"number"}}}
		case 1:
			s.Properties["a"] = &SchemaRef{Value: &Schema{Type: &Types{"string"}, MaxLength: Uint64Ptr(1)}}
			s.Required = []string{"b"}
		case 2:
			f := false
			s.AdditionalProperties.Has = &f
		case 3:
			s.AdditionalProperties.Schema = &SchemaRef{Value: &Schema{Type: &Types{"number"}}}
		case 4:
			m := verifNondetUint64("maxProps")
			s.MaxProps = &m
			s.MinProps = verifNondetUint64("minProps")
		case 5:
			s.Properties["o"] = &SchemaRef{Value: &Schema{Type: &Types{"object"}, Properties: Schemas{"c": &SchemaRef{Value: &Schema{Type: &Types{"string"}, MaxLength: Uint64Ptr(1)}}}, Required: []string{"d"}}}
		}
		o := map[string]any{"a": verifMarker("va")}
		if verifChoose("hasB", 2) == 1 {
			o["b"] = verifMarker("vb")
		}
		if verifChoose("hasO", 2) == 1 {
			o["o"] = map[string]any{"c": verifMarker("vc")}
		} else {
			o["z"] = verifMarker("vz")
		}
		v = o
	}
	verifCheckLeaks(s, v, "nested value")
	verifReach("end")
}

//verif:harness id=C19 tier=quick,thorough witness=end,rejected bounds="oneOf with discriminator over two object schemas (mapping absent / present); value object whose discriminator value is a marker or one of the mapped values x / y (one candidate tried), plus a marker property; same modes and observation points"
func verifH_C19_discriminator() {
	verifMarkerReset()
	X := &Schema{Type: &Types{"object"}, Properties: Schemas{"n": &SchemaRef{Value: &Schema{Type: &Types{"number"}}}}}
	Y := &Schema{Type: &Types{"object"}, Properties: Schemas{"n": &SchemaRef{Value: &Schema{Type: &Types{"boolean"}}}}}
	s := &Schema{OneOf: SchemaRefs{{Ref: "#/components/schemas/X", Value: X}, {Ref: "#/components/schemas/Y", Value: Y}}}
	s.Discriminator = &Discriminator{PropertyName: "kind"}
	if verifChoose("mapping", 2) == 1 {
		s.Discriminator.Mapping = map[string]string{"x": "#/components/schemas/X", "y": "#/components/schemas/Y"}
	}
	o := map[string]any{"kind": verifMarker("kind")}
	// a mapped discriminator value narrows the oneOf to the one candidate it names
	switch verifChoose("kind", 3) {
	case 1:
		o["kind"] = "x"
	case 2:
		o["kind"] = "y"
	}
	if verifChoose("hasN", 2) == 1 {
		o["n"] = verifMarker("n")
	}
	verifCheckLeaks(s, o, "discriminated value")
	verifReach("end")
}

//verif:harness id=C19 tier=quick,thorough witness=end,rejected bounds="opt-in and user-defined string formats: ipv4 / ipv6 (DefineIPv4Format, DefineIPv6Format), a user regexp format (DefineStringFormat) a user callback format whose own error is opaque, and two user callback formats built on NewIPValidator (its schema error wrapped with %w, or as the Origin of the user's own schema error); values = concrete texts chosen to fail each validator in each of its ways (not an address, the other address family, non-matching) plus a symbolic marker; modes as in the other C19 harnesses; no Reason and no reason-only Error() contains the value"
func verifH_C19_optin_formats() {
	verifMarkerReset()
	DefineIPv4Format()
	DefineIPv6Format()
	DefineStringFormat("verif-re", `^[a-c]+$`)
	DefineStringFormatCallback("verif-cb", func(string) error { return errors.New("rejected by callback") })
	// user formats built on the library's own validators: the library's schema error (which carries the value) arrives wrapped
	DefineStringFormatCallback("verif-wrap", func(s string) error {
		if err := NewIPValidator(true).Validate(s); err != nil {
			return fmt.Errorf("not an address of the expected family: %w", err)
		}
		return nil
	})
	DefineStringFormatCallback("verif-either", func(s string) error {
		err4 := NewIPValidator(true).Validate(s)
		if err4 == nil {
			return nil
		}
		if err6 := NewIPValidator(false).Validate(s); err6 != nil {
			return &SchemaError{Value: s, Reason: "neither an IPv4 nor an IPv6 address", Origin: err6}
		}
		return nil
	})
	format := []string{"ipv4", "ipv6", "verif-re", "verif-cb", "verif-wrap", "verif-either"}[verifChoose("format", 6)]
	var v string
	switch k := verifChoose("value", 7); k {
	case 0:
		if format == "ipv4" || format == "ipv6" || format == "verif-wrap" || format == "verif-either" {
			v = "~`~" // address parsing runs natively: concrete text only
			verifMarkers = append(verifMarkers, v)
		} else {
			v = verifMarker("v")
		}
	default:
		v = []string{"", "fe80::1:2", "2001:db8::ff00:42:8329", "192.168.100.200", "10.0.0.300", "::ffff:192.168.100.200", "fe80::1:2%eth0"}[k]
		verifMarkers = append(verifMarkers, v)
	}
	s := &Schema{Type: &Types{"string"}, Format: format}
	verifCheckLeaks(s, v, "format "+format)
	// the same below an object property and an array item
	verifCheckLeaks(&Schema{Type: &Types{"object"}, Properties: Schemas{"p": &SchemaRef{Value: s}}}, map[string]any{"p": v}, "format "+format+" in a property")
	verifCheckLeaks(&Schema{Type: &Types{"array"}, Items: &SchemaRef{Value: s}}, []any{v}, "format "+format+" in an item")
	verifReach("end")
}

type verifNamedString string

type verifStructValue struct{ S string }

//verif:harness id=C19 tier=quick,thorough witness=end,rejected bounds="values of Go types the validator does not handle (map[string]string, []string, a named string type, a struct, a pointer to a string), each carrying a marker, at the top level or nested in an object member / array item, against {} / {type: object} / {type: string}: the value is rejected and no Reason or assembled message contains the marker"
func verifH_C19_foreign_go_values() {
	verifMarkerReset()
	m := verifMarker("v")
	var v any
	switch verifChoose("gotype", 5) {
	case 0:
		v = map[string]string{"k": m}
	case 1:
		v = []string{m}
	case 2:
		v = verifNamedString(m)
	case 3:
		v = verifStructValue{S: m}
	case 4:
		v = &m
	}
	switch verifChoose("nest", 3) {
	case 1:
		v = map[string]any{"a": v}
	case 2:
		v = []any{v}
	}
	s := []*Schema{{}, {Type: &Types{"object"}}, {Type: &Types{"string"}}}[verifChoose("schema", 3)]
	verifCheckLeaks(s, v, "foreign Go value")
	verifReach("end")
}

//verif:harness id=C19 tier=thorough witness=end,rejected bounds="as string with markers of 2-5 bytes"
func verifH_C19_string_long() { verifLongMarkers(verifH_C19_string) }

//verif:harness id=C19 tier=thorough witness=end,rejected bounds="as nested with markers of 2-5 bytes"
func verifH_C19_nested_long() { verifLongMarkers(verifH_C19_nested) }

//verif:harness id=C19 tier=thorough witness=end,rejected bounds="as discriminator with markers of 2-5 bytes"
func verifH_C19_discriminator_long() { verifLongMarkers(verifH_C19_discriminator) }

//verif:harness id=C19 tier=thorough witness=end,rejected bounds="as foreign_go_values with markers of 2-5 bytes"
func verifH_C19_foreign_go_values_long() { verifLongMarkers(verifH_C19_foreign_go_values) }

//verif:harness id=C19 tier=quick,thorough witness=end,rejected bounds="rejected strings of particular classes, which a message might be tempted to treat specially (concrete texts): a numeric string, a number with exponent, a boolean word, null, an enum member in another letter case or padded with blanks, a date, an e-mail address, a URL, JSON text, a long string; each against type integer / number / boolean / array / object, enum [alpha, beta], pattern, format date, maxLength 2, minLength 40, oneOf / anyOf / allOf with a single member, oneOf over a not, top-level and inside an object property and an array item, all modes: no Reason and no reason-only message contains the rejected string"
func verifH_C19_value_classes() {
	verifMarkerReset()
	values := []string{"31415926", "2.5e3", "true", "null", "Alpha", " alpha ", "ALPHA", "2024-02-30", "someone@example.test", "https://h.example/secret?token=1", `{"k":"v"}`, "0123456789012345678901234567890123456789x"}
	v := values[verifChoose("value", len(values))]
	verifMarkers = append(verifMarkers, v)
	two, forty := uint64(2), uint64(40)
	schemas := []*Schema{
		{Type: &Types{"integer"}}, {Type: &Types{"number"}}, {Type: &Types{"boolean"}}, {Type: &Types{"array"}}, {Type: &Types{"object"}},
		{Type: &Types{"string"}, Enum: []any{"alpha", "beta"}}, {Type: &Types{"string"}, Pattern: "^[q-z]{3}$"}, {Type: &Types{"string"}, Format: "date"},
		{Type: &Types{"string"}, MaxLength: &two}, {Type: &Types{"string"}, MinLength: forty},
		{Type: &Types{"integer", "boolean"}}, {OneOf: SchemaRefs{{Value: &Schema{Type: &Types{"integer"}}}, {Value: &Schema{Type: &Types{"boolean"}}}}},
		{OneOf: SchemaRefs{{Value: &Schema{Type: &Types{"integer"}}}}}, {AnyOf: SchemaRefs{{Value: &Schema{Type: &Types{"integer"}}}}}, {AllOf: SchemaRefs{{Value: &Schema{Type: &Types{"integer"}}}}},
		{OneOf: SchemaRefs{{Value: &Schema{Not: &SchemaRef{Value: &Schema{}}}}}},
	}
	s := schemas[verifChoose("schema", len(schemas))]
	if s.VisitJSON(v) == nil {
		return // not rejected: nothing to check
	}
	verifCheckLeaks(s, v, "value class")
	verifCheckLeaks(&Schema{Type: &Types{"object"}, Properties: Schemas{"p": &SchemaRef{Value: s}}}, map[string]any{"p": v}, "value class in a property")
	verifCheckLeaks(&Schema{Type: &Types{"array"}, Items: &SchemaRef{Value: s}}, []any{v}, "value class in an item")
	verifReach("end")
}
