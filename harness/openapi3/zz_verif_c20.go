package openapi3

// C20 (kernel) — loading, validating, serialising and internalising never panic or hang.
// Byte-level parsing of arbitrary/malformed text is not applicable (see DESIGN.md §7);
// what is covered: near-valid documents obtained from a valid one by a structure-level
// mutation (any node replaced by a value of another JSON type, or removed), and
// adversarial reference graphs. The panic monitor and the step budget are the assertions.

import (
	"context"
	"encoding/json"
	"errors"
	"net/url"
	"strings"
)

const verifBaseDoc = `{"openapi":"3.0.0","info":{"title":"t","version":"1","license":{"name":"MIT"}},"servers":[{"url":"https://{h}/v1","variables":{"h":{"default":"a"}}},{"url":"https://b.example/v2"}],` +
	`"tags":[{"name":"x","externalDocs":{"url":"https://e"}}],"security":[{"sec":[]}],` +
	`"paths":{"/a/{id}":{"servers":[{"url":"/p"},{"url":"/p2"}],"parameters":[{"$ref":"#/components/parameters/Id"}],"get":{"operationId":"get","tags":["x"],"servers":[{"url":"/o"}],"externalDocs":{"url":"https://e"},"parameters":[{"name":"q","in":"query","schema":{"type":"array","items":{"type":"integer"}},"examples":{"e":{"value":[1]}}},{"name":"c","in":"query","content":{"application/json":{"schema":{"type":"object"}}}},{"name":"q","in":"header","schema":{"type":"string"}}],` +
	`"requestBody":{"$ref":"#/components/requestBodies/B"},"responses":{"200":{"$ref":"#/components/responses/R"},"default":{"description":"d","headers":{"X-H":{"$ref":"#/components/headers/H"}},"content":{"application/json":{"schema":{"$ref":"#/components/schemas/S"},"example":{"a":1}}},"links":{"l":{"$ref":"#/components/links/L"}}}},` +
	`"callbacks":{"cb":{"$ref":"#/components/callbacks/C"},"cbi":{"{$request.body#/v}":{"post":{"parameters":[{"name":"t","in":"query","schema":{"type":"string"}}],"responses":{"200":{"description":"d","headers":{"X-C":{"schema":{"type":"integer"}}}}}}}}},"security":[{}]}}},` +
	`"components":{"schemas":{"S":{"type":"object","required":["a"],"properties":{"a":{"type":"integer","format":"int32","minimum":0},"n":{"$ref":"#/components/schemas/S"},"l":{"type":"array","items":{"$ref":"#/components/schemas/T"}},"k":{"anyOf":[{"type":"string","maxLength":3},{"type":"integer"}]},"f":{"allOf":[{"type":"string"}],"not":{"type":"integer"}}},"additionalProperties":false,"discriminator":{"propertyName":"a"}},"T":{"oneOf":[{"type":"string","pattern":"^a"},{"type":"number","multipleOf":2}],"default":"a","nullable":true}},` +
	`"parameters":{"Id":{"name":"id","in":"path","required":true,"schema":{"type":"string"}}},"headers":{"H":{"schema":{"type":"integer"}},"HC":{"content":{"application/json":{"schema":{"type":"integer"}}}}},"requestBodies":{"B":{"required":true,"content":{"application/json":{"schema":{"$ref":"#/components/schemas/S"},"examples":{"ex":{"value":{"a":1}}}},"multipart/form-data":{"schema":{"type":"object","properties":{"f":{"type":"string"}}},"encoding":{"f":{"contentType":"text/plain","style":"form","explode":true,"headers":{"X-E":{"schema":{"type":"string"}}}}}}}}},` +
	`"responses":{"R":{"description":"d"}},"examples":{"E":{"value":[1]}},"links":{"L":{"operationId":"get","parameters":{"id":"$response.body#/a"},"server":{"url":"https://l.example/{lv}","variables":{"lv":{"default":"a"}}}}},"callbacks":{"C":{"{$request.body#/u}":{"post":{"responses":{"200":{"description":"d"}}}}}},` +
	`"securitySchemes":{"sec":{"type":"oauth2","flows":{"implicit":{"authorizationUrl":"https://a","scopes":{}}}}}}}`

// verifMutate replaces (or removes) the k-th node of the tree in document order.
func verifMutate(tree any, k *int, repl any, remove bool) (any, bool) {
	if *k == 0 {
		*k = -1
		return repl, true
	}
	*k--
	switch x := tree.(type) {
	case map[string]any:
		keys := make([]string, 0, len(x))
		for key := range x {
			keys = append(keys, key)
		}
		// deterministic order
		for i := 1; i < len(keys); i++ {
			for j := i; j > 0 && keys[j] < keys[j-1]; j-- {
				keys[j], keys[j-1] = keys[j-1], keys[j]
			}
		}
		for _, key := range keys {
			if *k < 0 {
				break
			}
			hit := *k == 0
			nv, done := verifMutate(x[key], k, repl, remove)
			if done {
				if hit && remove {
					delete(x, key)
				} else {
					x[key] = nv
				}
				return x, true
			}
		}
	case []any:
		for i := range x {
			if *k < 0 {
				break
			}
			nv, done := verifMutate(x[i], k, repl, remove)
			if done {
				x[i] = nv
				return x, true
			}
		}
	}
	return tree, false
}

func verifCountNodes(tree any) int {
	n := 1
	switch x := tree.(type) {
	case map[string]any:
		for _, v := range x {
			n += verifCountNodes(v)
		}
	case []any:
		for _, v := range x {
			n += verifCountNodes(v)
		}
	}
	return n
}

// verifEntryPoint: which load entry point verifExerciseKnown uses (0 LoadFromData, 1 LoadFromDataWithPath,
// 2 LoadFromURI through the reader); harnesses that vary it set it from a choice before exercising.
var verifEntryPoint int

func verifExercise(data []byte, allowExternal bool) { verifExerciseKnown(data, allowExternal, "", "") }

// verifExerciseKnown: knownValidate / knownInternalize name a known finding that covers a
// violation during that phase only (a violation in any other phase is reported).
func verifExerciseKnown(data []byte, allowExternal bool, knownValidate, knownInternalize string) {
	// known findings, identified by call site (see known_findings.json)
	loader := NewLoader()
	loader.IsExternalRefsAllowed = allowExternal
	rootLoc := &url.URL{Path: "/r/doc.json"}
	loader.ReadFromURIFunc = func(_ *Loader, u *url.URL) ([]byte, error) {
		if u.Path == rootLoc.Path && verifEntryPoint == 2 {
			return data, nil
		}
		return nil, errors.New("no such file")
	}
	var doc *T
	var err error
	switch verifEntryPoint {
	case 1:
		doc, err = loader.LoadFromDataWithPath(data, rootLoc)
	case 2:
		doc, err = loader.LoadFromURI(rootLoc)
	default:
		doc, err = loader.LoadFromData(data)
	}
	verifAssert((doc != nil) == (err == nil), "C20: loading returns a document or an error")
	if doc == nil {
		return
	}
	verifReach("loaded")
	if knownValidate != "" {
		verifKnown(knownValidate, true)
	}
	_ = doc.Validate(context.Background())
	if knownValidate != "" {
		verifKnown(knownValidate, false)
	}
	_, _ = json.Marshal(doc)
	if knownInternalize != "" {
		verifKnown(knownInternalize, true)
	}
	doc.InternalizeRefs(context.Background(), nil)
	if knownInternalize != "" {
		verifKnown(knownInternalize, false)
	}
	_, _ = json.Marshal(doc)
}

//verif:harness id=C20 tier=quick,thorough witness=end,loaded steps=20000000 bounds="near-valid documents: a valid document using every object kind, mutated at one node (every node of its JSON tree, in document order) by replacing it with null / 3 / \"s\" / [] / {} / true / [{}] or removing it; LoadFromData, then Validate, json.Marshal, InternalizeRefs, json.Marshal on any returned document; assertions = no panic, termination within the step budget"
func verifH_C20_mutations() {
	verifEntryPoint = 0
	var tree any
	if json.Unmarshal([]byte(verifBaseDoc), &tree) != nil {
		return
	}
	n := verifCountNodes(tree)
	k := verifChoose("node", n)
	var repl any
	remove := false
	switch verifChoose("replacement", 8) {
	case 0:
		repl = nil
	case 1:
		repl = 3.0
	case 2:
		repl = "s"
	case 3:
		repl = []any{}
	case 4:
		repl = map[string]any{}
	case 5:
		repl = true
	case 6:
		repl = []any{map[string]any{}}
	case 7:
		remove = true
	}
	kk := k
	mutated, _ := verifMutate(tree, &kk, repl, remove)
	data, err := json.Marshal(mutated)
	if err != nil {
		return
	}
	verifExercise(data, verifChoose("allowExternal", 2) == 1)
	verifReach("end")
}

//verif:harness id=C20 tier=quick,thorough witness=end steps=20000000 bounds="adversarial reference graphs: for every ordered pair of component kinds (9x9) a component of the first kind referring to a component of the second (wrong kind when they differ), self references, mutual cycles across kinds, the same reference text used at two positions of different kinds, dangling targets, empty {} components and null map entries; LoadFromData, Validate, Marshal, InternalizeRefs; assertions = no panic, termination"
func verifH_C20_refgraphs() {
	verifEntryPoint = verifChoose("entry", 3) // LoadFromData / LoadFromDataWithPath / LoadFromURI
	k1 := verifKinds[verifChoose("k1", len(verifKinds))]
	k2 := verifKinds[verifChoose("k2", len(verifKinds))]
	shape := verifChoose("shape", 6)
	comps := map[string]map[string]string{}
	put := func(kind, name, text string) {
		if comps[kind] == nil {
			comps[kind] = map[string]string{}
		}
		comps[kind][name] = text
	}
	ref := func(kind, name string) string { return `{"$ref":"#/components/` + kind + `/` + name + `"}` }
	put(k2, "T", verifTargets[k2])
	usage := ""
	switch shape {
	case 0: // k1.A -> k2.T (wrong kind when k1 != k2)
		put(k1, "A", ref(k2, "T"))
	case 1: // self reference
		put(k1, "A", ref(k1, "A"))
	case 2: // mutual cycle across kinds
		put(k1, "A", ref(k2, "B"))
		put(k2, "B", ref(k1, "A"))
	case 3: // dangling
		put(k1, "A", ref(k2, "Missing"))
	case 4: // empty and null entries
		put(k1, "A", `{}`)
		put(k2, "N", `null`)
	case 5: // the same reference text used at positions of two different kinds
		put(k1, "A", ref(k2, "T"))
		usage = `,"paths":{"/p":{"get":{"operationId":"g","parameters":[` + ref(k2, "T") + `],"requestBody":` + ref(k2, "T") + `,"responses":{"200":` + ref(k2, "T") + `,"201":{"description":"d","headers":{"h":` + ref(k2, "T") + `},"content":{"a/b":{"schema":` + ref(k2, "T") + `}}}}}}}`
	}
	text := `{"openapi":"3.0.0","info":{"title":"t","version":"1"}`
	if usage == "" {
		text += `,"paths":{}`
	} else {
		text += usage
	}
	text += `,"components":{`
	first := true
	for _, kind := range verifKinds {
		if comps[kind] == nil {
			continue
		}
		if !first {
			text += ","
		}
		first = false
		text += `"` + kind + `":{`
		i := 0
		for _, name := range []string{"A", "B", "N", "T"} {
			if t, ok := comps[kind][name]; ok {
				if i > 0 {
					text += ","
				}
				i++
				text += `"` + name + `":` + t
			}
		}
		text += `}`
	}
	text += `}}`
	verifExercise([]byte(text), verifChoose("allowExternal", 2) == 1)
	verifReach("end")
}

//verif:harness id=C20 tier=quick,thorough witness=end,loaded steps=20000000 bounds="references at every schema keyword position (not, allOf, oneOf, anyOf, items, properties, additionalProperties) x load entry point in {LoadFromData, LoadFromDataWithPath, LoadFromURI} x 31 targets (incl. six fragments into members the target does not have and seven that continue past such a member): self reference through the position, pure-reference cycle, dangling, and fragments that drill into arrays and maps at, beyond and below their bounds (allOf/0, /1 = length, /2, /-1, /x, required/0, enum/1, empty token, '#/', '#', a scalar's child) x external references allowed or not; load, validate, serialise, internalise, serialise: no panic"
func verifH_C20_schema_refs() {
	verifEntryPoint = verifChoose("entry", 3) // LoadFromData / LoadFromDataWithPath / LoadFromURI
	pos := verifChoose("position", 7)
	targets := []string{
		"#/components/schemas/S",          // back to the schema that contains the reference
		"#/components/schemas/Y1",         // Y1 -> Y2 -> Y1, references only (sorting after S: Validate reaches S first)
		"#/components/schemas/Missing",    // dangling
		"#/components/schemas/L/allOf/0",  // a valid drill into an array
		"#/components/schemas/L/allOf/1",  // index = length
		"#/components/schemas/L/allOf/2",  // beyond
		"#/components/schemas/L/allOf/-1", // negative
		"#/components/schemas/L/allOf/x",  // not a number
		"#/components/schemas/L/required/0",
		"#/components/schemas/L/enum/1",
		"#/components/schemas/L/type/x", // child of a scalar
		"#/components/schemas//",        // empty tokens
		"#/",
		"#",
		"#/components/parameters/P/schema", // a valid drill through another kind
		"#/components/schemas/L/properties/q/items",
		"#/components/schemas/Y1/additionalProperties", // drills through a reference that is not resolved yet
		"#/components/schemas/Y1/properties/p",
		// members the target object could have but does not: nothing is there
		"#/components/schemas/L/items",
		"#/components/schemas/L/not",
		"#/components/schemas/L/properties/q/not",
		"#/components/parameters/P/example",
		"#/paths/~1p/get/requestBody",
		"#/paths/~1p/get/responses/200/headers/X",
		// ... and pointers that continue past the absent member
		"#/components/schemas/L/items/additionalProperties",
		"#/components/schemas/L/not/additionalProperties/x",
		"#/components/schemas/L/properties/q/not/items",
		"#/paths/~1p/put/responses/200",
		"#/paths/~1p/put/callbacks/cb/x",
		"#/paths/~1p/put/requestBody/content",
		"#/paths/~1zz/get",
	}
	r := `{"$ref":"` + targets[verifChoose("target", len(targets))] + `"}`
	var s string
	switch pos {
	case 0:
		s = `{"not":` + r + `}`
	case 1:
		s = `{"allOf":[` + r + `]}`
	case 2:
		s = `{"oneOf":[{"type":"string"},` + r + `]}`
	case 3:
		s = `{"anyOf":[` + r + `]}`
	case 4:
		s = `{"type":"array","items":` + r + `}`
	case 5:
		s = `{"type":"object","properties":{"p":` + r + `}}`
	case 6:
		s = `{"type":"object","additionalProperties":` + r + `}`
	}
	text := `{"openapi":"3.0.0","info":{"title":"t","version":"1"},"paths":{"/p":{"put":{"operationId":"u"},"get":{"operationId":"g","parameters":[{"$ref":"#/components/parameters/P"}],"responses":{"200":{"description":"d","content":{"application/json":{"schema":{"$ref":"#/components/schemas/S"}}}}}}}},` +
		`"components":{"parameters":{"P":{"name":"q","in":"query","schema":{"type":"integer"}}},"schemas":{"S":` + s + `,"Y1":{"$ref":"#/components/schemas/Y2"},"Y2":{"$ref":"#/components/schemas/Y1"},` +
		`"L":{"type":"object","allOf":[{"type":"object"}],"required":["q"],"enum":[{"q":[1]}],"properties":{"q":{"type":"array","items":{"type":"integer"}}}}}}}`
	verifExercise([]byte(text), verifChoose("allowExternal", 2) == 1)
	verifReach("end")
}

//verif:harness id=C20 tier=quick,thorough witness=end,loaded steps=20000000 depth=3000 bounds="structurally recursive documents: an untyped schema that contains itself (through properties / items / additionalProperties / allOf / not / a oneOf member's additionalProperties) with a default, an example or an enum; a callback whose operation uses the same callback again; a path item / operation reached through nested callbacks two levels deep; an inline callback whose path item is a reference back to its own path (directly or through a second path); load, validate, serialise, internalise, serialise: no panic and no unbounded recursion"
func verifH_C20_recursive() {
	verifEntryPoint = 0
	var comps string
	shape := verifChoose("shape", 13)
	// known findings, identified by the input: unbounded recursion through a self-containing
	// untyped schema with a value to check, and through a callback that uses itself
	switch shape {
	case 0:
		comps = `"schemas":{"Z":{"properties":{"x":{"$ref":"#/components/schemas/Z"}},"default":{}}}`
	case 1:
		comps = `"schemas":{"Z":{"items":{"$ref":"#/components/schemas/Z"},"example":[]}}`
	case 2:
		comps = `"schemas":{"Z":{"additionalProperties":{"$ref":"#/components/schemas/Z"},"enum":[{}]}}`
	case 3:
		comps = `"schemas":{"Z":{"allOf":[{"$ref":"#/components/schemas/Z"}],"default":1}}`
	case 4:
		comps = `"schemas":{"Z":{"not":{"$ref":"#/components/schemas/Z"},"default":1}}`
	case 5:
		comps = `"schemas":{"Z":{"type":"object","properties":{"x":{"$ref":"#/components/schemas/Z"}},"default":{"x":{"x":{}}}}}`
	case 10:
		comps = `"schemas":{"Z":{"additionalProperties":{"$ref":"#/components/schemas/Z"},"default":{"a":{}}}}`
	case 11:
		comps = `"schemas":{"Z":{"additionalProperties":{"$ref":"#/components/schemas/Z"},"example":{}}}`
	case 12:
		comps = `"schemas":{"Z":{"oneOf":[{"type":"string"},{"additionalProperties":{"$ref":"#/components/schemas/Z"}}],"example":{"a":"s"}}}`
	case 6:
		comps = `"callbacks":{"CB":{"{$request.body#/u}":{"post":{"responses":{"200":{"description":"d"}},"callbacks":{"again":{"$ref":"#/components/callbacks/CB"}}}}}}`
	case 7:
		comps = `"callbacks":{"CB":{"{$request.body#/u}":{"post":{"responses":{"200":{"description":"d"}},"callbacks":{"in":{"{$request.body#/v}":{"post":{"responses":{"200":{"description":"d"}},"callbacks":{"again":{"$ref":"#/components/callbacks/CB"}}}}}}}}}}`
	}
	text := `{"openapi":"3.0.0","info":{"title":"t","version":"1"},"paths":{},"components":{` + comps + `}}`
	switch shape {
	case 8: // an inline callback whose path item is a reference back to the path that contains the operation
		text = `{"openapi":"3.0.0","info":{"title":"t","version":"1"},"paths":{"/a":{"post":{"callbacks":{"cb":{"{$request.body#/u}":{"$ref":"#/paths/~1a"}}},"responses":{"200":{"description":"ok"}}}}}}`
	case 9: // ... through a second path
		text = `{"openapi":"3.0.0","info":{"title":"t","version":"1"},"paths":{"/a":{"post":{"callbacks":{"cb":{"{$request.body#/u}":{"$ref":"#/paths/~1b"}}},"responses":{"200":{"description":"ok"}}}},"/b":{"post":{"callbacks":{"cb":{"{$request.body#/u}":{"$ref":"#/paths/~1a"}}},"responses":{"200":{"description":"ok"}}}}}}`
	}
	kv, ki := "", ""
	if shape == 3 || shape == 4 {
		// through composition keywords alone (the cycles through properties / items / additionalProperties are repaired)
		kv = "C20-recursive-schema-unbounded-recursion" // during Validate only
	} else if shape <= 5 || shape >= 10 {
	} else {
		ki = "C20-internalize-recursive-callback" // during InternalizeRefs only
	}
	verifExerciseKnown([]byte(text), verifChoose("allowExternal", 2) == 1, kv, ki)
	verifReach("end")
}

//verif:harness id=C20 tier=quick,thorough witness=end,loaded bounds="server URL texts with odd braces (14 texts: {, }, }{, {}, {a, a}, {a}{, }a{, {{a}}, {a}{a}, https://}r{.example.com, https://{a}.example.com/{b, /{a}/}{, empty) at document / path-item / operation level, with variables {a} declared or not: load, validate, serialise, internalise, serialise again; assertion = no panic"
func verifH_C20_server_urls() {
	verifEntryPoint = 0
	texts := []string{"{", "}", "}{", "{}", "{a", "a}", "{a}{", "}a{", "{{a}}", "{a}{a}", "https://}r{.example.com", "https://{a}.example.com/{b", "/{a}/}{", ""}
	srv := `{"url":"` + texts[verifChoose("url", len(texts))] + `"`
	if verifChoose("vars", 2) == 1 {
		srv += `,"variables":{"a":{"default":"x"}}`
	}
	srv += `}`
	docServers, itemServers, opServers := "", "", ""
	switch verifChoose("level", 3) {
	case 0:
		docServers = `"servers":[` + srv + `],`
	case 1:
		itemServers = `"servers":[` + srv + `],`
	case 2:
		opServers = `"servers":[` + srv + `],`
	}
	text := `{"openapi":"3.0.0","info":{"title":"t","version":"1"},` + docServers + `"paths":{"/a":{` + itemServers + `"get":{` + opServers + `"responses":{"200":{"description":"d"}}}}}}`
	verifExercise([]byte(text), false)
	verifReach("end")
}

//verif:harness id=C20 tier=quick,thorough witness=end steps=20000000 bounds="a reference to the wrong kind of object met while its target is still being resolved: component X of kind K1 is a reference to component Y of the same kind, and inside Y a position of another kind K2 (a header / schema / example / link of a response, a schema / example of a parameter or header, a schema of a request body) refers back to X or Y: loading fails or succeeds but never panics (9 nestings x 2 targets x both reference orders)"
func verifH_C20_wrong_kind_in_progress() {
	verifEntryPoint = verifChoose("entry", 3) // LoadFromData / LoadFromDataWithPath / LoadFromURI
	type nest struct{ kind, inner string }
	nests := []nest{
		{"responses", `{"description":"d","headers":{"H":%s}}`},
		{"responses", `{"description":"d","content":{"application/json":{"schema":%s}}}`},
		{"responses", `{"description":"d","content":{"application/json":{"examples":{"e":%s}}}}`},
		{"responses", `{"description":"d","links":{"l":%s}}`},
		{"parameters", `{"name":"p","in":"query","schema":%s}`},
		{"parameters", `{"name":"p","in":"query","examples":{"e":%s}}`},
		{"headers", `{"schema":%s}`},
		{"requestBodies", `{"content":{"application/json":{"schema":%s}}}`},
		{"schemas", `{"type":"object","properties":{"p":%s}}`},
	}
	n := nests[verifChoose("nest", len(nests))]
	target := []string{"X", "Y"}[verifChoose("target", 2)]
	back := `{"$ref":"#/components/` + n.kind + `/` + target + `"}`
	y := strings.Replace(n.inner, "%s", back, 1)
	x := `{"$ref":"#/components/` + n.kind + `/Y"}`
	// X sorts before Y: the loader meets the reference first; A/B names reverse the order
	names := [][2]string{{"X", "Y"}, {"Y", "X"}}[verifChoose("order", 2)]
	if names[0] == "Y" {
		// the object is met first, the reference to it second
		x, y = strings.Replace(n.inner, "%s", `{"$ref":"#/components/`+n.kind+`/`+target+`"}`, 1), `{"$ref":"#/components/`+n.kind+`/X"}`
	}
	text := `{"openapi":"3.0.0","info":{"title":"t","version":"1"},"paths":{},"components":{"` + n.kind + `":{"X":` + x + `,"Y":` + y + `}}}`
	verifExercise([]byte(text), false)
	verifReach("end")
}

//verif:harness id=C20 tier=thorough witness=end,loaded steps=20000000 maxpaths=200000 bounds="near-valid documents with two mutations: every node of the conforming document's JSON tree and one of the 12 nodes that follow it in document order (children, siblings, the parent's next member), each replaced by null / {} / a string, or removed (16 combinations): load, validate, serialise, internalise, serialise again; assertion = no panic"
func verifH_C20_mutation_pairs() {
	verifEntryPoint = 0
	var tree any
	if json.Unmarshal([]byte(verifBaseDoc), &tree) != nil {
		return
	}
	n := verifCountNodes(tree)
	k1 := verifChoose("node", n)
	k2 := k1 + 1 + verifChoose("next", 12)
	if k2 >= n {
		return
	}
	pick := func(name string) (any, bool) {
		switch verifChoose(name, 4) {
		case 1:
			return map[string]any{}, false
		case 2:
			return "s", false
		case 3:
			return nil, true
		}
		return nil, false
	}
	r1, rm1 := pick("r1")
	r2, rm2 := pick("r2")
	kk := k2
	mutated, _ := verifMutate(tree, &kk, r2, rm2) // the later node first: the earlier one's position is not moved by it
	kk = k1
	mutated, _ = verifMutate(mutated, &kk, r1, rm1)
	data, err := json.Marshal(mutated)
	if err != nil {
		return
	}
	verifExercise(data, false)
	verifReach("end")
}

//verif:harness id=C20 tier=quick,thorough witness=end,loaded steps=20000000 depth=3000 bounds="heavy sharing: a chain of 36 component schemas in which each refers to the next from two places (two properties / allOf twice / items and additionalProperties / oneOf and anyOf / not and a property), i.e. 2^36 paths through the reference graph but 36 schemas; also the same with the last schema referring back to the first; load, validate, serialise, internalise, serialise: the work is bounded by the size of the document (the step budget), not by the number of paths"
func verifH_C20_sharing() {
	verifEntryPoint = 0
	const n = 36
	via := verifChoose("via", 5)
	cyclic := verifChoose("cyclic", 2) == 1
	name := func(i int) string { return "S" + string(rune('a'+i/10)) + string(rune('0'+i%10)) }
	text := `{"openapi":"3.0.0","info":{"title":"t","version":"1"},"paths":{},"components":{"schemas":{`
	for i := 0; i < n; i++ {
		next := name(i + 1)
		if i == n-1 {
			if !cyclic {
				text += `"` + name(i) + `":{"type":"string"}`
				break
			}
			next = name(0)
		}
		r := `{"$ref":"#/components/schemas/` + next + `"}`
		var body string
		switch via {
		case 0:
			body = `{"type":"object","properties":{"l":` + r + `,"r":` + r + `}}`
		case 1:
			body = `{"allOf":[` + r + `,` + r + `]}`
		case 2:
			body = `{"type":"object","items":` + r + `,"additionalProperties":` + r + `}`
		case 3:
			body = `{"oneOf":[` + r + `],"anyOf":[` + r + `]}`
		case 4:
			body = `{"type":"object","not":` + r + `,"properties":{"p":` + r + `}}`
		}
		text += `"` + name(i) + `":` + body + `,`
	}
	if cyclic {
		text = text[:len(text)-1]
	}
	text += `}}}`
	verifExercise([]byte(text), false)
	verifReach("end")
}

//verif:harness id=C20 tier=quick,thorough witness=end,loaded steps=20000000 bounds="names that are the empty string (and the single characters /, {, }, #, ~, %, a blank) as the key of each name-keyed map of a document: paths, responses, callbacks and their expressions, content, encoding, headers, examples, links, properties, discriminator mapping, server variables, security requirements, scopes, and the nine component maps (24 positions x 8 keys): load, validate, serialise, internalise, serialise again: no panic"
func verifH_C20_odd_keys() {
	verifEntryPoint = 0
	key := []string{"", "/", "{", "}", "#", "~", "%", " "}[verifChoose("key", 8)]
	k := func(pos, def string, at int) string {
		if at == pos2int[pos] {
			b, _ := json.Marshal(key)
			return string(b)
		}
		return `"` + def + `"`
	}
	at := verifChoose("position", len(pos2int))
	text := `{"openapi":"3.0.0","info":{"title":"t","version":"1"},` +
		`"servers":[{"url":"https://h.example/{v}","variables":{` + k("variable", "v", at) + `:{"default":"d"}}}],` +
		`"security":[{` + k("requirement", "sec", at) + `:[]}],` +
		`"paths":{` + k("path", "/a", at) + `:{"post":{"operationId":"op",` +
		`"requestBody":{"content":{` + k("content", "application/json", at) + `:{"schema":{"type":"object","properties":{` + k("property", "p", at) + `:{"type":"string"}},` +
		`"discriminator":{"propertyName":"p","mapping":{` + k("mapping", "m", at) + `:"#/components/schemas/S"}}},` +
		`"examples":{` + k("example", "e", at) + `:{"value":{}}},"encoding":{` + k("encoding", "p", at) + `:{"headers":{` + k("encHeader", "X-E", at) + `:{"schema":{"type":"string"}}}}}}}},` +
		`"callbacks":{` + k("callback", "cb", at) + `:{` + k("expression", "{$request.body#/u}", at) + `:{"post":{"responses":{"200":{"description":"d"}}}}}},` +
		`"responses":{` + k("response", "200", at) + `:{"description":"d","headers":{` + k("header", "X-H", at) + `:{"schema":{"type":"string"}}},"links":{` + k("link", "l", at) + `:{"operationId":"op"}}}}}}},` +
		`"components":{"schemas":{` + k("cSchema", "S", at) + `:{"type":"string"}},"parameters":{` + k("cParameter", "P", at) + `:{"name":"q","in":"query","schema":{"type":"string"}}},` +
		`"headers":{` + k("cHeader", "H", at) + `:{"schema":{"type":"string"}}},"requestBodies":{` + k("cBody", "B", at) + `:{"content":{"text/plain":{}}}},` +
		`"responses":{` + k("cResponse", "R", at) + `:{"description":"d"}},"examples":{` + k("cExample", "E", at) + `:{"value":1}},"links":{` + k("cLink", "L", at) + `:{"operationId":"op"}},` +
		`"callbacks":{` + k("cCallback", "C", at) + `:{"{$request.body#/u}":{"post":{"responses":{"200":{"description":"d"}}}}}},` +
		`"securitySchemes":{` + k("cScheme", "sec", at) + `:{"type":"oauth2","flows":{"implicit":{"authorizationUrl":"https://a.example","scopes":{` + k("scope", "s", at) + `:"d"}}}}}}}`
	verifExercise([]byte(text), false)
	verifReach("end")
}

var pos2int = map[string]int{"variable": 0, "requirement": 1, "path": 2, "content": 3, "property": 4, "mapping": 5, "example": 6, "encoding": 7, "encHeader": 8, "callback": 9, "expression": 10,
	"response": 11, "header": 12, "link": 13, "cSchema": 14, "cParameter": 15, "cHeader": 16, "cBody": 17, "cResponse": 18, "cExample": 19, "cLink": 20, "cCallback": 21, "cScheme": 22, "scope": 23}
