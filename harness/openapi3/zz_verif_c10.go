package openapi3

// C10 (schema part) — validating any value against any schema that passed
// document validation returns normally. Only assumption: the real
// Schema.Validate returned nil. The engine's panic monitor is the assertion.

import (
	"context"
	"math"
)

func verifAnyFloat(name string) float64 { return verifNondetFloat64(name) }

// verifWildNumberSchema: no well-formedness assumptions at all.
func verifWildNumberSchema(p string) *Schema {
	s := &Schema{}
	s.Type = verifTypes(p+"type", []string{"number"}, []string{"integer"}, []string{"integer", "string"})
	if verifChoose(p+"hasMin", 2) == 1 {
		m := verifFiniteFloat(p + "min")
		s.Min = &m
	}
	if verifChoose(p+"hasMax", 2) == 1 {
		m := verifFiniteFloat(p + "max")
		s.Max = &m
	}
	s.ExclusiveMin = verifNondetBool(p + "xmin")
	s.ExclusiveMax = verifNondetBool(p + "xmax")
	if verifChoose(p+"hasMul", 2) == 1 {
		m := verifFiniteFloat(p + "mul") // 0 and negative values are legal documents
		s.MultipleOf = &m
	}
	switch verifChoose(p+"format", 3) {
	case 1:
		s.Format = "int32"
	case 2:
		s.Format = "int64"
	}
	return s
}

// verifWildSmall: a nested number schema with the legal-but-unusual features only.
func verifWildSmall(p string) *Schema {
	s := &Schema{Type: &Types{"number"}}
	s.ExclusiveMin = verifNondetBool(p + "xmin")
	s.ExclusiveMax = verifNondetBool(p + "xmax")
	if verifChoose(p+"hasMul", 2) == 1 {
		m := verifFiniteFloat(p + "mul")
		s.MultipleOf = &m
	}
	return s
}

// verifErrText: what a caller does with a returned error - print it.
func verifErrText(err error) {
	if err != nil {
		_ = err.Error()
	}
}

func verifAllModes(s *Schema, v any) {
	verifErrText(s.VisitJSON(v))
	_ = s.VisitJSON(v, FailFast())
	verifErrText(s.VisitJSON(v, MultiErrors()))
	_ = s.VisitJSON(v, VisitAsRequest(), MultiErrors())
	_ = s.VisitJSON(v, VisitAsResponse())
	_ = s.VisitJSON(v, MultiErrors(), EnableFormatValidation())
	_ = s.VisitJSON(v, MultiErrors(), DisablePatternValidation())
	_ = s.IsMatching(v)
}

//verif:harness id=C10 tier=quick,thorough witness=end bounds="number schemas without well-formedness assumptions (exclusive flags without bounds, multipleOf any finite float incl. 0 and negatives, formats int32/int64) that pass the real Schema.Validate x any float64 incl. NaN/Inf, bool, ASCII string len<=1, null x 5 option sets; assertion = no panic"
func verifH_C10_number() {
	s := verifWildNumberSchema("")
	if s.Validate(context.Background()) != nil {
		return
	}
	var v any
	switch verifChoose("vkind", 4) {
	case 0:
		v = verifAnyFloat("v")
	case 1:
		v = verifNondetBool("vb")
	case 2:
		v = verifASCII("vs", 1)
	}
	verifAllModes(s, v)
	verifReach("end")
}

//verif:harness id=C10 tier=quick,thorough witness=end bounds="string schemas: type absent/string, min/maxLength any uint64 (max<min allowed), pattern in {absent,'(' uncompilable,^a}, format in {absent,date,email,unknown}; array schemas: type absent with items absent, uniqueItems; object schemas with required of undeclared properties; all passing the real Schema.Validate x values (ASCII string len<=2, array of 0..2 scalars, object over 2 keys, number, null) x 5 option sets; assertion = no panic"
func verifH_C10_shapes() {
	s := &Schema{}
	switch verifChoose("family", 3) {
	case 0:
		if verifChoose("typed", 2) == 1 {
			s.Type = &Types{"string"}
		}
		s.MinLength = verifNondetUint64("minLen")
		if verifChoose("hasMaxLen", 2) == 1 {
			m := verifNondetUint64("maxLen")
			s.MaxLength = &m
		}
		switch verifChoose("pattern", 3) {
		case 1:
			s.Pattern = "("
		case 2:
			s.Pattern = "^a"
		}
		switch verifChoose("format", 4) {
		case 1:
			s.Format = "date"
		case 2:
			s.Format = "email"
		case 3:
			s.Format = "no-such"
		}
	case 1:
		if verifChoose("typed", 2) == 1 {
			s.Type = &Types{"array"}
			s.Items = &SchemaRef{Value: &Schema{}}
		}
		s.MinItems = verifNondetUint64("minItems")
		s.UniqueItems = verifNondetBool("unique")
		if verifChoose("items", 2) == 1 {
			s.Items = &SchemaRef{Value: verifWildSmall("it.")}
		}
	case 2:
		if verifChoose("typed", 2) == 1 {
			s.Type = &Types{"object"}
		}
		s.Required = []string{"zz"}
		s.MinProps = verifNondetUint64("minProps")
		if verifChoose("props", 2) == 1 {
			s.Properties = Schemas{"a": &SchemaRef{Value: verifWildSmall("pa.")}}
		}
		if verifChoose("addl", 2) == 1 {
			f := verifNondetBool("addlHas")
			s.AdditionalProperties.Has = &f
		}
	}
	// the gate is document validation as the user runs it: plainly, or with the options that relax it
	var gate []ValidationOption
	switch verifChoose("gate", 3) {
	case 1:
		gate = append(gate, DisableSchemaPatternValidation())
	case 2:
		gate = append(gate, DisableSchemaPatternValidation(), DisableSchemaDefaultsValidation(), DisableExamplesValidation(), EnableSchemaFormatValidation())
	}
	if s.Validate(context.Background(), gate...) != nil {
		return
	}
	var v any
	switch verifChoose("vkind", 5) {
	case 0:
		v = verifASCII("vs", 2)
	case 1:
		v = any(verifArrayValue("va", 2, 1))
	case 2:
		v = any(verifObjectValue("vo", []string{"a", "zz"}, 1))
	case 3:
		v = verifAnyFloat("vn")
	}
	verifAllModes(s, v)
	verifReach("end")
}

//verif:harness id=C10 tier=quick,thorough witness=end bounds="recursive schema (object, with or without an explicit type, whose property and items refer back to itself, nullable symbolic) x values nested to depth 3 (object/array/number/null) x 3 option sets; assertion = no panic and termination within the step budget"
func verifH_C10_recursive() {
	node := &Schema{Type: &Types{"object"}, Properties: Schemas{}}
	if verifChoose("typed", 2) == 0 {
		node.Type = nil // a recursive schema that leaves its type to be understood
	}
	node.Nullable = verifNondetBool("nullable")
	self := &SchemaRef{Ref: "#/components/schemas/Node", Value: node}
	node.Properties["next"] = self
	node.Properties["list"] = &SchemaRef{Value: &Schema{Type: &Types{"array"}, Items: self}}
	m := verifFiniteFloat("min")
	node.Properties["n"] = &SchemaRef{Value: &Schema{Type: &Types{"number"}, Min: &m}}
	if node.Validate(context.Background()) != nil {
		return
	}
	var build func(p string, depth int) any
	build = func(p string, depth int) any {
		switch verifChoose(p+"kind", 3) {
		case 0:
			return nil
		case 1:
			return verifAnyFloat(p + "n")
		}
		o := map[string]any{}
		if depth > 0 {
			switch verifChoose(p+"child", 3) {
			case 1:
				o["next"] = build(p+"x", depth-1)
			case 2:
				o["list"] = []any{build(p+"l", depth-1)}
			}
		}
		if verifChoose(p+"hasN", 2) == 1 {
			o["n"] = verifAnyFloat(p + "nn")
		}
		return o
	}
	v := build("v", 2)
	_ = node.VisitJSON(v)
	_ = node.VisitJSON(v, MultiErrors())
	_ = node.VisitJSON(v, FailFast())
	verifReach("end")
}

//verif:harness id=C10 tier=quick,thorough witness=end depth=3000 bounds="schemas that contain themselves through a composition keyword only (A: allOf / anyOf / oneOf [A], A: not A, A: allOf [B], B: anyOf [A], with or without a type or a sibling branch) and pass the real Schema.Validate x value in {number, string, object, null}: validation returns (known finding: it recurses without bound)"
func verifH_C10_composition_cycles() {
	a := &Schema{}
	self := &SchemaRef{Ref: "#/components/schemas/A", Value: a}
	leaf := &SchemaRef{Value: &Schema{Type: &Types{"number"}}}
	switch verifChoose("shape", 6) {
	case 0:
		a.AllOf = SchemaRefs{self}
	case 1:
		a.AnyOf = SchemaRefs{leaf, self}
	case 2:
		a.OneOf = SchemaRefs{self, leaf}
	case 3:
		a.Not = self
	case 4:
		b := &Schema{AnyOf: SchemaRefs{self}}
		a.AllOf = SchemaRefs{{Ref: "#/components/schemas/B", Value: b}}
	case 5:
		a.Type = &Types{"object"}
		a.AllOf = SchemaRefs{self}
	}
	if a.Validate(context.Background()) != nil {
		return
	}
	var v any
	switch verifChoose("value", 4) {
	case 0:
		v = 1.0
	case 1:
		v = "s"
	case 2:
		v = map[string]any{"k": 1.0}
	}
	// known finding: a schema reached again through composition keywords alone is evaluated again on the same value, without end
	verifKnown("C10-composition-cycle-unbounded-recursion", true)
	_ = a.VisitJSON(v)
	_ = a.VisitJSON(v, MultiErrors())
	_ = a.IsMatching(v)
	verifReach("end")
}

//verif:harness id=C10 tier=quick,thorough witness=end depth=3000 bounds="type-less recursive schemas with nothing else in them (Node: {properties: {next: Node}}, {items: Node}, {additionalProperties: Node}, {allOf: [{properties: {next: Node}}]}, two schemas referring to each other) that pass the real Schema.Validate x values nested to depth 2: validation returns"
func verifH_C10_untyped_recursive() {
	node := &Schema{}
	self := &SchemaRef{Ref: "#/components/schemas/Node", Value: node}
	switch verifChoose("shape", 5) {
	case 0:
		node.Properties = Schemas{"next": self}
	case 1:
		node.Items = self
	case 2:
		node.AdditionalProperties.Schema = self
	case 3:
		node.AllOf = SchemaRefs{{Value: &Schema{Properties: Schemas{"next": self}}}}
	case 4:
		other := &Schema{Properties: Schemas{"back": self}}
		node.Properties = Schemas{"next": {Ref: "#/components/schemas/Other", Value: other}}
	}
	if node.Validate(context.Background()) != nil {
		return
	}
	values := []any{1.0, "s", map[string]any{}, map[string]any{"next": map[string]any{"next": map[string]any{}, "back": map[string]any{}}}, []any{[]any{}, map[string]any{"next": 1.0}}, nil}
	v := values[verifChoose("value", len(values))]
	_ = node.VisitJSON(v)
	_ = node.VisitJSON(v, MultiErrors())
	_ = node.IsMatching(v)
	_ = node.IsEmpty()
	verifReach("end")
}

//verif:harness id=C10 tier=quick,thorough witness=end bounds="describing an error: values that hold NaN, an infinity or an ordinary number (as YAML bodies can carry them) inside an object or an array, rejected by a keyword of the enclosing value (required, maxProperties, maxItems, type); VisitJSON in default and multi-error mode, then Error() of what was returned: no panic"
func verifH_C10_error_text() {
	// concrete floats: the text of the value is written out, which the engine does for concrete numbers only
	f := []float64{math.NaN(), math.Inf(1), math.Inf(-1), 1.5, 0}[verifChoose("f", 5)]
	var v any
	if verifChoose("container", 2) == 0 {
		v = map[string]any{"a": f}
	} else {
		v = []any{f, "s"}
	}
	zero := uint64(0)
	schemas := []*Schema{
		{Type: &Types{"object"}, Required: []string{"b"}},
		{Type: &Types{"object"}, MaxProps: &zero},
		{Type: &Types{"array"}, MaxItems: &zero},
		{Type: &Types{"string"}},
		{Type: &Types{"object"}, Properties: Schemas{"a": {Value: &Schema{Type: &Types{"string"}}}}},
	}
	s := schemas[verifChoose("schema", len(schemas))]
	if s.Validate(context.Background()) != nil {
		return
	}
	verifErrText(s.VisitJSON(v))
	verifErrText(s.VisitJSON(v, MultiErrors()))
	verifErrText(s.VisitJSON(v, VisitAsRequest()))
	verifReach("end")
}

//verif:harness id=C10 tier=quick,thorough witness=end depth=3000 bounds="a recursive schema whose recursive property has a default: Node: {type: object, properties: {next: {allOf: [Node], default: {}}}} (also with the default one level deeper, and with a default that ends the recursion by being null on a nullable property); passes the real Schema.Validate; value {} or {next: {}} validated as a request with default-setting on: validation returns (known finding: each injected default receives a default of its own, without end)"
func verifH_C10_recursive_defaults() {
	node := &Schema{Type: &Types{"object"}, Properties: Schemas{}}
	self := &SchemaRef{Ref: "#/components/schemas/Node", Value: node}
	shape := verifChoose("shape", 3)
	switch shape {
	case 0:
		node.Properties["next"] = &SchemaRef{Value: &Schema{AllOf: SchemaRefs{self}, Default: map[string]any{}}}
	case 1:
		node.Properties["next"] = &SchemaRef{Value: &Schema{AllOf: SchemaRefs{self}, Default: map[string]any{"next": map[string]any{}}}}
	case 2:
		// the chain of defaults ends: the property is nullable and its default is null-free but empty of defaults itself
		node.Properties["next"] = &SchemaRef{Value: &Schema{Type: &Types{"string"}, Default: "end"}}
	}
	if node.Validate(context.Background()) != nil {
		return
	}
	v := []any{map[string]any{}, map[string]any{"next": map[string]any{}}}[verifChoose("value", 2)]
	if shape == 2 {
		v = map[string]any{}
	}
	verifKnown("C10-recursive-default-unbounded-recursion", shape != 2)
	verifErrText(node.VisitJSON(v, VisitAsRequest(), DefaultsSet(func() {})))
	verifReach("end")
}
