package openapi3

// C04, second rule table: the rules of the smaller objects (contact, license, external docs,
// discriminator, xml, example, link, request body, OAuth flows, server variables), duplicate
// parameters, single-entry content, example-and-examples, unresolved references of every kind,
// fields next to a $ref, component names of every kind, and the Enable*/Disable* option pairs.
// Each rule first puts the conforming form of its subject into the conforming document (which must
// stay accepted) and then the violating form (which must be rejected).

import (
	"context"
	"strings"
)

func verifLoadText(text string) *T {
	doc, err := NewLoader().LoadFromData([]byte(text))
	if err != nil {
		return nil
	}
	return doc
}

//verif:harness id=C04 tier=quick,thorough witness=end,violated,switched bounds="second rule table on the conforming document: 32 further rules (media types without a schema / the pattern option next to defaults and examples / contact / license / externalDocs at four levels / discriminator / xml / example / link / request body / OAuth flows of the four kinds / http and apiKey and openIdConnect schemes / server braces and variables / duplicate parameters at both levels / content with two entries / example next to examples at three kinds of position / unresolved references of eight kinds / a field or an extension next to a $ref with the two options that concern it / malformed component names of nine kinds / unknown schema format with its option / Enable-after-Disable option pairs); for each the conforming form is accepted and the violating form rejected"
func verifH_C04_rules2() {
	ctx := context.Background()
	rule := verifChoose("rule", 32)
	text := verifBaseDoc
	// rules that need another document text (fields next to a $ref only exist in the text)
	var opts []ValidationOption
	accept := false // the options in force switch the violated rule off
	knownNested := false
	const refP = `{"$ref":"#/components/parameters/Id"}`
	const refR = `"200":{"$ref":"#/components/responses/R"}`
	if rule == 0 {
		switch verifChoose("how", 7) {
		case 6: // a field next to a $ref that stands below a schema (a property), not directly under components
			text = strings.Replace(text, `"n":{"$ref":"#/components/schemas/S"}`, `"n":{"$ref":"#/components/schemas/S","bogus":1}`, 1)
			knownNested = true
		case 0: // a field next to a $ref
			text = strings.Replace(text, refP, `{"$ref":"#/components/parameters/Id","description":"d"}`, 1)
		case 1: // ... allowed by name
			text = strings.Replace(text, refP, `{"$ref":"#/components/parameters/Id","description":"d"}`, 1)
			opts, accept = append(opts, AllowExtraSiblingFields("description")), true
		case 2: // ... another name allowed: still a violation
			text = strings.Replace(text, refP, `{"$ref":"#/components/parameters/Id","description":"d"}`, 1)
			opts = append(opts, AllowExtraSiblingFields("summary"))
		case 3: // an extension next to a $ref is fine by default
			text = strings.Replace(text, refR, `"200":{"$ref":"#/components/responses/R","x-e":1}`, 1)
			accept = true
		case 4: // ... unless prohibited
			text = strings.Replace(text, refR, `"200":{"$ref":"#/components/responses/R","x-e":1}`, 1)
			opts = append(opts, ProhibitExtensionsWithRef())
		case 5: // ... prohibited, then allowed again (the later option wins)
			text = strings.Replace(text, refR, `"200":{"$ref":"#/components/responses/R","x-e":1}`, 1)
			opts, accept = append(opts, ProhibitExtensionsWithRef(), AllowExtensionsWithRef()), true
		}
	}
	doc := verifLoadText(text)
	if doc == nil {
		return
	}
	sites := verifCollectSites(doc)
	ext := map[string]any{"x-ok": 1}
	bad := map[string]any{"foo": 1}
	strS := func() *SchemaRef { return &SchemaRef{Value: &Schema{Type: &Types{"string"}}} }
	check := func() {
		verifAssert(doc.Validate(ctx) == nil, "C04 rules2: the conforming form of the rule's subject is accepted")
	}
	getOp := doc.Paths.Value("/a/{id}").Get
	switch rule {
	case 0:
	case 1: // contact
		doc.Info.Contact = &Contact{Name: "n", URL: "https://c", Email: "a@b", Extensions: ext}
		check()
		doc.Info.Contact.Extensions = bad
	case 2: // license
		doc.Info.License = &License{Name: "MIT", URL: "https://l", Extensions: ext}
		check()
		if verifChoose("how", 2) == 0 {
			doc.Info.License.Name = ""
		} else {
			doc.Info.License.Extensions = bad
		}
	case 3: // external docs at document / tag / operation / schema level
		var ed *ExternalDocs
		mk := func() *ExternalDocs { return &ExternalDocs{Description: "d", URL: "https://e/x", Extensions: ext} }
		switch verifChoose("site", 4) {
		case 0:
			doc.ExternalDocs = mk()
			ed = doc.ExternalDocs
		case 1:
			doc.Tags[0].ExternalDocs = mk()
			ed = doc.Tags[0].ExternalDocs
		case 2:
			op := sites.ops[verifChoose("op", len(sites.ops))]
			op.ExternalDocs = mk()
			ed = op.ExternalDocs
		case 3:
			s := sites.schemas[verifChoose("schema", len(sites.schemas))]
			s.ExternalDocs = mk()
			ed = s.ExternalDocs
			verifKnown("C04-encoding-header-errors-swallowed", sites.encSchemas[s])
		}
		check()
		switch verifChoose("how", 3) {
		case 0:
			ed.URL = ""
		case 1:
			ed.URL = "%zz"
		case 2:
			ed.Extensions = bad
		}
	case 4: // discriminator
		d := doc.Components.Schemas["S"].Value.Discriminator
		d.Extensions = ext
		check()
		d.Extensions = bad
	case 5: // xml
		s := sites.schemas[verifChoose("schema", len(sites.schemas))]
		verifKnown("C04-encoding-header-errors-swallowed", sites.encSchemas[s])
		s.XML = &XML{Name: "n", Prefix: "p", Extensions: ext}
		check()
		s.XML.Extensions = bad
	case 6: // example object: in components, below a media type, below a parameter
		var ex *Example
		switch verifChoose("site", 3) {
		case 0:
			ex = doc.Components.Examples["E"].Value
		case 1:
			ex = doc.Components.RequestBodies["B"].Value.Content["application/json"].Examples["ex"].Value
		case 2:
			ex = getOp.Parameters[0].Value.Examples["e"].Value
		}
		ex.Extensions = ext
		check()
		if verifChoose("external", 2) == 1 {
			// an example whose value lives elsewhere is as conforming as one that carries it
			saved := ex.Value
			ex.Value, ex.ExternalValue = nil, "https://v/example.json"
			check()
			ex.Value, ex.ExternalValue = saved, ""
		}
		switch verifChoose("how", 3) {
		case 0:
			ex.ExternalValue = "https://v"
		case 1:
			ex.Value = nil
		case 2:
			ex.Extensions = bad
		}
	case 7: // link
		l := doc.Components.Links["L"].Value
		l.Extensions = ext
		check()
		switch verifChoose("how", 3) {
		case 0:
			l.OperationID = ""
		case 1:
			l.OperationRef = "#/paths/~1a~1{id}/get"
		case 2:
			l.Extensions = bad
		}
	case 8: // request body: component and inline
		var rb *RequestBody
		if verifChoose("site", 2) == 0 {
			rb = doc.Components.RequestBodies["B"].Value
		} else {
			rb = &RequestBody{Content: Content{"text/plain": &MediaType{Schema: strS()}}}
			sites.ops[len(sites.ops)-1].RequestBody = &RequestBodyRef{Value: rb}
		}
		rb.Extensions = ext
		check()
		if verifChoose("how", 2) == 0 {
			rb.Content = nil
		} else {
			rb.Extensions = bad
		}
	case 9: // OAuth flows: each kind with the URLs it needs, and only those
		ss := doc.Components.SecuritySchemes["sec"].Value
		kind := verifChoose("flow", 4)
		fl := &OAuthFlow{Scopes: StringMap{"s": "d"}, RefreshURL: "https://r", Extensions: ext}
		needsAuth, needsToken := kind == 0 || kind == 3, kind != 0
		if needsAuth {
			fl.AuthorizationURL = "https://a"
		}
		if needsToken {
			fl.TokenURL = "https://t"
		}
		ss.Flows = &OAuthFlows{Extensions: ext}
		switch kind {
		case 0:
			ss.Flows.Implicit = fl
		case 1:
			ss.Flows.Password = fl
		case 2:
			ss.Flows.ClientCredentials = fl
		case 3:
			ss.Flows.AuthorizationCode = fl
		}
		check()
		switch verifChoose("how", 7) {
		case 0:
			if needsAuth {
				fl.AuthorizationURL = ""
			} else {
				fl.AuthorizationURL = "https://a"
			}
		case 1:
			if needsToken {
				fl.TokenURL = ""
			} else {
				fl.TokenURL = "https://t"
			}
		case 2:
			fl.Scopes = nil
		case 3:
			fl.RefreshURL = "%zz"
		case 4:
			fl.Extensions = bad
		case 5:
			ss.Flows.Extensions = bad
		case 6:
			if needsAuth {
				fl.AuthorizationURL = "%zz"
			} else {
				fl.TokenURL = "%zz"
			}
		}
	case 10: // the other scheme types
		ss := doc.Components.SecuritySchemes["sec"].Value
		switch verifChoose("type", 4) {
		case 0:
			*ss = SecurityScheme{Type: "http", Scheme: []string{"basic", "bearer", "digest", "negotiate"}[verifChoose("scheme", 4)], Extensions: ext}
			if ss.Scheme == "bearer" {
				ss.BearerFormat = "JWT"
			}
			check()
			switch verifChoose("how", 6) {
			case 0:
				ss.Scheme = "Basic "
			case 1:
				ss.In = "header"
			case 2:
				ss.Name = "n"
			case 3:
				if ss.Scheme == "bearer" {
					ss.Scheme = "basic" // bearerFormat stays
				} else {
					ss.BearerFormat = "JWT"
				}
			case 4:
				ss.Flows = &OAuthFlows{Implicit: &OAuthFlow{AuthorizationURL: "https://a", Scopes: StringMap{}}}
			case 5:
				ss.Extensions = bad
			}
		case 1:
			*ss = SecurityScheme{Type: "apiKey", Name: "k", In: []string{"query", "header", "cookie"}[verifChoose("in", 3)], Extensions: ext}
			check()
			switch verifChoose("how", 5) {
			case 0:
				ss.In = "path"
			case 1:
				ss.Name = ""
			case 2:
				ss.BearerFormat = "JWT"
			case 3:
				ss.Flows = &OAuthFlows{Implicit: &OAuthFlow{AuthorizationURL: "https://a", Scopes: StringMap{}}}
			case 4:
				ss.In = ""
			}
		case 2:
			*ss = SecurityScheme{Type: "openIdConnect", OpenIdConnectUrl: "https://o", Extensions: ext}
			check()
			switch verifChoose("how", 4) {
			case 0:
				ss.OpenIdConnectUrl = ""
			case 1:
				ss.In = "query"
			case 2:
				ss.BearerFormat = "JWT"
			case 3:
				ss.Extensions = bad
			}
		case 3:
			check()
			switch verifChoose("how", 3) {
			case 0:
				ss.In = "header"
			case 1:
				ss.Name = "n"
			case 2:
				ss.BearerFormat = "x"
			}
		}
	case 11: // server URL braces and variables, at every server position
		sv := sites.servers[verifChoose("site", len(sites.servers))]
		sv.URL = "https://{a}.example/{b}"
		sv.Variables = map[string]*ServerVariable{"a": {Default: "x", Enum: []string{"x", "y"}, Extensions: ext}, "b": {Default: "v1"}}
		sv.Extensions = ext
		check()
		switch verifChoose("how", 9) {
		case 7: // blanks inside the braces name another variable
			sv.URL = "https://{ a }.example/{b}"
		case 8:
			sv.URL = "https://{a}.example/{b }"
		case 0:
			sv.URL = "https://{a}.example/{b"
		case 1:
			sv.URL = "https://{a}.example/b"
		case 2:
			delete(sv.Variables, "b")
		case 3:
			sv.Variables["c"] = &ServerVariable{Default: "z"}
		case 4:
			sv.Variables["b"].Default = ""
		case 5:
			sv.Variables["a"].Extensions = bad
		case 6: // as many variables as names, but not the same ones
			delete(sv.Variables, "b")
			sv.Variables["c"] = &ServerVariable{Default: "z"}
		}
	case 12: // duplicate parameter (same name and location) on the operation or on the path item
		mk := func(in string) *ParameterRef {
			return &ParameterRef{Value: &Parameter{Name: "dup", In: in, Schema: strS()}}
		}
		pi := doc.Paths.Value("/a/{id}")
		atOp := verifChoose("site", 2) == 0
		add := func(p *ParameterRef) {
			if atOp {
				getOp.Parameters = append(getOp.Parameters, p)
			} else {
				pi.Parameters = append(pi.Parameters, p)
			}
		}
		// the same name in two locations, and the name of an operation parameter on the path item, are fine
		add(mk("query"))
		add(mk("header"))
		if atOp {
			pi.Parameters = append(pi.Parameters, mk("query"))
		}
		check()
		switch verifChoose("dupForm", 3) {
		case 0: // a second inline parameter
			add(mk([]string{"query", "header"}[verifChoose("in", 2)]))
		case 1: // the same component parameter referenced twice
			comp := &Parameter{Name: "cdup", In: "query", Schema: strS()}
			doc.Components.Parameters["Dup"] = &ParameterRef{Value: comp}
			add(&ParameterRef{Ref: "#/components/parameters/Dup", Value: comp})
			check() // once is fine
			add(&ParameterRef{Ref: "#/components/parameters/Dup", Value: comp})
		case 2: // a reference and an inline parameter of the same name and location
			comp := &Parameter{Name: "dup", In: "query", Schema: strS()}
			doc.Components.Parameters["Dup"] = &ParameterRef{Value: comp}
			add(&ParameterRef{Ref: "#/components/parameters/Dup", Value: comp})
		}
	case 13: // content of a parameter / header holds exactly one media type
		two := func() Content {
			return Content{"application/json": &MediaType{Schema: strS()}, "text/plain": &MediaType{Schema: strS()}}
		}
		if verifChoose("subject", 2) == 0 {
			p := sites.params[verifChoose("site", len(sites.params))]
			p.Schema, p.Example, p.Examples = nil, nil, nil
			p.Content = Content{"application/json": &MediaType{Schema: strS()}}
			check()
			if verifChoose("how", 2) == 0 {
				p.Content = two()
			} else {
				p.Content = Content{}
			}
		} else {
			h := sites.headers[verifChoose("site", len(sites.headers))]
			verifKnown("C04-encoding-header-errors-swallowed", sites.encHeaders[h])
			h.Schema, h.Example, h.Examples = nil, nil, nil
			h.Content = Content{"application/json": &MediaType{Schema: strS()}}
			check()
			h.Content = two()
		}
	case 14: // example and examples are mutually exclusive (media type, parameter, header), with the examples option on and off
		exs := Examples{"e": &ExampleRef{Value: &Example{Value: "v"}}}
		switch verifChoose("subject", 3) {
		case 0:
			mt := sites.medias[verifChoose("site", len(sites.medias))]
			mt.Schema, mt.Example, mt.Examples = strS(), "v", nil
			check()
			mt.Examples = exs
		case 1:
			p := sites.params[verifChoose("site", len(sites.params))]
			p.Schema, p.Content, p.Example, p.Examples = strS(), nil, "v", nil
			check()
			p.Examples = exs
		case 2:
			h := sites.headers[verifChoose("site", len(sites.headers))]
			verifKnown("C04-encoding-header-errors-swallowed", sites.encHeaders[h])
			h.Schema, h.Content, h.Example, h.Examples = strS(), nil, "v", nil
			check()
			h.Examples = exs
		}
		if verifChoose("opt", 2) == 1 {
			// the option switches off the validation of example values, not this structural rule
			opts = append(opts, DisableExamplesValidation())
		}
	case 15: // unresolved reference of every other kind
		check()
		switch verifChoose("kind", 9) {
		case 0:
			getOp.Parameters[0] = &ParameterRef{Ref: "#/components/parameters/Nope"}
		case 1:
			getOp.RequestBody = &RequestBodyRef{Ref: "#/components/requestBodies/Nope"}
		case 2:
			getOp.Responses.Set("200", &ResponseRef{Ref: "#/components/responses/Nope"})
		case 3:
			getOp.Responses.Value("default").Value.Headers["X-H"] = &HeaderRef{Ref: "#/components/headers/Nope"}
		case 4:
			getOp.Responses.Value("default").Value.Links["l"] = &LinkRef{Ref: "#/components/links/Nope"}
		case 5:
			getOp.Callbacks["cb"] = &CallbackRef{Ref: "#/components/callbacks/Nope"}
		case 6:
			getOp.Parameters[0].Value.Examples["e"] = &ExampleRef{Ref: "#/components/examples/Nope"}
		case 7:
			doc.Components.SecuritySchemes["sec"] = &SecuritySchemeRef{Ref: "#/components/securitySchemes/Nope"}
		case 8:
			doc.Components.RequestBodies["B"].Value.Content["application/json"].Examples["ex"] = &ExampleRef{Ref: "#/components/examples/Nope"}
		}
	case 16: // malformed component name, every kind
		check()
		name := []string{"a b", "a/b", "ü", ""}[verifChoose("name", 4)]
		switch verifChoose("kind", 9) {
		case 0:
			doc.Components.Schemas[name] = strS()
		case 1:
			doc.Components.Parameters[name] = &ParameterRef{Value: &Parameter{Name: "n", In: "query", Schema: strS()}}
		case 2:
			doc.Components.Headers[name] = &HeaderRef{Value: &Header{Parameter: Parameter{Schema: strS()}}}
		case 3:
			doc.Components.RequestBodies[name] = &RequestBodyRef{Value: &RequestBody{Content: Content{"text/plain": &MediaType{}}}}
		case 4:
			d := "d"
			doc.Components.Responses[name] = &ResponseRef{Value: &Response{Description: &d}}
		case 5:
			doc.Components.SecuritySchemes[name] = &SecuritySchemeRef{Value: &SecurityScheme{Type: "http", Scheme: "basic"}}
		case 6:
			doc.Components.Examples[name] = &ExampleRef{Value: &Example{Value: 1}}
		case 7:
			doc.Components.Links[name] = &LinkRef{Value: &Link{OperationID: "get"}}
		case 8:
			doc.Components.Callbacks[name] = &CallbackRef{Value: NewCallbackWithCapacity(0)}
		}
	case 17: // a well-formed name of every kind stays accepted (letters, digits, dot, dash, underscore)
		name := "A.b-c_9"
		doc.Components.Schemas[name] = strS()
		doc.Components.Parameters[name] = &ParameterRef{Value: &Parameter{Name: "n", In: "query", Schema: strS()}}
		doc.Components.Headers[name] = &HeaderRef{Value: &Header{Parameter: Parameter{Schema: strS()}}}
		doc.Components.Examples[name] = &ExampleRef{Value: &Example{Value: 1}}
		doc.Components.Links[name] = &LinkRef{Value: &Link{OperationID: "get"}}
		check()
		doc.Components.Extensions = bad
	case 18: // unknown schema format: a rule only under EnableSchemaFormatValidation
		s := &Schema{Type: &Types{[]string{"string", "number", "integer"}[verifChoose("type", 3)]}, Format: "bogus"}
		k := verifChoose("site", len(sites.schemas)+1)
		if k == len(sites.schemas) {
			doc.Components.Schemas["Zz"] = &SchemaRef{Value: s}
		} else {
			host := sites.schemas[k]
			verifKnown("C04-encoding-header-errors-swallowed", sites.encSchemas[host])
			if host.Type == nil || !host.Type.Is("object") {
				return
			}
			if host.Properties == nil {
				host.Properties = Schemas{}
			}
			host.Properties["zz"] = &SchemaRef{Value: s}
		}
		check()
		switch verifChoose("opt", 3) {
		case 0:
			opts = append(opts, EnableSchemaFormatValidation())
		case 1:
			opts, accept = append(opts, EnableSchemaFormatValidation(), DisableSchemaFormatValidation()), true
		case 2:
			opts = append(opts, DisableSchemaFormatValidation(), EnableSchemaFormatValidation())
		}
	case 19: // the known formats are accepted under EnableSchemaFormatValidation
		for i, f := range []string{"date", "date-time", "byte", "binary", "password", "email", "uuid"} {
			doc.Components.Schemas["F"+string(rune('a'+i))] = &SchemaRef{Value: &Schema{Type: &Types{"string"}, Format: f}}
		}
		doc.Components.Schemas["Fn"] = &SchemaRef{Value: &Schema{Type: &Types{"number"}, Format: "double"}}
		doc.Components.Schemas["Fm"] = &SchemaRef{Value: &Schema{Type: &Types{"number"}, Format: "float"}}
		doc.Components.Schemas["Fi"] = &SchemaRef{Value: &Schema{Type: &Types{"integer"}, Format: "int64"}}
		verifAssert(doc.Validate(ctx, EnableSchemaFormatValidation()) == nil, "C04 rules2: the formats of the specification are accepted with format validation on")
		// a format of one type under another type is unknown there
		doc.Components.Schemas["Fx"] = &SchemaRef{Value: &Schema{Type: &Types{"string"}, Format: "int32"}}
		opts = append(opts, EnableSchemaFormatValidation())
	case 20: // Enable* after Disable*: the later option wins, the rule is in force again
		check()
		switch verifChoose("pair", 3) {
		case 0:
			doc.Components.Schemas["Zz"] = &SchemaRef{Value: &Schema{Type: &Types{"string"}, Pattern: "("}}
			if verifChoose("order", 2) == 0 {
				opts = append(opts, DisableSchemaPatternValidation(), EnableSchemaPatternValidation())
			} else {
				opts, accept = append(opts, EnableSchemaPatternValidation(), DisableSchemaPatternValidation()), true
			}
		case 1:
			one := 1.0
			doc.Components.Schemas["Zz"] = &SchemaRef{Value: &Schema{Type: &Types{"number"}, Min: &one, Default: 0.0}}
			if verifChoose("order", 2) == 0 {
				opts = append(opts, DisableSchemaDefaultsValidation(), EnableSchemaDefaultsValidation())
			} else {
				opts, accept = append(opts, EnableSchemaDefaultsValidation(), DisableSchemaDefaultsValidation()), true
			}
		case 2:
			mt := doc.Components.RequestBodies["B"].Value.Content["application/json"]
			mt.Examples = nil
			mt.Example = "not an object"
			if verifChoose("order", 2) == 0 {
				opts = append(opts, DisableExamplesValidation(), EnableExamplesValidation())
			} else {
				opts, accept = append(opts, EnableExamplesValidation(), DisableExamplesValidation()), true
			}
		}
	case 21: // schema example violating the schema (option: DisableExamplesValidation)
		one := 1.0
		s := &Schema{Type: &Types{"number"}, Min: &one, Example: 1.5}
		doc.Components.Schemas["Zz"] = &SchemaRef{Value: s}
		check()
		s.Example = 0.5
		if verifChoose("opt", 2) == 1 {
			opts, accept = append(opts, DisableExamplesValidation()), true
		}
	case 22: // callback in components: the operation inside is validated like any other
		cb := doc.Components.Callbacks["C"].Value
		var op *Operation
		for _, pi := range cb.Map() {
			op = pi.Post
		}
		check()
		switch verifChoose("how", 3) {
		case 0:
			op.Responses = nil
		case 1:
			op.Parameters = Parameters{{Value: &Parameter{Name: "", In: "query", Schema: strS()}}}
		case 2:
			op.Responses.Value("200").Value.Description = nil
		}
	case 23: // response object: links and headers below it; an inline link
		r := getOp.Responses.Value("default").Value
		r.Links["m"] = &LinkRef{Value: &Link{OperationRef: "#/paths/~1a~1{id}/get", Extensions: ext}}
		check()
		switch verifChoose("how", 3) {
		case 0:
			r.Links["m"].Value.OperationRef = ""
		case 1:
			r.Links["m"].Value.OperationID = "get"
		case 2:
			r.Links["m"].Value.Server = &Server{URL: ""}
		}
	case 24: // info object: extension accepted, description etc. free, extra field rejected (with and without contact)
		doc.Info.Extensions = ext
		doc.Info.Description, doc.Info.TermsOfService = "d", "https://t"
		check()
		doc.Info.Extensions = bad
	case 25: // components object and paths object extensions
		doc.Components.Extensions = ext
		doc.Paths.Extensions = ext
		check()
		if verifChoose("how", 2) == 0 {
			doc.Paths.Extensions = bad
		} else {
			doc.Components.Extensions = bad
		}
	case 26: // path item: extension accepted, extra field rejected; every method's operation is validated
		pi := doc.Paths.Value("/a/{id}")
		pi.Extensions = ext
		okResp := getOp.Responses
		mk := func(id string) *Operation { return &Operation{OperationID: id, Responses: okResp} }
		pi.Put, pi.Post, pi.Delete, pi.Options, pi.Head, pi.Patch, pi.Trace, pi.Connect = mk("put"), mk("post"), mk("delete"), mk("options"), mk("head"), mk("patch"), mk("trace"), mk("connect")
		check()
		switch verifChoose("how", 9) {
		case 0:
			pi.Extensions = bad
		case 1:
			pi.Put.Responses = nil
		case 2:
			pi.Post.Responses = nil
		case 3:
			pi.Delete.Responses = nil
		case 4:
			pi.Options.Responses = nil
		case 5:
			pi.Head.Responses = nil
		case 6:
			pi.Patch.Responses = nil
		case 7:
			pi.Trace.Responses = nil
		case 8:
			pi.Connect.Responses = nil
		}
	case 27: // duplicate operationId across methods and paths, also inside the same path item
		pi := doc.Paths.Value("/a/{id}")
		pi.Put = &Operation{OperationID: "put", Responses: getOp.Responses}
		doc.Paths.Set("/z", &PathItem{Post: &Operation{OperationID: "zpost", Responses: getOp.Responses}, Get: &Operation{Responses: getOp.Responses}, Put: &Operation{Responses: getOp.Responses}})
		check() // operations without an id do not clash
		switch verifChoose("how", 3) {
		case 0:
			pi.Put.OperationID = "get"
		case 1:
			doc.Paths.Value("/z").Post.OperationID = "put"
		case 2:
			doc.Paths.Value("/z").Get.OperationID = "zpost"
		}
	case 28: // template variables and path parameters: declared on the path item, on the operation, or split
		ps := func(n string) *ParameterRef {
			return &ParameterRef{Value: &Parameter{Name: n, In: "path", Required: true, Schema: strS()}}
		}
		pi := &PathItem{Get: &Operation{OperationID: "zz", Responses: getOp.Responses}}
		doc.Paths.Set("/z/{u}/y/{v}", pi)
		switch verifChoose("where", 3) {
		case 0:
			pi.Parameters = Parameters{ps("u"), ps("v")}
		case 1:
			pi.Get.Parameters = Parameters{ps("u"), ps("v")}
		case 2:
			pi.Parameters, pi.Get.Parameters = Parameters{ps("u")}, Parameters{ps("v")}
		}
		check()
		switch verifChoose("how", 3) {
		case 0: // one of the two is missing
			if len(pi.Get.Parameters) > 0 {
				pi.Get.Parameters = pi.Get.Parameters[:len(pi.Get.Parameters)-1]
			} else {
				pi.Parameters = pi.Parameters[:1]
			}
		case 1: // a second operation of the same path lacks them
			pi.Post = &Operation{OperationID: "zzp", Responses: getOp.Responses}
			if len(pi.Parameters) == 2 {
				return // declared on the path item: the second operation has them too
			}
		case 2: // a third one the template does not have
			pi.Get.Parameters = append(pi.Get.Parameters, ps("w"))
		}
	case 29: // media type and encoding extensions; encoding for a property with a content type only
		mt := doc.Components.RequestBodies["B"].Value.Content["multipart/form-data"]
		mt.Extensions = ext
		mt.Encoding["f"].Extensions = ext
		f := false
		mt.Encoding["g"] = &Encoding{ContentType: "application/json", Style: "spaceDelimited", Explode: &f}
		check()
		switch verifChoose("how", 3) {
		case 0:
			mt.Encoding["g"].Style = "matrix"
		case 1:
			mt.Encoding["g"].Extensions = bad
		case 2:
			mt.Encoding["g"].Style = "deepObject" // deepObject needs explode
		}
	}
	switch rule {
	case 30: // the rules of examples hold for a media type without a schema too
		mt := &MediaType{Example: "v"}
		doc.Components.RequestBodies["B"].Value.Content["text/x-noschema"] = mt
		check()
		switch verifChoose("how", 3) {
		case 0:
			mt.Examples = Examples{"e": &ExampleRef{Value: &Example{Value: "v"}}}
		case 1:
			mt.Example, mt.Examples = nil, Examples{"e": &ExampleRef{Value: &Example{Value: "v", ExternalValue: "https://v"}}}
		case 2:
			mt.Example, mt.Examples = nil, Examples{"e": &ExampleRef{Value: &Example{Value: "v", Extensions: bad}}}
		}
	case 31: // DisableSchemaPatternValidation: a pattern Go cannot compile is accepted, also next to a default or an example
		s := &Schema{Type: &Types{"string"}, Pattern: "(?!x)a"}
		switch verifChoose("with", 3) {
		case 1:
			s.Default = "a"
		case 2:
			s.Example = "a"
		}
		doc.Components.Schemas["Zz"] = &SchemaRef{Value: s}
		opts, accept = append(opts, DisableSchemaPatternValidation()), true
	}
	err := doc.Validate(ctx, opts...)
	verifReach("violated")
	// known finding: reference objects below a schema are not checked for fields next to the $ref
	verifKnown("C04-nested-ref-siblings-unchecked", knownNested)
	if accept {
		verifReach("switched")
		verifAssert(err == nil, "C04 rules2: the options in force switch the rule off (or it is no rule by default)")
	} else {
		verifAssert(err != nil, "C04 rules2: a document with a single violation of an enforced rule is rejected wherever the violation sits")
	}
	verifReach("end")
}

//verif:harness id=C04 tier=quick,thorough witness=end,accepted,rejected bounds="component names: a component of each of the nine kinds added under a name of 1-2 symbolic bytes (any printable ASCII): the document is accepted iff every byte is a letter, a digit, '.', '_' or '-'"
func verifH_C04_component_names() {
	doc := verifLoadBase()
	if doc == nil {
		return
	}
	n := 1 + verifChoose("len", 2)
	name := verifNondetStringN("name", n)
	ok := true
	for i := 0; i < len(name); i++ {
		c := name[i]
		verifAssume(c >= 0x20 && c < 0x7f)
		if !(c >= 'a' && c <= 'z' || c >= 'A' && c <= 'Z' || c >= '0' && c <= '9' || c == '.' || c == '_' || c == '-') {
			ok = false
		}
	}
	strS := &SchemaRef{Value: &Schema{Type: &Types{"string"}}}
	switch verifChoose("kind", 9) {
	case 0:
		doc.Components.Schemas = Schemas{name: strS}
	case 1:
		doc.Components.Parameters[name] = &ParameterRef{Value: &Parameter{Name: "n", In: "query", Schema: strS}}
	case 2:
		doc.Components.Headers[name] = &HeaderRef{Value: &Header{Parameter: Parameter{Schema: strS}}}
	case 3:
		doc.Components.RequestBodies[name] = &RequestBodyRef{Value: &RequestBody{Content: Content{"text/plain": &MediaType{}}}}
	case 4:
		d := "d"
		doc.Components.Responses[name] = &ResponseRef{Value: &Response{Description: &d}}
	case 5:
		doc.Components.SecuritySchemes[name] = &SecuritySchemeRef{Value: &SecurityScheme{Type: "http", Scheme: "basic"}}
	case 6:
		doc.Components.Examples[name] = &ExampleRef{Value: &Example{Value: 1}}
	case 7:
		doc.Components.Links[name] = &LinkRef{Value: &Link{OperationID: "get"}}
	case 8:
		doc.Components.Callbacks[name] = &CallbackRef{Value: NewCallbackWithCapacity(0)}
	}
	err := doc.Validate(context.Background())
	if err == nil {
		verifReach("accepted")
	} else {
		verifReach("rejected")
	}
	verifAssert((err == nil) == ok, "C04 component names: a component name is accepted iff it consists of letters, digits, '.', '_' and '-'")
	verifReach("end")
}
