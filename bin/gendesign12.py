#!/usr/bin/env python3
"""gendesign12.py <seedlog dir> — run seedtable.py on the logs (which also writes each seed's meta.json `verif`
field) and replace the table of DESIGN.md §12 with its output."""
import re, subprocess, sys
logdir = sys.argv[1]
table = subprocess.run([sys.executable, '/verif/bin/seedtable.py', logdir], capture_output=True, text=True, check=True).stdout.strip('\n')
p = '/verif/DESIGN.md'
s = open(p).read()
m = re.search(r'^\| seeded change \| what was changed \|.*?^\d+ seeded changes: .*?$', s, re.M | re.S)
assert m, 'table not found'
s = s[:m.start()] + table + s[m.end():]
open(p, 'w').write(s)
print(table.splitlines()[-1])
