#!/bin/bash
# suite.sh [dir]  — run the pinned test suite in <dir> (default /repo) and compare with BASELINE.json stable_pass.
dir="${1:-/repo}"
export GOFLAGS=-mod=mod GOPROXY=off GOSUMDB=off GOTOOLCHAIN=local
out=$(mktemp)
(cd "$dir" && go test -mod=mod -json -vet=off -count=1 -timeout 25m ./... > "$out" 2>/dev/null)
python3 - "$out" <<'PY'
import json,sys
passed=set()
for l in open(sys.argv[1]):
    try: e=json.loads(l)
    except: continue
    if e.get('Action')=='pass' and e.get('Test'):
        passed.add(e['Package']+'::'+e['Test'])
b=json.load(open('/root/.vp/BASELINE.json'))
sp=set(b['stable_pass'])
missing=sorted(sp-passed)
print('stable tests passed %d of %d; missing: %s' % (len(passed&sp), len(sp), ' '.join(missing[:8]) or 'none'))
sys.exit(1 if missing else 0)
PY
rc=$?; rm -f "$out"; exit $rc
