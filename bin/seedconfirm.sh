#!/bin/bash
# seedconfirm.sh <dir with patch.diff + demo *_test.go + meta.json> <scratch worktree>
# Confirms a seeded change in a scratch worktree of /repo (never in /repo itself):
#   1. the demonstration passes on the unchanged tree,
#   2. the patch applies and the tree builds,
#   3. the demonstration fails on the changed tree,
#   4. the pinned test suite (BASELINE.json stable_pass) still passes on the changed tree.
# Prints one line per step and a final "CONFIRMED" / "REJECTED: <why>". Leaves the worktree clean.
set -u
src="$1"; wt="$2"
export GOFLAGS=-mod=mod GOPROXY=off GOSUMDB=off GOTOOLCHAIN=local
cd "$wt" || exit 2
git checkout -q -- . && git clean -fdq
pkg=$(python3 - "$src/meta.json" <<'PY'
import json,sys
m=json.load(open(sys.argv[1]))
print(m.get('demo_test_package_dir') or m.get('demo_package_dir') or m.get('package_dir') or '')
PY
)
demo=$(ls "$src"/*_test.go | head -1)
[ -n "$pkg" ] && [ -f "$demo" ] || { echo "REJECTED: no demo/package in meta"; exit 1; }
cp "$demo" "$wt/$pkg/zz_seeded_demo_test.go"
fn=$(grep -o 'func Test[A-Za-z0-9_]*' "$demo" | sed 's/func //' | paste -sd'|')
if ! go test -vet=off -count=1 -run "^($fn)\$" "./$pkg/" >/tmp/seed_demo_clean.log 2>&1; then
  echo "REJECTED: demonstration fails on the unchanged tree"; tail -5 /tmp/seed_demo_clean.log; git checkout -q -- .; git clean -fdq; exit 1
fi
echo "step1 ok: demo passes without the patch ($fn)"
if ! git apply "$src/patch.diff"; then echo "REJECTED: patch does not apply"; git checkout -q -- .; git clean -fdq; exit 1; fi
if ! go build ./... >/tmp/seed_build.log 2>&1; then echo "REJECTED: does not build"; tail -5 /tmp/seed_build.log; git checkout -q -- .; git clean -fdq; exit 1; fi
echo "step2 ok: patch applies and builds"
if go test -vet=off -count=1 -run "^($fn)\$" "./$pkg/" >/tmp/seed_demo_mut.log 2>&1; then
  echo "REJECTED: demonstration passes with the patch"; git checkout -q -- .; git clean -fdq; exit 1
fi
echo "step3 ok: demo fails with the patch"
rm -f "$wt/$pkg/zz_seeded_demo_test.go"
if [ -n "${SEEDCONFIRM_SKIPSUITE:-}" ]; then
  # re-confirmation of a change whose step 4 was confirmed when it was first processed
  echo "step4: skipped (SEEDCONFIRM_SKIPSUITE)"; git checkout -q -- .; git clean -fdq; echo "CONFIRMED"; exit 0
fi
go test -mod=mod -json -vet=off -count=1 -timeout 25m ./... > /tmp/seed_base.json 2>/dev/null
res=$(python3 - <<'PY'
import json
passed=set()
for l in open('/tmp/seed_base.json'):
    try: e=json.loads(l)
    except: continue
    if e.get('Action')=='pass' and e.get('Test'):
        passed.add(e['Package']+'::'+e['Test'])
b=json.load(open('/root/.vp/BASELINE.json'))
sp=set(b['stable_pass']) if isinstance(b['stable_pass'],list) else None
if sp is None:
    import glob
    print('n/a'); raise SystemExit
missing=sorted(sp-passed)
print(len(passed&sp), len(missing), ' '.join(missing[:5]))
PY
)
echo "step4: stable tests passed/missing: $res"
git checkout -q -- .; git clean -fdq
set -- $res
if [ "${2:-1}" = "0" ]; then echo "CONFIRMED"; exit 0; else echo "REJECTED: existing tests fail with the patch"; exit 1; fi
