#!/bin/bash
# seedbatch.sh <logdir> <name>...   (names of directories under seeded/; no names = all)
# For every seeded change: re-confirm it in a scratch worktree of /repo (demo passes without, fails
# with the patch; the suite step is skipped, it was run when the change was first accepted) and run
# the property's quick check against the patched worktree. One log per change in <logdir>;
# bin/seedtable.py <logdir> folds them into meta.json and prints the DESIGN §12 table.
# The scratch worktree lives under /tmp and is removed at the end.
here="$(cd "$(dirname "$0")/.." && pwd)"
logdir="$1"; shift
mkdir -p "$logdir"; logdir="$(cd "$logdir" && pwd)"
names="$*"
[ -n "$names" ] || names=$(cd "$here/seeded" && ls -d C* | tr '\n' ' ')
wt=$(mktemp -d /tmp/seedwt.XXXXXX); rmdir "$wt"
git -C /repo worktree add -q --detach "$wt" HEAD || exit 2
trap 'git -C /repo worktree remove --force "$wt" 2>/dev/null; rm -rf "$wt"' EXIT
for n in $names; do
  d="$here/seeded/$n"
  id=$(python3 -c "import json,sys;print(json.load(open(sys.argv[1]))['property'])" "$d/meta.json" 2>/dev/null || echo "${n:0:3}")
  {
    SEEDCONFIRM_SKIPSUITE=1 "$here/bin/seedconfirm.sh" "$d" "$wt"
    "$here/bin/seedrun.sh" "$d" "$id" quick "$wt"
  } > "$logdir/$n.log" 2>&1
  tail -1 "$logdir/$n.log"
done
