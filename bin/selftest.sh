#!/bin/sh
# selftest.sh — engine self-test: standard-library summaries on symbolic operands against naive byte loops
# interpreted by the engine, plus differential native replays. Exit 1 on any disagreement.
here="$(cd "$(dirname "$0")/.." && pwd)"
export GOFLAGS=-mod=mod GOPROXY=off GOSUMDB=off GOTOOLCHAIN=local
"$here/bin/setup.sh" >/dev/null 2>&1
exec "$here/bin/symgo" check SELF selftest
