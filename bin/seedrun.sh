#!/bin/bash
# seedrun.sh <dir with patch.diff> <ID> <quick|thorough> <scratch worktree>
# Applies the seeded change in a scratch worktree of /repo and runs the property's check against
# that tree (VERIF_REPO; evidence goes to .work/scratch-evidence, not evidence/). Prints CAUGHT / MISSED.
src="$1"; id="$2"; tier="${3:-quick}"; wt="$4"
here="$(cd "$(dirname "$0")/.." && pwd)"
cd "$wt" && git checkout -q -- . && git clean -fdq && git apply "$src/patch.diff" || { echo "patch failed"; exit 2; }
out=$(VERIF_REPO="$wt" "$here/bin/vcheck" "$id" "$tier" 2>&1); rc=$?
cd "$wt" && git checkout -q -- . && git clean -fdq
echo "$out" | grep -E "^(VIOLATION|KNOWN-FINDING|INCONCLUSIVE|OK)|violation:" | cut -c1-300 | head -12
if [ $rc -eq 1 ] && echo "$out" | grep -q "^VIOLATION property=$id"; then echo "CAUGHT $id $(basename $(dirname $src))/$(basename $src) tier=$tier"; else echo "MISSED $id $src tier=$tier rc=$rc"; fi
