#!/bin/sh
# crosscheck.sh [maxpaths] — explore every quick harness (capped, single worker) with z3 4.8.12, z3 5.1.0 and cvc5
# and compare what they decide (paths, sat/unsat verdicts, violations). Exit 1 on any disagreement.
here="$(cd "$(dirname "$0")/.." && pwd)"
export GOFLAGS=-mod=mod GOPROXY=off GOSUMDB=off GOTOOLCHAIN=local
"$here/bin/setup.sh" >/dev/null 2>&1
rc=0
for i in 01 02 03 04 05 06 07 08 09 10 11 12 13 14 15 16 17 18 19 20; do
  "$here/bin/symgo" crosscheck C$i "${1:-200}" || rc=1
done
exit $rc
