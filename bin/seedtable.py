#!/usr/bin/env python3
"""seedtable.py <seedlog dir> — fold the logs of seedconfirm.sh / seedrun.sh into /verif/seeded/<name>/meta.json
and print the DESIGN.md §12 table (markdown)."""
import json, glob, os, re, sys
logdir = sys.argv[1] if len(sys.argv) > 1 else '/tmp/seedlog'
rows = []
for d in sorted(glob.glob('/verif/seeded/C*')):
    name = os.path.basename(d)
    log = os.path.join(logdir, name + '.log')
    meta_p = os.path.join(d, 'meta.json')
    if not os.path.exists(meta_p):
        continue
    meta = json.load(open(meta_p))
    res, by = 'not run', ''
    if os.path.exists(log):
        t = open(log).read()
        confirmed = 'CONFIRMED' in t
        if re.search(r'^CAUGHT', t, re.M):
            res = 'caught (quick)'
        elif re.search(r'^MISSED', t, re.M):
            res = 'missed'
        elif not confirmed:
            res = 'rejected (not confirmed)'
        m = re.search(r'violation: (\S+) in (\w+): (.*?) \(native', t)
        if m:
            by = '%s — %s' % (m.group(2), m.group(3)[:110])
        else:
            m = re.search(r'violation: (.*)', t)
            if m:
                by = m.group(1)[:140]
        meta['verif'] = {
            'confirmed_in_scratch_worktree': confirmed,
            'confirm_cmd': 'bin/seedconfirm.sh <this dir> <scratch worktree of /repo>  (demo passes without the patch, patch applies and builds, demo fails with it, the 955 pinned tests still pass)',
            'check_cmd': 'bin/seedrun.sh <this dir> %s quick <scratch worktree of /repo>   (or: git -C /repo apply patch.diff; ./bin/vcheck %s quick; git -C /repo checkout -- .)' % (meta.get('property', name[:3]), meta.get('property', name[:3])),
            'result': res,
            'caught_by': by,
        }
        json.dump(meta, open(meta_p, 'w'), indent=1)
    rows.append((name, meta.get('property', name[:3]), meta.get('summary', '')[:150].replace('|', '/').replace('\n', ' '), res, by.replace('|', '/')))
print('| seeded change | what was changed | result | caught by (harness — assertion) |')
print('|---|---|---|---|')
for r in rows:
    print('| %s | %s | %s | %s |' % (r[0], r[2], r[3], r[4]))
print()
print('%d seeded changes: %d caught by the quick tier, %d missed' % (len(rows), sum(1 for r in rows if r[3].startswith('caught')), sum(1 for r in rows if r[3] == 'missed')))
