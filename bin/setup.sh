#!/bin/sh
# Builds the engine from files on disk only (offline).
set -e
cd "$(dirname "$0")/../engine"
export GOFLAGS=-mod=mod GOPROXY=off GOSUMDB=off GOTOOLCHAIN=local
go build -o ../bin/symgo ./cmd/symgo
