#!/bin/bash
# seedintake.sh <logdir> <dir>...  — for each delivered seeded change <dir> (patch.diff, demo_test.go, meta.json):
# copy it to seeded/<name>, confirm it fully (incl. the pinned suite) in a scratch worktree of /repo's HEAD,
# and run the property's quick check against the patched worktree. One log per change.
here="$(cd "$(dirname "$0")/.." && pwd)"
logdir="$1"; shift
mkdir -p "$logdir"; logdir="$(cd "$logdir" && pwd)"
wt=$(mktemp -d /tmp/seedwt.XXXXXX); rmdir "$wt"
git -C /repo worktree add -q --detach "$wt" HEAD || exit 2
trap 'git -C /repo worktree remove --force "$wt" 2>/dev/null; rm -rf "$wt"' EXIT
for src in "$@"; do
  n=$(basename "$src")
  [ -f "$src/patch.diff" ] && [ -f "$src/meta.json" ] || { echo "skip $n (incomplete)"; continue; }
  mkdir -p "$here/seeded/$n"
  cp "$src/patch.diff" "$src/meta.json" "$here/seeded/$n/"
  cp "$src"/*_test.go "$here/seeded/$n/demo_test.go"
  id=$(python3 -c "import json,sys;print(json.load(open(sys.argv[1]))['property'])" "$src/meta.json")
  {
    "$here/bin/seedconfirm.sh" "$here/seeded/$n" "$wt"
    "$here/bin/seedrun.sh" "$here/seeded/$n" "$id" quick "$wt"
  } > "$logdir/$n.log" 2>&1
  echo "$n: $(grep -E '^(CONFIRMED|REJECTED)' "$logdir/$n.log" | head -1) / $(tail -1 "$logdir/$n.log")"
done
