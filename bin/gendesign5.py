#!/usr/bin/env python3
# Regenerates the two tables of DESIGN.md §5 from known_findings.json.
import json, re, sys
root = '/verif'
d = json.load(open(root + '/known_findings.json'))
fixed = sorted([f for f in d['findings'] if f['status'] == 'fixed'], key=lambda f: (f['property'], f.get('commit', '')))
opened = sorted([f for f in d['findings'] if f['status'] == 'open'], key=lambda f: (f['property'], f['id']))
out = []
out.append('Genuine defects repaired by unguarded `fix:` commits in /repo (%d; the 955 pinned tests pass after each; `known_findings.json` has the same list with `status: fixed`):\n' % len(fixed))
out.append('| property | commit | what failed |\n|---|---|---|')
for f in fixed:
    out.append('| %s | `%s` | %s |' % (f['property'], f.get('commit', '?'), f['what'].replace('|', '\\|')))
out.append('\nOpen known findings (%d; each is marked in its harness by `verifKnown(id, predicate over the inputs)` — scoped to the call or phase it concerns — or `verifKnownAt(id, panic site)`, reproduced on every run, printed as `KNOWN-FINDING:` after native replay, so that any other violation of the same property is still reported; repaired only where the repair is small and leaves the existing suite green — the reason it was not repaired is part of the entry):\n' % len(opened))
out.append('| property | id | what fails |\n|---|---|---|')
for f in opened:
    out.append('| %s | %s | %s |' % (f['property'], f['id'], f['what'].replace('|', '\\|')))
text = '\n'.join(out) + '\n\n\n'
p = root + '/DESIGN.md'
s = open(p).read()
a = s.index('Genuine defects repaired by unguarded `fix:` commits')
b = s.index('## 6. Per-property checks')
open(p, 'w').write(s[:a] + text + s[b:])
print('fixed', len(fixed), 'open', len(opened))
