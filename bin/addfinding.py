#!/usr/bin/env python3
# addfinding.py <property> <id> fixed|open <commit|-> <harness> <what>  — appends to known_findings.json (development time only)
import json, sys
prop, fid, status, commit, harness, what = sys.argv[1:7]
p = '/verif/known_findings.json'
d = json.load(open(p))
assert not any(f['id'] == fid for f in d['findings']), 'duplicate id'
e = {'property': prop, 'id': fid, 'status': status}
if status == 'fixed':
    e['commit'] = commit
e['harness'] = harness
e['what'] = what
d['findings'].append(e)
json.dump(d, open(p, 'w'), indent=1, ensure_ascii=False)
open(p, 'a').write('\n')
