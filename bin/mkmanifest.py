#!/usr/bin/env python3
"""Regenerates /verif/MANIFEST.json from the table below (single source of truth for registration)."""
import json, os
here = os.path.dirname(os.path.dirname(os.path.abspath(__file__)))
props = [json.loads(l)['id'] for l in open(os.path.join(here, 'properties.jsonl'))]

TECH = "bounded symbolic execution of the real go/ssa (own interpreter) + SMT (z3 4.8.12; QF BV/FP/UF), native replay of counterexamples"
NOTE = ("Trusted: go/packages+go/ssa v0.29.0, the engine's SSA semantics (fork of x/tools ssa/interp), the stdlib summaries listed in the evidence, z3. "
        "Claim holds only within the bounds printed per harness in the evidence; unknown/unsupported paths are printed as INCONCLUSIVE and listed in the evidence, never counted as success.")

claimed = {
 "C07": dict(text="Truth table by symbolic execution of the real ValidateRequest: per-scheme authentication verdicts, option flags and part presence are symbolic/forked; err==nil is compared on every path with the reference formula (OR over requirements of AND over schemes, operation list before document list; effective parameters = operation-level plus non-overridden path-level; body unless excluded), plus the callback protocol and the multi-error member count.", ref="DESIGN.md §6 C07"),
 "C08": dict(text="Symbolic status code (every value 0..999; decimal digits by bit-vector arithmetic so the response-map lookups fork on them), every subset of {200,404,2XX,4XX,default}; the definition used by the real ValidateResponse is identified through the header it demands and compared with a reference selection; header/body/content-type verdicts and body re-readability are asserted per path.", ref="DESIGN.md §6 C08"),
 "C06": dict(text="Six kernels on the real code (multipart/JSON byte decoding of symbolic text is not applicable; concrete multipart text is interpreted in C15): media type keys with parameters; read-only defaults; Content.Get against a reference precedence for every Content-Type text within the bound and every subset of declared keys; ValidateRequestBody dispatch (required/empty/undeclared/decoded verdict); request-side readOnly/writeOnly/required rules with symbolic option; urlencoded form decoding round trip on symbolic field texts.", ref="DESIGN.md §6 C06"),
 "C14": dict(text="The real Validator.Middleware and both response wrappers are executed against a harness router, a client-side writer implementing net/http's contract, and a handler performing every call sequence up to the bound (symbolic body bytes); handler-invoked iff route found and request valid, error callback codes, and what reaches the client in strict / non-strict mode are asserted on every path; panics (e.g. invalid WriteHeader) are violations.", ref="DESIGN.md §6 C14"),
 "C13": dict(text="Body bookkeeping: the real ValidateRequest on a one-shot body stream of symbolic bytes with every GetBody behaviour and an authentication callback that reads part of the body; 'reading Request.Body to EOF afterwards yields the original bytes' is asserted on every path. Default injection: the real visitJSONObject/visitXOFOperations with symbolic defaults and member presence; exactly-the-default / nothing-else-changed / once-only / idempotence / non-matching-branch assertions; parameter defaults re-decoded from the forwarded request.", ref="DESIGN.md §6 C13"),
 "C09": dict(text="Both routers. gorilla/mux-based: gorilla/mux itself is interpreted on concrete text (request path bytes, host, scheme, method chosen by the explorer), servers none / relative / absolute / with a base-path variable, against a reference matcher; plus Paths.InMatchingOrder as a unit. Legacy: the real NewRouter (incl. T.Validate), FindRoute and the pathpattern tree are executed for template families with shared prefixes, literal/templated siblings and trailing-slash variants against every request path within the bound (symbolic bytes) and declared/undeclared methods; soundness, completeness, literal priority and RouteError on no match are asserted against a reference template matcher.", ref="DESIGN.md §6 C09"),
 "C17": dict(text="The real converters on source objects whose scalar fields are all symbolic (every float64/uint64/bool, symbolic name bytes): field-by-field equalities at the v3 places, reference prefixes, and the v2 -> v3 -> v2 round trip are decided for all values at once (the converters are straight-line copies, so each equality is one query); whole documents of the convertible fragment go through the real ToV3 (incl. the loader's ResolveRefsIn), the real Validate and FromV3.", ref="DESIGN.md §6 C17"),
 "C11": dict(text="The real loader (all ten resolvers, resolveRefPath/resolvePath/resolveComponent, loadSingleElementFromURI, the raw re-read fallback) with every read routed through a recording ReadFromURIFunc. Harness 1: the reference text is symbolic (every 1-4 byte string over {#,/,.,:,a,j}; net/url.Parse interpreted on symbolic bytes) at each resolver position, switch off: 'a location other than the root is read' must be unreachable. Harness 2 (selector-symbolic, concrete per path): 14 positions x 15 spellings x 3 entry points x both switch settings through the JSON contract model, reads compared with the RFC 3986 resolution against the containing document.", ref="DESIGN.md §6 C11"),
 "C02": dict(text="Selector-symbolic (weak fit, said so): the explorer forks over reference layouts (9 kinds x 11 candidate spellings/targets x 2 entry points; cycles; 16 nested positions); each path runs the real loader end to end on an in-memory file table through the JSON contract model (all repository UnmarshalJSON methods interpreted) and compares Value (as JSON) and RefPath with the harness's own RFC-3986/JSON-pointer resolver; dangling and wrong-kind targets must fail. Little scalar content, so few solver queries: the value is systematic coverage of the ten resolver routines with an independent oracle.", ref="DESIGN.md §6 C02"),
 "C16": dict(text="Selector-symbolic (weak fit, said so): multi-file documents produced by the real loader (C02's layouts) go through the real InternalizeRefs; on every path the serialised result must contain only references to existing components of its own (none referring to itself), validate as before, reload with external references disallowed, keep every resolved Value, and never merge distinct targets; non-termination is caught by the step budget and confirmed by a native run that times out.", ref="DESIGN.md §6 C16"),
 "C20": dict(text="Kernel only (byte-level parsing of arbitrary/malformed text is not applicable: encoding/json and yaml3 cannot be executed symbolically): every structure-level mutation of a valid document that uses every object kind (each JSON node replaced by a value of another type or removed) and adversarial reference graphs (all ordered pairs of component kinds, self/mutual cycles, dangling, shared reference text across kinds, empty and null entries) go through the real LoadFromData, Validate, MarshalJSON and InternalizeRefs via the JSON contract model; the panic monitor and step budget are the assertions; each reported panic/hang is reproduced natively.", ref="DESIGN.md §6 C20"),
 "C18": dict(text="The real generator (GenerateSchemaRef, generateWithoutSaving, getTypeInfo/appendFields, cycle handling) runs over the engine's reflection emulation on harness-declared Go types; the JSON encoding of a value is built from the documented encoding/json rules with every scalar leaf symbolic (an int8 field is an 8-bit vector over all 256 values, uint64 over all 2^64, floats over all finite values), and the real VisitJSON of the generated schema must accept it on every path; generation must terminate and every $ref must name a component.", ref="DESIGN.md §6 C18"),
 "C15": dict(cat="other", text="Reduction, not schedule enumeration: by Go's memory model a data race needs two unsynchronised accesses to one location, one of them a write. The engine's footprint monitor marks every object reachable from package variables and from the shared roots (document, router, options, schema) when the call starts and reports any write to them that is not inside sync.Map/sync.Once/a held mutex, on every path of symbolic executions of VisitJSON, ValidateRequest, ValidateResponse, legacy FindRoute and schema generation over symbolic inputs. If every call only reads shared state, every interleaving is race-free and each call returns what it returns alone.", ref="DESIGN.md §6 C15"),
 "C04": dict(text="Rule x location product (selector-symbolic, weak fit said so; arithmetic subjects such as default-vs-minimum are symbolic and closed by the solver): a conforming document using every object kind is loaded by the real loader, walkers collect every position where a rule's subject occurs, one violation of one of 28 rules is applied at the chosen position, and the real T.Validate (with the option relevant to the rule on/off) must reject it unless the option names that rule; option subsets must keep the conforming document accepted and must not hide unrelated violations.", ref="DESIGN.md §6 C04"),
 "C03": dict(text="Selector-symbolic (weak fit, said so; YAML and byte-level JSON syntax are not applicable): 27 object kinds of both specification versions in normal form with every specified field and an x- extension; for every variant (all members, each member dropped, each member alone) the text is decoded by the JSON contract model (every repository UnmarshalJSON interpreted), re-encoded through the interpreted MarshalJSON/MarshalYAML, and the JSON trees must be equal (nothing lost, nothing invented) and stable under a second round trip.", ref="DESIGN.md §6 C03"),
 "C05": dict(text="Differential round trip: a reference serialiser written from the OAS 3.0.3 style table builds the request text from symbolic leaf texts (every printable-ASCII text within the length bound); the real decodeStyledParameter/ValidateParameter must return the same structure typed by the declared schema, found-flag and error class; string plumbing (prefix, delimiter, pair and index logic) is decided for all leaf texts at once.", ref="DESIGN.md §6 C05"),
 "C10": dict(text="Panic-freedom as reachability: every dereference, index, type assertion and explicit panic on every path of the real validators is an implicit assertion; inputs are all values within bounds against schemas whose only assumption is that the real Schema.Validate/T.Validate returned nil. A reached panic is replayed natively before it is reported.", ref="DESIGN.md §6 C10"),
 "C12": dict(text="Relational check with no oracle: the real VisitJSON is run in default, fail-fast, multi-error and customizer modes and through IsMatching on the same symbolic input; verdict equality and (JSON pointer resolves, Value is the value found there) for every SchemaError are asserted per path and closed by the solver.", ref="DESIGN.md §6 C12"),
 "C19": dict(text="Every string leaf of the rejected value is a marker of symbolic bytes over a reserved alphabet; fmt formatting is modelled as a rope that keeps symbolic bytes, so 'Reason (or the reason-only / details-disabled message) contains the marker' is a finite byte formula decided per path.", ref="DESIGN.md §6 C19"),
 "C01": dict(text="For every schema/value within the harness bounds (families N,S,A,O,K,Z; all float64/uint64/byte values of the symbolic leaves) the real VisitJSON verdict equals a reference evaluator written from the specification; each path's assertion is closed by the solver, counterexamples are replayed natively.", ref="DESIGN.md §6 C01"),
}
na = {
}

checks = []
for pid in props:
    if pid in claimed:
        c = claimed[pid]
        checks.append({
            "property_id": pid,
            "quick_cmd": f"./bin/vcheck {pid} quick",
            "thorough_cmd": f"./bin/vcheck {pid} thorough",
            "evidence_file": f"/verif/evidence/{pid}.json",
            "replay_cmd_template": f"./bin/vcheck {pid} --replay {{path}}",
            "engine": "symgo",
            "level_claimed": {"category": c.get("cat", "model_checking"), "text": c["text"], "design_ref": c["ref"]},
            "level_note": c.get("note", NOTE),
            "technique": c.get("tech", TECH),
        })
not_applicable = [{"property_id": p, "reason": na.get(p, "check not built yet (work in progress; see DESIGN.md §6/§7)")} for p in props if p not in claimed]

m = {
 "version": 1,
 "setup_cmd": "cd /verif && ./bin/setup.sh",
 "hooks": {
  "guard": "verif",
  "enable": "no hooks: harness files are injected into the package under test by go/packages Overlay (engine) and go test -overlay (native replay); nothing under /repo is changed by the checks",
  "baseline_off_cmd": "for m in $(cat /w/out/gomods.txt); do MF=$(cd /repo/$m && . /w/out/goenv.sh && gomodflag); (cd /repo/$m && go test $MF -json -vet=off -count=1 -timeout 25m ./...); done",
  "source_commits": [],
  "add_only": True,
 },
 "engines": [{"name": "symgo", "path": "/verif/engine", "serves_properties": sorted(claimed),
   "kind_free_text": "symbolic executor for go/ssa (fork of x/tools go/ssa/interp with symbolic scalars/strings, deterministic maps, decision-prefix replay forking, 16 in-process workers) + z3 via SMT-LIB2 (incremental), tier-B precise IEEE re-check, native replay via go test -overlay"}],
 "checks": checks,
 "not_applicable": not_applicable,
 "notes": "Every check regenerates its encoding from /repo's working tree on each run (go/packages + go/ssa). Genuine defects found are listed in /verif/known_findings.json (open = KNOWN-FINDING line, fixed = repaired by a fix: commit in /repo).",
}
json.dump(m, open(os.path.join(here, 'MANIFEST.json'), 'w'), indent=1)
print("claimed:", sorted(claimed), "n/a:", len(not_applicable))
