// Package sym holds the SMT term layer of the symbolic executor:
// hash-consed terms over Bool / bit-vectors / IEEE floats, and a
// persistent incremental solver connection speaking SMT-LIB2.
package sym

import (
	"fmt"
	"math"
	"strconv"
	"strings"
)

// Sort of a term.
type Sort uint8

const (
	Bool Sort = iota
	BV8
	BV16
	BV32
	BV64
	F32
	F64
)

func (s Sort) SMT() string {
	switch s {
	case Bool:
		return "Bool"
	case BV8:
		return "(_ BitVec 8)"
	case BV16:
		return "(_ BitVec 16)"
	case BV32:
		return "(_ BitVec 32)"
	case BV64:
		return "(_ BitVec 64)"
	case F32:
		return "(_ FloatingPoint 8 24)"
	case F64:
		return "(_ FloatingPoint 11 53)"
	}
	panic("bad sort")
}

// Width of a bit-vector sort (0 for others).
func (s Sort) Width() int {
	switch s {
	case BV8:
		return 8
	case BV16:
		return 16
	case BV32:
		return 32
	case BV64:
		return 64
	}
	return 0
}

func BVSort(w int) Sort {
	switch w {
	case 8:
		return BV8
	case 16:
		return BV16
	case 32:
		return BV32
	case 64:
		return BV64
	}
	panic(fmt.Sprintf("unsupported bit-vector width %d", w))
}

// Term is an immutable hash-consed SMT term.
//
// Op is an abstract operator name. Most are SMT-LIB names used verbatim;
// the floating-point arithmetic operators are abstract ("f.div", "f.mul",
// "f.add", "f.sub", "f.isint") and printed either as uninterpreted
// functions (tier A) or as the IEEE operations (tier B) depending on the
// solver's mode.
type Term struct {
	ID   int
	Op   string
	Args []*Term
	Sort Sort
	// leaves
	Var string // non-empty: declared constant
	Lit string // non-empty: literal text
	// constant payload for literals
	CBool bool
	CBits uint64
}

func (t *Term) IsLeaf() bool  { return t.Op == "" }
func (t *Term) IsConst() bool { return t.Lit != "" }

// Ctx is a hash-consing table. Not safe for concurrent use (one per worker).
type Ctx struct {
	tab   map[string]*Term
	terms []*Term
	True  *Term
	False *Term
}

func NewCtx() *Ctx {
	c := &Ctx{tab: map[string]*Term{}}
	c.True = c.mk(&Term{Lit: "true", Sort: Bool, CBool: true}, "L:true")
	c.False = c.mk(&Term{Lit: "false", Sort: Bool}, "L:false")
	return c
}

func (c *Ctx) mk(t *Term, key string) *Term {
	if old, ok := c.tab[key]; ok {
		return old
	}
	t.ID = len(c.terms)
	c.terms = append(c.terms, t)
	c.tab[key] = t
	return t
}

func (c *Ctx) NumTerms() int { return len(c.terms) }

// Var returns the declared constant of the given name and sort.
func (c *Ctx) Var(name string, s Sort) *Term {
	return c.mk(&Term{Var: name, Sort: s}, "V:"+name+":"+strconv.Itoa(int(s)))
}

func (c *Ctx) BoolLit(b bool) *Term {
	if b {
		return c.True
	}
	return c.False
}

// BVLit returns the w-bit literal of v (truncated).
func (c *Ctx) BVLit(v uint64, w int) *Term {
	if w < 64 {
		v &= (1 << uint(w)) - 1
	}
	lit := fmt.Sprintf("#x%0*x", w/4, v)
	return c.mk(&Term{Lit: lit, Sort: BVSort(w), CBits: v}, "L:"+lit)
}

func (c *Ctx) F64Lit(f float64) *Term {
	b := math.Float64bits(f)
	if f != f {
		return c.mk(&Term{Lit: "(_ NaN 11 53)", Sort: F64, CBits: b}, "L:nan64")
	}
	lit := fmt.Sprintf("(fp #b%01b #b%011b #b%052b)", b>>63, (b>>52)&0x7ff, b&((1<<52)-1))
	return c.mk(&Term{Lit: lit, Sort: F64, CBits: b}, "L:"+lit)
}

func (c *Ctx) F32Lit(f float32) *Term {
	b := uint64(math.Float32bits(f))
	if f != f {
		return c.mk(&Term{Lit: "(_ NaN 8 24)", Sort: F32, CBits: b}, "L:nan32")
	}
	lit := fmt.Sprintf("(fp #b%01b #b%08b #b%023b)", b>>31, (b>>23)&0xff, b&((1<<23)-1))
	return c.mk(&Term{Lit: lit, Sort: F32, CBits: b}, "L:"+lit)
}

// App builds op(args...) of sort s.
func (c *Ctx) App(op string, s Sort, args ...*Term) *Term {
	var sb strings.Builder
	sb.WriteString(op)
	sb.WriteByte(':')
	sb.WriteString(strconv.Itoa(int(s)))
	for _, a := range args {
		sb.WriteByte(',')
		sb.WriteString(strconv.Itoa(a.ID))
	}
	key := sb.String()
	if old, ok := c.tab[key]; ok {
		return old
	}
	return c.mk(&Term{Op: op, Args: append([]*Term(nil), args...), Sort: s}, key)
}

// ---- Boolean builders with light simplification ----

func (c *Ctx) Not(a *Term) *Term {
	if a == c.True {
		return c.False
	}
	if a == c.False {
		return c.True
	}
	if a.Op == "not" {
		return a.Args[0]
	}
	return c.App("not", Bool, a)
}

func (c *Ctx) And(as ...*Term) *Term {
	var out []*Term
	for _, a := range as {
		if a == c.False {
			return c.False
		}
		if a == c.True {
			continue
		}
		dup := false
		for _, o := range out {
			if o == a {
				dup = true
				break
			}
		}
		if !dup {
			out = append(out, a)
		}
	}
	switch len(out) {
	case 0:
		return c.True
	case 1:
		return out[0]
	}
	return c.App("and", Bool, out...)
}

func (c *Ctx) Or(as ...*Term) *Term {
	var out []*Term
	for _, a := range as {
		if a == c.True {
			return c.True
		}
		if a == c.False {
			continue
		}
		dup := false
		for _, o := range out {
			if o == a {
				dup = true
				break
			}
		}
		if !dup {
			out = append(out, a)
		}
	}
	switch len(out) {
	case 0:
		return c.False
	case 1:
		return out[0]
	}
	return c.App("or", Bool, out...)
}

func (c *Ctx) Eq(a, b *Term) *Term {
	if a == b {
		// NB: not valid for FP "fp.eq" (NaN); this is SMT "=" (identity).
		return c.True
	}
	if a.IsConst() && b.IsConst() {
		if a.Sort == Bool {
			return c.BoolLit(a.CBool == b.CBool)
		}
		return c.BoolLit(a.CBits == b.CBits)
	}
	if a.Sort == Bool {
		if a == c.True {
			return b
		}
		if b == c.True {
			return a
		}
		if a == c.False {
			return c.Not(b)
		}
		if b == c.False {
			return c.Not(a)
		}
	}
	if a.ID > b.ID {
		a, b = b, a
	}
	return c.App("=", Bool, a, b)
}

func (c *Ctx) Ite(cond, a, b *Term) *Term {
	if cond == c.True {
		return a
	}
	if cond == c.False {
		return b
	}
	if a == b {
		return a
	}
	if a.Sort == Bool {
		if a == c.True && b == c.False {
			return cond
		}
		if a == c.False && b == c.True {
			return c.Not(cond)
		}
	}
	return c.App("ite", a.Sort, cond, a, b)
}

// Size returns the number of distinct nodes reachable from t.
func (t *Term) Size() int {
	seen := map[int]bool{}
	var rec func(*Term)
	rec = func(x *Term) {
		if seen[x.ID] {
			return
		}
		seen[x.ID] = true
		for _, a := range x.Args {
			rec(a)
		}
	}
	rec(t)
	return len(seen)
}

// Vars collects the declared constants below t into set.
func (t *Term) Vars(set map[string]*Term) {
	seen := map[int]bool{}
	var rec func(*Term)
	rec = func(x *Term) {
		if seen[x.ID] {
			return
		}
		seen[x.ID] = true
		if x.Var != "" {
			set[x.Var] = x
		}
		for _, a := range x.Args {
			rec(a)
		}
	}
	rec(t)
}

// String renders the term fully inlined (debugging / samples only).
func (t *Term) String() string {
	if t.Var != "" {
		return t.Var
	}
	if t.Lit != "" {
		return t.Lit
	}
	var sb strings.Builder
	sb.WriteByte('(')
	sb.WriteString(t.Op)
	for _, a := range t.Args {
		sb.WriteByte(' ')
		sb.WriteString(a.String())
	}
	sb.WriteByte(')')
	return sb.String()
}

// LiftUnary applies f to the literal leaves of an ite-tree t (a literal, or
// ite(c, a, b) with liftable a and b) and rebuilds the tree in the result
// sort. ok=false if some leaf is not a literal (or the tree is too large).
func (c *Ctx) LiftUnary(t *Term, f func(lit *Term) *Term) (*Term, bool) {
	memo := map[int]*Term{}
	budget := 1 << 17
	var rec func(x *Term) (*Term, bool)
	rec = func(x *Term) (*Term, bool) {
		if r, ok := memo[x.ID]; ok {
			return r, true
		}
		budget--
		if budget < 0 {
			return nil, false
		}
		var r *Term
		switch {
		case x.IsConst():
			r = f(x)
		case x.Op == "ite":
			a, ok := rec(x.Args[1])
			if !ok {
				return nil, false
			}
			b, ok := rec(x.Args[2])
			if !ok {
				return nil, false
			}
			r = c.Ite(x.Args[0], a, b)
		default:
			return nil, false
		}
		memo[x.ID] = r
		return r, true
	}
	return rec(t)
}

// IsNaN builds fp.isNaN(t) with simplification: conversions from integers
// are never NaN; literals and ite-trees of literals fold.
func (c *Ctx) IsNaN(t *Term) *Term {
	if strings.HasPrefix(t.Op, "(_ to_fp") && len(t.Args) == 1 && t.Args[0].Sort.Width() != 0 && strings.HasSuffix(t.Op, "RNE") {
		return c.False
	}
	if r, ok := c.LiftUnary(t, func(l *Term) *Term {
		if l.Sort == F32 {
			f := math.Float32frombits(uint32(l.CBits))
			return c.BoolLit(f != f)
		}
		f := math.Float64frombits(l.CBits)
		return c.BoolLit(f != f)
	}); ok {
		return r
	}
	return c.App("fp.isNaN", Bool, t)
}

// FromIntConv reports whether t is an int->float conversion (possibly under ite over such).
func (t *Term) FromIntConv() bool {
	if strings.HasPrefix(t.Op, "(_ to_fp") && len(t.Args) == 1 && t.Args[0].Sort.Width() != 0 && strings.HasSuffix(t.Op, "RNE") {
		return true
	}
	return false
}
