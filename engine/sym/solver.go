package sym

import (
	"bufio"
	"fmt"
	"io"
	"os"
	"os/exec"
	"strconv"
	"strings"
	"sync"
	"time"
)

// SlowQuery, when non-zero, logs queries slower than this.
var SlowQuery time.Duration

type Result int

const (
	Unsat Result = iota
	Sat
	Unknown
)

func (r Result) String() string { return [...]string{"unsat", "sat", "unknown"}[r] }

// Stats are cumulative per solver.
type Stats struct {
	Queries, Sat, Unsat, Unknown, Errors int
	Time                                 time.Duration
	CacheHits                            int
}

// Solver is one persistent SMT-LIB2 process used incrementally.
// The assertion stack mirrors a path condition (one push level per literal).
type Solver struct {
	Kind    string // "z3", "z3-new", "cvc5"
	Precise bool   // tier B: IEEE arithmetic instead of uninterpreted functions
	cmd     *exec.Cmd
	in      *bufio.Writer
	inc     io.WriteCloser
	out     *bufio.Reader
	defined map[int]bool    // term IDs with a define-fun
	decl    map[string]bool // declared constants
	stack   []*Term
	Stats   Stats
	Log     io.Writer // optional transcript
	Timeout time.Duration
	dead    bool
	hmemo   map[*Term]uint64
}

const prelude = `
(define-sort F64 () (_ FloatingPoint 11 53))
(define-sort F32 () (_ FloatingPoint 8 24))
(declare-fun uf_div64 (F64 F64) F64)
(declare-fun uf_mul64 (F64 F64) F64)
(declare-fun uf_add64 (F64 F64) F64)
(declare-fun uf_sub64 (F64 F64) F64)
(declare-fun uf_isint64 (F64) Bool)
(declare-fun uf_div32 (F32 F32) F32)
(declare-fun uf_mul32 (F32 F32) F32)
(declare-fun uf_add32 (F32 F32) F32)
(declare-fun uf_sub32 (F32 F32) F32)
`

// QueryRecord, when non-nil, receives the verdict of every query under a
// structural hash of what was asserted (independent of term numbering), so
// that `symgo crosscheck` can compare solvers query by query even when
// model-dependent choices make them explore in a different order.
var QueryRecord map[uint64]Result
var queryRecordMu sync.Mutex

func (s *Solver) thash(t *Term) uint64 {
	if s.hmemo == nil {
		s.hmemo = map[*Term]uint64{}
	}
	if h, ok := s.hmemo[t]; ok {
		return h
	}
	h := uint64(14695981039346656037)
	mix := func(str string) {
		for i := 0; i < len(str); i++ {
			h ^= uint64(str[i])
			h *= 1099511628211
		}
		h ^= 0xff
		h *= 1099511628211
	}
	mix(t.Op)
	mix(t.Var)
	mix(t.Lit)
	mix(fmt.Sprint(t.Sort))
	for _, a := range t.Args {
		h ^= s.thash(a)
		h *= 1099511628211
	}
	s.hmemo[t] = h
	return h
}

// Start launches a solver. kind is "z3", "z3-new" or "cvc5".
func Start(kind string, precise bool, timeout time.Duration) (*Solver, error) {
	var cmd *exec.Cmd
	ms := strconv.Itoa(int(timeout / time.Millisecond))
	switch kind {
	case "z3":
		cmd = exec.Command("/usr/bin/z3", "-in", "-smt2")
	case "z3-new":
		cmd = exec.Command("z3-new", "-in", "-smt2")
	case "cvc5":
		cmd = exec.Command("cvc5", "--incremental", "--produce-models", "--lang=smt2", "--tlimit-per="+ms, "--fp-exp")
	default:
		return nil, fmt.Errorf("unknown solver %q", kind)
	}
	inp, err := cmd.StdinPipe()
	if err != nil {
		return nil, err
	}
	outp, err := cmd.StdoutPipe()
	if err != nil {
		return nil, err
	}
	cmd.Stderr = nil
	if err := cmd.Start(); err != nil {
		return nil, err
	}
	s := &Solver{Kind: kind, Precise: precise, cmd: cmd, inc: inp, in: bufio.NewWriterSize(inp, 1<<16),
		out: bufio.NewReaderSize(outp, 1<<16), defined: map[int]bool{}, decl: map[string]bool{}, Timeout: timeout}
	if kind == "cvc5" {
		s.send("(set-logic ALL)\n")
	}
	s.send("(set-option :global-declarations true)\n")
	if kind != "cvc5" {
		s.send("(set-option :timeout " + ms + ")\n")
	}
	s.send(prelude)
	return s, nil
}

func (s *Solver) Close() {
	if s == nil || s.dead {
		return
	}
	s.dead = true
	s.inc.Close()
	s.cmd.Process.Kill()
	s.cmd.Wait()
}

func (s *Solver) send(txt string) {
	if s.Log != nil {
		io.WriteString(s.Log, txt)
	}
	s.in.WriteString(txt)
}

// ref returns the SMT text naming t, defining it (and its sub-terms) first.
func (s *Solver) ref(t *Term) string {
	if t.Var != "" {
		if !s.decl[t.Var] {
			s.decl[t.Var] = true
			s.send("(declare-const " + t.Var + " " + t.Sort.SMT() + ")\n")
		}
		return t.Var
	}
	if t.Lit != "" {
		return t.Lit
	}
	name := "t" + strconv.Itoa(t.ID)
	if s.defined[t.ID] {
		return name
	}
	// iterative post-order to avoid deep recursion on long chains
	type fr struct {
		t *Term
		i int
	}
	st := []fr{{t, 0}}
	for len(st) > 0 {
		top := &st[len(st)-1]
		if top.i < len(top.t.Args) {
			a := top.t.Args[top.i]
			top.i++
			if a.Op != "" && !s.defined[a.ID] {
				st = append(st, fr{a, 0})
			} else if a.Var != "" && !s.decl[a.Var] {
				s.decl[a.Var] = true
				s.send("(declare-const " + a.Var + " " + a.Sort.SMT() + ")\n")
			}
			continue
		}
		x := top.t
		st = st[:len(st)-1]
		if s.defined[x.ID] {
			continue
		}
		s.defined[x.ID] = true
		s.send("(define-fun t" + strconv.Itoa(x.ID) + " () " + x.Sort.SMT() + " " + s.body(x) + ")\n")
	}
	return name
}

func (s *Solver) argRef(t *Term) string {
	if t.Var != "" {
		return t.Var
	}
	if t.Lit != "" {
		return t.Lit
	}
	return "t" + strconv.Itoa(t.ID)
}

func (s *Solver) body(x *Term) string {
	args := make([]string, len(x.Args))
	for i, a := range x.Args {
		args[i] = s.argRef(a)
	}
	j := strings.Join(args, " ")
	suffix := "64"
	if len(x.Args) > 0 && x.Args[0].Sort == F32 {
		suffix = "32"
	}
	switch x.Op {
	case "f.div", "f.mul", "f.add", "f.sub":
		if s.Precise {
			return "(fp." + x.Op[2:] + " RNE " + j + ")"
		}
		return "(uf_" + x.Op[2:] + suffix + " " + j + ")"
	case "f.isint":
		if s.Precise {
			a := args[0]
			return "(and (not (fp.isInfinite " + a + ")) (not (fp.isNaN " + a + ")) (fp.eq (fp.roundToIntegral RTZ " + a + ") " + a + "))"
		}
		return "(uf_isint64 " + j + ")"
	}
	return "(" + x.Op + " " + j + ")"
}

// sync makes the solver's assertion stack equal to pc.
func (s *Solver) sync(pc []*Term) {
	n := 0
	for n < len(pc) && n < len(s.stack) && pc[n] == s.stack[n] {
		n++
	}
	if d := len(s.stack) - n; d > 0 {
		s.send("(pop " + strconv.Itoa(d) + ")\n")
		s.stack = s.stack[:n]
	}
	for _, l := range pc[n:] {
		r := s.ref(l)
		s.send("(push 1)\n(assert " + r + ")\n")
		s.stack = append(s.stack, l)
	}
}

// Model maps variable names to literal values (bool, or raw bits).
type Model map[string]ModelVal

type ModelVal struct {
	Sort Sort
	Bool bool
	Bits uint64
	Raw  string
}

// Check decides satisfiability of pc ∧ extra (extra may be nil).
// If wantModel is non-empty and the result is Sat, their values are returned.
func (s *Solver) Check(pc []*Term, extra *Term, wantModel []*Term) (Result, Model, error) {
	if s.dead {
		return Unknown, nil, fmt.Errorf("solver dead")
	}
	t0 := time.Now()
	defer func() {
		d := time.Since(t0)
		s.Stats.Time += d
		if SlowQuery > 0 && d > SlowQuery {
			ex := "<nil>"
			if extra != nil {
				ex = extra.String()
				if len(ex) > 300 {
					ex = ex[:300] + "..."
				}
			}
			fmt.Fprintf(os.Stderr, "SLOW QUERY %v pc=%d extra=%s\n", d, len(pc), ex)
		}
	}()
	s.Stats.Queries++
	s.sync(pc)
	if extra != nil {
		r := s.ref(extra)
		s.send("(push 1)\n(assert " + r + ")\n")
	}
	s.send("(check-sat)\n")
	if err := s.in.Flush(); err != nil {
		s.dead = true
		return Unknown, nil, err
	}
	res, err := s.readStatus()
	var m Model
	if err == nil && res == Sat && len(wantModel) > 0 {
		names := make([]string, len(wantModel))
		for i, v := range wantModel {
			names[i] = s.ref(v)
		}
		s.send("(get-value (" + strings.Join(names, " ") + "))\n")
		s.in.Flush()
		m, err = s.readModel(wantModel, names)
	}
	if extra != nil {
		s.send("(pop 1)\n")
	}
	if QueryRecord != nil && err == nil {
		h := uint64(1469598103934665603)
		for _, l := range pc {
			h += s.thash(l) * 1099511628211
		}
		if extra != nil {
			h += s.thash(extra) * 40503
		}
		queryRecordMu.Lock()
		QueryRecord[h] = res
		queryRecordMu.Unlock()
	}
	switch {
	case err != nil:
		s.Stats.Errors++
		return Unknown, nil, err
	case res == Sat:
		s.Stats.Sat++
	case res == Unsat:
		s.Stats.Unsat++
	default:
		s.Stats.Unknown++
	}
	return res, m, nil
}

func (s *Solver) readStatus() (Result, error) {
	var errs []string
	for {
		line, err := s.out.ReadString('\n')
		if err != nil {
			s.dead = true
			return Unknown, fmt.Errorf("solver %s died: %v %s", s.Kind, err, strings.Join(errs, "; "))
		}
		line = strings.TrimSpace(line)
		if s.Log != nil {
			fmt.Fprintln(s.Log, "; <- "+line)
		}
		switch {
		case line == "sat":
			if len(errs) > 0 {
				return Unknown, fmt.Errorf("solver error: %s", strings.Join(errs, "; "))
			}
			return Sat, nil
		case line == "unsat":
			if len(errs) > 0 {
				return Unknown, fmt.Errorf("solver error: %s", strings.Join(errs, "; "))
			}
			return Unsat, nil
		case line == "unknown" || line == "timeout":
			if len(errs) > 0 {
				return Unknown, fmt.Errorf("solver error: %s", strings.Join(errs, "; "))
			}
			return Unknown, nil
		case strings.HasPrefix(line, "(error"):
			errs = append(errs, line)
			fmt.Fprintln(os.Stderr, "SOLVER", s.Kind, line)
		case line == "":
		default:
			// warnings (cvc5) etc.
			if strings.Contains(line, "rror") {
				errs = append(errs, line)
			}
		}
	}
}

// readSexp reads one balanced s-expression from the solver.
func (s *Solver) readSexp() (string, error) {
	var b strings.Builder
	depth, started := 0, false
	inStr := false
	for {
		c, err := s.out.ReadByte()
		if err != nil {
			s.dead = true
			return "", err
		}
		if inStr {
			b.WriteByte(c)
			if c == '"' {
				inStr = false
			}
			continue
		}
		switch c {
		case '"':
			inStr = true
		case '(':
			depth++
			started = true
		case ')':
			depth--
		}
		if started {
			b.WriteByte(c)
		}
		if started && depth == 0 {
			return b.String(), nil
		}
	}
}

// Sexp is a parsed s-expression.
type Sexp struct {
	Atom string
	List []*Sexp
}

func parseSexp(s string) *Sexp {
	pos := 0
	var rec func() *Sexp
	rec = func() *Sexp {
		for pos < len(s) && (s[pos] == ' ' || s[pos] == '\n' || s[pos] == '\t' || s[pos] == '\r') {
			pos++
		}
		if pos >= len(s) {
			return nil
		}
		if s[pos] == '(' {
			pos++
			n := &Sexp{List: []*Sexp{}}
			for {
				for pos < len(s) && (s[pos] == ' ' || s[pos] == '\n' || s[pos] == '\t' || s[pos] == '\r') {
					pos++
				}
				if pos >= len(s) {
					return n
				}
				if s[pos] == ')' {
					pos++
					return n
				}
				n.List = append(n.List, rec())
			}
		}
		st := pos
		for pos < len(s) && !strings.ContainsRune(" \n\t\r()", rune(s[pos])) {
			pos++
		}
		return &Sexp{Atom: s[st:pos]}
	}
	return rec()
}

func (e *Sexp) String() string {
	if e == nil {
		return "<nil>"
	}
	if e.List == nil {
		return e.Atom
	}
	parts := make([]string, len(e.List))
	for i, x := range e.List {
		parts[i] = x.String()
	}
	return "(" + strings.Join(parts, " ") + ")"
}

func parseBits(a string) (uint64, int, bool) {
	if strings.HasPrefix(a, "#x") {
		v, err := strconv.ParseUint(a[2:], 16, 64)
		return v, 4 * (len(a) - 2), err == nil
	}
	if strings.HasPrefix(a, "#b") {
		v, err := strconv.ParseUint(a[2:], 2, 64)
		return v, len(a) - 2, err == nil
	}
	return 0, 0, false
}

func (s *Solver) readModel(vars []*Term, names []string) (Model, error) {
	txt, err := s.readSexp()
	if err != nil {
		return nil, err
	}
	if strings.HasPrefix(txt, "(error") {
		return nil, fmt.Errorf("get-value: %s", txt)
	}
	e := parseSexp(txt)
	m := Model{}
	if e == nil || len(e.List) != len(vars) {
		return nil, fmt.Errorf("get-value: unexpected reply %q", txt)
	}
	for i, pair := range e.List {
		if len(pair.List) != 2 {
			return nil, fmt.Errorf("get-value: bad pair %s", pair)
		}
		v := vars[i]
		mv, err := parseModelVal(v.Sort, pair.List[1])
		if err != nil {
			return nil, fmt.Errorf("get-value %s: %v", names[i], err)
		}
		key := v.Var
		if key == "" {
			key = names[i]
		}
		m[key] = mv
	}
	return m, nil
}

func parseModelVal(sort Sort, e *Sexp) (ModelVal, error) {
	mv := ModelVal{Sort: sort, Raw: e.String()}
	switch sort {
	case Bool:
		switch e.Atom {
		case "true":
			mv.Bool = true
		case "false":
		default:
			return mv, fmt.Errorf("bad bool %s", e)
		}
	case BV8, BV16, BV32, BV64:
		b, _, ok := parseBits(e.Atom)
		if !ok {
			return mv, fmt.Errorf("bad bv %s", e)
		}
		mv.Bits = b
	case F64, F32:
		eb, sb := 11, 52
		if sort == F32 {
			eb, sb = 8, 23
		}
		if len(e.List) == 4 && e.List[0].Atom == "fp" {
			sg, _, ok1 := parseBits(e.List[1].Atom)
			ex, _, ok2 := parseBits(e.List[2].Atom)
			mt, _, ok3 := parseBits(e.List[3].Atom)
			if !ok1 || !ok2 || !ok3 {
				return mv, fmt.Errorf("bad fp %s", e)
			}
			mv.Bits = sg<<uint(eb+sb) | ex<<uint(sb) | mt
		} else if len(e.List) == 4 && e.List[0].Atom == "_" {
			allExp := (uint64(1)<<uint(eb) - 1) << uint(sb)
			switch e.List[1].Atom {
			case "+zero":
				mv.Bits = 0
			case "-zero":
				mv.Bits = 1 << uint(eb+sb)
			case "+oo":
				mv.Bits = allExp
			case "-oo":
				mv.Bits = 1<<uint(eb+sb) | allExp
			case "NaN":
				mv.Bits = allExp | 1<<uint(sb-1)
			default:
				return mv, fmt.Errorf("bad fp special %s", e)
			}
		} else {
			return mv, fmt.Errorf("bad fp %s", e)
		}
	}
	return mv, nil
}
