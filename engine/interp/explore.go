package interp

// Path exploration by decision-prefix replay, work distribution over
// in-process workers (one interpreter + one solver each), assertion
// checking and result aggregation.

import (
	"fmt"
	"go/token"
	"go/types"
	"os"
	"runtime"
	"runtime/debug"
	"sort"
	"strings"
	"sync"
	"time"

	"golang.org/x/tools/go/ssa"

	"verif/engine/sym"
)

// Decision is one recorded non-deterministic step of a path.
type Decision struct {
	K byte  // 'b' branch on a symbolic condition, 'c' verifChoose, 'o' oracle value (solver model)
	V int64 // branch: 1/0; choose: index; oracle: value
}

func fmtDecisions(ds []Decision) string {
	var sb strings.Builder
	for _, d := range ds {
		fmt.Fprintf(&sb, "%c%d ", d.K, d.V)
	}
	return strings.TrimSpace(sb.String())
}

// engine control-flow panics (never visible to target recover()).
type pathEnd struct{ why string }
type unsupported struct{ what string }
type budgetExceeded struct{ what string }

func isControl(p interface{}) bool {
	switch p.(type) {
	case pathEnd, unsupported, budgetExceeded:
		return true
	}
	return false
}

// NondetVar is a symbolic input created on a path.
type NondetVar struct {
	Name string
	Kind types.BasicKind
	Term *sym.Term
}

type ChooseRec struct {
	Name string
	N    int
	V    int
}

// Violation is a counterexample candidate found on a path.
type Violation struct {
	Harness   string
	Label     string // assertion label, or "panic: ..."
	Kind      string // "assert" | "panic" | "shared-write"
	Known     string // id of a known finding that covers it ("" = none)
	Decisions string
	Assign    *Assignment
	Stack     []string
	Pos       string
	TierB     string // "", "confirmed", "unknown"
}

// Assignment is what native replay needs: the shape choices in order and
// a value for every nondet variable.
type Assignment struct {
	Harness string            `json:"harness"`
	Chooses []AssignChoose    `json:"chooses"`
	Values  map[string]string `json:"values"` // name -> "bool:true" | "bits:0x..." (kind width implied natively)
	Label   string            `json:"label,omitempty"`
}

type AssignChoose struct {
	Name string `json:"name"`
	N    int    `json:"n"`
	V    int    `json:"v"`
}

// Options configure an exploration.
type Options struct {
	Workers     int
	MaxSteps    int // SSA instructions per path
	MaxDepth    int // call depth
	MaxPaths    int // safety cap (0 = none); exceeding it is reported as a bound failure
	Timeout     time.Duration
	AfterViol   time.Duration // stop exploring this long after the first candidate outside the known findings (0 = never)
	SolverTO    time.Duration
	Concrete    *Assignment // concrete mode: follow this assignment (differential validation)
	TraceSolver bool
	Verbose     bool
	MaxViol     int    // stop collecting after this many violations per label
	Solver      string // "z3" (default, /usr/bin/z3 4.8.12), "z3-new" (5.1.0) or "cvc5": used by `symgo crosscheck`
}

func (o Options) solverKind() string {
	if o.Solver == "" {
		return "z3"
	}
	return o.Solver
}

// Result aggregates what an exploration covered.
type Result struct {
	Harness      string
	Paths        int
	Completed    int // paths that ran to the end of the harness
	Decisions    int
	Asserts      int
	AssertsSym   int // assertions decided by a solver query (non-concrete)
	Infeasible   int
	Violations   []*Violation
	Known        map[string]int // known-finding id -> times reproduced
	KnownHeld    map[string]int // audit: "id @ assertion label" -> paths on which the assertion held although the known-finding predicate was on
	Witness      map[string]int
	Unsupported  map[string]int
	Budget       map[string]int
	Hangs        map[string]int // budget exhaustion on a path (candidate non-termination)
	Inconclusive map[string]int
	Coverage     map[string]int // repo function -> distinct instructions executed
	Stubs        map[string]int // intrinsics / summaries hit
	Solver       sym.Stats
	SolverB      sym.Stats
	Samples      []string
	DiffSamples  []*Assignment // models of sampled completed paths (no violation): replayed natively, must run clean
	diffSeen     int
	Observes     []string // concrete mode
	Wall         time.Duration
	Truncated    bool
}

// Engine is shared by all workers of one exploration.
type Engine struct {
	Prog      *ssa.Program
	Pkg       *ssa.Package
	Fn        *ssa.Function
	Opt       Options
	mu        sync.Mutex
	cond      *sync.Cond
	queue     [][]Decision
	idle      int
	done      bool
	res       *Result
	cov       map[*ssa.Function]map[ssa.Instruction]bool
	start     time.Time
	violCnt   map[string]int
	firstViol time.Time
}

// Worker is one explorer goroutine.
type Worker struct {
	eng    *Engine
	id     int
	c      *sym.Ctx
	solver *sym.Solver
	tierB  *sym.Solver
	interp *interpreter

	// per path
	prefix     []Decision
	pos        int
	taken      []Decision
	pc         []*sym.Term
	vars       []*NondetVar
	chooses    []ChooseRec
	nameCount  map[string]int
	usedUF     bool
	observes   []string
	pathViol   int                  // violations reported on the current path
	domains    map[*sym.Term]string // symbolic bytes with a known finite alphabet
	knownSites map[string]string    // panic site substring -> known-finding id
	knownHit   map[string]*sym.Term // known-finding predicates true on this path (id -> cond term or nil=concrete true)
	mapDesc    bool                 // map iterations in descending key order (verifMapOrderSet)

	local [][]Decision
	cov   map[*ssa.Function]map[ssa.Instruction]bool
	stubs map[string]int
}

func (i *interpreter) ctx() *sym.Ctx { return i.w.c }

func (w *Worker) addPC(t *sym.Term) {
	if t == w.c.True {
		return
	}
	for _, l := range w.pc {
		if l == t {
			return
		}
	}
	w.pc = append(w.pc, t)
}

func (w *Worker) check(extra *sym.Term, model []*sym.Term) (sym.Result, sym.Model) {
	r, m, err := w.solver.Check(w.pc, extra, model)
	if err != nil {
		w.eng.note(func(res *Result) { res.Inconclusive["solver error: "+err.Error()]++ })
		if w.solver != nil {
			// restart a dead solver
			w.solver.Close()
			s, e2 := sym.Start(w.eng.Opt.solverKind(), false, w.eng.Opt.SolverTO)
			if e2 == nil {
				w.mergeStats(w.solver)
				w.solver = s
			}
		}
		return sym.Unknown, nil
	}
	return r, m
}

func (w *Worker) mergeStats(s *sym.Solver) {
	w.eng.note(func(res *Result) { addStats(&res.Solver, s.Stats) })
	s.Stats = sym.Stats{}
}

func addStats(a *sym.Stats, b sym.Stats) {
	a.Queries += b.Queries
	a.Sat += b.Sat
	a.Unsat += b.Unsat
	a.Unknown += b.Unknown
	a.Errors += b.Errors
	a.Time += b.Time
}

// replaying reports whether the next decision comes from the prefix.
func (w *Worker) replaying() bool { return w.pos < len(w.prefix) }

func (w *Worker) record(d Decision) {
	w.pos++
	w.taken = append(w.taken, d)
}

func (w *Worker) fork(alt Decision) {
	p := make([]Decision, len(w.taken)+1)
	copy(p, w.taken)
	p[len(w.taken)] = alt
	w.local = append(w.local, p)
	w.eng.donate(w)
}

// decide forks on a symbolic condition.
func (w *Worker) decide(t *sym.Term) bool {
	c := w.c
	if t == c.True {
		return true
	}
	if t == c.False {
		return false
	}
	nt := c.Not(t)
	for _, l := range w.pc {
		if l == t {
			return true
		}
		if l == nt {
			return false
		}
	}
	if w.eng.Opt.Concrete != nil {
		panic(fmt.Sprintf("symbolic branch in concrete mode: %s", t))
	}
	if w.replaying() {
		d := w.prefix[w.pos]
		if d.K != 'b' {
			panic(fmt.Sprintf("replay mismatch: expected branch, trace has %c at %d", d.K, w.pos))
		}
		w.record(d)
		if d.V == 1 {
			w.addPC(t)
			return true
		}
		w.addPC(nt)
		return false
	}
	rT, _ := w.check(t, nil)
	canT := rT != sym.Unsat
	canF := true
	if canT {
		rF, _ := w.check(nt, nil)
		canF = rF != sym.Unsat
		if rT == sym.Unknown || rF == sym.Unknown {
			w.eng.note(func(res *Result) { res.Inconclusive["feasibility query unknown (both sides kept)"]++ })
		}
	}
	switch {
	case canT && canF:
		w.fork(Decision{'b', 0})
		w.record(Decision{'b', 1})
		w.addPC(t)
		return true
	case canT:
		w.record(Decision{'b', 1})
		w.addPC(t)
		return true
	case canF:
		w.record(Decision{'b', 0})
		w.addPC(nt)
		return false
	}
	panic(pathEnd{"infeasible"})
}

// choose is an n-way shape fork.
func (w *Worker) choose(name string, n int) int {
	if n <= 0 {
		panic(pathEnd{"choose over empty range"})
	}
	if a := w.eng.Opt.Concrete; a != nil {
		k := len(w.chooses)
		if k >= len(a.Chooses) {
			panic(fmt.Sprintf("concrete mode: no choice recorded for %s", name))
		}
		ch := a.Chooses[k]
		if ch.Name != name {
			panic(fmt.Sprintf("concrete mode: choice %d is %s, harness asked %s", k, ch.Name, name))
		}
		w.chooses = append(w.chooses, ChooseRec{name, n, ch.V})
		return ch.V
	}
	var v int
	if w.replaying() {
		d := w.prefix[w.pos]
		if d.K != 'c' {
			panic(fmt.Sprintf("replay mismatch: expected choose, trace has %c at %d", d.K, w.pos))
		}
		w.record(d)
		v = int(d.V)
	} else {
		for k := n - 1; k >= 1; k-- {
			w.fork(Decision{'c', int64(k)})
		}
		w.record(Decision{'c', 0})
		v = 0
	}
	w.chooses = append(w.chooses, ChooseRec{name, n, v})
	return v
}

// oracle memoises a solver-derived value in the decision trace.
func (w *Worker) oracle(f func() int64) int64 {
	if w.replaying() {
		d := w.prefix[w.pos]
		if d.K != 'o' {
			panic(fmt.Sprintf("replay mismatch: expected oracle, trace has %c at %d", d.K, w.pos))
		}
		w.record(d)
		return d.V
	}
	v := f()
	w.record(Decision{'o', v})
	return v
}

// truth returns the Boolean value of v on this path, forking if symbolic.
func (i *interpreter) truth(v value) bool {
	switch v := v.(type) {
	case bool:
		return v
	case symVal:
		return i.w.decide(v.t)
	}
	panic(fmt.Sprintf("truth of %T", v))
}

// concretize returns a concrete value for integer v on this path, forking
// over its feasible values.
func (i *interpreter) concretize(v value) int64 {
	sv, ok := v.(symVal)
	if !ok {
		return asInt64(v)
	}
	w := i.w
	width := kindWidth(sv.k)
	for n := 0; ; n++ {
		if n > 64 {
			panic(unsupported{"more than 64 feasible values for a symbolic integer that must be concrete (index/length)"})
		}
		cv := w.oracle(func() int64 {
			r, m := w.check(nil, []*sym.Term{sv.t})
			if r != sym.Sat {
				panic(pathEnd{"infeasible at concretize"})
			}
			for _, mv := range m {
				return int64(mv.Bits)
			}
			panic("no model value")
		})
		if w.decide(w.c.Eq(sv.t, w.c.BVLit(uint64(cv), width))) {
			if kindSigned(sv.k) {
				sh := uint(64 - width)
				return int64(uint64(cv)<<sh) >> sh
			}
			return cv
		}
	}
}

func (w *Worker) uniqueName(name string) string {
	n := w.nameCount[name]
	w.nameCount[name] = n + 1
	if n == 0 {
		return name
	}
	return fmt.Sprintf("%s#%d", name, n)
}

func smtName(name string) string {
	var sb strings.Builder
	sb.WriteString("v_")
	for _, r := range name {
		switch {
		case r >= 'a' && r <= 'z', r >= 'A' && r <= 'Z', r >= '0' && r <= '9', r == '_':
			sb.WriteRune(r)
		case r == '#':
			sb.WriteString("__")
		case r == '[':
			sb.WriteString("_L")
		case r == ']':
			sb.WriteString("R_")
		case r == '.':
			sb.WriteString("_d_")
		default:
			fmt.Fprintf(&sb, "_x%02x", r)
		}
	}
	return sb.String()
}

// nondet creates (or, in concrete mode, reads) an input of basic kind k.
func (w *Worker) nondet(name string, k types.BasicKind) value {
	name = w.uniqueName(name)
	if a := w.eng.Opt.Concrete; a != nil {
		s, ok := a.Values[name]
		if !ok {
			// unconstrained by the model: zero
			return concreteOfKind(k, 0)
		}
		return parseAssignValue(k, s)
	}
	t := w.c.Var(smtName(name), kindSort(k))
	w.vars = append(w.vars, &NondetVar{Name: name, Kind: k, Term: t})
	return symVal{t, k}
}

func parseAssignValue(k types.BasicKind, s string) value {
	switch {
	case s == "bool:true":
		return true
	case s == "bool:false":
		return false
	case strings.HasPrefix(s, "bits:"):
		var b uint64
		fmt.Sscanf(s[5:], "0x%x", &b)
		return concreteOfKind(k, b)
	}
	panic("bad assignment value " + s)
}

// model returns an assignment for the current path condition (plus extra).
func (w *Worker) model(extra *sym.Term, s *sym.Solver) (sym.Result, *Assignment) {
	terms := make([]*sym.Term, len(w.vars))
	for k, v := range w.vars {
		terms[k] = v.Term
	}
	var r sym.Result
	var m sym.Model
	if s == w.solver {
		r, m = w.check(extra, terms)
	} else {
		var err error
		r, m, err = s.Check(w.pc, extra, terms)
		if err != nil {
			return sym.Unknown, nil
		}
	}
	if r != sym.Sat {
		return r, nil
	}
	a := &Assignment{Harness: w.eng.Fn.Name(), Values: map[string]string{}}
	for _, ch := range w.chooses {
		a.Chooses = append(a.Chooses, AssignChoose{ch.Name, ch.N, ch.V})
	}
	for _, v := range w.vars {
		mv, ok := m[v.Term.Var]
		if !ok {
			continue
		}
		if v.Kind == types.Bool {
			a.Values[v.Name] = fmt.Sprintf("bool:%v", mv.Bool)
		} else {
			a.Values[v.Name] = fmt.Sprintf("bits:0x%x", mv.Bits)
		}
	}
	return sym.Sat, a
}

func (w *Worker) ensureTierB() *sym.Solver {
	if w.tierB == nil {
		s, err := sym.Start("z3", true, 120*time.Second)
		if err != nil {
			return nil
		}
		w.tierB = s
	}
	return w.tierB
}

// reportViolation records a candidate counterexample: pc ∧ extra is
// satisfiable according to tier A; confirm with tier B when FP UFs are in play.
func (w *Worker) reportViolation(kind, label string, extra *sym.Term, fr *frame) {
	eng := w.eng
	w.pathViol++
	// known-finding predicates: is the violation inside a listed finding?
	known := ""
	site := ""
	if kind == "panic" || kind == "hang" {
		// innermost repository (non-harness) function on the target stack
		st := w.interp.stack
		for k := len(st) - 1; k >= 0; k-- {
			if isRepoPkg(st[k].Pkg) && !strings.Contains(st[k].Name(), "verif") {
				name := st[k].String()
				site = name
				sites := make([]string, 0, len(w.knownSites))
				for site := range w.knownSites {
					sites = append(sites, site)
				}
				sort.Strings(sites)
				for _, site := range sites {
					if strings.Contains(name, site) {
						known = w.knownSites[site]
					}
				}
				break
			}
		}
	}
	if known == "" && len(w.knownHit) > 0 {
		ids := make([]string, 0, len(w.knownHit))
		for id := range w.knownHit {
			ids = append(ids, id)
		}
		sort.Strings(ids)
		// violation outside all known predicates?
		out := []*sym.Term{}
		concreteKnown := ""
		for _, id := range ids {
			if t := w.knownHit[id]; t == nil {
				concreteKnown = id
			} else {
				out = append(out, w.c.Not(t))
			}
		}
		if concreteKnown != "" {
			known = concreteKnown
		} else {
			ex := w.c.And(out...)
			if extra != nil {
				ex = w.c.And(extra, ex)
			}
			if r, _ := w.check(ex, nil); r == sym.Unsat {
				// every model of the violation satisfies some known predicate
				known = ids[0]
				for _, id := range ids {
					ex2 := w.knownHit[id]
					if extra != nil {
						ex2 = w.c.And(extra, ex2)
					}
					if r2, _ := w.check(ex2, nil); r2 == sym.Sat {
						known = id
						break
					}
				}
			} else {
				extra = ex // report the part outside the known findings
			}
		}
	}
	// violations are de-duplicated per (kind, label, panic site, known finding): every distinct
	// panic site is reported whatever the order in which the workers reach them
	key := kind + "|" + label + "|" + site + "|" + known
	eng.mu.Lock()
	cnt := eng.violCnt[key]
	eng.violCnt[key]++
	eng.mu.Unlock()
	if known != "" {
		eng.note(func(res *Result) { res.Known[known]++ })
		if cnt >= 1 {
			return
		}
	} else if cnt >= eng.Opt.MaxViol {
		return
	}
	var a *Assignment
	tier := ""
	if w.eng.Opt.Concrete != nil {
		a = w.eng.Opt.Concrete
	} else {
		r, as := w.model(extra, w.solver)
		if r != sym.Sat {
			if r == sym.Unknown {
				eng.note(func(res *Result) { res.Inconclusive["violation query unknown: "+label]++ })
			}
			return
		}
		a = as
		if w.usedUF {
			tb := w.ensureTierB()
			if tb == nil {
				tier = "unknown"
			} else {
				r2, a2 := w.model(extra, tb)
				eng.note(func(res *Result) { addStats(&res.SolverB, tb.Stats) })
				tb.Stats = sym.Stats{}
				switch r2 {
				case sym.Sat:
					a, tier = a2, "confirmed"
				case sym.Unsat:
					// spurious under the UF abstraction: not a violation
					eng.note(func(res *Result) { res.Infeasible++ })
					eng.mu.Lock()
					eng.violCnt[key]--
					eng.mu.Unlock()
					return
				default:
					tier = "unknown"
				}
			}
		}
	}
	a.Label = label
	v := &Violation{Harness: eng.Fn.Name(), Label: label, Kind: kind, Known: known, Decisions: fmtDecisions(w.taken), Assign: a, TierB: tier}
	if fr != nil {
		v.Stack = w.interp.stackStrings()
	}
	eng.note(func(res *Result) {
		res.Violations = append(res.Violations, v)
		if known == "" && eng.firstViol.IsZero() {
			eng.firstViol = time.Now()
		}
	})
}

// assertV implements verifAssert.
func (w *Worker) assertV(cv value, label string, fr *frame) {
	w.eng.note(func(res *Result) { res.Asserts++ })
	held := func() {
		// audit of known-finding predicates: one that is on while the assertion holds covers a case that does not fail
		for id, cond := range w.knownHit {
			if cond == nil {
				k := id + " @ " + label
				w.eng.note(func(res *Result) { res.KnownHeld[k]++ })
			}
		}
	}
	switch cv := cv.(type) {
	case bool:
		if !cv {
			w.reportViolation("assert", label, nil, fr)
		} else {
			held()
		}
	case symVal:
		w.eng.note(func(res *Result) { res.AssertsSym++ })
		nt := w.c.Not(cv.t)
		r, _ := w.check(nt, nil)
		switch r {
		case sym.Unsat:
			held()
		case sym.Sat:
			w.reportViolation("assert", label, nt, fr)
		case sym.Unknown:
			w.eng.note(func(res *Result) { res.Inconclusive["assertion query unknown: "+label]++ })
		}
		// continue under the assumption that the assertion holds
		if r != sym.Unsat {
			if r2, _ := w.check(cv.t, nil); r2 == sym.Unsat {
				panic(pathEnd{"assertion fails on every model of this path"})
			}
		}
		w.addPC(cv.t)
	default:
		panic(fmt.Sprintf("verifAssert on %T", cv))
	}
}

// assume implements verifAssume.
func (w *Worker) assume(cv value) {
	switch cv := cv.(type) {
	case bool:
		if !cv {
			panic(pathEnd{"assume false"})
		}
	case symVal:
		if w.eng.Opt.Concrete != nil {
			panic("symbolic assume in concrete mode")
		}
		for _, l := range w.pc {
			if l == cv.t {
				return
			}
		}
		if w.replaying() {
			// feasibility was established when this prefix was first explored
			w.addPC(cv.t)
			return
		}
		if r, _ := w.check(cv.t, nil); r == sym.Unsat {
			panic(pathEnd{"assume unsat"})
		}
		w.addPC(cv.t)
	}
}

func (e *Engine) note(f func(*Result)) {
	e.mu.Lock()
	f(e.res)
	e.mu.Unlock()
}

// donate moves the shallowest local work item to the shared queue when
// other workers are idle.
func (e *Engine) donate(w *Worker) {
	if len(w.local) < 2 {
		return
	}
	e.mu.Lock()
	if e.idle > 0 {
		e.queue = append(e.queue, w.local[0])
		w.local = w.local[1:]
		e.cond.Signal()
	}
	e.mu.Unlock()
}

func (e *Engine) take(w *Worker) ([]Decision, bool) {
	if n := len(w.local); n > 0 {
		p := w.local[n-1]
		w.local = w.local[:n-1]
		return p, true
	}
	e.mu.Lock()
	defer e.mu.Unlock()
	for {
		if e.done {
			return nil, false
		}
		if n := len(e.queue); n > 0 {
			p := e.queue[n-1]
			e.queue = e.queue[:n-1]
			return p, true
		}
		e.idle++
		if e.idle == e.Opt.Workers {
			e.done = true
			e.cond.Broadcast()
			return nil, false
		}
		e.cond.Wait()
		e.idle--
	}
}

// Explore runs the harness function over all paths.
func Explore(pkg *ssa.Package, fn *ssa.Function, opt Options) *Result {
	if opt.Workers <= 0 {
		opt.Workers = runtime.NumCPU()
	}
	if opt.MaxSteps == 0 {
		opt.MaxSteps = 5_000_000
	}
	if opt.MaxDepth == 0 {
		opt.MaxDepth = 400
	}
	if opt.SolverTO == 0 {
		opt.SolverTO = 60 * time.Second
	}
	if opt.MaxViol == 0 {
		opt.MaxViol = 3
	}
	if opt.Concrete != nil {
		opt.Workers = 1
	}
	e := &Engine{Prog: pkg.Prog, Pkg: pkg, Fn: fn, Opt: opt, start: time.Now(), violCnt: map[string]int{},
		cov: map[*ssa.Function]map[ssa.Instruction]bool{}}
	e.cond = sync.NewCond(&e.mu)
	e.res = &Result{Harness: fn.Name(), Known: map[string]int{}, KnownHeld: map[string]int{}, Witness: map[string]int{}, Unsupported: map[string]int{},
		Budget: map[string]int{}, Hangs: map[string]int{}, Inconclusive: map[string]int{}, Coverage: map[string]int{}, Stubs: map[string]int{}}
	e.queue = [][]Decision{{}}
	var wg sync.WaitGroup
	for k := 0; k < opt.Workers; k++ {
		wg.Add(1)
		go func(id int) {
			defer wg.Done()
			w := newWorker(e, id)
			defer w.close()
			for {
				p, ok := e.take(w)
				if !ok {
					return
				}
				w.runPath(p)
			}
		}(k)
	}
	wg.Wait()
	for fn, set := range e.cov {
		e.res.Coverage[fn.String()] = len(set)
	}
	e.res.Wall = time.Since(e.start)
	return e.res
}

func newWorker(e *Engine, id int) *Worker {
	w := &Worker{eng: e, id: id, c: sym.NewCtx(), cov: map[*ssa.Function]map[ssa.Instruction]bool{}, stubs: map[string]int{}}
	if e.Opt.Concrete == nil {
		s, err := sym.Start(e.Opt.solverKind(), false, e.Opt.SolverTO)
		if err != nil {
			panic(err)
		}
		if e.Opt.TraceSolver {
			f, _ := os.Create(fmt.Sprintf("/tmp/symgo-solver-%d.smt2", id))
			s.Log = f
		}
		w.solver = s
	}
	w.interp = newInterpreter(e.Prog, w)
	return w
}

func (w *Worker) close() {
	e := w.eng
	e.mu.Lock()
	if w.solver != nil {
		addStats(&e.res.Solver, w.solver.Stats)
	}
	for fn, set := range w.cov {
		dst := e.cov[fn]
		if dst == nil {
			dst = map[ssa.Instruction]bool{}
			e.cov[fn] = dst
		}
		for in := range set {
			dst[in] = true
		}
	}
	for k, n := range w.stubs {
		e.res.Stubs[k] += n
	}
	e.mu.Unlock()
	w.solver.Close()
	w.tierB.Close()
}

func (w *Worker) runPath(prefix []Decision) {
	e := w.eng
	// once a candidate outside the known findings exists, exploration goes on for a while (other
	// violations, other panic sites) but not without end: the verdict is decided already
	if e.Opt.AfterViol > 0 {
		stop := false
		e.note(func(res *Result) { stop = !e.firstViol.IsZero() && time.Since(e.firstViol) > e.Opt.AfterViol })
		if stop {
			e.note(func(res *Result) {
				res.Truncated = true
				res.Budget["stopped some time after the first candidate violation; remaining paths not explored"]++
			})
			return
		}
	}
	if e.Opt.Timeout > 0 && time.Since(e.start) > e.Opt.Timeout {
		e.note(func(res *Result) {
			res.Truncated = true
			res.Budget["wall-clock limit reached; remaining paths not explored"]++
		})
		return
	}
	if e.Opt.MaxPaths > 0 {
		stop := false
		e.note(func(res *Result) {
			if res.Paths >= e.Opt.MaxPaths {
				res.Truncated = true
				res.Budget["path cap reached; remaining paths not explored"]++
				stop = true
			}
		})
		if stop {
			return
		}
	}
	w.prefix, w.pos, w.taken = prefix, 0, nil
	w.pc, w.vars, w.chooses = nil, nil, nil
	w.nameCount = map[string]int{}
	w.usedUF = false
	w.observes = nil
	w.pathViol = 0
	w.knownHit = nil
	w.knownSites = nil
	w.mapDesc = false
	w.domains = nil
	i := w.interp
	i.steps, i.depth = 0, 0
	i.stack = i.stack[:0]
	completed := false
	func() {
		defer func() {
			r := recover()
			if r == nil {
				return
			}
			switch p := r.(type) {
			case pathEnd:
				if p.why != "end" {
					e.note(func(res *Result) { res.Infeasible++ })
				}
			case unsupported:
				where := ""
				if n := len(i.stack); n > 0 {
					where = " in " + i.stack[n-1].String()
				}
				e.note(func(res *Result) { res.Unsupported[p.what+where]++ })
			case budgetExceeded:
				// a path that does not finish within the budget is a candidate hang: it is
				// reported as a violation only if the native replay does not terminate either
				e.note(func(res *Result) { res.Hangs[p.what]++ })
				w.reportViolation("hang", "hang: "+p.what, nil, &frame{i: i})
			case targetPanic:
				msg := i.panicString(p.v)
				w.reportViolation("panic", "panic: "+msg, nil, &frame{i: i})
			case runtime.Error:
				// interpreter-level runtime error = target runtime error
				// (nil dereference, index out of range, failed type assertion)
				msg := p.Error()
				if strings.Contains(msg, "interp.") || os.Getenv("SYMGO_DEBUG") != "" {
					fmt.Fprintf(os.Stderr, "runtime error on path %s: %s\n  target stack: %s\n%s\n", fmtDecisions(w.taken), msg, strings.Join(i.stackStrings(), " > "), debug.Stack())
				}
				w.reportViolation("panic", "panic: "+normalizeRuntimeErr(msg), nil, &frame{i: i})
			default:
				fmt.Fprintf(os.Stderr, "ENGINE FAULT on path %s: %v\n  target stack: %s\n%s\n", fmtDecisions(w.taken), r, strings.Join(i.stackStrings(), " > "), debug.Stack())
				e.note(func(res *Result) { res.Inconclusive[fmt.Sprintf("engine fault: %v", r)]++ })
			}
		}()
		i.resetGlobals()
		call(i, nil, token.NoPos, e.Fn, nil)
		completed = true
	}()
	// differential sample: a model of a clean completed path (log-spaced path numbers), to be
	// replayed natively by the caller; the native run must be clean too
	var diff *Assignment
	if completed && w.pathViol == 0 && !w.usedUF && e.Opt.Concrete == nil {
		take := false
		e.note(func(res *Result) {
			res.diffSeen++
			n := res.diffSeen
			take = len(res.DiffSamples) < 24 && (n <= 4 || n&(n-1) == 0 || n%1000 == 777)
		})
		if take {
			if r, a := w.model(nil, w.solver); r == sym.Sat && a != nil {
				a.Label = "differential sample"
				diff = a
			}
		}
	}
	e.note(func(res *Result) {
		if diff != nil && len(res.DiffSamples) < 24 {
			res.DiffSamples = append(res.DiffSamples, diff)
		}
		res.Paths++
		res.Decisions += len(w.taken)
		if completed {
			res.Completed++
		}
		if len(res.Samples) < 5 && completed && len(w.pc) > 0 {
			res.Samples = append(res.Samples, w.sample())
		}
		if e.Opt.Concrete != nil {
			res.Observes = w.observes
		}
	})
}

func (w *Worker) sample() string {
	var sb strings.Builder
	sb.WriteString("choices[")
	for k, ch := range w.chooses {
		if k > 0 {
			sb.WriteByte(' ')
		}
		fmt.Fprintf(&sb, "%s=%d", ch.Name, ch.V)
	}
	sb.WriteString("] pc[")
	n := 0
	for _, l := range w.pc {
		s := l.String()
		if len(s) > 160 {
			s = s[:160] + "…"
		}
		if n > 0 {
			sb.WriteString(" ∧ ")
		}
		sb.WriteString(s)
		n++
		if n >= 6 {
			sb.WriteString(" ∧ …")
			break
		}
	}
	sb.WriteString("]")
	return sb.String()
}

func normalizeRuntimeErr(msg string) string {
	switch {
	case strings.Contains(msg, "nil pointer dereference"), strings.Contains(msg, "invalid memory address"):
		return "runtime error: invalid memory address or nil pointer dereference"
	case strings.Contains(msg, "index out of range"):
		return "runtime error: index out of range"
	case strings.Contains(msg, "slice bounds out of range"):
		return "runtime error: slice bounds out of range"
	case strings.Contains(msg, "interface conversion"):
		return "runtime error: interface conversion (failed type assertion)"
	case strings.Contains(msg, "assignment to entry in nil map"):
		return "assignment to entry in nil map"
	}
	return msg
}
