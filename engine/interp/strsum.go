package interp

// Summaries of package strings on byte vectors with symbolic bytes.
// Each decision about a symbolic byte forks the path (path condition),
// so results are exact for the bytes on that path.

import (
	"go/token"
	"go/types"
	"strings"

	"verif/engine/sym"
)

func (i *interpreter) sub(s symStr, lo, hi int) symStr { return symStr{s.b[lo:hi:hi]} }

func (i *interpreter) hasPrefixSym(s, p symStr) bool {
	if len(p.b) > len(s.b) {
		return false
	}
	return i.truth(i.strEq(i.sub(s, 0, len(p.b)), p))
}

func (i *interpreter) hasSuffixSym(s, p symStr) bool {
	if len(p.b) > len(s.b) {
		return false
	}
	return i.truth(i.strEq(i.sub(s, len(s.b)-len(p.b), len(s.b)), p))
}

func (i *interpreter) indexSym(s, sep symStr, from int) int {
	n := len(sep.b)
	for p := from; p+n <= len(s.b); p++ {
		if i.truth(i.strEq(i.sub(s, p, p+n), sep)) {
			return p
		}
	}
	return -1
}

func (i *interpreter) lastIndexSym(s, sep symStr) int {
	n := len(sep.b)
	for p := len(s.b) - n; p >= 0; p-- {
		if i.truth(i.strEq(i.sub(s, p, p+n), sep)) {
			return p
		}
	}
	return -1
}

const numberAlphabet = "0123456789abcdefghijklmnopqrstuvwxyzABCDEFGHIJKLMNOPQRSTUVWXYZ+-."

func isOpaque(v value) bool { _, ok := v.(opaque); return ok }

// outsideNumberAlphabet: byte b (concrete, or symbolic with a known domain)
// cannot be a character of a formatted number.
func (i *interpreter) outsideNumberAlphabet(b value) bool {
	switch b := b.(type) {
	case uint8:
		return strings.IndexByte(numberAlphabet, b) < 0
	case symVal:
		alpha, ok := i.w.domains[b.t]
		if !ok {
			return false
		}
		for k := 0; k < len(alpha); k++ {
			if strings.IndexByte(numberAlphabet, alpha[k]) >= 0 {
				return false
			}
		}
		return true
	}
	return false
}

func checkNoOpaque(what string, vs ...value) {
	for _, v := range vs {
		if s, ok := v.(symStr); ok && s.hasOpaque() {
			panic(unsupported{what + " on a string containing a formatted symbolic number"})
		}
	}
}

func (i *interpreter) byteIn(b value, set string) value {
	var acc value = false
	for k := 0; k < len(set); k++ {
		acc = i.orV(acc, i.byteEq(b, set[k]))
	}
	return acc
}

func (i *interpreter) isSpaceByte(b value) value { return i.byteIn(b, " \t\n\v\f\r") }

func init() {
	S := func(name string, f func(i *interpreter, a []value) value) {
		summaries[name] = func(fr *frame, a []value) value {
			checkNoOpaque(name, a...)
			return f(fr.i, a)
		}
	}
	S("strings.HasPrefix", func(i *interpreter, a []value) value {
		return i.hasPrefixSym(toSymStr(a[0]), toSymStr(a[1]))
	})
	S("strings.HasSuffix", func(i *interpreter, a []value) value {
		return i.hasSuffixSym(toSymStr(a[0]), toSymStr(a[1]))
	})
	S("strings.TrimPrefix", func(i *interpreter, a []value) value {
		s, p := toSymStr(a[0]), toSymStr(a[1])
		if i.hasPrefixSym(s, p) {
			return i.sub(s, len(p.b), len(s.b)).norm()
		}
		return s.norm()
	})
	S("strings.TrimSuffix", func(i *interpreter, a []value) value {
		s, p := toSymStr(a[0]), toSymStr(a[1])
		if i.hasSuffixSym(s, p) {
			return i.sub(s, 0, len(s.b)-len(p.b)).norm()
		}
		return s.norm()
	})
	S("strings.CutPrefix", func(i *interpreter, a []value) value {
		s, p := toSymStr(a[0]), toSymStr(a[1])
		if i.hasPrefixSym(s, p) {
			return tuple{i.sub(s, len(p.b), len(s.b)).norm(), true}
		}
		return tuple{s.norm(), false}
	})
	S("strings.CutSuffix", func(i *interpreter, a []value) value {
		s, p := toSymStr(a[0]), toSymStr(a[1])
		if i.hasSuffixSym(s, p) {
			return tuple{i.sub(s, 0, len(s.b)-len(p.b)).norm(), true}
		}
		return tuple{s.norm(), false}
	})
	S("strings.Index", func(i *interpreter, a []value) value {
		return i.indexSym(toSymStr(a[0]), toSymStr(a[1]), 0)
	})
	S("strings.LastIndex", func(i *interpreter, a []value) value {
		return i.lastIndexSym(toSymStr(a[0]), toSymStr(a[1]))
	})
	summaries["strings.Contains"] = func(fr *frame, a []value) value {
		i := fr.i
		s, sep := toSymStr(a[0]), toSymStr(a[1])
		if sep.hasOpaque() {
			panic(unsupported{"strings.Contains with a needle containing a formatted symbolic number"})
		}
		if !s.hasOpaque() {
			return i.indexSym(s, sep, 0) >= 0
		}
		// The haystack contains formatted symbolic numbers (text over [0-9a-zA-Z+-.] of unknown
		// length). If no byte of the needle can be in that alphabet, a match lies entirely
		// inside one of the segments between those pieces.
		for _, b := range sep.b {
			if !i.outsideNumberAlphabet(b) {
				panic(unsupported{"strings.Contains on a string containing a formatted symbolic number"})
			}
		}
		if len(sep.b) == 0 {
			return true
		}
		start := 0
		for p := 0; p <= len(s.b); p++ {
			if p == len(s.b) || isOpaque(s.b[p]) {
				if i.indexSym(symStr{s.b[start:p:p]}, sep, 0) >= 0 {
					return true
				}
				start = p + 1
			}
		}
		return false
	}
	idxByte := func(i *interpreter, a []value) value {
		s := toSymStr(a[0])
		for p, b := range s.b {
			if i.truth(i.byteEq(b, a[1])) {
				return p
			}
		}
		return -1
	}
	S("strings.IndexByte", idxByte)
	S("internal/bytealg.IndexByteString", idxByte)
	S("internal/stringslite.IndexByte", idxByte)
	S("strings.LastIndexByte", func(i *interpreter, a []value) value {
		s := toSymStr(a[0])
		for p := len(s.b) - 1; p >= 0; p-- {
			if i.truth(i.byteEq(s.b[p], a[1])) {
				return p
			}
		}
		return -1
	})
	S("strings.IndexRune", func(i *interpreter, a []value) value {
		r, ok := a[1].(int32)
		if !ok || r >= 0x80 || r < 0 {
			panic(unsupported{"strings.IndexRune with a symbolic or non-ASCII rune"})
		}
		s := toSymStr(a[0])
		for p, b := range s.b {
			if i.truth(i.byteEq(b, uint8(r))) {
				return p
			}
		}
		return -1
	})
	S("strings.ContainsRune", func(i *interpreter, a []value) value {
		r, ok := a[1].(int32)
		if !ok || r >= 0x80 || r < 0 {
			panic(unsupported{"strings.ContainsRune with a symbolic or non-ASCII rune"})
		}
		s := toSymStr(a[0])
		for _, b := range s.b {
			if i.truth(i.byteEq(b, uint8(r))) {
				return true
			}
		}
		return false
	})
	S("strings.IndexAny", func(i *interpreter, a []value) value {
		set, ok := a[1].(string)
		if !ok {
			panic(unsupported{"strings.IndexAny with a symbolic set"})
		}
		s := toSymStr(a[0])
		for p, b := range s.b {
			if i.truth(i.byteIn(b, set)) {
				return p
			}
		}
		return -1
	})
	S("strings.ContainsAny", func(i *interpreter, a []value) value {
		set, ok := a[1].(string)
		if !ok {
			panic(unsupported{"strings.ContainsAny with a symbolic set"})
		}
		s := toSymStr(a[0])
		for _, b := range s.b {
			if i.truth(i.byteIn(b, set)) {
				return true
			}
		}
		return false
	})
	S("strings.Count", func(i *interpreter, a []value) value {
		s, sep := toSymStr(a[0]), toSymStr(a[1])
		if len(sep.b) == 0 {
			panic(unsupported{"strings.Count with empty separator on a symbolic string"})
		}
		n := 0
		for p := 0; ; {
			q := i.indexSym(s, sep, p)
			if q < 0 {
				return n
			}
			n++
			p = q + len(sep.b)
		}
	})
	split := func(i *interpreter, s, sep symStr, max int) value {
		if len(sep.b) == 0 {
			panic(unsupported{"strings.Split with empty separator on a symbolic string"})
		}
		var parts []value
		start := 0
		for max < 0 || len(parts) < max-1 {
			q := i.indexSym(s, sep, start)
			if q < 0 {
				break
			}
			parts = append(parts, i.sub(s, start, q).norm())
			start = q + len(sep.b)
		}
		parts = append(parts, i.sub(s, start, len(s.b)).norm())
		return parts
	}
	S("strings.Split", func(i *interpreter, a []value) value {
		return split(i, toSymStr(a[0]), toSymStr(a[1]), -1)
	})
	S("strings.SplitN", func(i *interpreter, a []value) value {
		n := int(i.concretize(a[2]))
		if n == 0 {
			return []value(nil)
		}
		return split(i, toSymStr(a[0]), toSymStr(a[1]), n)
	})
	S("strings.Cut", func(i *interpreter, a []value) value {
		s, sep := toSymStr(a[0]), toSymStr(a[1])
		q := i.indexSym(s, sep, 0)
		if q < 0 {
			return tuple{s.norm(), "", false}
		}
		return tuple{i.sub(s, 0, q).norm(), i.sub(s, q+len(sep.b), len(s.b)).norm(), true}
	})
	S("strings.Join", func(i *interpreter, a []value) value {
		var out value = ""
		for k, e := range a[0].([]value) {
			if k > 0 {
				out = i.symStrBinop(token.ADD, out, a[1])
			}
			out = i.symStrBinop(token.ADD, out, e)
		}
		return out
	})
	replace := func(i *interpreter, s, old, new symStr, n int) value {
		if len(old.b) == 0 {
			panic(unsupported{"strings.Replace with empty old on a symbolic string"})
		}
		var out []value
		start := 0
		for k := 0; n < 0 || k < n; k++ {
			q := i.indexSym(s, old, start)
			if q < 0 {
				break
			}
			out = append(out, s.b[start:q]...)
			out = append(out, new.b...)
			start = q + len(old.b)
		}
		out = append(out, s.b[start:]...)
		return symStr{out}.norm()
	}
	S("strings.Replace", func(i *interpreter, a []value) value {
		return replace(i, toSymStr(a[0]), toSymStr(a[1]), toSymStr(a[2]), int(i.concretize(a[3])))
	})
	S("strings.ReplaceAll", func(i *interpreter, a []value) value {
		return replace(i, toSymStr(a[0]), toSymStr(a[1]), toSymStr(a[2]), -1)
	})
	S("strings.TrimSpace", func(i *interpreter, a []value) value {
		s := toSymStr(a[0])
		lo, hi := 0, len(s.b)
		for lo < hi && i.truth(i.isSpaceByte(s.b[lo])) {
			lo++
		}
		for hi > lo && i.truth(i.isSpaceByte(s.b[hi-1])) {
			hi--
		}
		// non-ASCII white space (U+0085, U+00A0) needs bytes >= 0x80: excluded when the harness assumes ASCII
		return i.sub(s, lo, hi).norm()
	})
	trim := func(i *interpreter, s symStr, set string, left, right bool) value {
		lo, hi := 0, len(s.b)
		for left && lo < hi && i.truth(i.byteIn(s.b[lo], set)) {
			lo++
		}
		for right && hi > lo && i.truth(i.byteIn(s.b[hi-1], set)) {
			hi--
		}
		return i.sub(s, lo, hi).norm()
	}
	S("strings.Trim", func(i *interpreter, a []value) value {
		set, ok := a[1].(string)
		if !ok {
			panic(unsupported{"strings.Trim with a symbolic cutset"})
		}
		return trim(i, toSymStr(a[0]), set, true, true)
	})
	S("strings.TrimLeft", func(i *interpreter, a []value) value {
		set, ok := a[1].(string)
		if !ok {
			panic(unsupported{"strings.TrimLeft with a symbolic cutset"})
		}
		return trim(i, toSymStr(a[0]), set, true, false)
	})
	S("strings.TrimRight", func(i *interpreter, a []value) value {
		set, ok := a[1].(string)
		if !ok {
			panic(unsupported{"strings.TrimRight with a symbolic cutset"})
		}
		return trim(i, toSymStr(a[0]), set, false, true)
	})
	caseMap := func(i *interpreter, s symStr, lo, hi byte, delta int) value {
		c := i.ctx()
		out := make([]value, len(s.b))
		for k, b := range s.b {
			switch b := b.(type) {
			case uint8:
				if b >= lo && b <= hi {
					out[k] = uint8(int(b) + delta)
				} else {
					out[k] = b
				}
			case symVal:
				in := c.And(c.App("bvuge", sym.Bool, b.t, c.BVLit(uint64(lo), 8)), c.App("bvule", sym.Bool, b.t, c.BVLit(uint64(hi), 8)))
				out[k] = i.mkSym(c.Ite(in, c.App("bvadd", sym.BV8, b.t, c.BVLit(uint64(uint8(delta)), 8)), b.t), types.Uint8)
			}
		}
		// bytes >= 0x80 (multi-byte runes) are left unchanged: exact only for ASCII content
		return symStr{out}.norm()
	}
	S("strings.ToLower", func(i *interpreter, a []value) value { return caseMap(i, toSymStr(a[0]), 'A', 'Z', 32) })
	S("strings.ToUpper", func(i *interpreter, a []value) value { return caseMap(i, toSymStr(a[0]), 'a', 'z', -32) })
	S("strings.EqualFold", func(i *interpreter, a []value) value {
		x := caseMap(i, toSymStr(a[0]), 'A', 'Z', 32)
		y := caseMap(i, toSymStr(a[1]), 'A', 'Z', 32)
		return i.strEq(x, y)
	})
	S("strings.Fields", func(i *interpreter, a []value) value {
		s := toSymStr(a[0])
		var parts []value
		start := -1
		for p := 0; p < len(s.b); p++ {
			if i.truth(i.isSpaceByte(s.b[p])) {
				if start >= 0 {
					parts = append(parts, i.sub(s, start, p).norm())
					start = -1
				}
			} else if start < 0 {
				start = p
			}
		}
		if start >= 0 {
			parts = append(parts, i.sub(s, start, len(s.b)).norm())
		}
		return parts
	})
	S("strings.Compare", func(i *interpreter, a []value) value {
		if i.truth(i.strEq(a[0], a[1])) {
			return 0
		}
		if i.truth(i.strLess(a[0], a[1], false)) {
			return -1
		}
		return 1
	})
	S("unicode/utf8.RuneCountInString", func(i *interpreter, a []value) value {
		s := toSymStr(a[0])
		n := 0
		for p := 0; p < len(s.b); {
			_, w := i.decodeRuneSym(s, p)
			p += w
			n++
		}
		return n
	})
	S("unicode/utf8.ValidString", func(i *interpreter, a []value) value {
		s := toSymStr(a[0])
		for p := 0; p < len(s.b); {
			r, w := i.decodeRuneSym(s, p)
			if rr, ok := r.(int32); ok && rr == 0xFFFD && w == 1 {
				return false
			}
			p += w
		}
		return true
	})
	S("net/http.CanonicalHeaderKey", func(i *interpreter, a []value) value {
		panic(unsupported{"CanonicalHeaderKey of a symbolic header name"})
	})
}

// net/url unescaping of symbolic strings (query-component mode: '+' is a
// space, %XX is a byte). Forks on the class of each byte.
func (i *interpreter) urlUnescapeSym(fr *frame, s symStr, plusIsSpace bool) value {
	c := i.ctx()
	isHex := func(b value) bool {
		return i.truth(i.orV(i.orV(
			i.andV(i.notV(i.byteLess(b, uint8('0'))), i.notV(i.byteLess(uint8('9'), b))),
			i.andV(i.notV(i.byteLess(b, uint8('a'))), i.notV(i.byteLess(uint8('f'), b)))),
			i.andV(i.notV(i.byteLess(b, uint8('A'))), i.notV(i.byteLess(uint8('F'), b)))))
	}
	unhex := func(b value) *sym.Term {
		t := i.term(b)
		dig := c.App("bvsub", sym.BV8, t, c.BVLit('0', 8))
		low := c.App("bvadd", sym.BV8, c.App("bvsub", sym.BV8, t, c.BVLit('a', 8)), c.BVLit(10, 8))
		up := c.App("bvadd", sym.BV8, c.App("bvsub", sym.BV8, t, c.BVLit('A', 8)), c.BVLit(10, 8))
		return c.Ite(c.App("bvule", sym.Bool, t, c.BVLit('9', 8)), dig, c.Ite(c.App("bvuge", sym.Bool, t, c.BVLit('a', 8)), low, up))
	}
	var out []value
	for p := 0; p < len(s.b); p++ {
		b := s.b[p]
		if i.truth(i.byteEq(b, uint8('%'))) {
			if p+2 >= len(s.b) || !isHex(s.b[p+1]) || !isHex(s.b[p+2]) {
				t := lookupType("net/url", "EscapeError")
				return tuple{"", iface{t: t, v: "%"}}
			}
			hi, lo := unhex(s.b[p+1]), unhex(s.b[p+2])
			out = append(out, i.mkSym(c.App("bvor", sym.BV8, c.App("bvshl", sym.BV8, hi, c.BVLit(4, 8)), lo), types.Uint8))
			p += 2
			continue
		}
		if plusIsSpace && i.truth(i.byteEq(b, uint8('+'))) {
			out = append(out, uint8(' '))
			continue
		}
		out = append(out, b)
	}
	return tuple{symStr{out}.norm(), iface{}}
}

func init() {
	summaries["path/filepath.IsAbs"] = func(fr *frame, a []value) value {
		checkNoOpaque("filepath.IsAbs", a...)
		return fr.i.hasPrefixSym(toSymStr(a[0]), toSymStr("/")) // unix
	}
	summaries["path/filepath.ToSlash"] = func(fr *frame, a []value) value { return a[0] } // unix: identity
	summaries["net/url.QueryUnescape"] = func(fr *frame, a []value) value {
		checkNoOpaque("url.QueryUnescape", a...)
		return fr.i.urlUnescapeSym(fr, toSymStr(a[0]), true)
	}
	summaries["net/url.PathUnescape"] = func(fr *frame, a []value) value {
		checkNoOpaque("url.PathUnescape", a...)
		return fr.i.urlUnescapeSym(fr, toSymStr(a[0]), false)
	}
}
