// Copyright 2013 The Go Authors. All rights reserved.
// Use of this source code is governed by a BSD-style
// license that can be found in the LICENSE file.

package interp

import (
	"bytes"
	"fmt"
	"go/constant"
	"go/token"
	"go/types"
	"os"
	"unsafe"

	"golang.org/x/tools/go/ssa"
)

// If the target program panics, the interpreter panics with this type.
type targetPanic struct {
	v value
}

func (p targetPanic) String() string {
	return toString(p.v)
}

// If the target program calls exit, the interpreter panics with this type.
type exitPanic int

// constValue returns the value of the constant with the
// dynamic type tag appropriate for c.Type().
func constValue(c *ssa.Const) value {
	if c.Value == nil {
		return zero(c.Type()) // typed zero
	}
	// c is not a type parameter so it's underlying type is basic.

	if t, ok := c.Type().Underlying().(*types.Basic); ok {
		// TODO(adonovan): eliminate untyped constants from SSA form.
		switch t.Kind() {
		case types.Bool, types.UntypedBool:
			return constant.BoolVal(c.Value)
		case types.Int, types.UntypedInt:
			// Assume sizeof(int) is same on host and target.
			return int(c.Int64())
		case types.Int8:
			return int8(c.Int64())
		case types.Int16:
			return int16(c.Int64())
		case types.Int32, types.UntypedRune:
			return int32(c.Int64())
		case types.Int64:
			return c.Int64()
		case types.Uint:
			// Assume sizeof(uint) is same on host and target.
			return uint(c.Uint64())
		case types.Uint8:
			return uint8(c.Uint64())
		case types.Uint16:
			return uint16(c.Uint64())
		case types.Uint32:
			return uint32(c.Uint64())
		case types.Uint64:
			return c.Uint64()
		case types.Uintptr:
			// Assume sizeof(uintptr) is same on host and target.
			return uintptr(c.Uint64())
		case types.Float32:
			return float32(c.Float64())
		case types.Float64, types.UntypedFloat:
			return c.Float64()
		case types.Complex64:
			return complex64(c.Complex128())
		case types.Complex128, types.UntypedComplex:
			return c.Complex128()
		case types.String, types.UntypedString:
			if c.Value.Kind() == constant.String {
				return constant.StringVal(c.Value)
			}
			return string(rune(c.Int64()))
		}
	}

	panic(fmt.Sprintf("constValue: %s", c))
}

// fitsInt returns true if x fits in type int according to sizes.
func fitsInt(x int64, sizes types.Sizes) bool {
	intSize := sizes.Sizeof(types.Typ[types.Int])
	if intSize < sizes.Sizeof(types.Typ[types.Int64]) {
		maxInt := int64(1)<<((intSize*8)-1) - 1
		minInt := -int64(1) << ((intSize * 8) - 1)
		return minInt <= x && x <= maxInt
	}
	return true
}

// asInt64 converts x, which must be an integer, to an int64.
//
// Callers that need a value directly usable as an int should combine this with fitsInt().
func asInt64(x value) int64 {
	switch x := x.(type) {
	case int:
		return int64(x)
	case int8:
		return int64(x)
	case int16:
		return int64(x)
	case int32:
		return int64(x)
	case int64:
		return x
	case uint:
		return int64(x)
	case uint8:
		return int64(x)
	case uint16:
		return int64(x)
	case uint32:
		return int64(x)
	case uint64:
		return int64(x)
	case uintptr:
		return int64(x)
	}
	panic(fmt.Sprintf("cannot convert %T to int64", x))
}

// asUint64 converts x, which must be an unsigned integer, to a uint64
// suitable for use as a bitwise shift count.
func asUint64(x value) uint64 {
	switch x := x.(type) {
	case uint:
		return uint64(x)
	case uint8:
		return uint64(x)
	case uint16:
		return uint64(x)
	case uint32:
		return uint64(x)
	case uint64:
		return x
	case uintptr:
		return uint64(x)
	}
	panic(fmt.Sprintf("cannot convert %T to uint64", x))
}

// asUnsigned returns the value of x, which must be an integer type, as its equivalent unsigned type,
// and returns true if x is non-negative.
func asUnsigned(x value) (value, bool) {
	switch x := x.(type) {
	case int:
		return uint(x), x >= 0
	case int8:
		return uint8(x), x >= 0
	case int16:
		return uint16(x), x >= 0
	case int32:
		return uint32(x), x >= 0
	case int64:
		return uint64(x), x >= 0
	case uint, uint8, uint32, uint64, uintptr:
		return x, true
	}
	panic(fmt.Sprintf("cannot convert %T to unsigned", x))
}

// zero returns a new "zero" value of the specified type.
func zero(t types.Type) value {
	switch t := t.(type) {
	case *types.Basic:
		if t.Kind() == types.UntypedNil {
			panic("untyped nil has no zero value")
		}
		if t.Info()&types.IsUntyped != 0 {
			// TODO(adonovan): make it an invariant that
			// this is unreachable.  Currently some
			// constants have 'untyped' types when they
			// should be defaulted by the typechecker.
			t = types.Default(t).(*types.Basic)
		}
		switch t.Kind() {
		case types.Bool:
			return false
		case types.Int:
			return int(0)
		case types.Int8:
			return int8(0)
		case types.Int16:
			return int16(0)
		case types.Int32:
			return int32(0)
		case types.Int64:
			return int64(0)
		case types.Uint:
			return uint(0)
		case types.Uint8:
			return uint8(0)
		case types.Uint16:
			return uint16(0)
		case types.Uint32:
			return uint32(0)
		case types.Uint64:
			return uint64(0)
		case types.Uintptr:
			return uintptr(0)
		case types.Float32:
			return float32(0)
		case types.Float64:
			return float64(0)
		case types.Complex64:
			return complex64(0)
		case types.Complex128:
			return complex128(0)
		case types.String:
			return ""
		case types.UnsafePointer:
			return unsafe.Pointer(nil)
		default:
			panic(fmt.Sprint("zero for unexpected type:", t))
		}
	case *types.Pointer:
		return (*value)(nil)
	case *types.Array:
		a := make(array, t.Len())
		for i := range a {
			a[i] = zero(t.Elem())
		}
		return a
	case *types.Named:
		return zero(t.Underlying())
	case *types.Alias:
		return zero(types.Unalias(t))
	case *types.Interface:
		return iface{} // nil type, methodset and value
	case *types.Slice:
		return []value(nil)
	case *types.Struct:
		s := make(structure, t.NumFields())
		for i := range s {
			s[i] = zero(t.Field(i).Type())
		}
		return s
	case *types.Tuple:
		if t.Len() == 1 {
			return zero(t.At(0).Type())
		}
		s := make(tuple, t.Len())
		for i := range s {
			s[i] = zero(t.At(i).Type())
		}
		return s
	case *types.Chan:
		return chan value(nil)
	case *types.Map:
		return (*omap)(nil)
	case *types.Signature:
		return (*ssa.Function)(nil)
	}
	panic(fmt.Sprint("zero: unexpected ", t))
}

// slice returns x[lo:hi:max].  Any of lo, hi and max may be nil.
func (i *interpreter) slice(x, lo, hi, max value) value {
	var Len, Cap int
	switch x := x.(type) {
	case string:
		Len = len(x)
	case symStr:
		Len = x.length()
	case []value:
		Len = len(x)
		Cap = cap(x)
	case *value: // *array
		a := (*x).(array)
		Len = len(a)
		Cap = cap(a)
	}

	l := int64(0)
	if lo != nil {
		l = i.concretize(lo)
	}

	h := int64(Len)
	if hi != nil {
		h = i.concretize(hi)
	}

	m := int64(Cap)
	if max != nil {
		m = i.concretize(max)
	}

	switch x := x.(type) {
	case string:
		return x[l:h]
	case symStr:
		return symStr{x.b[l:h:h]}.norm()
	case []value:
		return x[l:h:m]
	case *value: // *array
		a := (*x).(array)
		return []value(a)[l:h:m]
	}
	panic(fmt.Sprintf("slice: unexpected X type: %T", x))
}

// lookup returns x[idx] where x is a map.
func (i *interpreter) lookup(instr *ssa.Lookup, x, idx value) value {
	switch x := x.(type) { // map or string
	case *omap:
		v, ok := x.lookup(i, idx)
		if !ok {
			v = zero(instr.X.Type().Underlying().(*types.Map).Elem())
		}
		if instr.CommaOk {
			v = tuple{v, ok}
		}
		return v
	}
	panic(fmt.Sprintf("unexpected x type in Lookup: %T", x))
}

// binop implements all arithmetic and logical binary operators for
// numeric datatypes and strings.  Both operands must have identical
// dynamic type.
func (i *interpreter) binop(op token.Token, t types.Type, x, y value) value {
	switch x.(type) {
	case symStr:
		return i.symStrBinop(op, x, y)
	case symVal:
		return i.symBinop(op, x, y)
	}
	switch y.(type) {
	case symStr:
		return i.symStrBinop(op, x, y)
	case symVal:
		return i.symBinop(op, x, y)
	}
	switch op {
	case token.ADD:
		switch x.(type) {
		case int:
			return x.(int) + y.(int)
		case int8:
			return x.(int8) + y.(int8)
		case int16:
			return x.(int16) + y.(int16)
		case int32:
			return x.(int32) + y.(int32)
		case int64:
			return x.(int64) + y.(int64)
		case uint:
			return x.(uint) + y.(uint)
		case uint8:
			return x.(uint8) + y.(uint8)
		case uint16:
			return x.(uint16) + y.(uint16)
		case uint32:
			return x.(uint32) + y.(uint32)
		case uint64:
			return x.(uint64) + y.(uint64)
		case uintptr:
			return x.(uintptr) + y.(uintptr)
		case float32:
			return x.(float32) + y.(float32)
		case float64:
			return x.(float64) + y.(float64)
		case complex64:
			return x.(complex64) + y.(complex64)
		case complex128:
			return x.(complex128) + y.(complex128)
		case string:
			return x.(string) + y.(string)
		}

	case token.SUB:
		switch x.(type) {
		case int:
			return x.(int) - y.(int)
		case int8:
			return x.(int8) - y.(int8)
		case int16:
			return x.(int16) - y.(int16)
		case int32:
			return x.(int32) - y.(int32)
		case int64:
			return x.(int64) - y.(int64)
		case uint:
			return x.(uint) - y.(uint)
		case uint8:
			return x.(uint8) - y.(uint8)
		case uint16:
			return x.(uint16) - y.(uint16)
		case uint32:
			return x.(uint32) - y.(uint32)
		case uint64:
			return x.(uint64) - y.(uint64)
		case uintptr:
			return x.(uintptr) - y.(uintptr)
		case float32:
			return x.(float32) - y.(float32)
		case float64:
			return x.(float64) - y.(float64)
		case complex64:
			return x.(complex64) - y.(complex64)
		case complex128:
			return x.(complex128) - y.(complex128)
		}

	case token.MUL:
		switch x.(type) {
		case int:
			return x.(int) * y.(int)
		case int8:
			return x.(int8) * y.(int8)
		case int16:
			return x.(int16) * y.(int16)
		case int32:
			return x.(int32) * y.(int32)
		case int64:
			return x.(int64) * y.(int64)
		case uint:
			return x.(uint) * y.(uint)
		case uint8:
			return x.(uint8) * y.(uint8)
		case uint16:
			return x.(uint16) * y.(uint16)
		case uint32:
			return x.(uint32) * y.(uint32)
		case uint64:
			return x.(uint64) * y.(uint64)
		case uintptr:
			return x.(uintptr) * y.(uintptr)
		case float32:
			return x.(float32) * y.(float32)
		case float64:
			return x.(float64) * y.(float64)
		case complex64:
			return x.(complex64) * y.(complex64)
		case complex128:
			return x.(complex128) * y.(complex128)
		}

	case token.QUO:
		switch x.(type) {
		case int:
			return x.(int) / y.(int)
		case int8:
			return x.(int8) / y.(int8)
		case int16:
			return x.(int16) / y.(int16)
		case int32:
			return x.(int32) / y.(int32)
		case int64:
			return x.(int64) / y.(int64)
		case uint:
			return x.(uint) / y.(uint)
		case uint8:
			return x.(uint8) / y.(uint8)
		case uint16:
			return x.(uint16) / y.(uint16)
		case uint32:
			return x.(uint32) / y.(uint32)
		case uint64:
			return x.(uint64) / y.(uint64)
		case uintptr:
			return x.(uintptr) / y.(uintptr)
		case float32:
			return x.(float32) / y.(float32)
		case float64:
			return x.(float64) / y.(float64)
		case complex64:
			return x.(complex64) / y.(complex64)
		case complex128:
			return x.(complex128) / y.(complex128)
		}

	case token.REM:
		switch x.(type) {
		case int:
			return x.(int) % y.(int)
		case int8:
			return x.(int8) % y.(int8)
		case int16:
			return x.(int16) % y.(int16)
		case int32:
			return x.(int32) % y.(int32)
		case int64:
			return x.(int64) % y.(int64)
		case uint:
			return x.(uint) % y.(uint)
		case uint8:
			return x.(uint8) % y.(uint8)
		case uint16:
			return x.(uint16) % y.(uint16)
		case uint32:
			return x.(uint32) % y.(uint32)
		case uint64:
			return x.(uint64) % y.(uint64)
		case uintptr:
			return x.(uintptr) % y.(uintptr)
		}

	case token.AND:
		switch x.(type) {
		case int:
			return x.(int) & y.(int)
		case int8:
			return x.(int8) & y.(int8)
		case int16:
			return x.(int16) & y.(int16)
		case int32:
			return x.(int32) & y.(int32)
		case int64:
			return x.(int64) & y.(int64)
		case uint:
			return x.(uint) & y.(uint)
		case uint8:
			return x.(uint8) & y.(uint8)
		case uint16:
			return x.(uint16) & y.(uint16)
		case uint32:
			return x.(uint32) & y.(uint32)
		case uint64:
			return x.(uint64) & y.(uint64)
		case uintptr:
			return x.(uintptr) & y.(uintptr)
		}

	case token.OR:
		switch x.(type) {
		case int:
			return x.(int) | y.(int)
		case int8:
			return x.(int8) | y.(int8)
		case int16:
			return x.(int16) | y.(int16)
		case int32:
			return x.(int32) | y.(int32)
		case int64:
			return x.(int64) | y.(int64)
		case uint:
			return x.(uint) | y.(uint)
		case uint8:
			return x.(uint8) | y.(uint8)
		case uint16:
			return x.(uint16) | y.(uint16)
		case uint32:
			return x.(uint32) | y.(uint32)
		case uint64:
			return x.(uint64) | y.(uint64)
		case uintptr:
			return x.(uintptr) | y.(uintptr)
		}

	case token.XOR:
		switch x.(type) {
		case int:
			return x.(int) ^ y.(int)
		case int8:
			return x.(int8) ^ y.(int8)
		case int16:
			return x.(int16) ^ y.(int16)
		case int32:
			return x.(int32) ^ y.(int32)
		case int64:
			return x.(int64) ^ y.(int64)
		case uint:
			return x.(uint) ^ y.(uint)
		case uint8:
			return x.(uint8) ^ y.(uint8)
		case uint16:
			return x.(uint16) ^ y.(uint16)
		case uint32:
			return x.(uint32) ^ y.(uint32)
		case uint64:
			return x.(uint64) ^ y.(uint64)
		case uintptr:
			return x.(uintptr) ^ y.(uintptr)
		}

	case token.AND_NOT:
		switch x.(type) {
		case int:
			return x.(int) &^ y.(int)
		case int8:
			return x.(int8) &^ y.(int8)
		case int16:
			return x.(int16) &^ y.(int16)
		case int32:
			return x.(int32) &^ y.(int32)
		case int64:
			return x.(int64) &^ y.(int64)
		case uint:
			return x.(uint) &^ y.(uint)
		case uint8:
			return x.(uint8) &^ y.(uint8)
		case uint16:
			return x.(uint16) &^ y.(uint16)
		case uint32:
			return x.(uint32) &^ y.(uint32)
		case uint64:
			return x.(uint64) &^ y.(uint64)
		case uintptr:
			return x.(uintptr) &^ y.(uintptr)
		}

	case token.SHL:
		u, ok := asUnsigned(y)
		if !ok {
			panic("negative shift amount")
		}
		y := asUint64(u)
		switch x.(type) {
		case int:
			return x.(int) << y
		case int8:
			return x.(int8) << y
		case int16:
			return x.(int16) << y
		case int32:
			return x.(int32) << y
		case int64:
			return x.(int64) << y
		case uint:
			return x.(uint) << y
		case uint8:
			return x.(uint8) << y
		case uint16:
			return x.(uint16) << y
		case uint32:
			return x.(uint32) << y
		case uint64:
			return x.(uint64) << y
		case uintptr:
			return x.(uintptr) << y
		}

	case token.SHR:
		u, ok := asUnsigned(y)
		if !ok {
			panic("negative shift amount")
		}
		y := asUint64(u)
		switch x.(type) {
		case int:
			return x.(int) >> y
		case int8:
			return x.(int8) >> y
		case int16:
			return x.(int16) >> y
		case int32:
			return x.(int32) >> y
		case int64:
			return x.(int64) >> y
		case uint:
			return x.(uint) >> y
		case uint8:
			return x.(uint8) >> y
		case uint16:
			return x.(uint16) >> y
		case uint32:
			return x.(uint32) >> y
		case uint64:
			return x.(uint64) >> y
		case uintptr:
			return x.(uintptr) >> y
		}

	case token.LSS:
		switch x.(type) {
		case int:
			return x.(int) < y.(int)
		case int8:
			return x.(int8) < y.(int8)
		case int16:
			return x.(int16) < y.(int16)
		case int32:
			return x.(int32) < y.(int32)
		case int64:
			return x.(int64) < y.(int64)
		case uint:
			return x.(uint) < y.(uint)
		case uint8:
			return x.(uint8) < y.(uint8)
		case uint16:
			return x.(uint16) < y.(uint16)
		case uint32:
			return x.(uint32) < y.(uint32)
		case uint64:
			return x.(uint64) < y.(uint64)
		case uintptr:
			return x.(uintptr) < y.(uintptr)
		case float32:
			return x.(float32) < y.(float32)
		case float64:
			return x.(float64) < y.(float64)
		case string:
			return x.(string) < y.(string)
		}

	case token.LEQ:
		switch x.(type) {
		case int:
			return x.(int) <= y.(int)
		case int8:
			return x.(int8) <= y.(int8)
		case int16:
			return x.(int16) <= y.(int16)
		case int32:
			return x.(int32) <= y.(int32)
		case int64:
			return x.(int64) <= y.(int64)
		case uint:
			return x.(uint) <= y.(uint)
		case uint8:
			return x.(uint8) <= y.(uint8)
		case uint16:
			return x.(uint16) <= y.(uint16)
		case uint32:
			return x.(uint32) <= y.(uint32)
		case uint64:
			return x.(uint64) <= y.(uint64)
		case uintptr:
			return x.(uintptr) <= y.(uintptr)
		case float32:
			return x.(float32) <= y.(float32)
		case float64:
			return x.(float64) <= y.(float64)
		case string:
			return x.(string) <= y.(string)
		}

	case token.EQL:
		return i.eqnil(t, x, y)

	case token.NEQ:
		return i.notV(i.eqnil(t, x, y))

	case token.GTR:
		switch x.(type) {
		case int:
			return x.(int) > y.(int)
		case int8:
			return x.(int8) > y.(int8)
		case int16:
			return x.(int16) > y.(int16)
		case int32:
			return x.(int32) > y.(int32)
		case int64:
			return x.(int64) > y.(int64)
		case uint:
			return x.(uint) > y.(uint)
		case uint8:
			return x.(uint8) > y.(uint8)
		case uint16:
			return x.(uint16) > y.(uint16)
		case uint32:
			return x.(uint32) > y.(uint32)
		case uint64:
			return x.(uint64) > y.(uint64)
		case uintptr:
			return x.(uintptr) > y.(uintptr)
		case float32:
			return x.(float32) > y.(float32)
		case float64:
			return x.(float64) > y.(float64)
		case string:
			return x.(string) > y.(string)
		}

	case token.GEQ:
		switch x.(type) {
		case int:
			return x.(int) >= y.(int)
		case int8:
			return x.(int8) >= y.(int8)
		case int16:
			return x.(int16) >= y.(int16)
		case int32:
			return x.(int32) >= y.(int32)
		case int64:
			return x.(int64) >= y.(int64)
		case uint:
			return x.(uint) >= y.(uint)
		case uint8:
			return x.(uint8) >= y.(uint8)
		case uint16:
			return x.(uint16) >= y.(uint16)
		case uint32:
			return x.(uint32) >= y.(uint32)
		case uint64:
			return x.(uint64) >= y.(uint64)
		case uintptr:
			return x.(uintptr) >= y.(uintptr)
		case float32:
			return x.(float32) >= y.(float32)
		case float64:
			return x.(float64) >= y.(float64)
		case string:
			return x.(string) >= y.(string)
		}
	}
	panic(fmt.Sprintf("invalid binary op: %T %s %T", x, op, y))
}

// eqnil returns the comparison x == y using the equivalence relation
// appropriate for type t.
// If t is a reference type, at most one of x or y may be a nil value
// of that type.
func (i *interpreter) eqnil(t types.Type, x, y value) value {
	switch t.Underlying().(type) {
	case *types.Map, *types.Signature, *types.Slice:
		// Since these types don't support comparison,
		// one of the operands must be a literal nil.
		return isNilRef(x) == isNilRef(y)
	}
	return i.equalsV(t, x, y)
}

func isNilRef(x value) bool {
	switch x := x.(type) {
	case *omap:
		return x == nil
	case *ssa.Function:
		return x == nil
	case *closure:
		return x == nil
	case *nativeFn:
		return x == nil
	case *ssa.Builtin:
		return x == nil
	case []value:
		return x == nil
	}
	panic(fmt.Sprintf("isNilRef: illegal dynamic type: %T", x))
}

func (i *interpreter) unop(instr *ssa.UnOp, x value) value {
	if sv, ok := x.(symVal); ok && instr.Op != token.MUL {
		return i.symUnop(instr.Op, sv)
	}
	switch instr.Op {
	case token.ARROW: // receive
		panic(unsupported{"channel receive"})
	case token.SUB:
		switch x := x.(type) {
		case int:
			return -x
		case int8:
			return -x
		case int16:
			return -x
		case int32:
			return -x
		case int64:
			return -x
		case uint:
			return -x
		case uint8:
			return -x
		case uint16:
			return -x
		case uint32:
			return -x
		case uint64:
			return -x
		case uintptr:
			return -x
		case float32:
			return -x
		case float64:
			return -x
		case complex64:
			return -x
		case complex128:
			return -x
		}
	case token.MUL:
		return load(mustDeref(instr.X.Type()), x.(*value))
	case token.NOT:
		return !x.(bool)
	case token.XOR:
		switch x := x.(type) {
		case int:
			return ^x
		case int8:
			return ^x
		case int16:
			return ^x
		case int32:
			return ^x
		case int64:
			return ^x
		case uint:
			return ^x
		case uint8:
			return ^x
		case uint16:
			return ^x
		case uint32:
			return ^x
		case uint64:
			return ^x
		case uintptr:
			return ^x
		}
	}
	panic(fmt.Sprintf("invalid unary op %s %T", instr.Op, x))
}

// typeAssert checks whether dynamic type of itf is instr.AssertedType.
// It returns the extracted value on success, and panics on failure,
// unless instr.CommaOk, in which case it always returns a "value,ok" tuple.
func typeAssert(i *interpreter, instr *ssa.TypeAssert, itf iface) value {
	var v value
	err := ""
	if itf.t == nil {
		err = fmt.Sprintf("interface conversion: interface is nil, not %s", instr.AssertedType)

	} else if idst, ok := instr.AssertedType.Underlying().(*types.Interface); ok {
		v = itf
		err = checkInterface(i, idst, itf)

	} else if types.Identical(itf.t, instr.AssertedType) {
		v = itf.v // extract value

	} else {
		err = fmt.Sprintf("interface conversion: interface is %s, not %s", itf.t, instr.AssertedType)
	}
	// Note: if instr.Underlying==true ever becomes reachable from interp check that
	// types.Identical(itf.t.Underlying(), instr.AssertedType)

	if err != "" {
		if !instr.CommaOk {
			rtPanic(i, "runtime error: "+err)
		}
		return tuple{zero(instr.AssertedType), false}
	}
	if instr.CommaOk {
		return tuple{v, true}
	}
	return v
}

// callBuiltin interprets a call to builtin fn with arguments args,
// returning its result.
func callBuiltin(caller *frame, callpos token.Pos, fn *ssa.Builtin, args []value) value {
	i := caller.i
	switch fn.Name() {
	case "append":
		if len(args) == 1 {
			return args[0]
		}
		arg0 := args[0].([]value)
		if i.shared != nil && len(arg0) < cap(arg0) {
			i.shared.onAppend(caller, arg0)
		}
		switch s := args[1].(type) {
		case string:
			// append([]byte, ...string) []byte
			for k := 0; k < len(s); k++ {
				arg0 = append(arg0, s[k])
			}
			return arg0
		case symStr:
			if s.hasOpaque() {
				panic(unsupported{"append of a string containing a formatted symbolic number"})
			}
			return append(arg0, s.b...)
		}
		// append([]T, ...[]T) []T
		src := args[1].([]value)
		if len(src) == 0 {
			return arg0
		}
		cp := make([]value, len(src))
		for k := range src {
			cp[k] = copyVal(src[k])
		}
		return append(arg0, cp...)

	case "copy": // copy([]T, []T) int or copy([]byte, string) int
		src := args[1]
		switch s := src.(type) {
		case string:
			src = []value(toSymStr(s).b)
		case symStr:
			src = []value(s.b)
		}
		dst := args[0].([]value)
		if i.shared != nil && len(dst) > 0 {
			i.shared.onAppend(caller, dst[:0])
		}
		srcv := src.([]value)
		n := len(dst)
		if len(srcv) < n {
			n = len(srcv)
		}
		tmp := make([]value, n)
		for k := 0; k < n; k++ {
			tmp[k] = copyVal(srcv[k])
		}
		return copy(dst, tmp)

	case "close": // close(chan T)
		panic(unsupported{"close(chan)"})

	case "delete": // delete(map[K]value, K)
		m := args[0].(*omap)
		if m != nil {
			if i.shared != nil {
				i.shared.onMapWrite(caller, m, nil, nil, nil)
			}
			m.delete(i, args[1])
		}
		return nil

	case "clear":
		switch x := args[0].(type) {
		case *omap:
			if x != nil {
				x.keys, x.vals, x.idx, x.nsym = nil, nil, map[value]int{}, 0
			}
		default:
			panic(unsupported{"clear of non-map"})
		}
		return nil

	case "print", "println": // print(any, ...)
		ln := fn.Name() == "println"
		var buf bytes.Buffer
		for k, arg := range args {
			if k > 0 && ln {
				buf.WriteRune(' ')
			}
			buf.WriteString(toString(arg))
		}
		if ln {
			buf.WriteRune('\n')
		}
		os.Stderr.Write(buf.Bytes())
		return nil

	case "len":
		switch x := args[0].(type) {
		case string:
			return len(x)
		case symStr:
			return x.length()
		case array:
			return len(x)
		case *value:
			return len((*x).(array))
		case []value:
			return len(x)
		case *omap:
			return x.len()
		default:
			panic(fmt.Sprintf("len: illegal operand: %T", x))
		}

	case "cap":
		switch x := args[0].(type) {
		case array:
			return cap(x)
		case *value:
			return cap((*x).(array))
		case []value:
			return cap(x)
		default:
			panic(fmt.Sprintf("cap: illegal operand: %T", x))
		}

	case "min":
		return foldLeft(i.min, args)
	case "max":
		return foldLeft(i.max, args)

	case "real":
		switch c := args[0].(type) {
		case complex64:
			return real(c)
		case complex128:
			return real(c)
		default:
			panic(fmt.Sprintf("real: illegal operand: %T", c))
		}

	case "imag":
		switch c := args[0].(type) {
		case complex64:
			return imag(c)
		case complex128:
			return imag(c)
		default:
			panic(fmt.Sprintf("imag: illegal operand: %T", c))
		}

	case "complex":
		switch f := args[0].(type) {
		case float32:
			return complex(f, args[1].(float32))
		case float64:
			return complex(f, args[1].(float64))
		default:
			panic(fmt.Sprintf("complex: illegal operand: %T", f))
		}

	case "panic":
		// ssa.Panic handles most cases; this is only for "go
		// panic" or "defer panic".
		panic(targetPanic{args[0]})

	case "recover":
		return doRecover(caller)

	case "ssa:wrapnilchk":
		recv := args[0]
		if recv.(*value) == nil {
			rtPanic(i, "runtime error: invalid memory address or nil pointer dereference")
		}
		return recv

	case "ssa:deferstack":
		return &caller.defers
	}

	panic("unknown built-in: " + fn.Name())
}

func rangeIter(x value, t types.Type, desc bool) iter {
	switch x := x.(type) {
	case *omap:
		it := newMapIter(x)
		if desc {
			for a, b := 0, len(it.keys)-1; a < b; a, b = a+1, b-1 {
				it.keys[a], it.keys[b] = it.keys[b], it.keys[a]
			}
		}
		return it
	case string:
		return &stringIter{s: x}
	case symStr:
		return &stringIter{s: x}
	}
	panic(fmt.Sprintf("cannot range over %T", x))
}

// widen widens a basic typed value x to the widest type of its
// category, one of:
//
//	bool, int64, uint64, float64, complex128, string.
//
// This is inefficient but reduces the size of the cross-product of
// cases we have to consider.
func widen(x value) value {
	switch y := x.(type) {
	case bool, int64, uint64, float64, complex128, string, unsafe.Pointer:
		return x
	case int:
		return int64(y)
	case int8:
		return int64(y)
	case int16:
		return int64(y)
	case int32:
		return int64(y)
	case uint:
		return uint64(y)
	case uint8:
		return uint64(y)
	case uint16:
		return uint64(y)
	case uint32:
		return uint64(y)
	case uintptr:
		return uint64(y)
	case float32:
		return float64(y)
	case complex64:
		return complex128(y)
	}
	panic(fmt.Sprintf("cannot widen %T", x))
}

// conv converts the value x of type t_src to type t_dst and returns
// the result.
// Possible cases are described with the ssa.Convert operator.
func (i *interpreter) conv(t_dst, t_src types.Type, x value) value {
	ut_src := t_src.Underlying()
	ut_dst := t_dst.Underlying()

	// Destination type is not an "untyped" type.
	if b, ok := ut_dst.(*types.Basic); ok && b.Info()&types.IsUntyped != 0 {
		panic("oops: conversion to 'untyped' type: " + b.String())
	}

	// Nor is it an interface type.
	if _, ok := ut_dst.(*types.Interface); ok {
		if _, ok := ut_src.(*types.Interface); ok {
			panic("oops: Convert should be ChangeInterface")
		} else {
			panic("oops: Convert should be MakeInterface")
		}
	}

	// Remaining conversions:
	//    + untyped string/number/bool constant to a specific
	//      representation.
	//    + conversions between non-complex numeric types.
	//    + conversions between complex numeric types.
	//    + integer/[]byte/[]rune -> string.
	//    + string -> []byte/[]rune.
	//
	// All are treated the same: first we extract the value to the
	// widest representation (int64, uint64, float64, complex128,
	// or string), then we convert it to the desired type.

	switch ut_src := ut_src.(type) {
	case *types.Pointer:
		switch ut_dst := ut_dst.(type) {
		case *types.Basic:
			// *value to unsafe.Pointer?
			if ut_dst.Kind() == types.UnsafePointer {
				return unsafe.Pointer(x.(*value))
			}
		}

	case *types.Slice:
		// []byte or []rune -> string
		switch ut_src.Elem().Underlying().(*types.Basic).Kind() {
		case types.Byte:
			x := x.([]value)
			return symStr{append([]value(nil), x...)}.norm()

		case types.Rune:
			x := x.([]value)
			r := make([]rune, 0, len(x))
			for i := range x {
				r = append(r, x[i].(rune))
			}
			return string(r)
		}

	case *types.Basic:
		if sv, ok := x.(symVal); ok {
			if bd, ok := ut_dst.(*types.Basic); ok {
				if bd.Kind() == types.String {
					// string(rune) with a symbolic rune: ASCII only
					if i.truth(i.symBinop(token.LSS, sv, concreteOfKind(sv.k, 0x80))) && i.truth(i.symBinop(token.GEQ, sv, concreteOfKind(sv.k, 0))) {
						return symStr{[]value{i.symConv(types.Uint8, sv)}}
					}
					panic(unsupported{"string(rune) of a symbolic non-ASCII rune"})
				}
				return i.symConv(bd.Kind(), sv)
			}
			panic(unsupported{"conversion of symbolic scalar to " + t_dst.String()})
		}
		if ss, ok := x.(symStr); ok {
			switch ut_dst := ut_dst.(type) {
			case *types.Slice:
				if ut_dst.Elem().Underlying().(*types.Basic).Kind() == types.Byte {
					if ss.hasOpaque() {
						panic(unsupported{"[]byte of a string containing a formatted symbolic number"})
					}
					return append(make([]value, 0, len(ss.b)), ss.b...)
				}
				// []rune: ASCII-only via decodeRuneSym
				var res []value
				for p := 0; p < len(ss.b); {
					r, n := i.decodeRuneSym(ss, p)
					res = append(res, r)
					p += n
				}
				return res
			case *types.Basic:
				if ut_dst.Kind() == types.String {
					return ss
				}
			}
			panic(unsupported{"conversion of symbolic string to " + t_dst.String()})
		}
		x = widen(x)

		// integer -> string?
		if ut_src.Info()&types.IsInteger != 0 {
			if ut_dst, ok := ut_dst.(*types.Basic); ok && ut_dst.Kind() == types.String {
				return fmt.Sprintf("%c", x)
			}
		}

		// string -> []rune, []byte or string?
		if s, ok := x.(string); ok {
			switch ut_dst := ut_dst.(type) {
			case *types.Slice:
				var res []value
				switch ut_dst.Elem().Underlying().(*types.Basic).Kind() {
				case types.Rune:
					for _, r := range []rune(s) {
						res = append(res, r)
					}
					return res
				case types.Byte:
					res = make([]value, 0, len(s))
					for _, b := range []byte(s) {
						res = append(res, b)
					}
					return res
				}
			case *types.Basic:
				if ut_dst.Kind() == types.String {
					return x.(string)
				}
			}
			break // fail: no other conversions for string
		}

		// unsafe.Pointer -> *value
		if ut_src.Kind() == types.UnsafePointer {
			// TODO(adonovan): this is wrong and cannot
			// really be fixed with the current design.
			//
			// return (*value)(x.(unsafe.Pointer))
			// creates a new pointer of a different
			// type but the underlying interface value
			// knows its "true" type and so cannot be
			// meaningfully used through the new pointer.
			//
			// To make this work, the interpreter needs to
			// simulate the memory layout of a real
			// compiled implementation.
			//
			// To at least preserve type-safety, we'll
			// just return the zero value of the
			// destination type.
			return zero(t_dst)
		}

		// Conversions between complex numeric types?
		if ut_src.Info()&types.IsComplex != 0 {
			switch ut_dst.(*types.Basic).Kind() {
			case types.Complex64:
				return complex64(x.(complex128))
			case types.Complex128:
				return x.(complex128)
			}
			break // fail: no other conversions for complex
		}

		// Conversions between non-complex numeric types?
		if ut_src.Info()&types.IsNumeric != 0 {
			kind := ut_dst.(*types.Basic).Kind()
			switch x := x.(type) {
			case int64: // signed integer -> numeric?
				switch kind {
				case types.Int:
					return int(x)
				case types.Int8:
					return int8(x)
				case types.Int16:
					return int16(x)
				case types.Int32:
					return int32(x)
				case types.Int64:
					return int64(x)
				case types.Uint:
					return uint(x)
				case types.Uint8:
					return uint8(x)
				case types.Uint16:
					return uint16(x)
				case types.Uint32:
					return uint32(x)
				case types.Uint64:
					return uint64(x)
				case types.Uintptr:
					return uintptr(x)
				case types.Float32:
					return float32(x)
				case types.Float64:
					return float64(x)
				}

			case uint64: // unsigned integer -> numeric?
				switch kind {
				case types.Int:
					return int(x)
				case types.Int8:
					return int8(x)
				case types.Int16:
					return int16(x)
				case types.Int32:
					return int32(x)
				case types.Int64:
					return int64(x)
				case types.Uint:
					return uint(x)
				case types.Uint8:
					return uint8(x)
				case types.Uint16:
					return uint16(x)
				case types.Uint32:
					return uint32(x)
				case types.Uint64:
					return uint64(x)
				case types.Uintptr:
					return uintptr(x)
				case types.Float32:
					return float32(x)
				case types.Float64:
					return float64(x)
				}

			case float64: // floating point -> numeric?
				switch kind {
				case types.Int:
					return int(x)
				case types.Int8:
					return int8(x)
				case types.Int16:
					return int16(x)
				case types.Int32:
					return int32(x)
				case types.Int64:
					return int64(x)
				case types.Uint:
					return uint(x)
				case types.Uint8:
					return uint8(x)
				case types.Uint16:
					return uint16(x)
				case types.Uint32:
					return uint32(x)
				case types.Uint64:
					return uint64(x)
				case types.Uintptr:
					return uintptr(x)
				case types.Float32:
					return float32(x)
				case types.Float64:
					return float64(x)
				}
			}
		}
	}

	panic(fmt.Sprintf("unsupported conversion: %s  -> %s, dynamic type %T", t_src, t_dst, x))
}

// sliceToArrayPointer converts the value x of type slice to type t_dst
// a pointer to array and returns the result.
func sliceToArrayPointer(t_dst, t_src types.Type, x value) value {
	if _, ok := t_src.Underlying().(*types.Slice); ok {
		if ptr, ok := t_dst.Underlying().(*types.Pointer); ok {
			if arr, ok := ptr.Elem().Underlying().(*types.Array); ok {
				x := x.([]value)
				if arr.Len() > int64(len(x)) {
					panic("array length is greater than slice length")
				}
				if x == nil {
					return zero(t_dst)
				}
				v := value(array(x[:arr.Len()]))
				return &v
			}
		}
	}

	panic(fmt.Sprintf("unsupported conversion: %s  -> %s, dynamic type %T", t_src, t_dst, x))
}

// checkInterface checks that the method set of x implements the
// interface itype.
// On success it returns "", on failure, an error message.
func checkInterface(i *interpreter, itype *types.Interface, x iface) string {
	if meth, _ := types.MissingMethod(x.t, itype, true); meth != nil {
		return fmt.Sprintf("interface conversion: %v is not %v: missing method %s",
			x.t, itype, meth.Name())
	}
	return "" // ok
}

func foldLeft(op func(value, value) value, args []value) value {
	x := args[0]
	for _, arg := range args[1:] {
		x = op(x, arg)
	}
	return x
}

func (i *interpreter) min(x, y value) value {
	if !isSymbolic(x) && !isSymbolic(y) {
		switch x := x.(type) {
		case float32:
			return fmin(x, y.(float32))
		case float64:
			return fmin(x, y.(float64))
		}
	}
	// return (y < x) ? y : x
	if i.truth(i.binop(token.LSS, nil, y, x)) {
		return y
	}
	return x
}

func (i *interpreter) max(x, y value) value {
	if !isSymbolic(x) && !isSymbolic(y) {
		switch x := x.(type) {
		case float32:
			return fmax(x, y.(float32))
		case float64:
			return fmax(x, y.(float64))
		}
	}
	// return (y > x) ? y : x
	if i.truth(i.binop(token.GTR, nil, y, x)) {
		return y
	}
	return x
}

// copied from $GOROOT/src/runtime/minmax.go

type floaty interface{ ~float32 | ~float64 }

func fmin[F floaty](x, y F) F {
	if y != y || y < x {
		return y
	}
	if x != x || x < y || x != 0 {
		return x
	}
	// x and y are both ±0
	// if either is -0, return -0; else return +0
	return forbits(x, y)
}

func fmax[F floaty](x, y F) F {
	if y != y || y > x {
		return y
	}
	if x != x || x > y || x != 0 {
		return x
	}
	// x and y are both ±0
	// if both are -0, return -0; else return +0
	return fandbits(x, y)
}

func forbits[F floaty](x, y F) F {
	switch unsafe.Sizeof(x) {
	case 4:
		*(*uint32)(unsafe.Pointer(&x)) |= *(*uint32)(unsafe.Pointer(&y))
	case 8:
		*(*uint64)(unsafe.Pointer(&x)) |= *(*uint64)(unsafe.Pointer(&y))
	}
	return x
}

func fandbits[F floaty](x, y F) F {
	switch unsafe.Sizeof(x) {
	case 4:
		*(*uint32)(unsafe.Pointer(&x)) &= *(*uint32)(unsafe.Pointer(&y))
	case 8:
		*(*uint64)(unsafe.Pointer(&x)) &= *(*uint64)(unsafe.Pointer(&y))
	}
	return x
}
