package interp

// Additional reflection emulation over go/types (DESIGN.md section 2.5).

import (
	"fmt"
	"go/types"
	"reflect"
)

func structFieldValue(st *types.Struct, i int) value {
	f := st.Field(i)
	pkgPath := ""
	if !f.Exported() && f.Pkg() != nil {
		pkgPath = f.Pkg().Path()
	}
	return structure{
		f.Name(),
		pkgPath,
		makeReflectType(rtype{f.Type()}),
		st.Tag(i),
		uintptr(0),
		[]value{i},
		f.Anonymous(),
	}
}

// findField looks up a (possibly promoted, one level) field by name.
func findField(t types.Type, name string) (path []int, ft types.Type, ok bool) {
	st, isStruct := t.Underlying().(*types.Struct)
	if !isStruct {
		return nil, nil, false
	}
	for i := 0; i < st.NumFields(); i++ {
		if st.Field(i).Name() == name {
			return []int{i}, st.Field(i).Type(), true
		}
	}
	for i := 0; i < st.NumFields(); i++ {
		f := st.Field(i)
		if !f.Anonymous() {
			continue
		}
		et := f.Type()
		if p, ok := et.Underlying().(*types.Pointer); ok {
			et = p.Elem()
		}
		if sub, ft, ok := findField(et, name); ok {
			return append([]int{i}, sub...), ft, true
		}
	}
	return nil, nil, false
}

func init() {
	for k, v := range map[string]externalFn{
		"reflect.Indirect": func(fr *frame, a []value) value {
			if !rVValid(a[0]) {
				return a[0]
			}
			if _, ok := rV2T(a[0]).t.Underlying().(*types.Pointer); ok {
				return ext۰reflect۰Value۰Elem(fr, a)
			}
			return a[0]
		},
		"(reflect.Value).FieldByName": func(fr *frame, a []value) value {
			t := rV2T(a[0]).t
			path, _, ok := findField(t, a[1].(string))
			if !ok {
				return makeReflectValue(nil, nil)
			}
			cur := a[0]
			for _, idx := range path {
				// step through embedded pointers
				if _, isPtr := rV2T(cur).t.Underlying().(*types.Pointer); isPtr {
					cur = ext۰reflect۰Value۰Elem(fr, []value{cur})
					if !rVValid(cur) {
						rtPanic(fr.i, "reflect: indirection through nil pointer to embedded struct")
					}
				}
				cur = ext۰reflect۰Value۰Field(fr, []value{cur, idx})
			}
			return cur
		},
		"(reflect.rtype).FieldByName": func(fr *frame, a []value) value {
			t := a[0].(rtype).t
			if _, isStruct := t.Underlying().(*types.Struct); !isStruct {
				// as the real reflect package
				rtPanic(fr.i, "reflect: FieldByName of non-struct type "+t.String())
			}
			path, _, ok := findField(t, a[1].(string))
			st, isStruct := t.Underlying().(*types.Struct)
			if !ok || !isStruct || len(path) != 1 {
				zero := structure{"", "", iface{}, "", uintptr(0), []value(nil), false}
				return tuple{zero, ok && len(path) == 1}
			}
			return tuple{structFieldValue(st, path[0]), true}
		},
		"(reflect.rtype).Name": func(fr *frame, a []value) value {
			switch t := a[0].(rtype).t.(type) {
			case *types.Named:
				return t.Obj().Name()
			case *types.Basic:
				return t.Name()
			case *types.Alias:
				return t.Obj().Name()
			}
			return ""
		},
		"(reflect.rtype).PkgPath": func(fr *frame, a []value) value {
			if t, ok := a[0].(rtype).t.(*types.Named); ok && t.Obj().Pkg() != nil {
				return t.Obj().Pkg().Path()
			}
			return ""
		},
		"(reflect.rtype).Key": func(fr *frame, a []value) value {
			return makeReflectType(rtype{a[0].(rtype).t.Underlying().(*types.Map).Key()})
		},
		"(reflect.rtype).Len": func(fr *frame, a []value) value {
			return int(a[0].(rtype).t.Underlying().(*types.Array).Len())
		},
		"(reflect.rtype).Comparable": func(fr *frame, a []value) value {
			return types.Comparable(a[0].(rtype).t)
		},
		"(reflect.rtype).Implements": func(fr *frame, a []value) value {
			it := a[1].(iface).v.(rtype).t
			iface, ok := it.Underlying().(*types.Interface)
			if !ok {
				rtPanic(fr.i, "reflect: non-interface type passed to Type.Implements")
			}
			return types.Implements(a[0].(rtype).t, iface)
		},
		"(reflect.rtype).MethodByName": func(fr *frame, a []value) value {
			t := a[0].(rtype).t
			ms := fr.i.prog.MethodSets.MethodSet(t)
			sel := ms.Lookup(nil, a[1].(string))
			zero := structure{"", "", iface{}, makeReflectValue(nil, nil), 0}
			if sel == nil {
				return tuple{zero, false}
			}
			return tuple{structure{a[1].(string), "", makeReflectType(rtype{sel.Type()}), makeReflectValue(nil, nil), 0}, true}
		},
		"(reflect.Value).MethodByName": func(fr *frame, a []value) value {
			t := rV2T(a[0]).t
			m := fr.i.findMethod(t, a[1].(string))
			if m == nil {
				return makeReflectValue(nil, nil)
			}
			recv := rV2V(a[0])
			return makeReflectValue(m.Signature, &closure{Fn: fr.i.prog.NewFunction("bound", m.Signature, "bound method"), Env: []value{m, recv}})
		},
		"(reflect.Value).IsZero": func(fr *frame, a []value) value {
			t := rV2T(a[0]).t
			return fr.i.truth(fr.i.deepEqualTyped(t, rV2V(a[0]), zero(t), 0))
		},
		"(reflect.Value).Addr": func(fr *frame, a []value) value {
			ad := rVAddr(a[0])
			if ad == nil {
				rtPanic(fr.i, "reflect.Value.Addr of unaddressable value")
			}
			return makeReflectValue(types.NewPointer(rV2T(a[0]).t), ad)
		},
		"(reflect.Value).CanAddr": func(fr *frame, a []value) value { return rVAddr(a[0]) != nil },
		"(reflect.Value).CanSet":  func(fr *frame, a []value) value { return rVAddr(a[0]) != nil },
		"(reflect.Value).SetMapIndex": func(fr *frame, a []value) value {
			m := rV2V(a[0]).(*omap)
			if m == nil {
				rtPanic(fr.i, "assignment to entry in nil map")
			}
			if !rVValid(a[2]) {
				m.delete(fr.i, rV2V(a[1]))
			} else {
				m.insert(fr.i, rV2V(a[1]), rV2V(a[2]))
			}
			return nil
		},
		"reflect.MakeMap": func(fr *frame, a []value) value {
			t := a[0].(iface).v.(rtype).t
			return makeReflectValue(t, makeMap(t.Underlying().(*types.Map).Key(), 0))
		},
		"reflect.MakeSlice": func(fr *frame, a []value) value {
			t := a[0].(iface).v.(rtype).t
			n, c := int(fr.i.concretize(a[1])), int(fr.i.concretize(a[2]))
			s := make([]value, n, c)
			et := t.Underlying().(*types.Slice).Elem()
			for k := range s {
				s[k] = zero(et)
			}
			return makeReflectValue(t, s)
		},
		"reflect.PtrTo": func(fr *frame, a []value) value {
			return makeReflectType(rtype{types.NewPointer(a[0].(iface).v.(rtype).t)})
		},
		"reflect.PointerTo": func(fr *frame, a []value) value {
			return makeReflectType(rtype{types.NewPointer(a[0].(iface).v.(rtype).t)})
		},
	} {
		externals[k] = v
	}
	interpretableFuncs["(reflect.StructTag).Get"] = true
	interpretableFuncs["(reflect.StructTag).Lookup"] = true
	interpretableFuncs["(reflect.Kind).String"] = true
}

func reflectKindName(k reflect.Kind) string { return fmt.Sprint(k) }

func init() {
	externals["(reflect.rtype).AssignableTo"] = func(fr *frame, a []value) value {
		return types.AssignableTo(a[0].(rtype).t, a[1].(iface).v.(rtype).t)
	}
	externals["(reflect.rtype).ConvertibleTo"] = func(fr *frame, a []value) value {
		return types.ConvertibleTo(a[0].(rtype).t, a[1].(iface).v.(rtype).t)
	}
	// go-openapi/swag name provider: JSON member name -> Go field name, from the json tags
	foreignGlobalInit["github.com/go-openapi/swag.DefaultJSONNameProvider"] = func(i *interpreter) value {
		t := lookupType("github.com/go-openapi/swag", "NameProvider")
		if t == nil {
			panic(unsupported{"swag.NameProvider type not loaded"})
		}
		z := zero(t)
		return &z
	}
	externals["(*github.com/go-openapi/swag.NameProvider).GetGoNameForType"] = func(fr *frame, a []value) value {
		t := a[1].(iface).v.(rtype).t
		st, ok := t.Underlying().(*types.Struct)
		if !ok {
			return tuple{"", false}
		}
		name := a[2].(string)
		for _, f := range jsonFields(st) {
			if f.name == name && len(f.path) == 1 {
				return tuple{st.Field(f.path[0]).Name(), true}
			}
		}
		return tuple{"", false}
	}
	externals["(*github.com/go-openapi/swag.NameProvider).GetJSONNameForType"] = func(fr *frame, a []value) value {
		t := a[1].(iface).v.(rtype).t
		st, ok := t.Underlying().(*types.Struct)
		if !ok {
			return tuple{"", false}
		}
		name := a[2].(string)
		for _, f := range jsonFields(st) {
			if len(f.path) == 1 && st.Field(f.path[0]).Name() == name {
				return tuple{f.name, true}
			}
		}
		return tuple{"", false}
	}
}
