package interp

// Symbolic scalar and string operations.

import (
	"fmt"
	"go/token"
	"go/types"
	"math"
	"strings"
	"unicode/utf8"

	"verif/engine/sym"
)

func kindOf(v value) types.BasicKind {
	switch v := v.(type) {
	case symVal:
		return v.k
	case bool:
		return types.Bool
	case int:
		return types.Int
	case int8:
		return types.Int8
	case int16:
		return types.Int16
	case int32:
		return types.Int32
	case int64:
		return types.Int64
	case uint:
		return types.Uint
	case uint8:
		return types.Uint8
	case uint16:
		return types.Uint16
	case uint32:
		return types.Uint32
	case uint64:
		return types.Uint64
	case uintptr:
		return types.Uintptr
	case float32:
		return types.Float32
	case float64:
		return types.Float64
	case string:
		return types.String
	}
	return types.Invalid
}

func kindWidth(k types.BasicKind) int {
	switch k {
	case types.Int8, types.Uint8:
		return 8
	case types.Int16, types.Uint16:
		return 16
	case types.Int32, types.Uint32:
		return 32
	case types.Int, types.Int64, types.Uint, types.Uint64, types.Uintptr:
		return 64
	}
	return 0
}

func kindSigned(k types.BasicKind) bool {
	switch k {
	case types.Int, types.Int8, types.Int16, types.Int32, types.Int64:
		return true
	}
	return false
}

func kindIsInt(k types.BasicKind) bool   { return kindWidth(k) != 0 }
func kindIsFloat(k types.BasicKind) bool { return k == types.Float32 || k == types.Float64 }

func kindSort(k types.BasicKind) sym.Sort {
	switch k {
	case types.Bool:
		return sym.Bool
	case types.Float32:
		return sym.F32
	case types.Float64:
		return sym.F64
	}
	if w := kindWidth(k); w != 0 {
		return sym.BVSort(w)
	}
	panic(fmt.Sprintf("kindSort: %v", k))
}

// concreteOfKind builds the concrete Go value of kind k from raw bits.
func concreteOfKind(k types.BasicKind, bits uint64) value {
	switch k {
	case types.Bool:
		return bits != 0
	case types.Int:
		return int(bits)
	case types.Int8:
		return int8(bits)
	case types.Int16:
		return int16(bits)
	case types.Int32:
		return int32(bits)
	case types.Int64:
		return int64(bits)
	case types.Uint:
		return uint(bits)
	case types.Uint8:
		return uint8(bits)
	case types.Uint16:
		return uint16(bits)
	case types.Uint32:
		return uint32(bits)
	case types.Uint64:
		return uint64(bits)
	case types.Uintptr:
		return uintptr(bits)
	case types.Float32:
		return math.Float32frombits(uint32(bits))
	case types.Float64:
		return math.Float64frombits(bits)
	}
	panic(fmt.Sprintf("concreteOfKind %v", k))
}

// term converts a concrete or symbolic scalar to a term.
func (i *interpreter) term(v value) *sym.Term {
	c := i.ctx()
	switch v := v.(type) {
	case symVal:
		return v.t
	case bool:
		return c.BoolLit(v)
	case float64:
		return c.F64Lit(v)
	case float32:
		return c.F32Lit(v)
	case int, int8, int16, int32, int64:
		return c.BVLit(uint64(asInt64(v)), kindWidth(kindOf(v)))
	case uint, uint8, uint16, uint32, uint64, uintptr:
		return c.BVLit(asUint64(v), kindWidth(kindOf(v)))
	}
	panic(fmt.Sprintf("term: %T", v))
}

func (i *interpreter) mkSym(t *sym.Term, k types.BasicKind) value {
	if t.IsConst() {
		if t.Sort == sym.Bool {
			return t.CBool
		}
		return concreteOfKind(k, t.CBits)
	}
	return symVal{t, k}
}

func (i *interpreter) boolSym(t *sym.Term) value { return i.mkSym(t, types.Bool) }

// symEq is x == y where at least one side is symbolic (scalars or strings).
func (i *interpreter) symEq(x, y value) value {
	if _, ok := x.(symStr); ok {
		return i.strEq(x, y)
	}
	if _, ok := y.(symStr); ok {
		return i.strEq(x, y)
	}
	if _, ok := x.(string); ok {
		return i.strEq(x, y)
	}
	k := kindOf(x)
	if k == types.Invalid {
		k = kindOf(y)
	}
	a, b := i.term(x), i.term(y)
	if kindIsFloat(k) {
		return i.boolSym(i.ctx().App("fp.eq", sym.Bool, a, b))
	}
	return i.boolSym(i.ctx().Eq(a, b))
}

// symBinop implements binary operators when an operand is a symVal.
func (i *interpreter) symBinop(op token.Token, x, y value) value {
	c := i.ctx()
	k := kindOf(x)
	if _, ok := x.(symVal); !ok {
		// shifts may have differently typed operands; otherwise kinds agree
		if op != token.SHL && op != token.SHR {
			k = kindOf(y)
		}
	}
	switch {
	case k == types.Bool:
		a, b := i.term(x), i.term(y)
		switch op {
		case token.EQL:
			return i.boolSym(c.Eq(a, b))
		case token.NEQ:
			return i.boolSym(c.Not(c.Eq(a, b)))
		case token.LAND, token.AND:
			return i.boolSym(c.And(a, b))
		case token.LOR, token.OR:
			return i.boolSym(c.Or(a, b))
		}
	case kindIsFloat(k):
		a, b := i.term(x), i.term(y)
		s := kindSort(k)
		cmp := func(o string) value {
			if r, ok := i.cmpIntConv(o, a, b); ok {
				return r
			}
			// one side a literal, the other a decision tree over literals (a parse table): decide
			// the comparison at the leaves natively instead of handing the tree to the solver
			if r, ok := i.cmpLitTree(o, a, b, k); ok {
				return r
			}
			return i.boolSym(c.App(o, sym.Bool, a, b))
		}
		switch op {
		case token.LSS:
			return cmp("fp.lt")
		case token.LEQ:
			return cmp("fp.leq")
		case token.GTR:
			return cmp("fp.gt")
		case token.GEQ:
			return cmp("fp.geq")
		case token.EQL:
			if a == b {
				return i.boolSym(c.Not(c.IsNaN(a)))
			}
			return cmp("fp.eq")
		case token.NEQ:
			if a == b {
				return i.boolSym(c.IsNaN(a))
			}
			if r, ok := i.cmpLitTree("fp.eq", a, b, k); ok {
				return i.notV(r)
			}
			return i.boolSym(c.Not(c.App("fp.eq", sym.Bool, a, b)))
		case token.QUO:
			r := c.App("f.div", s, a, b)
			i.lemma(c.Eq(c.App("fp.isNaN", sym.Bool, r), c.Or(
				c.App("fp.isNaN", sym.Bool, a), c.App("fp.isNaN", sym.Bool, b),
				c.And(c.App("fp.isZero", sym.Bool, a), c.App("fp.isZero", sym.Bool, b)),
				c.And(c.App("fp.isInfinite", sym.Bool, a), c.App("fp.isInfinite", sym.Bool, b)))))
			return symVal{r, k}
		case token.MUL:
			r := c.App("f.mul", s, a, b)
			i.lemma(c.Eq(c.App("fp.isNaN", sym.Bool, r), c.Or(
				c.App("fp.isNaN", sym.Bool, a), c.App("fp.isNaN", sym.Bool, b),
				c.And(c.App("fp.isZero", sym.Bool, a), c.App("fp.isInfinite", sym.Bool, b)),
				c.And(c.App("fp.isInfinite", sym.Bool, a), c.App("fp.isZero", sym.Bool, b)))))
			return symVal{r, k}
		case token.ADD, token.SUB:
			o := "f.add"
			if op == token.SUB {
				o = "f.sub"
			}
			r := c.App(o, s, a, b)
			// NaN iff an operand is NaN or inf-inf of the conflicting signs
			sameSign := c.Eq(c.App("fp.isNegative", sym.Bool, a), c.App("fp.isNegative", sym.Bool, b))
			conflict := c.Not(sameSign)
			if op == token.SUB {
				conflict = sameSign
			}
			i.lemma(c.Eq(c.App("fp.isNaN", sym.Bool, r), c.Or(
				c.App("fp.isNaN", sym.Bool, a), c.App("fp.isNaN", sym.Bool, b),
				c.And(c.App("fp.isInfinite", sym.Bool, a), c.App("fp.isInfinite", sym.Bool, b), conflict))))
			return symVal{r, k}
		}
	case kindIsInt(k):
		w := kindWidth(k)
		s := sym.BVSort(w)
		signed := kindSigned(k)
		if op == token.SHL || op == token.SHR {
			return i.symShift(op, x, y, k)
		}
		a, b := i.term(x), i.term(y)
		ar := func(o string) value { return i.mkSym(c.App(o, s, a, b), k) }
		cmp := func(so, uo string) value {
			if signed {
				return i.boolSym(c.App(so, sym.Bool, a, b))
			}
			return i.boolSym(c.App(uo, sym.Bool, a, b))
		}
		switch op {
		case token.ADD:
			return ar("bvadd")
		case token.SUB:
			return ar("bvsub")
		case token.MUL:
			return ar("bvmul")
		case token.QUO, token.REM:
			if i.truth(i.boolSym(c.Eq(b, c.BVLit(0, w)))) {
				panic(targetPanic{v: runtimeErr(i, "runtime error: integer divide by zero")})
			}
			if op == token.QUO {
				if signed {
					return ar("bvsdiv")
				}
				return ar("bvudiv")
			}
			if signed {
				return ar("bvsrem")
			}
			return ar("bvurem")
		case token.AND:
			return ar("bvand")
		case token.OR:
			return ar("bvor")
		case token.XOR:
			return ar("bvxor")
		case token.AND_NOT:
			return i.mkSym(c.App("bvand", s, a, c.App("bvnot", s, b)), k)
		case token.EQL:
			return i.boolSym(c.Eq(a, b))
		case token.NEQ:
			return i.boolSym(c.Not(c.Eq(a, b)))
		case token.LSS:
			return cmp("bvslt", "bvult")
		case token.LEQ:
			return cmp("bvsle", "bvule")
		case token.GTR:
			return cmp("bvsgt", "bvugt")
		case token.GEQ:
			return cmp("bvsge", "bvuge")
		}
	}
	panic(unsupported{fmt.Sprintf("symbolic binop %T %s %T", x, op, y)})
}

func (i *interpreter) symShift(op token.Token, x, y value, k types.BasicKind) value {
	c := i.ctx()
	w := kindWidth(k)
	yk := kindOf(y)
	if kindSigned(yk) {
		if i.truth(i.symBinop(token.LSS, y, concreteOfKind(yk, 0))) {
			panic(targetPanic{v: runtimeErr(i, "runtime error: negative shift amount")})
		}
	}
	a := i.extend(i.term(x), w, 64, kindSigned(k))
	b := i.extend(i.term(y), kindWidth(yk), 64, false)
	var r *sym.Term
	switch {
	case op == token.SHL:
		r = c.App("bvshl", sym.BV64, a, b)
	case kindSigned(k):
		r = c.App("bvashr", sym.BV64, a, b)
	default:
		r = c.App("bvlshr", sym.BV64, a, b)
	}
	return i.mkSym(i.extend(r, 64, w, false), k)
}

// extend converts a bit-vector of width from to width to.
func (i *interpreter) extend(t *sym.Term, from, to int, signed bool) *sym.Term {
	c := i.ctx()
	switch {
	case from == to:
		return t
	case from > to:
		if t.IsConst() {
			return c.BVLit(t.CBits, to)
		}
		return c.App(fmt.Sprintf("(_ extract %d 0)", to-1), sym.BVSort(to), t)
	case signed:
		if t.IsConst() {
			sh := uint(64 - from)
			return c.BVLit(uint64(int64(t.CBits<<sh)>>sh), to)
		}
		return c.App(fmt.Sprintf("(_ sign_extend %d)", to-from), sym.BVSort(to), t)
	default:
		if t.IsConst() {
			return c.BVLit(t.CBits, to)
		}
		return c.App(fmt.Sprintf("(_ zero_extend %d)", to-from), sym.BVSort(to), t)
	}
}

func (i *interpreter) symUnop(op token.Token, x symVal) value {
	c := i.ctx()
	switch op {
	case token.NOT:
		return i.boolSym(c.Not(x.t))
	case token.SUB:
		if kindIsFloat(x.k) {
			return symVal{c.App("fp.neg", kindSort(x.k), x.t), x.k}
		}
		return symVal{c.App("bvneg", kindSort(x.k), x.t), x.k}
	case token.XOR:
		return symVal{c.App("bvnot", kindSort(x.k), x.t), x.k}
	}
	panic(unsupported{fmt.Sprintf("symbolic unop %s", op)})
}

// symConv converts symbolic scalar x to basic kind dst.
func (i *interpreter) symConv(dst types.BasicKind, x symVal) value {
	c := i.ctx()
	src := x.k
	switch {
	case kindIsInt(src) && kindIsInt(dst):
		return i.mkSym(i.extend(x.t, kindWidth(src), kindWidth(dst), kindSigned(src)), dst)
	case kindIsInt(src) && kindIsFloat(dst):
		eb, sb := 11, 53
		if dst == types.Float32 {
			eb, sb = 8, 24
		}
		op := fmt.Sprintf("(_ to_fp_unsigned %d %d) RNE", eb, sb)
		if kindSigned(src) {
			op = fmt.Sprintf("(_ to_fp %d %d) RNE", eb, sb)
		}
		// conversions of ite-trees of literals (parse tables) are folded leaf by leaf
		if r, ok := c.LiftUnary(x.t, func(l *sym.Term) *sym.Term {
			w := kindWidth(src)
			var f float64
			if kindSigned(src) {
				sh := uint(64 - w)
				f = float64(int64(l.CBits<<sh) >> sh)
			} else {
				f = float64(l.CBits)
			}
			if dst == types.Float32 {
				return c.F32Lit(float32(f))
			}
			return c.F64Lit(f)
		}); ok {
			return i.mkSym(r, dst)
		}
		return symVal{c.App(op, kindSort(dst), x.t), dst}
	case kindIsFloat(src) && kindIsFloat(dst):
		if src == dst {
			return x
		}
		eb, sb := 11, 53
		if dst == types.Float32 {
			eb, sb = 8, 24
		}
		return symVal{c.App(fmt.Sprintf("(_ to_fp %d %d) RNE", eb, sb), kindSort(dst), x.t), dst}
	case kindIsFloat(src) && kindIsInt(dst):
		// amd64 semantics: truncate toward zero; NaN / out of range of int64 give MinInt64.
		// Narrower results are truncations of the 64-bit conversion.
		if src != types.Float64 {
			x = i.symConv(types.Float64, x).(symVal)
		}
		// float64(intN) -> int: exact for sources of at most 32 bits
		if x.t.FromIntConv() && x.t.Args[0].Sort.Width() <= 32 {
			signed := strings.HasPrefix(x.t.Op, "(_ to_fp 11")
			return i.mkSym(i.extend(i.extend(x.t.Args[0], x.t.Args[0].Sort.Width(), 64, signed), 64, kindWidth(dst), false), dst)
		}
		lo := c.F64Lit(-9223372036854775808.0)
		hi := c.F64Lit(9223372036854775808.0)
		in := c.And(c.App("fp.geq", sym.Bool, x.t, lo), c.App("fp.lt", sym.Bool, x.t, hi))
		var r *sym.Term
		if kindSigned(dst) || kindWidth(dst) < 64 {
			r = c.Ite(in, c.App("(_ fp.to_sbv 64) RTZ", sym.BV64, x.t), c.BVLit(1<<63, 64))
		} else {
			// uint64: values in [2^63, 2^64) convert exactly; negative and NaN as the signed conversion
			hi2 := c.F64Lit(18446744073709551616.0)
			big := c.And(c.App("fp.geq", sym.Bool, x.t, hi), c.App("fp.lt", sym.Bool, x.t, hi2))
			r = c.Ite(in, c.App("(_ fp.to_sbv 64) RTZ", sym.BV64, x.t),
				c.Ite(big, c.App("(_ fp.to_ubv 64) RTZ", sym.BV64, x.t), c.BVLit(1<<63, 64)))
		}
		return i.mkSym(i.extend(r, 64, kindWidth(dst), false), dst)
	case src == types.Bool && dst == types.Bool:
		return x
	}
	panic(unsupported{fmt.Sprintf("symbolic conversion %v -> %v", src, dst)})
}

// lemma adds a fact that holds in every model to the path condition.
func (i *interpreter) lemma(t *sym.Term) {
	if t == i.ctx().True {
		return
	}
	i.w.addPC(t)
}

// ------------------------------------------------------------------------
// Strings with symbolic bytes

func toSymStr(v value) symStr {
	switch v := v.(type) {
	case symStr:
		return v
	case string:
		b := make([]value, len(v))
		for i := 0; i < len(v); i++ {
			b[i] = v[i]
		}
		return symStr{b}
	}
	panic(fmt.Sprintf("toSymStr %T", v))
}

// norm returns a Go string if all bytes are concrete.
func (s symStr) norm() value {
	bs := make([]byte, len(s.b))
	for i, x := range s.b {
		c, ok := x.(uint8)
		if !ok {
			return s
		}
		bs[i] = c
	}
	return string(bs)
}

func (s symStr) hasOpaque() bool {
	for _, x := range s.b {
		if _, ok := x.(opaque); ok {
			return true
		}
	}
	return false
}

func (s symStr) length() int {
	if s.hasOpaque() {
		panic(unsupported{"len of a string containing a formatted symbolic number"})
	}
	return len(s.b)
}

func (s symStr) debug() string {
	var sb strings.Builder
	sb.WriteByte('"')
	for _, x := range s.b {
		switch x := x.(type) {
		case uint8:
			if x >= 0x20 && x < 0x7f {
				sb.WriteByte(x)
			} else {
				fmt.Fprintf(&sb, "\\x%02x", x)
			}
		case symVal:
			sb.WriteString("<" + x.t.String() + ">")
		case opaque:
			sb.WriteString("<num:" + x.desc + ">")
		}
	}
	sb.WriteByte('"')
	return sb.String()
}

func (i *interpreter) byteEq(a, b value) value {
	ca, oka := a.(uint8)
	cb, okb := b.(uint8)
	if oka && okb {
		return ca == cb
	}
	// float elements occur in uniqueness keys: identity of the float (SMT "=": -0 != +0)
	fa, okfa := a.(float64)
	fb, okfb := b.(float64)
	if okfa && okfb {
		return math.Float64bits(fa) == math.Float64bits(fb)
	}
	if kindOf(a) != kindOf(b) {
		return false
	}
	if d := i.w.domains; d != nil {
		// a symbolic byte with a known alphabet never equals a concrete byte outside it
		if sa, ok := a.(symVal); ok && okb {
			if alpha, ok := d[sa.t]; ok && strings.IndexByte(alpha, cb) < 0 {
				return false
			}
		}
		if sb, ok := b.(symVal); ok && oka {
			if alpha, ok := d[sb.t]; ok && strings.IndexByte(alpha, ca) < 0 {
				return false
			}
		}
	}
	if _, ok := a.(opaque); ok {
		panic(unsupported{"comparison of a formatted symbolic number"})
	}
	if _, ok := b.(opaque); ok {
		panic(unsupported{"comparison of a formatted symbolic number"})
	}
	return i.boolSym(i.ctx().Eq(i.term(a), i.term(b)))
}

func (i *interpreter) strEq(x, y value) value {
	a, b := toSymStr(x), toSymStr(y)
	if a.hasOpaque() || b.hasOpaque() {
		// an opaque piece is at least one byte long
		if !a.hasOpaque() && len(a.b) < len(b.b) || !b.hasOpaque() && len(b.b) < len(a.b) {
			return false
		}
		panic(unsupported{"comparison of a string containing a formatted symbolic number"})
	}
	if len(a.b) != len(b.b) {
		return false
	}
	var acc value = true
	for k := range a.b {
		acc = i.andV(acc, i.byteEq(a.b[k], b.b[k]))
		if acc == false {
			return false
		}
	}
	return acc
}

// strLess is the lexicographic x < y over byte vectors.
func (i *interpreter) strLess(x, y value, orEqual bool) value {
	a, b := toSymStr(x), toSymStr(y)
	if a.hasOpaque() || b.hasOpaque() {
		panic(unsupported{"ordering of a string containing a formatted symbolic number"})
	}
	// from the end: less_k = a[k]<b[k] || (a[k]==b[k] && less_{k+1})
	n := len(a.b)
	if len(b.b) < n {
		n = len(b.b)
	}
	var acc value
	switch {
	case len(a.b) < len(b.b):
		acc = true
	case len(a.b) == len(b.b):
		acc = orEqual
	default:
		acc = false
	}
	for k := n - 1; k >= 0; k-- {
		lt := i.byteLess(a.b[k], b.b[k])
		eq := i.byteEq(a.b[k], b.b[k])
		acc = i.orV(lt, i.andV(eq, acc))
	}
	return acc
}

func (i *interpreter) byteLess(a, b value) value {
	ca, oka := a.(uint8)
	cb, okb := b.(uint8)
	if oka && okb {
		return ca < cb
	}
	return i.boolSym(i.ctx().App("bvult", sym.Bool, i.term(a), i.term(b)))
}

func (i *interpreter) symStrBinop(op token.Token, x, y value) value {
	switch op {
	case token.ADD:
		a, b := toSymStr(x), toSymStr(y)
		return symStr{append(append(make([]value, 0, len(a.b)+len(b.b)), a.b...), b.b...)}.norm()
	case token.EQL:
		return i.strEq(x, y)
	case token.NEQ:
		return i.notV(i.strEq(x, y))
	case token.LSS:
		return i.strLess(x, y, false)
	case token.LEQ:
		return i.strLess(x, y, true)
	case token.GTR:
		return i.strLess(y, x, false)
	case token.GEQ:
		return i.strLess(y, x, true)
	}
	panic(unsupported{"symbolic string op " + op.String()})
}

func decodeRuneInString(s string) (rune, int) { return utf8.DecodeRuneInString(s) }

// decodeRuneSym decodes the rune at s[p:], forking on the lead byte class.
// Multi-byte sequences with symbolic bytes are outside the supported fragment.
func (i *interpreter) decodeRuneSym(s symStr, p int) (value, int) {
	b := s.b[p]
	if c, ok := b.(uint8); ok {
		if c < utf8.RuneSelf {
			return rune(c), 1
		}
		// concrete lead byte: decode natively if the continuation bytes are concrete
		var buf []byte
		for q := p; q < len(s.b) && q < p+4; q++ {
			cc, ok := s.b[q].(uint8)
			if !ok {
				break
			}
			buf = append(buf, cc)
		}
		r, n := utf8.DecodeRune(buf)
		if r == utf8.RuneError && len(buf) < 4 && p+len(buf) < len(s.b) {
			panic(unsupported{"UTF-8 sequence with symbolic continuation bytes"})
		}
		return r, n
	}
	sv, ok := b.(symVal)
	if !ok {
		panic(unsupported{"range over a string containing a formatted symbolic number"})
	}
	c := i.ctx()
	if i.truth(i.boolSym(c.App("bvult", sym.Bool, sv.t, c.BVLit(0x80, 8)))) {
		return i.mkSym(i.extend(sv.t, 8, 32, false), types.Int32), 1
	}
	return i.decodeMultiByte(s, p, sv.t)
}

// decodeMultiByte implements utf8.DecodeRuneInString for a lead byte >= 0x80
// by forking on the lead-byte class and on the validity of the continuation bytes.
func (i *interpreter) decodeMultiByte(s symStr, p int, lead *sym.Term) (value, int) {
	c := i.ctx()
	in := func(t *sym.Term, lo, hi uint64) bool {
		return i.truth(i.boolSym(c.And(c.App("bvuge", sym.Bool, t, c.BVLit(lo, 8)), c.App("bvule", sym.Bool, t, c.BVLit(hi, 8)))))
	}
	byteAt := func(q int) (*sym.Term, bool) {
		if q >= len(s.b) {
			return nil, false
		}
		if _, ok := s.b[q].(opaque); ok {
			panic(unsupported{"range over a string containing a formatted symbolic number"})
		}
		return i.term(s.b[q]), true
	}
	bad := func() (value, int) { return rune(utf8.RuneError), 1 }
	bits := func(t *sym.Term, mask uint64) *sym.Term {
		return i.extend(c.App("bvand", sym.BV8, t, c.BVLit(mask, 8)), 8, 32, false)
	}
	shl := func(t *sym.Term, n uint64) *sym.Term { return c.App("bvshl", sym.BV32, t, c.BVLit(n, 32)) }
	or := func(ts ...*sym.Term) *sym.Term {
		acc := ts[0]
		for _, t := range ts[1:] {
			acc = c.App("bvor", sym.BV32, acc, t)
		}
		return acc
	}
	type cls struct {
		lo, hi     uint64 // lead byte range
		n          int    // sequence length
		b1lo, b1hi uint64
		mask       uint64
	}
	classes := []cls{
		{0xC2, 0xDF, 2, 0x80, 0xBF, 0x1F},
		{0xE0, 0xE0, 3, 0xA0, 0xBF, 0x0F},
		{0xE1, 0xEC, 3, 0x80, 0xBF, 0x0F},
		{0xED, 0xED, 3, 0x80, 0x9F, 0x0F},
		{0xEE, 0xEF, 3, 0x80, 0xBF, 0x0F},
		{0xF0, 0xF0, 4, 0x90, 0xBF, 0x07},
		{0xF1, 0xF3, 4, 0x80, 0xBF, 0x07},
		{0xF4, 0xF4, 4, 0x80, 0x8F, 0x07},
	}
	for _, k := range classes {
		if !in(lead, k.lo, k.hi) {
			continue
		}
		b1, ok := byteAt(p + 1)
		if !ok || !in(b1, k.b1lo, k.b1hi) {
			return bad()
		}
		r := or(shl(bits(lead, k.mask), uint64(6*(k.n-1))), shl(bits(b1, 0x3F), uint64(6*(k.n-2))))
		for q := 2; q < k.n; q++ {
			bq, ok := byteAt(p + q)
			if !ok || !in(bq, 0x80, 0xBF) {
				return bad()
			}
			r = or(r, shl(bits(bq, 0x3F), uint64(6*(k.n-1-q))))
		}
		return i.mkSym(r, types.Int32), k.n
	}
	return bad()
}

// cmpIntConv rewrites a comparison between a float64 literal and the conversion of an
// integer bit-vector into an integer comparison. The conversion is monotone, so
// "float64(x) OP lit" is "x OP' T" for a threshold T found natively by binary search.
func (i *interpreter) cmpIntConv(op string, a, b *sym.Term) (value, bool) {
	c := i.ctx()
	swap := map[string]string{"fp.lt": "fp.gt", "fp.gt": "fp.lt", "fp.leq": "fp.geq", "fp.geq": "fp.leq"}
	if a.IsConst() && b.FromIntConv() {
		a, b, op = b, a, swap[op]
	}
	if !(a.FromIntConv() && b.IsConst()) || a.Sort != sym.F64 || swap[op] == "" {
		return nil, false
	}
	lit := math.Float64frombits(b.CBits)
	if lit != lit {
		return false, true // comparisons with NaN are false
	}
	x := a.Args[0]
	w := x.Sort.Width()
	signed := strings.HasPrefix(a.Op, "(_ to_fp 11")
	// predicate P(v) = float64(v) OP lit, monotone in v
	conv := func(v uint64) float64 {
		if signed {
			sh := uint(64 - w)
			return float64(int64(v<<sh) >> sh)
		}
		return float64(v)
	}
	holds := func(v uint64) bool {
		f := conv(v)
		switch op {
		case "fp.lt":
			return f < lit
		case "fp.leq":
			return f <= lit
		case "fp.gt":
			return f > lit
		}
		return f >= lit
	}
	// domain in increasing numeric order: index k in [0, 2^w) maps to value
	var minV, maxV uint64
	if signed {
		minV = uint64(1) << uint(w-1) // most negative (as bits)
		maxV = minV - 1
	} else {
		minV, maxV = 0, ^uint64(0)>>uint(64-w)
	}
	atIdx := func(k uint64) uint64 { // k-th smallest value, as bits
		if signed {
			return (k + minV) & (^uint64(0) >> uint(64-w))
		}
		return k
	}
	size := ^uint64(0) >> uint(64-w)                  // number of values - 1
	increasingTrue := op == "fp.gt" || op == "fp.geq" // P false...false true...true
	pMin, pMax := holds(minV), holds(maxV)
	if pMin == pMax {
		return pMin, true // constant over the whole domain
	}
	// binary search for the first index where P changes
	lo, hi := uint64(0), size // P(lo) != P(hi)
	for hi-lo > 1 {
		mid := lo + (hi-lo)/2
		if holds(atIdx(mid)) == holds(atIdx(lo)) {
			lo = mid
		} else {
			hi = mid
		}
	}
	// threshold value = atIdx(hi): P holds for v >= T (increasing) or v < T (decreasing)
	T := c.BVLit(atIdx(hi), w)
	var cmpOp string
	switch {
	case increasingTrue && signed:
		cmpOp = "bvsge"
	case increasingTrue:
		cmpOp = "bvuge"
	case signed:
		cmpOp = "bvslt"
	default:
		cmpOp = "bvult"
	}
	return i.boolSym(c.App(cmpOp, sym.Bool, x, T)), true
}

// cmpLitTree: a floating-point comparison between a literal and an ite-tree whose leaves are
// literals is lifted to the leaves (IEEE semantics of Go's native comparison).
func (i *interpreter) cmpLitTree(op string, a, b *sym.Term, k types.BasicKind) (value, bool) {
	c := i.ctx()
	tree, lit, swapped := a, b, false
	if a.IsConst() && !b.IsConst() {
		tree, lit, swapped = b, a, true
	}
	if !lit.IsConst() || tree.Op != "ite" {
		return nil, false
	}
	f := func(t *sym.Term) float64 {
		if t.Sort == sym.F32 {
			return float64(math.Float32frombits(uint32(t.CBits)))
		}
		return math.Float64frombits(t.CBits)
	}
	lv := f(lit)
	r, ok := c.LiftUnary(tree, func(leaf *sym.Term) *sym.Term {
		x, y := f(leaf), lv
		if swapped {
			x, y = y, x
		}
		var res bool
		switch op {
		case "fp.lt":
			res = x < y
		case "fp.leq":
			res = x <= y
		case "fp.gt":
			res = x > y
		case "fp.geq":
			res = x >= y
		case "fp.eq":
			res = x == y
		default:
			return nil
		}
		return c.BoolLit(res)
	})
	if !ok || r == nil {
		return nil, false
	}
	return i.boolSym(r), true
}
