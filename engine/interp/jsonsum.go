package interp

// Summaries: reflect.DeepEqual, deepcopy.Copy, encoding/json.Marshal
// (native on concrete JSON-domain values; injective key encoding inside
// isSliceOfUniqueItems), sync.Map.CompareAndSwap.

import (
	"encoding/json"
	"fmt"
	"go/token"
	"go/types"
	"math"
	"strconv"

	"verif/engine/sym"
)

// deepEqualV implements reflect.DeepEqual on engine values, returning a
// bool or a symbolic Bool (leaves compared with Go ==, i.e. fp.eq for floats).
func (i *interpreter) deepEqualV(x, y value, depth int) value {
	if depth > 64 {
		panic(budgetExceeded{"reflect.DeepEqual nesting > 64"})
	}
	switch x := x.(type) {
	case iface:
		y, ok := y.(iface)
		if !ok {
			return false
		}
		if x.t == nil || y.t == nil {
			return x.t == nil && y.t == nil
		}
		if !types.Identical(x.t, y.t) {
			return false
		}
		return i.deepEqualTyped(x.t, x.v, y.v, depth+1)
	}
	return i.deepEqualTyped(nil, x, y, depth)
}

func (i *interpreter) deepEqualTyped(t types.Type, x, y value, depth int) value {
	switch x := x.(type) {
	case iface:
		return i.deepEqualV(x, y, depth)
	case []value:
		y, ok := y.([]value)
		if !ok {
			return false
		}
		if (x == nil) != (y == nil) || len(x) != len(y) {
			return false
		}
		var et types.Type
		if st, ok := typeUnder(t).(*types.Slice); ok {
			et = st.Elem()
		}
		var acc value = true
		for k := range x {
			acc = i.andV(acc, i.deepEqualTyped(et, x[k], y[k], depth+1))
			if acc == false {
				return false
			}
		}
		return acc
	case array:
		y := y.(array)
		var et types.Type
		if at, ok := typeUnder(t).(*types.Array); ok {
			et = at.Elem()
		}
		var acc value = true
		for k := range x {
			acc = i.andV(acc, i.deepEqualTyped(et, x[k], y[k], depth+1))
			if acc == false {
				return false
			}
		}
		return acc
	case *omap:
		y, ok := y.(*omap)
		if !ok {
			return false
		}
		if (x == nil) != (y == nil) || x.len() != y.len() {
			return false
		}
		if x == y {
			return true
		}
		var et types.Type
		if mt, ok := typeUnder(t).(*types.Map); ok {
			et = mt.Elem()
		}
		var acc value = true
		for _, p := range x.order() {
			yv, ok := y.lookup(i, x.keys[p])
			if !ok {
				return false
			}
			acc = i.andV(acc, i.deepEqualTyped(et, x.vals[p], yv, depth+1))
			if acc == false {
				return false
			}
		}
		return acc
	case structure:
		y := y.(structure)
		st, _ := typeUnder(t).(*types.Struct)
		var acc value = true
		for k := range x {
			var ft types.Type
			if st != nil {
				ft = st.Field(k).Type()
			}
			acc = i.andV(acc, i.deepEqualTyped(ft, x[k], y[k], depth+1))
			if acc == false {
				return false
			}
		}
		return acc
	case *value:
		y := y.(*value)
		if x == y {
			return true
		}
		if x == nil || y == nil {
			return false
		}
		var et types.Type
		if pt, ok := typeUnder(t).(*types.Pointer); ok {
			et = pt.Elem()
		}
		return i.deepEqualTyped(et, *x, *y, depth+1)
	case nil:
		return y == nil
	}
	if isSymbolic(x) || isSymbolic(y) {
		return i.symEq(x, y)
	}
	switch x.(type) {
	case bool, int, int8, int16, int32, int64, uint, uint8, uint16, uint32, uint64, uintptr, float32, float64, string, complex64, complex128:
		return x == y
	}
	if isNilRefSafe(x) && isNilRefSafe(y) {
		return true
	}
	// funcs and native handles: equal only if both nil (DeepEqual semantics for funcs)
	return false
}

func isNilRefSafe(x value) (r bool) {
	defer func() {
		if recover() != nil {
			r = false
		}
	}()
	return isNilRef(x)
}

func typeUnder(t types.Type) types.Type {
	if t == nil {
		return nil
	}
	return t.Underlying()
}

// deepCopy clones an engine value (github.com/mohae/deepcopy semantics:
// maps, slices, pointers and structs are copied recursively; aliasing is
// not preserved).
func deepCopy(v value, depth int) value {
	if depth > 64 {
		panic(budgetExceeded{"deepcopy nesting > 64"})
	}
	switch v := v.(type) {
	case iface:
		return iface{t: v.t, v: deepCopy(v.v, depth+1)}
	case []value:
		if v == nil {
			return v
		}
		out := make([]value, len(v), len(v))
		for k := range v {
			out[k] = deepCopy(v[k], depth+1)
		}
		return out
	case array:
		out := make(array, len(v))
		for k := range v {
			out[k] = deepCopy(v[k], depth+1)
		}
		return out
	case structure:
		out := make(structure, len(v))
		for k := range v {
			out[k] = deepCopy(v[k], depth+1)
		}
		return out
	case *omap:
		if v == nil {
			return v
		}
		out := &omap{keyType: v.keyType, idx: make(map[value]int, len(v.keys)), nsym: v.nsym}
		for k := range v.keys {
			kk := deepCopy(v.keys[k], depth+1)
			if indexable(kk) {
				out.idx[kk] = len(out.keys)
			}
			out.keys = append(out.keys, kk)
			out.vals = append(out.vals, deepCopy(v.vals[k], depth+1))
		}
		return out
	case *value:
		if v == nil {
			return v
		}
		return ptrTo(deepCopy(*v, depth+1))
	}
	return v
}

// jsonNative converts a concrete JSON-domain engine value for encoding/json.
func (i *interpreter) jsonNative(v value) (interface{}, bool) {
	switch v := v.(type) {
	case nil:
		return nil, true
	case iface:
		if v.t == nil {
			return nil, true
		}
		if _, isStruct := v.t.Underlying().(*types.Struct); isStruct {
			return nil, false
		}
		if pt, ok := v.t.Underlying().(*types.Pointer); ok {
			// pointers to JSON-domain values (json.Marshal(&x))
			p := v.v.(*value)
			if p == nil {
				return nil, true
			}
			if _, isStruct := pt.Elem().Underlying().(*types.Struct); isStruct {
				return nil, false
			}
			return i.jsonNative(iface{t: pt.Elem(), v: *p})
		}
		if types.IsInterface(v.t) {
			return i.jsonNative(v.v)
		}
		// named non-struct types with methods (MarshalJSON) are not handled natively
		if n, ok := v.t.(*types.Named); ok && n.NumMethods() > 0 {
			return nil, false
		}
		return i.jsonNative(v.v)
	case bool, float64, string, int, int64, int32, uint64, float32:
		return v, true
	case []value:
		if v == nil {
			return []interface{}(nil), true
		}
		out := make([]interface{}, len(v))
		for k := range v {
			e, ok := i.jsonNative(v[k])
			if !ok {
				return nil, false
			}
			out[k] = e
		}
		return out, true
	case *omap:
		if v == nil {
			return map[string]interface{}(nil), true
		}
		out := map[string]interface{}{}
		for k := range v.keys {
			ks, ok := v.keys[k].(string)
			if !ok {
				return nil, false
			}
			e, ok := i.jsonNative(v.vals[k])
			if !ok {
				return nil, false
			}
			out[ks] = e
		}
		return out, true
	case *value:
		if v == nil {
			return nil, true
		}
		return i.jsonNative(*v)
	}
	return nil, false
}

// jsonKey is an injective encoding of JSON-domain values as a byte vector
// (floats by IEEE bits, strings length-prefixed), used for uniqueness keys.
func (i *interpreter) jsonKey(v value, out *[]value) {
	emit := func(s string) {
		for k := 0; k < len(s); k++ {
			*out = append(*out, s[k])
		}
	}
	switch v := v.(type) {
	case nil:
		emit("n")
	case iface:
		if v.t == nil {
			emit("n")
			return
		}
		i.jsonKey(v.v, out)
	case *value:
		if v == nil {
			emit("n")
			return
		}
		i.jsonKey(*v, out)
	case bool:
		if v {
			emit("T")
		} else {
			emit("F")
		}
	case symVal:
		c := i.ctx()
		switch {
		case v.k == types.Bool:
			*out = append(*out, i.mkSym(c.Ite(v.t, c.BVLit('T', 8), c.BVLit('F', 8)), types.Uint8))
		case v.k == types.Float64:
			emit("f")
			*out = append(*out, v) // one element; compared with SMT "=" (identity of the float)
		default:
			panic(unsupported{"json key of a symbolic " + fmt.Sprint(v.k)})
		}
	case float64:
		emit("f")
		*out = append(*out, v)
	case int, int64, int32, uint64:
		emit("f")
		*out = append(*out, float64(asInt64(v)))
	case string:
		emit("s" + strconv.Itoa(len(v)) + ":" + v)
	case symStr:
		emit("s" + strconv.Itoa(v.length()) + ":")
		*out = append(*out, v.b...)
	case []value:
		emit("[" + strconv.Itoa(len(v)) + ":")
		for _, e := range v {
			i.jsonKey(e, out)
		}
		emit("]")
	case *omap:
		emit("{" + strconv.Itoa(v.len()) + ":")
		if v != nil {
			for _, p := range v.order() {
				i.jsonKey(v.keys[p], out)
				i.jsonKey(v.vals[p], out)
			}
		}
		emit("}")
	default:
		panic(unsupported{fmt.Sprintf("json key of %T", v)})
	}
}

func init() {
	externals["reflect.DeepEqual"] = func(fr *frame, a []value) value {
		return fr.i.deepEqualV(a[0], a[1], 0)
	}
	externals["github.com/mohae/deepcopy.Copy"] = func(fr *frame, a []value) value {
		return deepCopy(a[0], 0)
	}
	externals["encoding/json.Marshal"] = func(fr *frame, a []value) value {
		i := fr.i
		if fr.caller != nil && fr.caller.fn != nil && fr.caller.fn.Name() == "isSliceOfUniqueItems" {
			var out []value
			i.jsonKey(a[0], &out)
			return tuple{out, iface{}}
		}
		if allConcrete(a) {
			if nv, ok := i.jsonNative(a[0]); ok {
				b, err := json.Marshal(nv)
				if err != nil {
					return tuple{[]value(nil), i.nativeError(fr, err)}
				}
				return tuple{[]value(toSymStr(string(b)).b), iface{}}
			}
		}
		return i.jsonMarshalModel(fr, a[0])
	}
	externals["(*sync.Map).CompareAndSwap"] = func(fr *frame, a []value) value {
		// CompareAndSwap(key, old, new): swaps if the stored value == old (old nil never matches an absent key)
		cell := a[0].(*value)
		st := (*cell).(structure)
		m, _ := st[len(st)-1].(*omap)
		if m == nil {
			return false
		}
		cur, ok := m.lookup(fr.i, a[1])
		if !ok {
			return false
		}
		if fr.i.truth(fr.i.equalsV(types.NewInterfaceType(nil, nil), cur, a[2])) {
			m.insert(fr.i, a[1], a[3])
			return true
		}
		return false
	}
}

// jsonMarshalModel is the entry of the JSON tree contract (typed values);
// extended in jsontree.go.
func (i *interpreter) jsonMarshalModel(fr *frame, v value) value {
	if h := jsonMarshalHook; h != nil {
		return h(fr, v)
	}
	panic(unsupported{"encoding/json.Marshal of a symbolic or typed value outside the JSON contract model"})
}

var jsonMarshalHook func(fr *frame, v value) value

// jsonTextSym renders a JSON-domain value with symbolic leaves as JSON
// text: strings keep their bytes between quotes (no escaping: exact only
// for bytes that JSON does not escape), numbers become opaque pieces.
func (i *interpreter) jsonTextSym(v value, out *[]value) bool {
	emit := func(s string) {
		for k := 0; k < len(s); k++ {
			*out = append(*out, s[k])
		}
	}
	switch v := v.(type) {
	case nil:
		emit("null")
	case iface:
		if v.t == nil {
			emit("null")
			return true
		}
		if _, isStruct := v.t.Underlying().(*types.Struct); isStruct {
			return false
		}
		if n, ok := v.t.(*types.Named); ok && n.NumMethods() > 0 {
			return false
		}
		return i.jsonTextSym(v.v, out)
	case *value:
		if v == nil {
			emit("null")
			return true
		}
		return i.jsonTextSym(*v, out)
	case bool:
		emit(strconv.FormatBool(v))
	case symVal:
		if v.k == types.Bool {
			if i.truth(v) {
				emit("true")
			} else {
				emit("false")
			}
			return true
		}
		*out = append(*out, opaque{v.t.String()})
	case float64, int, int64, int32, uint64, float32:
		b, _ := json.Marshal(v)
		emit(string(b))
	case string:
		b, _ := json.Marshal(v)
		emit(string(b))
	case symStr:
		emit("\"")
		*out = append(*out, v.b...)
		emit("\"")
	case []value:
		if v == nil {
			emit("null")
			return true
		}
		emit("[")
		for k, e := range v {
			if k > 0 {
				emit(",")
			}
			if !i.jsonTextSym(e, out) {
				return false
			}
		}
		emit("]")
	case *omap:
		if v == nil {
			emit("null")
			return true
		}
		emit("{")
		for k, p := range v.order() {
			if k > 0 {
				emit(",")
			}
			if !i.jsonTextSym(v.keys[p], out) {
				return false
			}
			emit(":")
			if !i.jsonTextSym(v.vals[p], out) {
				return false
			}
		}
		emit("}")
	default:
		return false
	}
	return true
}

func init() {
	prev := jsonMarshalHook
	jsonMarshalHook = func(fr *frame, v value) value {
		var out []value
		if fr.i.jsonTextSym(v, &out) {
			return tuple{out, iface{}}
		}
		if prev != nil {
			return prev(fr, v)
		}
		panic(unsupported{"encoding/json.Marshal of a typed value outside the JSON contract model"})
	}
	summaries["unicode/utf16.IsSurrogate"] = func(fr *frame, a []value) value {
		i := fr.i
		return i.andV(i.binop(token.LEQ, types.Typ[types.Int32], int32(0xd800), a[0]), i.binop(token.LSS, types.Typ[types.Int32], a[0], int32(0xe000)))
	}
}

// json.Encoder as used for error details: text of JSON-domain values,
// an opaque piece for typed values.
type nativeJSONEncoder struct{ w iface }

func (*nativeJSONEncoder) isNativeHandle() {}

func init() {
	externals["encoding/json.NewEncoder"] = func(fr *frame, a []value) value {
		return ptrTo(&nativeJSONEncoder{w: a[0].(iface)})
	}
	externals["(*encoding/json.Encoder).SetIndent"] = func(fr *frame, a []value) value { return nil }
	externals["(*encoding/json.Encoder).SetEscapeHTML"] = func(fr *frame, a []value) value { return nil }
	externals["(*encoding/json.Encoder).Encode"] = func(fr *frame, a []value) value {
		i := fr.i
		enc := (*(a[0].(*value))).(*nativeJSONEncoder)
		if i.jsonHasBadFloat(a[1], 0) {
			// encoding/json refuses NaN and the infinities (*json.UnsupportedValueError); nothing is written
			return i.newError(fr, "json: unsupported value: NaN or Inf")
		}
		var out []value
		if !i.jsonTextSym(a[1], &out) {
			out = []value{opaque{"json text of a typed value"}}
		}
		out = append(out, uint8('\n'))
		if _, ok := i.callMethod(fr, enc.w.t, enc.w.v, "Write", out); !ok {
			panic(unsupported{"json.Encoder over a writer without Write"})
		}
		return iface{}
	}
}

// jsonHasBadFloat: does a JSON-domain value (any, map[string]any, []any ...) hold a float that
// encoding/json refuses? Symbolic floats fork on "is NaN or infinite".
func (i *interpreter) jsonHasBadFloat(v value, depth int) bool {
	if depth > 12 {
		return false
	}
	switch v := v.(type) {
	case iface:
		if v.t == nil {
			return false
		}
		return i.jsonHasBadFloat(v.v, depth+1)
	case *value:
		if v == nil {
			return false
		}
		return i.jsonHasBadFloat(*v, depth+1)
	case float64:
		return math.IsNaN(v) || math.IsInf(v, 0)
	case symVal:
		if v.k != types.Float64 || v.t.FromIntConv() {
			return false
		}
		c := i.ctx()
		return i.truth(i.boolSym(c.Or(c.IsNaN(v.t), c.App("fp.isInfinite", sym.Bool, v.t))))
	case []value:
		for _, e := range v {
			if i.jsonHasBadFloat(e, depth+1) {
				return true
			}
		}
	case *omap:
		if v == nil {
			return false
		}
		for _, p := range v.order() {
			if i.jsonHasBadFloat(v.vals[p], depth+1) {
				return true
			}
		}
	}
	return false
}
