// Copyright 2013 The Go Authors. All rights reserved.
// Use of this source code is governed by a BSD-style
// license that can be found in the LICENSE file.

package interp

// Emulated "reflect" package.
//
// We completely replace the built-in "reflect" package.
// The only thing clients can depend upon are that reflect.Type is an
// interface and reflect.Value is an (opaque) struct.

import (
	"fmt"
	"go/token"
	"go/types"
	"reflect"
	"unsafe"

	"golang.org/x/tools/go/ssa"
)

type opaqueType struct {
	types.Type
	name string
}

func (t *opaqueType) String() string { return t.name }

// A bogus "reflect" type-checker package.  Shared across interpreters.
var reflectTypesPackage = types.NewPackage("reflect", "reflect")

// rtype is the concrete type the interpreter uses to implement the
// reflect.Type interface.
//
// type rtype <opaque>
var rtypeType = makeNamedType("rtype", &opaqueType{nil, "rtype"})

// error is an (interpreted) named type whose underlying type is string.
// The interpreter uses it for all implementations of the built-in error
// interface that it creates.
// We put it in the "reflect" package for expedience.
//
// type error string
var errorType = makeNamedType("error", &opaqueType{nil, "error"})

func makeNamedType(name string, underlying types.Type) *types.Named {
	obj := types.NewTypeName(token.NoPos, reflectTypesPackage, name, nil)
	return types.NewNamed(obj, underlying, nil)
}

func makeReflectValue(t types.Type, v value) value {
	return structure{rtype{t}, v, (*value)(nil)}
}

// makeReflectValueAddr is an addressable reflect.Value: addr is where the value lives.
func makeReflectValueAddr(t types.Type, v value, addr *value) value {
	return structure{rtype{t}, v, addr}
}

func rVAddr(v value) *value {
	st := v.(structure)
	if len(st) > 2 {
		if a, ok := st[2].(*value); ok {
			return a
		}
	}
	return nil
}

func rVValid(v value) bool {
	st, ok := v.(structure)
	if !ok || len(st) == 0 {
		return false
	}
	rt, ok := st[0].(rtype)
	return ok && rt.t != nil
}

// Given a reflect.Value, returns its rtype.
func rV2T(v value) rtype {
	return v.(structure)[0].(rtype)
}

// Given a reflect.Value, returns the underlying interpreter value.
func rV2V(v value) value {
	return v.(structure)[1]
}

// makeReflectType boxes up an rtype in a reflect.Type interface.
func makeReflectType(rt rtype) value {
	return iface{rtypeType, rt}
}

func ext۰reflect۰rtype۰Bits(fr *frame, args []value) value {
	// Signature: func (t reflect.rtype) int
	rt := args[0].(rtype).t
	basic, ok := rt.Underlying().(*types.Basic)
	if !ok {
		panic(fmt.Sprintf("reflect.Type.Bits(%T): non-basic type", rt))
	}
	return int(stdSizes.Sizeof(basic)) * 8
}

func ext۰reflect۰rtype۰Elem(fr *frame, args []value) value {
	// Signature: func (t reflect.rtype) reflect.Type
	return makeReflectType(rtype{args[0].(rtype).t.Underlying().(interface {
		Elem() types.Type
	}).Elem()})
}

func ext۰reflect۰rtype۰Field(fr *frame, args []value) value {
	// Signature: func (t reflect.rtype, i int) reflect.StructField
	st := args[0].(rtype).t.Underlying().(*types.Struct)
	return structFieldValue(st, args[1].(int))
}

func ext۰reflect۰rtype۰In(fr *frame, args []value) value {
	// Signature: func (t reflect.rtype, i int) int
	i := args[1].(int)
	return makeReflectType(rtype{args[0].(rtype).t.(*types.Signature).Params().At(i).Type()})
}

func ext۰reflect۰rtype۰Kind(fr *frame, args []value) value {
	// Signature: func (t reflect.rtype) uint
	return uint(reflectKind(args[0].(rtype).t))
}

func ext۰reflect۰rtype۰NumField(fr *frame, args []value) value {
	// Signature: func (t reflect.rtype) int
	return args[0].(rtype).t.Underlying().(*types.Struct).NumFields()
}

func ext۰reflect۰rtype۰NumIn(fr *frame, args []value) value {
	// Signature: func (t reflect.rtype) int
	return args[0].(rtype).t.Underlying().(*types.Signature).Params().Len()
}

func ext۰reflect۰rtype۰NumMethod(fr *frame, args []value) value {
	// Signature: func (t reflect.rtype) int
	return fr.i.prog.MethodSets.MethodSet(args[0].(rtype).t).Len()
}

func ext۰reflect۰rtype۰NumOut(fr *frame, args []value) value {
	// Signature: func (t reflect.rtype) int
	return args[0].(rtype).t.Underlying().(*types.Signature).Results().Len()
}

func ext۰reflect۰rtype۰Out(fr *frame, args []value) value {
	// Signature: func (t reflect.rtype, i int) int
	i := args[1].(int)
	return makeReflectType(rtype{args[0].(rtype).t.Underlying().(*types.Signature).Results().At(i).Type()})
}

func ext۰reflect۰rtype۰Size(fr *frame, args []value) value {
	// Signature: func (t reflect.rtype) uintptr
	return uintptr(stdSizes.Sizeof(args[0].(rtype).t))
}

func ext۰reflect۰rtype۰String(fr *frame, args []value) value {
	// Signature: func (t reflect.rtype) string
	return args[0].(rtype).t.String()
}

func ext۰reflect۰New(fr *frame, args []value) value {
	// Signature: func (t reflect.Type) reflect.Value
	t := args[0].(iface).v.(rtype).t
	alloc := zero(t)
	return makeReflectValue(types.NewPointer(t), &alloc)
}

func ext۰reflect۰SliceOf(fr *frame, args []value) value {
	// Signature: func (t reflect.rtype) Type
	return makeReflectType(rtype{types.NewSlice(args[0].(iface).v.(rtype).t)})
}

func ext۰reflect۰TypeOf(fr *frame, args []value) value {
	// Signature: func (t reflect.rtype) Type
	return makeReflectType(rtype{args[0].(iface).t})
}

func ext۰reflect۰ValueOf(fr *frame, args []value) value {
	// Signature: func (interface{}) reflect.Value
	itf := args[0].(iface)
	return makeReflectValue(itf.t, itf.v)
}

func ext۰reflect۰Zero(fr *frame, args []value) value {
	// Signature: func (t reflect.Type) reflect.Value
	t := args[0].(iface).v.(rtype).t
	return makeReflectValue(t, zero(t))
}

func reflectKind(t types.Type) reflect.Kind {
	if t == nil {
		return reflect.Invalid
	}
	switch t := t.(type) {
	case *types.Named, *types.Alias:
		return reflectKind(t.Underlying())
	case *types.Basic:
		switch t.Kind() {
		case types.Bool:
			return reflect.Bool
		case types.Int:
			return reflect.Int
		case types.Int8:
			return reflect.Int8
		case types.Int16:
			return reflect.Int16
		case types.Int32:
			return reflect.Int32
		case types.Int64:
			return reflect.Int64
		case types.Uint:
			return reflect.Uint
		case types.Uint8:
			return reflect.Uint8
		case types.Uint16:
			return reflect.Uint16
		case types.Uint32:
			return reflect.Uint32
		case types.Uint64:
			return reflect.Uint64
		case types.Uintptr:
			return reflect.Uintptr
		case types.Float32:
			return reflect.Float32
		case types.Float64:
			return reflect.Float64
		case types.Complex64:
			return reflect.Complex64
		case types.Complex128:
			return reflect.Complex128
		case types.String:
			return reflect.String
		case types.UnsafePointer:
			return reflect.UnsafePointer
		}
	case *types.Array:
		return reflect.Array
	case *types.Chan:
		return reflect.Chan
	case *types.Signature:
		return reflect.Func
	case *types.Interface:
		return reflect.Interface
	case *types.Map:
		return reflect.Map
	case *types.Pointer:
		return reflect.Ptr
	case *types.Slice:
		return reflect.Slice
	case *types.Struct:
		return reflect.Struct
	}
	panic(fmt.Sprint("unexpected type: ", t))
}

func ext۰reflect۰Value۰Kind(fr *frame, args []value) value {
	// Signature: func (reflect.Value) uint
	return uint(reflectKind(rV2T(args[0]).t))
}

func ext۰reflect۰Value۰String(fr *frame, args []value) value {
	// Signature: func (reflect.Value) string
	return toString(rV2V(args[0]))
}

func ext۰reflect۰Value۰Type(fr *frame, args []value) value {
	// Signature: func (reflect.Value) reflect.Type
	return makeReflectType(rV2T(args[0]))
}

func ext۰reflect۰Value۰Uint(fr *frame, args []value) value {
	// Signature: func (reflect.Value) uint64
	switch v := rV2V(args[0]).(type) {
	case uint:
		return uint64(v)
	case uint8:
		return uint64(v)
	case uint16:
		return uint64(v)
	case uint32:
		return uint64(v)
	case uint64:
		return uint64(v)
	case uintptr:
		return uint64(v)
	}
	panic("reflect.Value.Uint")
}

func ext۰reflect۰Value۰Len(fr *frame, args []value) value {
	// Signature: func (reflect.Value) int
	switch v := rV2V(args[0]).(type) {
	case string:
		return len(v)
	case array:
		return len(v)
	case chan value:
		return cap(v)
	case []value:
		return len(v)
	case symStr:
		return v.length()
	case *omap:
		return v.len()
	default:
		panic(fmt.Sprintf("reflect.(Value).Len(%v)", v))
	}
}

func ext۰reflect۰Value۰MapIndex(fr *frame, args []value) value {
	// Signature: func (reflect.Value) Value
	tValue := rV2T(args[0]).t.Underlying().(*types.Map).Elem()
	k := rV2V(args[1])
	switch m := rV2V(args[0]).(type) {
	case *omap:
		if v, ok := m.lookup(fr.i, k); ok {
			return makeReflectValue(tValue, v)
		}

	default:
		panic(fmt.Sprintf("(reflect.Value).MapIndex(%T, %T)", m, k))
	}
	return makeReflectValue(nil, nil)
}

func ext۰reflect۰Value۰MapKeys(fr *frame, args []value) value {
	// Signature: func (reflect.Value) []Value
	var keys []value
	tKey := rV2T(args[0]).t.Underlying().(*types.Map).Key()
	switch v := rV2V(args[0]).(type) {
	case *omap:
		for _, p := range v.order() {
			keys = append(keys, makeReflectValue(tKey, v.keys[p]))
		}
		if fr.i.w != nil && fr.i.w.mapDesc {
			for a, b := 0, len(keys)-1; a < b; a, b = a+1, b-1 {
				keys[a], keys[b] = keys[b], keys[a]
			}
		}

	default:
		panic(fmt.Sprintf("(reflect.Value).MapKeys(%T)", v))
	}
	return keys
}

func ext۰reflect۰Value۰NumField(fr *frame, args []value) value {
	// Signature: func (reflect.Value) int
	return len(rV2V(args[0]).(structure))
}

func ext۰reflect۰Value۰NumMethod(fr *frame, args []value) value {
	// Signature: func (reflect.Value) int
	return fr.i.prog.MethodSets.MethodSet(rV2T(args[0]).t).Len()
}

func ext۰reflect۰Value۰Pointer(fr *frame, args []value) value {
	// Signature: func (v reflect.Value) uintptr
	switch v := rV2V(args[0]).(type) {
	case *value:
		return uintptr(unsafe.Pointer(v))
	case chan value:
		return reflect.ValueOf(v).Pointer()
	case []value:
		return reflect.ValueOf(v).Pointer()
	case *omap:
		return uintptr(unsafe.Pointer(v))
	case *ssa.Function:
		return uintptr(unsafe.Pointer(v))
	case *closure:
		return uintptr(unsafe.Pointer(v))
	default:
		panic(fmt.Sprintf("reflect.(Value).Pointer(%T)", v))
	}
}

func ext۰reflect۰Value۰Index(fr *frame, args []value) value {
	// Signature: func (v reflect.Value, i int) Value
	i := args[1].(int)
	t := rV2T(args[0]).t.Underlying()
	switch v := rV2V(args[0]).(type) {
	case array:
		return makeReflectValue(t.(*types.Array).Elem(), v[i])
	case []value:
		return makeReflectValue(t.(*types.Slice).Elem(), v[i])
	default:
		panic(fmt.Sprintf("reflect.(Value).Index(%T)", v))
	}
}

func ext۰reflect۰Value۰Bool(fr *frame, args []value) value {
	// Signature: func (reflect.Value) bool
	return rV2V(args[0]).(bool)
}

func ext۰reflect۰Value۰CanAddr(fr *frame, args []value) value {
	// Signature: func (v reflect.Value) bool
	// Always false for our representation.
	return false
}

func ext۰reflect۰Value۰CanInterface(fr *frame, args []value) value {
	// Signature: func (v reflect.Value) bool
	// Always true for our representation.
	return true
}

func ext۰reflect۰Value۰Elem(fr *frame, args []value) value {
	// Signature: func (v reflect.Value) reflect.Value
	switch x := rV2V(args[0]).(type) {
	case iface:
		return makeReflectValue(x.t, x.v)
	case *value:
		et := rV2T(args[0]).t.Underlying().(*types.Pointer).Elem()
		if x == nil {
			return makeReflectValue(nil, nil)
		}
		return makeReflectValueAddr(et, load(et, x), x)
	default:
		panic(fmt.Sprintf("reflect.(Value).Elem(%T)", x))
	}
}

func ext۰reflect۰Value۰Field(fr *frame, args []value) value {
	// Signature: func (v reflect.Value, i int) reflect.Value
	v := args[0]
	i := args[1].(int)
	ft := rV2T(v).t.Underlying().(*types.Struct).Field(i).Type()
	if a := rVAddr(v); a != nil {
		fa := &(*a).(structure)[i]
		return makeReflectValueAddr(ft, load(ft, fa), fa)
	}
	return makeReflectValue(ft, rV2V(v).(structure)[i])
}

func ext۰reflect۰Value۰Float(fr *frame, args []value) value {
	// Signature: func (reflect.Value) float64
	switch v := rV2V(args[0]).(type) {
	case float32:
		return float64(v)
	case float64:
		return float64(v)
	}
	panic("reflect.Value.Float")
}

func ext۰reflect۰Value۰Interface(fr *frame, args []value) value {
	// Signature: func (v reflect.Value) interface{}
	return ext۰reflect۰valueInterface(fr, args)
}

func ext۰reflect۰Value۰Int(fr *frame, args []value) value {
	// Signature: func (reflect.Value) int64
	switch x := rV2V(args[0]).(type) {
	case int:
		return int64(x)
	case int8:
		return int64(x)
	case int16:
		return int64(x)
	case int32:
		return int64(x)
	case int64:
		return x
	default:
		panic(fmt.Sprintf("reflect.(Value).Int(%T)", x))
	}
}

func ext۰reflect۰Value۰IsNil(fr *frame, args []value) value {
	// Signature: func (reflect.Value) bool
	switch x := rV2V(args[0]).(type) {
	case *value:
		return x == nil
	case chan value:
		return x == nil
	case *omap:
		return x == nil
	case iface:
		return x.t == nil
	case []value:
		return x == nil
	case *ssa.Function:
		return x == nil
	case *ssa.Builtin:
		return x == nil
	case *closure:
		return x == nil
	default:
		panic(fmt.Sprintf("reflect.(Value).IsNil(%T)", x))
	}
}

func ext۰reflect۰Value۰IsValid(fr *frame, args []value) value {
	// Signature: func (reflect.Value) bool
	return rVValid(args[0])
}

func ext۰reflect۰Value۰Set(fr *frame, args []value) value {
	a := rVAddr(args[0])
	if a == nil {
		rtPanic(fr.i, "reflect: reflect.Value.Set using unaddressable value")
	}
	store(rV2T(args[0]).t, a, copyVal(rV2V(args[1])))
	return nil
}

func ext۰reflect۰valueInterface(fr *frame, args []value) value {
	// Signature: func (v reflect.Value, safe bool) interface{}
	v := args[0].(structure)
	t, x := rV2T(v).t, rV2V(v)
	if t != nil && types.IsInterface(t) {
		// a Value of interface kind (e.g. an element of map[string]any): Interface() yields the
		// dynamic value it holds, not an interface wrapped in an interface
		if it, ok := x.(iface); ok {
			return it
		}
	}
	return iface{t, x}
}

func ext۰reflect۰error۰Error(fr *frame, args []value) value {
	return args[0]
}

// newMethod creates a new method of the specified name, package and receiver type.
func newMethod(pkg *ssa.Package, recvType types.Type, name string) *ssa.Function {
	// TODO(adonovan): fix: hack: currently the only part of Signature
	// that is needed is the "pointerness" of Recv.Type, and for
	// now, we'll set it to always be false since we're only
	// concerned with rtype.  Encapsulate this better.
	sig := types.NewSignature(types.NewVar(token.NoPos, nil, "recv", recvType), nil, nil, false)
	fn := pkg.Prog.NewFunction(name, sig, "fake reflect method")
	fn.Pkg = pkg
	return fn
}

func initReflect(prog *ssa.Program) {
	i := struct {
		prog           *ssa.Program
		reflectPackage *ssa.Package
	}{prog: prog}
	i.reflectPackage = &ssa.Package{
		Prog:    i.prog,
		Pkg:     reflectTypesPackage,
		Members: make(map[string]ssa.Member),
	}

	// Clobber the type-checker's notion of reflect.Value's
	// underlying type so that it more closely matches the fake one
	// (at least in the number of fields---we lie about the type of
	// the rtype field).
	//
	// We must ensure that calls to (ssa.Value).Type() return the
	// fake type so that correct "shape" is used when allocating
	// variables, making zero values, loading, and storing.
	//
	// TODO(adonovan): obviously this is a hack.  We need a cleaner
	// way to fake the reflect package (almost---DeepEqual is fine).
	// One approach would be not to even load its source code, but
	// provide fake source files.  This would guarantee that no bad
	// information leaks into other packages.
	if r := i.prog.ImportedPackage("reflect"); r != nil {
		rV := r.Pkg.Scope().Lookup("Value").Type().(*types.Named)

		// delete bodies of the old methods
		mset := i.prog.MethodSets.MethodSet(rV)
		for j := 0; j < mset.Len(); j++ {
			i.prog.MethodValue(mset.At(j)).Blocks = nil
		}

		tEface := types.NewInterface(nil, nil).Complete()
		rV.SetUnderlying(types.NewStruct([]*types.Var{
			types.NewField(token.NoPos, r.Pkg, "t", tEface, false), // a lie
			types.NewField(token.NoPos, r.Pkg, "v", tEface, false),
			types.NewField(token.NoPos, r.Pkg, "a", tEface, false),
		}, nil))
	}

	rtypeMethods = methodSet{
		"Bits":      newMethod(i.reflectPackage, rtypeType, "Bits"),
		"Elem":      newMethod(i.reflectPackage, rtypeType, "Elem"),
		"Field":     newMethod(i.reflectPackage, rtypeType, "Field"),
		"In":        newMethod(i.reflectPackage, rtypeType, "In"),
		"Kind":      newMethod(i.reflectPackage, rtypeType, "Kind"),
		"NumField":  newMethod(i.reflectPackage, rtypeType, "NumField"),
		"NumIn":     newMethod(i.reflectPackage, rtypeType, "NumIn"),
		"NumMethod": newMethod(i.reflectPackage, rtypeType, "NumMethod"),
		"NumOut":    newMethod(i.reflectPackage, rtypeType, "NumOut"),
		"Out":       newMethod(i.reflectPackage, rtypeType, "Out"),
		"Size":      newMethod(i.reflectPackage, rtypeType, "Size"),
		"String":    newMethod(i.reflectPackage, rtypeType, "String"),
	}
	for _, extra := range []string{"FieldByName", "Name", "PkgPath", "Key", "Len", "Comparable", "Implements", "MethodByName", "AssignableTo", "ConvertibleTo"} {
		rtypeMethods[extra] = newMethod(i.reflectPackage, rtypeType, extra)
	}
	errorMethods = methodSet{
		"Error": newMethod(i.reflectPackage, errorType, "Error"),
	}
}

func init() {
	for k, v := range map[string]externalFn{
		"(reflect.Value).Bool":         ext۰reflect۰Value۰Bool,
		"(reflect.Value).CanAddr":      ext۰reflect۰Value۰CanAddr,
		"(reflect.Value).CanInterface": ext۰reflect۰Value۰CanInterface,
		"(reflect.Value).Elem":         ext۰reflect۰Value۰Elem,
		"(reflect.Value).Field":        ext۰reflect۰Value۰Field,
		"(reflect.Value).Float":        ext۰reflect۰Value۰Float,
		"(reflect.Value).Index":        ext۰reflect۰Value۰Index,
		"(reflect.Value).Int":          ext۰reflect۰Value۰Int,
		"(reflect.Value).Interface":    ext۰reflect۰Value۰Interface,
		"(reflect.Value).IsNil":        ext۰reflect۰Value۰IsNil,
		"(reflect.Value).IsValid":      ext۰reflect۰Value۰IsValid,
		"(reflect.Value).Kind":         ext۰reflect۰Value۰Kind,
		"(reflect.Value).Len":          ext۰reflect۰Value۰Len,
		"(reflect.Value).MapIndex":     ext۰reflect۰Value۰MapIndex,
		"(reflect.Value).MapKeys":      ext۰reflect۰Value۰MapKeys,
		"(reflect.Value).NumField":     ext۰reflect۰Value۰NumField,
		"(reflect.Value).NumMethod":    ext۰reflect۰Value۰NumMethod,
		"(reflect.Value).Pointer":      ext۰reflect۰Value۰Pointer,
		"(reflect.Value).Set":          ext۰reflect۰Value۰Set,
		"(reflect.Value).String":       ext۰reflect۰Value۰String,
		"(reflect.Value).Type":         ext۰reflect۰Value۰Type,
		"(reflect.Value).Uint":         ext۰reflect۰Value۰Uint,
		"(reflect.error).Error":        ext۰reflect۰error۰Error,
		"(reflect.rtype).Bits":         ext۰reflect۰rtype۰Bits,
		"(reflect.rtype).Elem":         ext۰reflect۰rtype۰Elem,
		"(reflect.rtype).Field":        ext۰reflect۰rtype۰Field,
		"(reflect.rtype).In":           ext۰reflect۰rtype۰In,
		"(reflect.rtype).Kind":         ext۰reflect۰rtype۰Kind,
		"(reflect.rtype).NumField":     ext۰reflect۰rtype۰NumField,
		"(reflect.rtype).NumIn":        ext۰reflect۰rtype۰NumIn,
		"(reflect.rtype).NumMethod":    ext۰reflect۰rtype۰NumMethod,
		"(reflect.rtype).NumOut":       ext۰reflect۰rtype۰NumOut,
		"(reflect.rtype).Out":          ext۰reflect۰rtype۰Out,
		"(reflect.rtype).Size":         ext۰reflect۰rtype۰Size,
		"(reflect.rtype).String":       ext۰reflect۰rtype۰String,
		"reflect.New":                  ext۰reflect۰New,
		"reflect.SliceOf":              ext۰reflect۰SliceOf,
		"reflect.TypeOf":               ext۰reflect۰TypeOf,
		"reflect.ValueOf":              ext۰reflect۰ValueOf,
		"reflect.Zero":                 ext۰reflect۰Zero,
	} {
		externals[k] = v
	}
}
