// Copyright 2013 The Go Authors. All rights reserved.
// Use of this source code is governed by a BSD-style
// license that can be found in the LICENSE file.
//
// This package is a fork of golang.org/x/tools/go/ssa/interp (v0.29.0),
// extended with symbolic values, deterministic maps, path forking and
// an SMT back end. See /verif/DESIGN.md.

package interp

// Values
//
// All interpreter values are "boxed" in the empty interface, value.
// The range of possible dynamic types within value are:
//
// - bool, numbers, string            (concrete Go values)
// - symVal                           (symbolic bool / integer / float: an SMT term + Go basic kind)
// - symStr                           (string of concrete length whose bytes may be symbolic)
// - *omap                            (maps; deterministic, insertion ordered)
// - []value                          (slices)
// - iface                            (interfaces)
// - structure, array                 (aggregates)
// - *value                           (pointers)
// - *ssa.Function, *ssa.Builtin, *closure, *nativeFn (functions)
// - tuple, iter, rtype, bad, **deferred, native handles (nativeRegexp, ...)

import (
	"bytes"
	"fmt"
	"go/types"
	"sort"
	"unsafe"

	"golang.org/x/tools/go/ssa"
	"golang.org/x/tools/go/types/typeutil"

	"verif/engine/sym"
)

type value interface{}

type tuple []value

type array []value

type iface struct {
	t types.Type // never an "untyped" type
	v value
}

type structure []value

// symVal is a symbolic scalar. k is the Go basic kind it stands for
// (types.Bool, types.Int ... types.Uintptr, types.Float32, types.Float64).
type symVal struct {
	t *sym.Term
	k types.BasicKind
}

// symStr is a string (or the content of one) of concrete length whose
// elements are uint8, symVal{k: Uint8}, or opaque pieces.
type symStr struct{ b []value }

// opaque is a piece of text of unknown length and content (the formatting
// of a symbolic number). It can be concatenated and searched for marker
// bytes (it contains none: its alphabet is [0-9a-zA-Z+-.]); anything else
// ends the path as unsupported.
type opaque struct{ desc string }

// For map, array, *array, slice, string or channel.
type iter interface {
	// next returns a Tuple (key, value, ok).
	next(fr *frame) tuple
}

type closure struct {
	Fn  *ssa.Function
	Env []value
}

// nativeFn is a Go-implemented function value handed to interpreted code.
type nativeFn struct {
	name string
	fn   func(fr *frame, args []value) value
}

type bad struct{}

type rtype struct {
	t types.Type
}

var hasher = typeutil.MakeHasher()

func sameType(x, y types.Type) bool {
	if x == nil {
		return y == nil
	}
	return y != nil && types.Identical(x, y)
}

func isSymbolic(v value) bool {
	switch v.(type) {
	case symVal, symStr:
		return true
	}
	return false
}

// equalsV returns x == y (Go semantics for type t) as a bool or a symVal.
func (i *interpreter) equalsV(t types.Type, x, y value) value {
	switch x := x.(type) {
	case symVal, symStr:
		return i.symEq(x, y)
	case bool, int, int8, int16, int32, int64, uint, uint8, uint16, uint32, uint64, uintptr, float32, float64, complex64, complex128, string:
		if isSymbolic(y) {
			return i.symEq(x, y)
		}
		return x == y
	case *value:
		return x == y.(*value)
	case chan value:
		return x == y.(chan value)
	case unsafe.Pointer:
		return x == y.(unsafe.Pointer)
	case structure:
		y := y.(structure)
		tStruct := t.Underlying().(*types.Struct)
		var acc value = true
		for k, n := 0, tStruct.NumFields(); k < n; k++ {
			if f := tStruct.Field(k); f.Name() != "_" {
				acc = i.andV(acc, i.equalsV(f.Type(), x[k], y[k]))
				if acc == false {
					return false
				}
			}
		}
		return acc
	case array:
		y := y.(array)
		tElt := t.Underlying().(*types.Array).Elem()
		var acc value = true
		for k := range x {
			acc = i.andV(acc, i.equalsV(tElt, x[k], y[k]))
			if acc == false {
				return false
			}
		}
		return acc
	case iface:
		y := y.(iface)
		if !sameType(x.t, y.t) {
			return false
		}
		if x.t == nil {
			return true
		}
		return i.equalsV(x.t, x.v, y.v)
	case rtype:
		return types.Identical(x.t, y.(rtype).t)
	case nativeHandle:
		return x == y
	}
	// Since map, func and slice don't support comparison, this
	// case is only reachable if one of x or y is literally nil
	// (handled in eqnil) or via interface{} values.
	panic(targetPanic{v: runtimeErr(i, fmt.Sprintf("comparing uncomparable type %s", t))})
}

// andV is logical and over bool|symVal.
func (i *interpreter) andV(a, b value) value {
	if ab, ok := a.(bool); ok {
		if !ab {
			return false
		}
		return b
	}
	if bb, ok := b.(bool); ok {
		if !bb {
			return false
		}
		return a
	}
	return symVal{i.ctx().And(a.(symVal).t, b.(symVal).t), types.Bool}
}

func (i *interpreter) orV(a, b value) value {
	if ab, ok := a.(bool); ok {
		if ab {
			return true
		}
		return b
	}
	if bb, ok := b.(bool); ok {
		if bb {
			return true
		}
		return a
	}
	return symVal{i.ctx().Or(a.(symVal).t, b.(symVal).t), types.Bool}
}

func (i *interpreter) notV(a value) value {
	if ab, ok := a.(bool); ok {
		return !ab
	}
	return symVal{i.ctx().Not(a.(symVal).t), types.Bool}
}

// load returns the value of type T in *addr.
func load(T types.Type, addr *value) value {
	switch T := T.Underlying().(type) {
	case *types.Struct:
		v := (*addr).(structure)
		a := make(structure, len(v))
		for i := range a {
			a[i] = load(T.Field(i).Type(), &v[i])
		}
		return a
	case *types.Array:
		v := (*addr).(array)
		a := make(array, len(v))
		for i := range a {
			a[i] = load(T.Elem(), &v[i])
		}
		return a
	default:
		return *addr
	}
}

// store stores value v of type T into *addr.
func store(T types.Type, addr *value, v value) {
	switch T := T.Underlying().(type) {
	case *types.Struct:
		lhs := (*addr).(structure)
		rhs := v.(structure)
		for i := range lhs {
			store(T.Field(i).Type(), &lhs[i], rhs[i])
		}
	case *types.Array:
		lhs := (*addr).(array)
		rhs := v.(array)
		for i := range lhs {
			store(T.Elem(), &lhs[i], rhs[i])
		}
	default:
		*addr = v
	}
}

// copyVal returns an unaliased copy of an aggregate value.
func copyVal(v value) value {
	switch v := v.(type) {
	case structure:
		a := make(structure, len(v))
		for i := range v {
			a[i] = copyVal(v[i])
		}
		return a
	case array:
		a := make(array, len(v))
		for i := range v {
			a[i] = copyVal(v[i])
		}
		return a
	}
	return v
}

// Prints in the style of built-in println.
func writeValue(buf *bytes.Buffer, v value) {
	switch v := v.(type) {
	case nil, bool, int, int8, int16, int32, int64, uint, uint8, uint16, uint32, uint64, uintptr, float32, float64, complex64, complex128, string:
		fmt.Fprintf(buf, "%v", v)

	case symVal:
		fmt.Fprintf(buf, "<sym %s>", v.t)

	case symStr:
		buf.WriteString(v.debug())

	case *omap:
		buf.WriteString("map[")
		if v != nil {
			for k, i := range v.order() {
				if k > 0 {
					buf.WriteString(" ")
				}
				writeValue(buf, v.keys[i])
				buf.WriteString(":")
				writeValue(buf, v.vals[i])
			}
		}
		buf.WriteString("]")

	case chan value:
		fmt.Fprintf(buf, "%v", v) // (an address)

	case *value:
		if v == nil {
			buf.WriteString("<nil>")
		} else {
			fmt.Fprintf(buf, "%p", v)
		}

	case iface:
		fmt.Fprintf(buf, "(%s, ", v.t)
		writeValue(buf, v.v)
		buf.WriteString(")")

	case structure:
		buf.WriteString("{")
		for i, e := range v {
			if i > 0 {
				buf.WriteString(" ")
			}
			writeValue(buf, e)
		}
		buf.WriteString("}")

	case array:
		buf.WriteString("[")
		for i, e := range v {
			if i > 0 {
				buf.WriteString(" ")
			}
			writeValue(buf, e)
		}
		buf.WriteString("]")

	case []value:
		buf.WriteString("[")
		for i, e := range v {
			if i > 0 {
				buf.WriteString(" ")
			}
			writeValue(buf, e)
		}
		buf.WriteString("]")

	case *ssa.Function, *ssa.Builtin, *closure:
		fmt.Fprintf(buf, "%p", v) // (an address)

	case rtype:
		buf.WriteString(v.t.String())

	case tuple:
		buf.WriteString("(")
		for i, e := range v {
			if i > 0 {
				buf.WriteString(", ")
			}
			writeValue(buf, e)
		}
		buf.WriteString(")")

	default:
		fmt.Fprintf(buf, "<%T>", v)
	}
}

// Implements printing of Go values in the style of built-in println.
func toString(v value) string {
	var b bytes.Buffer
	writeValue(&b, v)
	return b.String()
}

// ------------------------------------------------------------------------
// Maps: insertion-ordered association lists with a native index for
// concrete basic keys. Iteration order is deterministic: sorted when all
// keys are concrete strings or integers, insertion order otherwise.

type omap struct {
	keyType types.Type
	keys    []value
	vals    []value
	idx     map[value]int // concrete basic / pointer keys -> position
	nsym    int           // number of non-indexable keys (symbolic or aggregate)
}

func makeMap(kt types.Type, reserve int64) *omap {
	return &omap{keyType: kt, idx: make(map[value]int)}
}

func indexable(k value) bool {
	switch k.(type) {
	case bool, int, int8, int16, int32, int64, uint, uint8, uint16, uint32, uint64, uintptr, float32, float64, string, *value, complex64, complex128:
		return true
	}
	return false
}

func (m *omap) len() int {
	if m == nil {
		return 0
	}
	return len(m.keys)
}

// find returns the position of key k, or -1. May fork on symbolic keys.
func (m *omap) find(i *interpreter, k value) int {
	if m == nil {
		return -1
	}
	if f, ok := k.(float64); ok && f != f {
		return -1
	}
	if indexable(k) {
		if p, ok := m.idx[k]; ok {
			return p
		}
		if m.nsym == 0 {
			return -1
		}
		for p, ek := range m.keys {
			if !indexable(ek) {
				if i.truth(i.equalsV(m.keyType, ek, k)) {
					return p
				}
			}
		}
		return -1
	}
	for _, p := range m.order() {
		if i.truth(i.equalsV(m.keyType, m.keys[p], k)) {
			return p
		}
	}
	return -1
}

func (m *omap) lookup(i *interpreter, k value) (value, bool) {
	p := m.find(i, k)
	if p < 0 {
		return nil, false
	}
	return m.vals[p], true
}

func (m *omap) insert(i *interpreter, k, v value) {
	if p := m.find(i, k); p >= 0 {
		m.vals[p] = v
		return
	}
	if indexable(k) {
		m.idx[k] = len(m.keys)
	} else {
		m.nsym++
	}
	m.keys = append(m.keys, k)
	m.vals = append(m.vals, v)
}

func (m *omap) delete(i *interpreter, k value) {
	p := m.find(i, k)
	if p < 0 {
		return
	}
	if indexable(m.keys[p]) {
		delete(m.idx, m.keys[p])
	} else {
		m.nsym--
	}
	m.keys = append(m.keys[:p:p], m.keys[p+1:]...)
	m.vals = append(m.vals[:p:p], m.vals[p+1:]...)
	for q := p; q < len(m.keys); q++ {
		if indexable(m.keys[q]) {
			m.idx[m.keys[q]] = q
		}
	}
}

// order returns the positions in iteration order.
func (m *omap) order() []int {
	if m == nil {
		return nil
	}
	ord := make([]int, len(m.keys))
	for i := range ord {
		ord[i] = i
	}
	if m.nsym > 0 || len(m.keys) < 2 {
		return ord
	}
	switch m.keys[0].(type) {
	case string:
		sort.SliceStable(ord, func(a, b int) bool { return m.keys[ord[a]].(string) < m.keys[ord[b]].(string) })
	case int:
		sort.SliceStable(ord, func(a, b int) bool { return m.keys[ord[a]].(int) < m.keys[ord[b]].(int) })
	case int64:
		sort.SliceStable(ord, func(a, b int) bool { return m.keys[ord[a]].(int64) < m.keys[ord[b]].(int64) })
	case uint64:
		sort.SliceStable(ord, func(a, b int) bool { return m.keys[ord[a]].(uint64) < m.keys[ord[b]].(uint64) })
	}
	return ord
}

type mapIter struct {
	m    *omap
	keys []value
	pos  int
}

func newMapIter(m *omap) *mapIter {
	it := &mapIter{m: m}
	for _, p := range m.order() {
		it.keys = append(it.keys, m.keys[p])
	}
	return it
}

func (it *mapIter) next(fr *frame) tuple {
	for it.pos < len(it.keys) {
		k := it.keys[it.pos]
		it.pos++
		// entries deleted during iteration must not be produced
		var p int = -1
		if indexable(k) {
			if q, ok := it.m.idx[k]; ok {
				p = q
			}
		} else {
			for q, ek := range it.m.keys {
				if sameKeyIdentity(ek, k) {
					p = q
					break
				}
			}
		}
		if p < 0 {
			continue
		}
		return tuple{true, k, it.m.vals[p]}
	}
	return tuple{false, nil, nil}
}

// sameKeyIdentity compares non-indexable keys by representation identity
// (used only to detect deletion during iteration).
func sameKeyIdentity(a, b value) bool {
	switch a := a.(type) {
	case symVal:
		b, ok := b.(symVal)
		return ok && a.t == b.t
	case symStr:
		b, ok := b.(symStr)
		if !ok || len(a.b) != len(b.b) {
			return false
		}
		for i := range a.b {
			if !sameKeyIdentity(a.b[i], b.b[i]) {
				return false
			}
		}
		return true
	case iface:
		b, ok := b.(iface)
		return ok && sameType(a.t, b.t) && sameKeyIdentity(a.v, b.v)
	case structure:
		b, ok := b.(structure)
		if !ok || len(a) != len(b) {
			return false
		}
		for i := range a {
			if !sameKeyIdentity(a[i], b[i]) {
				return false
			}
		}
		return true
	case array:
		b, ok := b.(array)
		if !ok || len(a) != len(b) {
			return false
		}
		for i := range a {
			if !sameKeyIdentity(a[i], b[i]) {
				return false
			}
		}
		return true
	case rtype:
		b, ok := b.(rtype)
		return ok && types.Identical(a.t, b.t)
	}
	if indexable(a) && indexable(b) {
		return a == b
	}
	return false
}

// ------------------------------------------------------------------------
// String iteration (range over string), with symbolic bytes.

type stringIter struct {
	s   value // string or symStr
	pos int
}

func (it *stringIter) next(fr *frame) tuple {
	switch s := it.s.(type) {
	case string:
		if it.pos >= len(s) {
			return tuple{false, nil, nil}
		}
		r, n := decodeRuneInString(s[it.pos:])
		p := it.pos
		it.pos += n
		return tuple{true, p, r}
	case symStr:
		if it.pos >= len(s.b) {
			return tuple{false, nil, nil}
		}
		p := it.pos
		r, n := fr.i.decodeRuneSym(s, p)
		it.pos += n
		return tuple{true, p, r}
	}
	panic(fmt.Sprintf("stringIter over %T", it.s))
}
