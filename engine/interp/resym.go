package interp

// Exact symbolic regexp matching on byte vectors of concrete length:
// a Thompson-NFA simulation (Pike VM without captures) over the compiled
// regexp/syntax program where every thread carries a Boolean term.
// Bytes are treated as ASCII runes; the caller's path must establish
// b < 0x80 for symbolic bytes (otherwise the path is unsupported).

import (
	"regexp"
	"regexp/syntax"
	"sort"
	"sync"
	"unicode"

	"verif/engine/sym"
)

var (
	reProgMu sync.Mutex
	reProgs  = map[string]*syntax.Prog{}
)

func progOf(re *regexp.Regexp) *syntax.Prog {
	reProgMu.Lock()
	defer reProgMu.Unlock()
	src := re.String()
	if p, ok := reProgs[src]; ok {
		return p
	}
	rx, err := syntax.Parse(src, syntax.Perl)
	if err != nil {
		reProgs[src] = nil
		return nil
	}
	p, err := syntax.Compile(rx.Simplify())
	if err != nil {
		p = nil
	}
	reProgs[src] = p
	return p
}

func (i *interpreter) reMatchExact(re *regexp.Regexp, s symStr) (value, bool) {
	prog := progOf(re)
	if prog == nil {
		return nil, false
	}
	c := i.ctx()
	n := len(s.b)
	bt := make([]*sym.Term, n)
	for k, b := range s.b {
		switch b := b.(type) {
		case uint8:
			if b >= 0x80 {
				return nil, false
			}
			bt[k] = c.BVLit(uint64(b), 8)
		case symVal:
			if !i.truth(i.boolSym(c.App("bvult", sym.Bool, b.t, c.BVLit(0x80, 8)))) {
				panic(unsupported{"regexp match on a symbolic non-ASCII byte"})
			}
			bt[k] = b.t
		default:
			return nil, false
		}
	}
	inRange := func(b *sym.Term, lo, hi rune) *sym.Term {
		if lo > 0x7f {
			return c.False
		}
		if hi > 0x7f {
			hi = 0x7f
		}
		if lo == hi {
			return c.Eq(b, c.BVLit(uint64(lo), 8))
		}
		return c.And(c.App("bvuge", sym.Bool, b, c.BVLit(uint64(lo), 8)), c.App("bvule", sym.Bool, b, c.BVLit(uint64(hi), 8)))
	}
	isWord := func(b *sym.Term) *sym.Term {
		return c.Or(inRange(b, 'a', 'z'), inRange(b, 'A', 'Z'), inRange(b, '0', '9'), c.Eq(b, c.BVLit('_', 8)))
	}
	matchRune := func(in *syntax.Inst, b *sym.Term) *sym.Term {
		switch in.Op {
		case syntax.InstRuneAny:
			return c.True
		case syntax.InstRuneAnyNotNL:
			return c.Not(c.Eq(b, c.BVLit('\n', 8)))
		case syntax.InstRune1, syntax.InstRune:
			rs := in.Rune
			if len(rs) == 1 {
				r := rs[0]
				t := inRange(b, r, r)
				if syntax.Flags(in.Arg)&syntax.FoldCase != 0 {
					for f := unicode.SimpleFold(r); f != r; f = unicode.SimpleFold(f) {
						t = c.Or(t, inRange(b, f, f))
					}
				}
				return t
			}
			var ors []*sym.Term
			for k := 0; k+1 < len(rs); k += 2 {
				ors = append(ors, inRange(b, rs[k], rs[k+1]))
				if syntax.Flags(in.Arg)&syntax.FoldCase != 0 {
					for r := rs[k]; r <= rs[k+1] && r < 0x80; r++ {
						for f := unicode.SimpleFold(r); f != r; f = unicode.SimpleFold(f) {
							ors = append(ors, inRange(b, f, f))
						}
					}
				}
			}
			return c.Or(ors...)
		}
		return c.False
	}
	emptyCond := func(pos int, flags syntax.EmptyOp) *sym.Term {
		conds := []*sym.Term{}
		if flags&syntax.EmptyBeginText != 0 {
			conds = append(conds, c.BoolLit(pos == 0))
		}
		if flags&syntax.EmptyEndText != 0 {
			conds = append(conds, c.BoolLit(pos == n))
		}
		if flags&syntax.EmptyBeginLine != 0 {
			if pos == 0 {
				conds = append(conds, c.True)
			} else {
				conds = append(conds, c.Eq(bt[pos-1], c.BVLit('\n', 8)))
			}
		}
		if flags&syntax.EmptyEndLine != 0 {
			if pos == n {
				conds = append(conds, c.True)
			} else {
				conds = append(conds, c.Eq(bt[pos], c.BVLit('\n', 8)))
			}
		}
		if flags&(syntax.EmptyWordBoundary|syntax.EmptyNoWordBoundary) != 0 {
			before, after := c.False, c.False
			if pos > 0 {
				before = isWord(bt[pos-1])
			}
			if pos < n {
				after = isWord(bt[pos])
			}
			wb := c.Not(c.Eq(before, after))
			if flags&syntax.EmptyWordBoundary != 0 {
				conds = append(conds, wb)
			}
			if flags&syntax.EmptyNoWordBoundary != 0 {
				conds = append(conds, c.Not(wb))
			}
		}
		return c.And(conds...)
	}

	matched := c.False
	cur := map[uint32]*sym.Term{} // rune instructions alive at the current position
	var add func(list map[uint32]*sym.Term, pc uint32, cond *sym.Term, pos int, onStack map[uint32]bool)
	add = func(list map[uint32]*sym.Term, pc uint32, cond *sym.Term, pos int, onStack map[uint32]bool) {
		if cond == c.False || onStack[pc] {
			return
		}
		in := &prog.Inst[pc]
		switch in.Op {
		case syntax.InstFail:
		case syntax.InstMatch:
			matched = c.Or(matched, cond)
		case syntax.InstAlt, syntax.InstAltMatch:
			onStack[pc] = true
			add(list, in.Out, cond, pos, onStack)
			add(list, in.Arg, cond, pos, onStack)
			delete(onStack, pc)
		case syntax.InstCapture, syntax.InstNop:
			onStack[pc] = true
			add(list, in.Out, cond, pos, onStack)
			delete(onStack, pc)
		case syntax.InstEmptyWidth:
			onStack[pc] = true
			add(list, in.Out, c.And(cond, emptyCond(pos, syntax.EmptyOp(in.Arg))), pos, onStack)
			delete(onStack, pc)
		default: // rune instructions
			if old, ok := list[pc]; ok {
				list[pc] = c.Or(old, cond)
			} else {
				list[pc] = cond
			}
		}
	}
	for pos := 0; pos <= n; pos++ {
		// unanchored search: a new thread may start at every position
		add(cur, uint32(prog.Start), c.True, pos, map[uint32]bool{})
		if pos == n {
			break
		}
		next := map[uint32]*sym.Term{}
		pcs := make([]uint32, 0, len(cur))
		for pc := range cur {
			pcs = append(pcs, pc)
		}
		sort.Slice(pcs, func(a, b int) bool { return pcs[a] < pcs[b] })
		for _, pc := range pcs {
			cond := cur[pc]
			in := &prog.Inst[pc]
			add(next, in.Out, c.And(cond, matchRune(in, bt[pos])), pos+1, map[uint32]bool{})
		}
		cur = next
	}
	return i.boolSym(matched), true
}
