package interp

// Conversion of interpreter values to plain Go values (for printing,
// JSON bridging and differential traces).

import (
	"fmt"
	"go/types"
)

// toNative converts a concrete JSON-like engine value to a Go value:
// map[string]any, []any, string, float64, bool, nil, ints.
func (i *interpreter) toNative(v value) interface{} {
	switch v := v.(type) {
	case nil:
		return nil
	case iface:
		if v.t == nil {
			return nil
		}
		return i.toNative(v.v)
	case bool, int, int8, int16, int32, int64, uint, uint8, uint16, uint32, uint64, uintptr, float32, float64, string:
		return v
	case symVal:
		return fmt.Sprintf("<sym %s>", v.t)
	case symStr:
		return v.debug()
	case []value:
		if v == nil {
			return []interface{}(nil)
		}
		out := make([]interface{}, len(v))
		for k, e := range v {
			out[k] = i.toNative(e)
		}
		return out
	case array:
		out := make([]interface{}, len(v))
		for k, e := range v {
			out[k] = i.toNative(e)
		}
		return out
	case *omap:
		if v == nil {
			return map[string]interface{}(nil)
		}
		out := map[string]interface{}{}
		for k := range v.keys {
			out[fmt.Sprint(i.toNative(v.keys[k]))] = i.toNative(v.vals[k])
		}
		return out
	case structure:
		out := make([]interface{}, len(v))
		for k, e := range v {
			out[k] = i.toNative(e)
		}
		return out
	case *value:
		if v == nil {
			return nil
		}
		return "&" + fmt.Sprint(i.toNative(*v))
	}
	return fmt.Sprintf("<%T>", v)
}

var _ = types.Typ
