package interp

// Intrinsics: the harness API, native bridges for foreign (non-repository)
// functions on concrete arguments, and the dispatcher deciding whether a
// foreign function is bridged, interpreted from SSA (whitelist) or
// unsupported.

import (
	"fmt"
	"go/token"
	"go/types"
	"reflect"
	"strings"

	"golang.org/x/tools/go/ssa"

	"verif/engine/sym"
)

type externalFn func(fr *frame, args []value) value

// Key strings are from Function.String().
var externals = make(map[string]externalFn)

// nativeHandle marks Go-native objects handed to interpreted code.
type nativeHandle interface{ isNativeHandle() }

// nativeMethods lets a native handle implement interface methods.
type nativeMethods interface {
	method(name string) *nativeFn
}

// harnessAPI functions are matched by bare name inside repository packages.
var harnessAPI = map[string]externalFn{}

func init() {
	for k, v := range map[string]externalFn{
		"verifNondetBool":    func(fr *frame, a []value) value { return fr.i.w.nondet(a[0].(string), types.Bool) },
		"verifNondetInt":     func(fr *frame, a []value) value { return fr.i.w.nondet(a[0].(string), types.Int) },
		"verifNondetInt64":   func(fr *frame, a []value) value { return fr.i.w.nondet(a[0].(string), types.Int64) },
		"verifNondetInt32":   func(fr *frame, a []value) value { return fr.i.w.nondet(a[0].(string), types.Int32) },
		"verifNondetInt16":   func(fr *frame, a []value) value { return fr.i.w.nondet(a[0].(string), types.Int16) },
		"verifNondetInt8":    func(fr *frame, a []value) value { return fr.i.w.nondet(a[0].(string), types.Int8) },
		"verifNondetUint":    func(fr *frame, a []value) value { return fr.i.w.nondet(a[0].(string), types.Uint) },
		"verifNondetUint64":  func(fr *frame, a []value) value { return fr.i.w.nondet(a[0].(string), types.Uint64) },
		"verifNondetUint32":  func(fr *frame, a []value) value { return fr.i.w.nondet(a[0].(string), types.Uint32) },
		"verifNondetUint16":  func(fr *frame, a []value) value { return fr.i.w.nondet(a[0].(string), types.Uint16) },
		"verifNondetUint8":   func(fr *frame, a []value) value { return fr.i.w.nondet(a[0].(string), types.Uint8) },
		"verifNondetByte":    func(fr *frame, a []value) value { return fr.i.w.nondet(a[0].(string), types.Uint8) },
		"verifNondetFloat64": func(fr *frame, a []value) value { return fr.i.w.nondet(a[0].(string), types.Float64) },
		"verifNondetFloat32": func(fr *frame, a []value) value { return fr.i.w.nondet(a[0].(string), types.Float32) },
		"verifNondetString": func(fr *frame, a []value) value {
			// verifNondetString(name, maxLen): length by fork, bytes symbolic
			name, max := a[0].(string), a[1].(int)
			n := fr.i.w.choose(name+".len", max+1)
			return fr.i.nondetBytes(name, n)
		},
		"verifNondetStringN": func(fr *frame, a []value) value {
			return fr.i.nondetBytes(a[0].(string), a[1].(int))
		},
		"verifNondetByteIn": func(fr *frame, a []value) value {
			// a byte constrained to a small alphabet; the domain is remembered so that
			// comparisons with bytes outside it are decided without the solver
			i := fr.i
			alpha := a[1].(string)
			v := i.w.nondet(a[0].(string), types.Uint8)
			sv, ok := v.(symVal)
			if !ok {
				return v
			}
			c := i.ctx()
			var ors []*sym.Term
			for k := 0; k < len(alpha); k++ {
				ors = append(ors, c.Eq(sv.t, c.BVLit(uint64(alpha[k]), 8)))
			}
			i.w.assume(i.boolSym(c.Or(ors...)))
			if i.w.domains == nil {
				i.w.domains = map[*sym.Term]string{}
			}
			i.w.domains[sv.t] = alpha
			return v
		},
		"verifChoose": func(fr *frame, a []value) value { return fr.i.w.choose(a[0].(string), a[1].(int)) },
		// verifMapOrderSet(desc): every map iteration of the rest of the path runs in descending key order
		// (Go leaves the order unspecified; ascending is the engine's default)
		"verifMapOrderSet": func(fr *frame, a []value) value { fr.i.w.mapDesc = a[0].(bool); return nil },
		"verifAssume": func(fr *frame, a []value) value { fr.i.w.assume(a[0]); return nil },
		"verifAssert": func(fr *frame, a []value) value {
			fr.i.w.assertV(a[0], a[1].(string), fr)
			return nil
		},
		"verifReach": func(fr *frame, a []value) value {
			l := a[0].(string)
			fr.i.w.eng.note(func(res *Result) { res.Witness[l]++ })
			return nil
		},
		"verifKnown": func(fr *frame, a []value) value {
			// verifKnown(id, cond): a violation on this path whose inputs satisfy cond
			// is the listed known finding <id>.
			w := fr.i.w
			id := a[0].(string)
			switch c := a[1].(type) {
			case bool:
				if c {
					if w.knownHit == nil {
						w.knownHit = map[string]*sym.Term{}
					}
					w.knownHit[id] = nil
				} else {
					delete(w.knownHit, id) // a later verifKnown(id, false) ends the finding's scope
				}
			case symVal:
				if w.knownHit == nil {
					w.knownHit = map[string]*sym.Term{}
				}
				w.knownHit[id] = c.t
			}
			return nil
		},
		"verifKnownAt": func(fr *frame, a []value) value {
			// verifKnownAt(id, site): a panic on this path whose innermost repository function
			// name contains site is the listed known finding <id> (identification by call site).
			w := fr.i.w
			if w.knownSites == nil {
				w.knownSites = map[string]string{}
			}
			w.knownSites[a[1].(string)] = a[0].(string)
			return nil
		},
		"verifObserve": func(fr *frame, a []value) value {
			w := fr.i.w
			if w.eng.Opt.Concrete != nil {
				w.observes = append(w.observes, a[0].(string)+"="+fr.i.observeString(a[1]))
			}
			return nil
		},
		"verifSymbolic": func(fr *frame, a []value) value { return fr.i.w.eng.Opt.Concrete == nil },
		"verifSharedBegin": func(fr *frame, a []value) value {
			var roots []value
			if len(a) > 0 {
				roots, _ = a[0].([]value)
			}
			fr.i.shared = newSharedMonitor(fr.i, roots)
			return nil
		},
		"verifSharedEnd": func(fr *frame, a []value) value { fr.i.shared = nil; return nil },
		"verifEnd":       func(fr *frame, a []value) value { panic(pathEnd{"end"}) },
	} {
		harnessAPI[k] = v
	}
}

func (i *interpreter) nondetBytes(name string, n int) value {
	b := make([]value, n)
	for k := range b {
		b[k] = i.w.nondet(fmt.Sprintf("%s[%d]", name, k), types.Uint8)
	}
	return symStr{b}.norm()
}

// observeString renders a value for differential traces (concrete mode).
func (i *interpreter) observeString(v value) string {
	if it, ok := v.(iface); ok {
		v = it.v
	}
	switch v := v.(type) {
	case nil:
		return "<nil>"
	case string:
		return fmt.Sprintf("%q", v)
	case bool, int, int8, int16, int32, int64, uint, uint8, uint16, uint32, uint64, float32, float64:
		return fmt.Sprintf("%v", v)
	}
	return fmt.Sprintf("%v", i.toNative(v))
}

// ------------------------------------------------------------------------
// Foreign calls

// interpretable lists foreign packages whose pure-Go functions are run
// from SSA (validated differentially by `symgo selftest`).
var interpretable = map[string]bool{
	"errors": true, "sort": true, "slices": true, "strings": true, "bytes": true,
	"unicode": true, "unicode/utf8": true, "unicode/utf16": true, "io": true, "context": true,
	"path": true, "maps": true, "cmp": true, "net/url": true, "net/http": true, "net/textproto": true,
	"internal/stringslite": true, "internal/bytealg": true, "iter": true, "math": true, "math/bits": true,
	"internal/itoa": true, "strconv": true, "time": true, "internal/godebug": false,
	"github.com/go-openapi/jsonpointer": true, "github.com/gorilla/mux": true,
	"vendor/golang.org/x/net/http/httpguts": true, "mime": true, "mime/multipart": true, "mime/quotedprintable": true, "bufio": true, "vendor/golang.org/x/net/http/httpproxy": false,
}

// interpretableFuncs: single functions of otherwise non-interpreted packages.
var interpretableFuncs = map[string]bool{
	"(*fmt.wrapError).Unwrap": true, "(*fmt.wrapError).Error": true,
	"(*fmt.wrapErrors).Unwrap": true, "(*fmt.wrapErrors).Error": true,
}

// natives are real Go functions called through reflection when every
// argument is concrete.
var natives = map[string]reflect.Value{}

func bridge(name string, fn interface{}) { natives[name] = reflect.ValueOf(fn) }

// foreignCall handles a call to a non-repository function without an
// intrinsic. ok=false means: interpret its SSA body.
func (i *interpreter) foreignCall(fr *frame, fn *ssa.Function, name string, args []value) (value, bool) {
	if nf, ok := natives[name]; ok {
		if r, ok := i.callNative(fr, nf, fn, args); ok {
			i.w.stubs["native:"+name]++
			return r, true
		}
		if sum := summaries[name]; sum != nil {
			i.w.stubs["summary:"+name]++
			return sum(fr, args), true
		}
		if interpretable[fn.Pkg.Pkg.Path()] && fn.Blocks != nil {
			return nil, false // symbolic operands: run the pure-Go body
		}
		panic(unsupported{"symbolic argument to native bridge " + name})
	}
	if sum := summaries[name]; sum != nil {
		if !allConcrete(args) {
			i.w.stubs["summary:"+name]++
			return sum(fr, args), true
		}
	}
	pkg := fn.Pkg.Pkg.Path()
	if (interpretable[pkg] || interpretableFuncs[name]) && fn.Blocks != nil {
		return nil, false
	}
	// any other method of a compiled regexp, on concrete operands: the real method through reflection
	if strings.HasPrefix(name, "(*regexp.Regexp).") && len(args) > 0 && allConcrete(args[1:]) {
		if r, ok := i.regexpMethod(fr, strings.TrimPrefix(name, "(*regexp.Regexp)."), args); ok {
			i.w.stubs["native:"+name]++
			return r, true
		}
	}
	if fn.Blocks == nil {
		panic(unsupported{"no code for function: " + name})
	}
	panic(unsupported{"foreign function outside the interpretable whitelist: " + name})
}

// summaries are engine models of foreign functions on symbolic operands.
var summaries = map[string]externalFn{}

func allConcrete(args []value) bool {
	for _, a := range args {
		if !deepConcrete(a, 0) {
			return false
		}
	}
	return true
}

func deepConcrete(v value, depth int) bool {
	if depth > 6 {
		return true
	}
	switch v := v.(type) {
	case symVal, symStr:
		return false
	case []value:
		for _, e := range v {
			if !deepConcrete(e, depth+1) {
				return false
			}
		}
	case iface:
		return deepConcrete(v.v, depth+1)
	case structure:
		for _, e := range v {
			if !deepConcrete(e, depth+1) {
				return false
			}
		}
	case array:
		for _, e := range v {
			if !deepConcrete(e, depth+1) {
				return false
			}
		}
	case tuple:
		for _, e := range v {
			if !deepConcrete(e, depth+1) {
				return false
			}
		}
	}
	return true
}

// callNative converts args to Go values, calls fn and converts back.
func (i *interpreter) callNative(fr *frame, nf reflect.Value, fn *ssa.Function, args []value) (value, bool) {
	if !allConcrete(args) {
		return nil, false
	}
	ft := nf.Type()
	in := make([]reflect.Value, 0, len(args))
	nparams := ft.NumIn()
	for k, a := range args {
		var pt reflect.Type
		if ft.IsVariadic() && k >= nparams-1 {
			pt = ft.In(nparams - 1)
			if k == nparams-1 {
				// the SSA passes the variadic tail as one slice
				rv, ok := toReflect(a, pt)
				if !ok {
					return nil, false
				}
				for j := 0; j < rv.Len(); j++ {
					in = append(in, rv.Index(j))
				}
				continue
			}
		} else {
			pt = ft.In(k)
		}
		rv, ok := toReflect(a, pt)
		if !ok {
			return nil, false
		}
		in = append(in, rv)
	}
	var out []reflect.Value
	func() {
		defer func() {
			if r := recover(); r != nil {
				panic(targetPanic{v: runtimeErr(i, fmt.Sprintf("%v", r))})
			}
		}()
		out = nf.Call(in)
	}()
	res := make([]value, len(out))
	for k, o := range out {
		res[k] = i.fromReflect(fr, o)
	}
	switch len(res) {
	case 0:
		return nil, true
	case 1:
		return res[0], true
	}
	return tuple(res), true
}

var errorRType = reflect.TypeOf((*error)(nil)).Elem()

func toReflect(v value, t reflect.Type) (reflect.Value, bool) {
	switch t.Kind() {
	case reflect.Bool, reflect.Int, reflect.Int8, reflect.Int16, reflect.Int32, reflect.Int64,
		reflect.Uint, reflect.Uint8, reflect.Uint16, reflect.Uint32, reflect.Uint64, reflect.Uintptr,
		reflect.Float32, reflect.Float64, reflect.String:
		rv := reflect.ValueOf(v)
		if !rv.IsValid() || !rv.Type().ConvertibleTo(t) || rv.Kind() != t.Kind() {
			return reflect.Value{}, false
		}
		return rv.Convert(t), true
	case reflect.Slice:
		sv, ok := v.([]value)
		if !ok {
			return reflect.Value{}, false
		}
		out := reflect.MakeSlice(t, len(sv), len(sv))
		if sv == nil {
			out = reflect.Zero(t)
		}
		for k, e := range sv {
			ev, ok := toReflect(e, t.Elem())
			if !ok {
				return reflect.Value{}, false
			}
			out.Index(k).Set(ev)
		}
		return out, true
	case reflect.Interface:
		if t.NumMethod() == 0 {
			if it, ok := v.(iface); ok {
				if it.t == nil {
					return reflect.Zero(t), true
				}
				switch x := it.v.(type) {
				case bool, int, int8, int16, int32, int64, uint, uint8, uint16, uint32, uint64, float32, float64, string:
					rv := reflect.New(t).Elem()
					rv.Set(reflect.ValueOf(x))
					return rv, true
				}
			}
		}
	}
	return reflect.Value{}, false
}

func (i *interpreter) fromReflect(fr *frame, o reflect.Value) value {
	t := o.Type()
	if t == errorRType {
		if o.IsNil() {
			return iface{}
		}
		return i.nativeError(fr, o.Interface().(error))
	}
	switch t.Kind() {
	case reflect.Bool:
		return o.Bool()
	case reflect.Int:
		return int(o.Int())
	case reflect.Int8:
		return int8(o.Int())
	case reflect.Int16:
		return int16(o.Int())
	case reflect.Int32:
		return int32(o.Int())
	case reflect.Int64:
		return o.Int()
	case reflect.Uint:
		return uint(o.Uint())
	case reflect.Uint8:
		return uint8(o.Uint())
	case reflect.Uint16:
		return uint16(o.Uint())
	case reflect.Uint32:
		return uint32(o.Uint())
	case reflect.Uint64:
		return o.Uint()
	case reflect.Uintptr:
		return uintptr(o.Uint())
	case reflect.Float32:
		return float32(o.Float())
	case reflect.Float64:
		return o.Float()
	case reflect.String:
		return o.String()
	case reflect.Slice:
		if o.IsNil() {
			return []value(nil)
		}
		out := make([]value, o.Len())
		for k := range out {
			out[k] = i.fromReflect(fr, o.Index(k))
		}
		return out
	}
	panic(unsupported{"native bridge result of type " + t.String()})
}

// nativeError turns a Go error returned by a bridged function into an
// interpreted error value (*errors.errorString with the same text).
func (i *interpreter) nativeError(fr *frame, err error) value {
	return i.newError(fr, err.Error())
}

func (i *interpreter) newError(fr *frame, msg value) value {
	return call(i, fr, token.NoPos, errorsNewFn, []value{msg})
}

// ------------------------------------------------------------------------
// Lazy initialisation of foreign package-level variables.

// initForeignGlobal executes the stores to g found in its package's
// synthetic init when they are simple (a call to errors.New / fmt.Errorf
// with constant arguments, or a constant).
func (i *interpreter) initForeignGlobal(g *ssa.Global, cell *value) {
	if fi := foreignGlobalInit[g.String()]; fi != nil {
		*cell = fi(i)
		return
	}
	initFn := g.Pkg.Func("init")
	if initFn == nil {
		return
	}
	for _, b := range initFn.Blocks {
		for _, in := range b.Instrs {
			st, ok := in.(*ssa.Store)
			if !ok || st.Addr != ssa.Value(g) {
				continue
			}
			switch v := st.Val.(type) {
			case *ssa.Const:
				*cell = constValue(v)
				return
			case *ssa.Call:
				if callee := v.Call.StaticCallee(); callee != nil && callee.String() == "errors.New" {
					if c, ok := v.Call.Args[0].(*ssa.Const); ok {
						*cell = i.newError(nil, constValue(c))
						return
					}
				}
				if callee := v.Call.StaticCallee(); callee != nil && callee.String() == "internal/godebug.New" {
					// a GODEBUG setting: always at its default (Value() == "")
					z := zero(mustDeref(v.Type()))
					*cell = &z
					return
				}
			case *ssa.Convert:
				// var x = []byte("lit")
				if c, ok := v.X.(*ssa.Const); ok {
					if str, ok := constValue(c).(string); ok {
						if sl, ok := v.Type().Underlying().(*types.Slice); ok {
							if b, ok := sl.Elem().Underlying().(*types.Basic); ok && b.Kind() == types.Uint8 {
								out := make([]value, len(str))
								for k := 0; k < len(str); k++ {
									out[k] = str[k]
								}
								*cell = out
								return
							}
						}
					}
				}
			case *ssa.Global:
				// var X = &otherVar (time.UTC = &utcLoc)
				*cell = i.global(v)
				return
			case *ssa.Alloc:
				// var X = &T{...}: a zero T (field initialisers are not replayed; such
				// objects are only passed around by the repository, never inspected)
				z := zero(mustDeref(v.Type()))
				*cell = &z
				return
			case *ssa.MakeInterface:
				if c, ok := v.X.(*ssa.Call); ok {
					if callee := c.Call.StaticCallee(); callee != nil && callee.String() == "errors.New" {
						if k, ok := c.Call.Args[0].(*ssa.Const); ok {
							*cell = i.newError(nil, constValue(k))
							return
						}
					}
				}
				if a, ok := v.X.(*ssa.Alloc); ok {
					z := zero(mustDeref(a.Type()))
					*cell = iface{t: a.Type(), v: &z}
					return
				}
				if c, ok := v.X.(*ssa.Const); ok {
					// var X I = T{} (e.g. io.Discard)
					if c.Value == nil {
						*cell = iface{t: c.Type(), v: zero(c.Type())}
					} else {
						*cell = iface{t: c.Type(), v: constValue(c)}
					}
					return
				}
			}
			panic(unsupported{"initialiser of foreign variable " + g.String()})
		}
	}
	// no direct store in init. The variable may still be initialised element by element
	// (var t = [N]T{k: v, ...} compiles to stores through &t[k]); anything else that takes the
	// variable's address in init is refused rather than silently left zero.
	if strings.HasSuffix(g.Name(), "$guard") {
		return
	}
	for _, b := range initFn.Blocks {
		for _, in := range b.Instrs {
			uses := false
			for _, op := range in.Operands(nil) {
				if op != nil && *op == ssa.Value(g) {
					uses = true
				}
			}
			if !uses {
				continue
			}
			switch v := in.(type) {
			case *ssa.UnOp:
				continue // a load of the variable
			case *ssa.Store:
				if v.Addr != ssa.Value(g) {
					continue // the variable's address stored elsewhere (var UTC = &utcLoc): no effect on its content
				}
				panic(unsupported{"initialiser of foreign variable " + g.String()})
			case *ssa.IndexAddr, *ssa.FieldAddr:
				refs := in.(ssa.Value).Referrers()
				if refs == nil {
					continue
				}
				for _, r := range *refs {
					st, ok := r.(*ssa.Store)
					c, isConst := (ssa.Value)(nil), false
					if ok {
						c, isConst = st.Val.(*ssa.Const)
					}
					if !ok || !isConst {
						panic(unsupported{"element-wise initialiser of foreign variable " + g.String() + " with a non-constant element"})
					}
					cv := constValue(c.(*ssa.Const))
					switch a := v.(type) {
					case *ssa.IndexAddr:
						k, isC := a.Index.(*ssa.Const)
						arr, isArr := (*cell).(array)
						if !isC || !isArr {
							panic(unsupported{"element-wise initialiser of foreign variable " + g.String()})
						}
						arr[int(k.Int64())] = cv
					case *ssa.FieldAddr:
						st2, isSt := (*cell).(structure)
						if !isSt {
							panic(unsupported{"element-wise initialiser of foreign variable " + g.String()})
						}
						st2[a.Field] = cv
					}
				}
			default:
				panic(unsupported{"initialiser of foreign variable " + g.String() + " (address taken in init)"})
			}
		}
	}
}

var foreignGlobalInit = map[string]func(i *interpreter) value{}

func init() {
	// GODEBUG settings are at their defaults
	externals["(*internal/godebug.Setting).Value"] = func(fr *frame, a []value) value { return "" }
	externals["(*internal/godebug.Setting).IncNonDefault"] = func(fr *frame, a []value) value { return nil }
	externals["(*internal/godebug.Setting).Name"] = func(fr *frame, a []value) value { return "" }
	// strings are immutable values here: a clone is the string itself
	externals["internal/stringslite.Clone"] = func(fr *frame, a []value) value { return a[0] }
	externals["strings.Clone"] = func(fr *frame, a []value) value { return a[0] }
}

func (i *interpreter) regexpMethod(fr *frame, meth string, args []value) (value, bool) {
	re := regexpOf(args[0])
	m := reflect.ValueOf(re).MethodByName(meth)
	if !m.IsValid() {
		return nil, false
	}
	ft := m.Type()
	if ft.IsVariadic() || ft.NumIn() != len(args)-1 {
		return nil, false
	}
	in := make([]reflect.Value, 0, len(args)-1)
	for k, a := range args[1:] {
		rv, ok := toReflect(a, ft.In(k))
		if !ok {
			return nil, false
		}
		in = append(in, rv)
	}
	out := m.Call(in)
	res := make([]value, len(out))
	for k, o := range out {
		res[k] = i.fromReflect(fr, o)
	}
	switch len(res) {
	case 0:
		return nil, true
	case 1:
		return res[0], true
	}
	return tuple(res), true
}
