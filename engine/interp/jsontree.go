package interp

// The encoding/json contract model (DESIGN.md section 2.6): json.Unmarshal,
// json.Marshal and marshmallow.Unmarshal on *concrete* JSON text, following
// the documented decoding rules over go/types; wherever a type defines
// UnmarshalJSON / MarshalJSON the interpreted repository method is called
// with the raw sub-document, so every hand-written (un)marshaller runs as
// real code. Byte-level parsing of symbolic or malformed text is outside
// the model (malformed text yields a syntax error value natively computed).

import (
	"bytes"
	"encoding/json"
	"fmt"
	"go/token"
	"go/types"
	"io"
	"sort"
	"strings"
)

func bytesOf(v value) ([]byte, bool) {
	s, ok := v.([]value)
	if !ok {
		return nil, false
	}
	out := make([]byte, len(s))
	for k, e := range s {
		b, ok := e.(uint8)
		if !ok {
			return nil, false
		}
		out[k] = b
	}
	return out, true
}

func bytesValue(b []byte) []value {
	out := make([]value, len(b))
	for k := range b {
		out[k] = b[k]
	}
	return out
}

type jsonField struct {
	name      string
	path      []int
	typ       types.Type
	omitEmpty bool
	asString  bool
}

var jsonFieldCache = map[*types.Struct][]jsonField{} // guarded by reProgMu

func jsonFields(st *types.Struct) []jsonField {
	reProgMu.Lock()
	if f, ok := jsonFieldCache[st]; ok {
		reProgMu.Unlock()
		return f
	}
	reProgMu.Unlock()
	var out []jsonField
	var walk func(st *types.Struct, prefix []int, depth int)
	walk = func(st *types.Struct, prefix []int, depth int) {
		for i := 0; i < st.NumFields(); i++ {
			f := st.Field(i)
			tag := structTagGet(st.Tag(i), "json")
			if tag == "-" {
				continue
			}
			name, opts, _ := strings.Cut(tag, ",")
			path := append(append([]int(nil), prefix...), i)
			if f.Anonymous() && name == "" {
				et := f.Type()
				if p, ok := et.Underlying().(*types.Pointer); ok {
					et = p.Elem()
				}
				if sub, ok := et.Underlying().(*types.Struct); ok && depth < 4 {
					walk(sub, path, depth+1)
					continue
				}
			}
			if !f.Exported() {
				continue
			}
			if name == "" {
				name = f.Name()
			}
			out = append(out, jsonField{name: name, path: path, typ: f.Type(), omitEmpty: strings.Contains(","+opts+",", ",omitempty,"), asString: strings.Contains(","+opts+",", ",string,")})
		}
	}
	walk(st, nil, 0)
	reProgMu.Lock()
	jsonFieldCache[st] = out
	reProgMu.Unlock()
	return out
}

func structTagGet(tag, key string) string {
	// reflect.StructTag.Get
	for tag != "" {
		i := 0
		for i < len(tag) && tag[i] == ' ' {
			i++
		}
		tag = tag[i:]
		if tag == "" {
			break
		}
		i = 0
		for i < len(tag) && tag[i] > ' ' && tag[i] != ':' && tag[i] != '"' && tag[i] != 0x7f {
			i++
		}
		if i == 0 || i+1 >= len(tag) || tag[i] != ':' || tag[i+1] != '"' {
			break
		}
		name := tag[:i]
		tag = tag[i+1:]
		i = 1
		for i < len(tag) && tag[i] != '"' {
			if tag[i] == '\\' {
				i++
			}
			i++
		}
		if i >= len(tag) {
			break
		}
		qvalue := tag[:i+1]
		tag = tag[i+1:]
		if key == name {
			var v string
			if err := json.Unmarshal([]byte(qvalue), &v); err != nil {
				return ""
			}
			return v
		}
	}
	return ""
}

func (i *interpreter) hasMethod(t types.Type, name string) bool {
	return i.prog.MethodSets.MethodSet(t).Lookup(nil, name) != nil
}

// fieldAddr walks an index path from a struct cell, allocating embedded pointers.
func fieldAddr(T types.Type, addr *value, path []int) (*value, types.Type) {
	for _, idx := range path {
		if p, ok := T.Underlying().(*types.Pointer); ok {
			pp := (*addr).(*value)
			if pp == nil {
				z := zero(p.Elem())
				pp = &z
				*addr = pp
			}
			addr, T = pp, p.Elem()
		}
		st := T.Underlying().(*types.Struct)
		addr = &(*addr).(structure)[idx]
		T = st.Field(idx).Type()
	}
	return addr, T
}

func (i *interpreter) jsonTypeError(fr *frame, what string, T types.Type) value {
	return i.newError(fr, "json: cannot unmarshal "+what+" into Go value of type "+typeString(T))
}

// jsonGeneric converts raw JSON to the engine representation of `any`.
func (i *interpreter) jsonGeneric(raw []byte) value {
	anyT := types.NewInterfaceType(nil, nil)
	var tree interface{}
	dec := json.NewDecoder(bytes.NewReader(raw))
	if err := dec.Decode(&tree); err != nil {
		return iface{}
	}
	var conv func(x interface{}) value
	conv = func(x interface{}) value {
		switch x := x.(type) {
		case nil:
			return iface{}
		case bool:
			return iface{t: types.Typ[types.Bool], v: x}
		case float64:
			return iface{t: types.Typ[types.Float64], v: x}
		case string:
			return iface{t: types.Typ[types.String], v: x}
		case []interface{}:
			out := make([]value, len(x))
			for k, e := range x {
				out[k] = conv(e)
			}
			return iface{t: types.NewSlice(anyT), v: out}
		case map[string]interface{}:
			m := makeMap(types.Typ[types.String], 0)
			keys := make([]string, 0, len(x))
			for k := range x {
				keys = append(keys, k)
			}
			sort.Strings(keys)
			for _, k := range keys {
				m.insert(i, k, conv(x[k]))
			}
			return iface{t: types.NewMap(types.Typ[types.String], anyT), v: m}
		}
		panic(fmt.Sprintf("jsonGeneric %T", x))
	}
	return conv(tree)
}

// jsonUnmarshalInto decodes raw (valid JSON) into the cell addr of type T.
// It returns an error value (iface) or iface{} for success.
func (i *interpreter) jsonUnmarshalInto(fr *frame, raw []byte, T types.Type, addr *value, depth int) value {
	if depth > 200 {
		panic(budgetExceeded{"json nesting > 200"})
	}
	raw = bytes.TrimSpace(raw)
	isNull := string(raw) == "null"
	if isNull {
		switch T.Underlying().(type) {
		case *types.Pointer, *types.Map, *types.Slice, *types.Interface:
			*addr = zero(T)
			return iface{}
		}
	}
	// Unmarshaler on *T?
	if _, isPtr := T.Underlying().(*types.Pointer); !isPtr {
		if _, isIface := T.Underlying().(*types.Interface); !isIface && i.hasMethod(types.NewPointer(T), "UnmarshalJSON") {
			r, ok := i.callMethod(fr, types.NewPointer(T), addr, "UnmarshalJSON", bytesValue(raw))
			if !ok {
				panic("UnmarshalJSON lookup failed")
			}
			return r
		}
	}
	if isNull {
		return iface{} // null into a non-nillable value: no effect
	}
	switch U := T.Underlying().(type) {
	case *types.Pointer:
		pp := (*addr).(*value)
		if pp == nil {
			z := zero(U.Elem())
			pp = &z
			*addr = pp
		}
		return i.jsonUnmarshalInto(fr, raw, U.Elem(), pp, depth+1)
	case *types.Interface:
		if U.NumMethods() != 0 {
			return i.jsonTypeError(fr, "value", T)
		}
		// a non-nil pointer held in the interface is decoded into (encoding/json rule)
		if cur, ok := (*addr).(iface); ok && cur.t != nil {
			if pt, ok := cur.t.Underlying().(*types.Pointer); ok {
				if p := cur.v.(*value); p != nil {
					return i.jsonUnmarshalInto(fr, raw, pt.Elem(), p, depth+1)
				}
			}
		}
		*addr = i.jsonGeneric(raw)
		return iface{}
	case *types.Struct:
		if len(raw) == 0 || raw[0] != '{' {
			return i.jsonTypeError(fr, jsonKindName(raw), T)
		}
		members, order, err := splitObject(raw)
		if err != nil {
			return i.nativeError(fr, err)
		}
		fields := jsonFields(U)
		for _, key := range order {
			var f *jsonField
			for k := range fields {
				if fields[k].name == key {
					f = &fields[k]
					break
				}
			}
			if f == nil {
				for k := range fields {
					if strings.EqualFold(fields[k].name, key) {
						f = &fields[k]
						break
					}
				}
			}
			if f == nil {
				continue
			}
			fa, ft := fieldAddr(T, addr, f.path)
			if e := i.jsonUnmarshalInto(fr, members[key], ft, fa, depth+1); e.(iface).t != nil {
				return e
			}
		}
		return iface{}
	case *types.Map:
		if len(raw) == 0 || raw[0] != '{' {
			return i.jsonTypeError(fr, jsonKindName(raw), T)
		}
		if kb, ok := U.Key().Underlying().(*types.Basic); !ok || kb.Kind() != types.String {
			panic(unsupported{"json into a map with non-string keys"})
		}
		members, order, err := splitObject(raw)
		if err != nil {
			return i.nativeError(fr, err)
		}
		m, _ := (*addr).(*omap)
		if m == nil {
			m = makeMap(U.Key(), 0)
			*addr = m
		}
		for _, key := range order {
			cell := zero(U.Elem())
			if old, ok := m.lookup(i, key); ok {
				if _, isStruct := U.Elem().Underlying().(*types.Struct); !isStruct {
					_ = old // encoding/json decodes map elements into fresh zero values
				}
			}
			if e := i.jsonUnmarshalInto(fr, members[key], U.Elem(), &cell, depth+1); e.(iface).t != nil {
				return e
			}
			m.insert(i, key, cell)
		}
		return iface{}
	case *types.Slice:
		if eb, ok := U.Elem().Underlying().(*types.Basic); ok && eb.Kind() == types.Uint8 && len(raw) > 0 && raw[0] == '"' {
			var b []byte
			if err := json.Unmarshal(raw, &b); err != nil {
				return i.nativeError(fr, err)
			}
			*addr = bytesValue(b)
			return iface{}
		}
		if len(raw) == 0 || raw[0] != '[' {
			return i.jsonTypeError(fr, jsonKindName(raw), T)
		}
		var elems []json.RawMessage
		if err := json.Unmarshal(raw, &elems); err != nil {
			return i.nativeError(fr, err)
		}
		out := make([]value, len(elems))
		for k := range elems {
			out[k] = zero(U.Elem())
			if e := i.jsonUnmarshalInto(fr, elems[k], U.Elem(), &out[k], depth+1); e.(iface).t != nil {
				return e
			}
		}
		*addr = out
		return iface{}
	case *types.Basic:
		switch {
		case U.Kind() == types.String:
			var s string
			if len(raw) == 0 || raw[0] != '"' {
				return i.jsonTypeError(fr, jsonKindName(raw), T)
			}
			if err := json.Unmarshal(raw, &s); err != nil {
				return i.nativeError(fr, err)
			}
			*addr = s
		case U.Kind() == types.Bool:
			var b bool
			if err := json.Unmarshal(raw, &b); err != nil {
				return i.jsonTypeError(fr, jsonKindName(raw), T)
			}
			*addr = b
		case U.Info()&types.IsFloat != 0:
			var f float64
			if err := json.Unmarshal(raw, &f); err != nil {
				return i.jsonTypeError(fr, jsonKindName(raw), T)
			}
			*addr = concreteFloatOfKind(U.Kind(), f)
		case U.Info()&types.IsUnsigned != 0:
			var u uint64
			if err := json.Unmarshal(raw, &u); err != nil {
				return i.jsonTypeError(fr, "number "+string(raw), T)
			}
			*addr = concreteOfKind(U.Kind(), u)
		case U.Info()&types.IsInteger != 0:
			var n int64
			if err := json.Unmarshal(raw, &n); err != nil {
				return i.jsonTypeError(fr, "number "+string(raw), T)
			}
			*addr = concreteOfKind(U.Kind(), uint64(n))
		default:
			panic(unsupported{"json into basic type " + U.String()})
		}
		return iface{}
	}
	panic(unsupported{"json into " + T.String()})
}

func concreteFloatOfKind(k types.BasicKind, f float64) value {
	if k == types.Float32 {
		return float32(f)
	}
	return f
}

func jsonKindName(raw []byte) string {
	if len(raw) == 0 {
		return "value"
	}
	switch raw[0] {
	case '{':
		return "object"
	case '[':
		return "array"
	case '"':
		return "string"
	case 't', 'f':
		return "bool"
	case 'n':
		return "null"
	}
	return "number"
}

// splitObject returns the members of a JSON object (last duplicate wins) and their first-seen order.
func splitObject(raw []byte) (map[string]json.RawMessage, []string, error) {
	dec := json.NewDecoder(bytes.NewReader(raw))
	if _, err := dec.Token(); err != nil {
		return nil, nil, err
	}
	members := map[string]json.RawMessage{}
	var order []string
	for dec.More() {
		kt, err := dec.Token()
		if err != nil {
			return nil, nil, err
		}
		key, _ := kt.(string)
		var v json.RawMessage
		if err := dec.Decode(&v); err != nil {
			return nil, nil, err
		}
		if _, dup := members[key]; !dup {
			order = append(order, key)
		}
		members[key] = v
	}
	return members, order, nil
}

// jsonMarshalTree converts an engine value of static type T into a Go tree for encoding/json,
// calling interpreted MarshalJSON methods and embedding their output as RawMessage.
func (i *interpreter) jsonMarshalTree(fr *frame, T types.Type, v value, depth int) (interface{}, value) {
	if depth > 200 {
		panic(budgetExceeded{"json nesting > 200"})
	}
	if it, ok := v.(iface); ok {
		if it.t == nil {
			return nil, nil
		}
		return i.jsonMarshalTree(fr, it.t, it.v, depth+1)
	}
	if T == nil {
		panic(unsupported{"json.Marshal of an untyped value"})
	}
	if isSymbolic(v) {
		panic(unsupported{"json.Marshal of a typed value with symbolic leaves"})
	}
	if p, ok := v.(*value); ok && p == nil {
		return nil, nil
	}
	if _, isIface := T.Underlying().(*types.Interface); !isIface && i.hasMethod(T, "MarshalJSON") {
		r, ok := i.callMethod(fr, T, v, "MarshalJSON")
		if !ok {
			panic("MarshalJSON lookup failed")
		}
		tup := r.(tuple)
		if e := tup[1].(iface); e.t != nil {
			return nil, e
		}
		b, ok := bytesOf(tup[0])
		if !ok {
			panic(unsupported{"MarshalJSON returned symbolic bytes"})
		}
		return json.RawMessage(b), nil
	}
	if nt, ok := T.(*types.Named); ok && nt.Obj().Pkg() != nil && nt.Obj().Pkg().Path() == "encoding/json" && nt.Obj().Name() == "Number" {
		// a json.Number is written as the number literal it holds
		if str, ok := v.(string); ok {
			if str == "" {
				str = "0"
			}
			return json.RawMessage(str), nil
		}
	}
	switch U := T.Underlying().(type) {
	case *types.Pointer:
		return i.jsonMarshalTree(fr, U.Elem(), *(v.(*value)), depth+1)
	case *types.Basic:
		return v, nil
	case *types.Slice:
		s := v.([]value)
		if s == nil {
			return nil, nil
		}
		if eb, ok := U.Elem().Underlying().(*types.Basic); ok && eb.Kind() == types.Uint8 {
			b, ok := bytesOf(s)
			if !ok {
				panic(unsupported{"json.Marshal of symbolic bytes"})
			}
			return b, nil
		}
		out := make([]interface{}, len(s))
		for k := range s {
			e, err := i.jsonMarshalTree(fr, U.Elem(), s[k], depth+1)
			if err != nil {
				return nil, err
			}
			out[k] = e
		}
		return out, nil
	case *types.Array:
		s := v.(array)
		out := make([]interface{}, len(s))
		for k := range s {
			e, err := i.jsonMarshalTree(fr, U.Elem(), s[k], depth+1)
			if err != nil {
				return nil, err
			}
			out[k] = e
		}
		return out, nil
	case *types.Map:
		m := v.(*omap)
		if m == nil {
			return nil, nil
		}
		out := map[string]interface{}{}
		for k := range m.keys {
			ks, ok := m.keys[k].(string)
			if !ok {
				panic(unsupported{"json.Marshal of a map with non-string or symbolic keys"})
			}
			e, err := i.jsonMarshalTree(fr, U.Elem(), m.vals[k], depth+1)
			if err != nil {
				return nil, err
			}
			out[ks] = e
		}
		return out, nil
	case *types.Struct:
		st := v.(structure)
		om := &orderedJSON{}
		for _, f := range jsonFields(U) {
			cur, ct := value(st), T
			okPath := true
			for _, idx := range f.path {
				if p, ok := ct.Underlying().(*types.Pointer); ok {
					pp := cur.(*value)
					if pp == nil {
						okPath = false
						break
					}
					cur, ct = *pp, p.Elem()
				}
				cur = cur.(structure)[idx]
				ct = ct.Underlying().(*types.Struct).Field(idx).Type()
			}
			if !okPath {
				continue
			}
			if f.omitEmpty && jsonIsEmpty(cur) {
				continue
			}
			e, err := i.jsonMarshalTree(fr, ct, cur, depth+1)
			if err != nil {
				return nil, err
			}
			om.keys = append(om.keys, f.name)
			om.vals = append(om.vals, e)
		}
		return om, nil
	case *types.Interface:
		return nil, nil
	}
	panic(unsupported{"json.Marshal of " + T.String()})
}

// orderedJSON marshals as an object in field order (struct encoding).
type orderedJSON struct {
	keys []string
	vals []interface{}
}

func (o *orderedJSON) MarshalJSON() ([]byte, error) {
	var buf bytes.Buffer
	buf.WriteByte('{')
	for k := range o.keys {
		if k > 0 {
			buf.WriteByte(',')
		}
		kb, _ := json.Marshal(o.keys[k])
		buf.Write(kb)
		buf.WriteByte(':')
		vb, err := json.Marshal(o.vals[k])
		if err != nil {
			return nil, err
		}
		buf.Write(vb)
	}
	buf.WriteByte('}')
	return buf.Bytes(), nil
}

func jsonIsEmpty(v value) bool {
	switch x := v.(type) {
	case bool:
		return !x
	case string:
		return x == ""
	case []value:
		return len(x) == 0
	case *omap:
		return x.len() == 0
	case *value:
		return x == nil
	case iface:
		return x.t == nil
	case float64:
		return x == 0
	case float32:
		return x == 0
	case int, int8, int16, int32, int64:
		return asInt64(x) == 0
	case uint, uint8, uint16, uint32, uint64, uintptr:
		return asUint64(x) == 0
	}
	return false
}

func init() {
	externals["encoding/json.Unmarshal"] = func(fr *frame, a []value) value {
		i := fr.i
		raw, ok := bytesOf(a[0])
		if !ok {
			panic(unsupported{"encoding/json.Unmarshal of symbolic bytes (byte-level parsing is outside the JSON contract model)"})
		}
		target := a[1].(iface)
		if target.t == nil {
			return i.newError(fr, "json: Unmarshal(nil)")
		}
		pt, isPtr := target.t.Underlying().(*types.Pointer)
		if !isPtr || target.v.(*value) == nil {
			return i.newError(fr, "json: Unmarshal(non-pointer "+typeString(target.t)+")")
		}
		if !json.Valid(raw) {
			var dummy interface{}
			err := json.Unmarshal(raw, &dummy)
			if err == nil {
				err = fmt.Errorf("invalid JSON")
			}
			return i.nativeError(fr, err)
		}
		return i.jsonUnmarshalInto(fr, raw, pt.Elem(), target.v.(*value), 0)
	}
	prev := jsonMarshalHook
	jsonMarshalHook = func(fr *frame, v value) value {
		i := fr.i
		it, ok := v.(iface)
		if !ok || it.t == nil {
			return prev(fr, v)
		}
		if !deepConcrete(v, 0) {
			return prev(fr, v)
		}
		tree, errv := i.jsonMarshalTree(fr, it.t, it.v, 0)
		if errv != nil {
			return tuple{[]value(nil), errv}
		}
		b, err := json.Marshal(tree)
		if err != nil {
			return tuple{[]value(nil), i.nativeError(fr, err)}
		}
		return tuple{bytesValue(b), iface{}}
	}
	externals["github.com/perimeterx/marshmallow.Unmarshal"] = func(fr *frame, a []value) value {
		// Unmarshal(data, &struct, WithExcludeKnownFieldsFromMap(true)) -> (map of unknown members, error)
		i := fr.i
		raw, ok := bytesOf(a[0])
		if !ok {
			panic(unsupported{"marshmallow.Unmarshal of symbolic bytes"})
		}
		target := a[1].(iface)
		pt := target.t.Underlying().(*types.Pointer)
		st, isStruct := pt.Elem().Underlying().(*types.Struct)
		mapT := types.NewMap(types.Typ[types.String], types.NewInterfaceType(nil, nil))
		trimmed := bytes.TrimSpace(raw)
		if !json.Valid(raw) || !isStruct || len(trimmed) == 0 || trimmed[0] != '{' {
			return tuple{zero(mapT), i.newError(fr, "marshmallow: input is not a JSON object")}
		}
		members, order, err := splitObject(trimmed)
		if err != nil {
			return tuple{zero(mapT), i.nativeError(fr, err)}
		}
		fields := jsonFields(st)
		extra := makeMap(types.Typ[types.String], 0)
		for _, key := range order {
			var f *jsonField
			for k := range fields {
				if fields[k].name == key {
					f = &fields[k]
				}
			}
			if f == nil {
				extra.insert(i, key, i.jsonGeneric(members[key]))
				continue
			}
			fa, ft := fieldAddr(pt.Elem(), target.v.(*value), f.path)
			if e := i.jsonUnmarshalInto(fr, members[key], ft, fa, 0); e.(iface).t != nil {
				return tuple{zero(mapT), e}
			}
		}
		return tuple{extra, iface{}}
	}
	externals["github.com/perimeterx/marshmallow.WithExcludeKnownFieldsFromMap"] = func(fr *frame, a []value) value {
		return &nativeFn{name: "marshmallow.option", fn: func(fr *frame, a []value) value { return nil }}
	}
	externals["encoding/json.Valid"] = func(fr *frame, a []value) value {
		raw, ok := bytesOf(a[0])
		if !ok {
			panic(unsupported{"json.Valid of symbolic bytes"})
		}
		return json.Valid(raw)
	}
	externals["encoding/json.MarshalIndent"] = func(fr *frame, a []value) value {
		r := externals["encoding/json.Marshal"](fr, a[:1]).(tuple)
		if r[1].(iface).t != nil {
			return r
		}
		b, ok := bytesOf(r[0])
		if !ok {
			return r
		}
		var buf bytes.Buffer
		if err := json.Indent(&buf, b, a[1].(string), a[2].(string)); err != nil {
			return tuple{[]value(nil), fr.i.nativeError(fr, err)}
		}
		return tuple{bytesValue(buf.Bytes()), iface{}}
	}
	_ = token.NoPos
}

func init() {
	// oasdiff/yaml converts YAML to JSON and hands it to encoding/json; for input that is
	// valid JSON the result is that of json.Unmarshal. Real YAML is outside the model.
	externals["github.com/oasdiff/yaml.UnmarshalWithOrigin"] = func(fr *frame, a []value) value {
		raw, ok := bytesOf(a[0])
		if !ok || !json.Valid(raw) {
			panic(unsupported{"YAML parsing (only input that is valid JSON is modelled)"})
		}
		return externals["encoding/json.Unmarshal"](fr, a[:2])
	}
	externals["github.com/oasdiff/yaml.Unmarshal"] = func(fr *frame, a []value) value {
		raw, ok := bytesOf(a[0])
		if !ok || !json.Valid(raw) {
			panic(unsupported{"YAML parsing (only input that is valid JSON is modelled)"})
		}
		return externals["encoding/json.Unmarshal"](fr, a[:2])
	}
}

// json.Decoder over an io.Reader: the reader is drained through the interpreted io.ReadAll
// and the first JSON value is decoded by the contract model.
type nativeJSONDecoder struct {
	r         iface
	useNumber bool
	rest      []byte
	drained   bool
}

func (*nativeJSONDecoder) isNativeHandle() {}

func (i *interpreter) jsonGenericNumber(raw []byte) value {
	// like jsonGeneric but numbers are json.Number
	numT := lookupType("encoding/json", "Number")
	anyT := types.NewInterfaceType(nil, nil)
	dec := json.NewDecoder(bytes.NewReader(raw))
	dec.UseNumber()
	var tree interface{}
	if err := dec.Decode(&tree); err != nil {
		return iface{}
	}
	var conv func(x interface{}) value
	conv = func(x interface{}) value {
		switch x := x.(type) {
		case nil:
			return iface{}
		case bool:
			return iface{t: types.Typ[types.Bool], v: x}
		case json.Number:
			return iface{t: numT, v: string(x)}
		case string:
			return iface{t: types.Typ[types.String], v: x}
		case []interface{}:
			out := make([]value, len(x))
			for k, e := range x {
				out[k] = conv(e)
			}
			return iface{t: types.NewSlice(anyT), v: out}
		case map[string]interface{}:
			m := makeMap(types.Typ[types.String], 0)
			keys := make([]string, 0, len(x))
			for k := range x {
				keys = append(keys, k)
			}
			sort.Strings(keys)
			for _, k := range keys {
				m.insert(i, k, conv(x[k]))
			}
			return iface{t: types.NewMap(types.Typ[types.String], anyT), v: m}
		}
		panic(fmt.Sprintf("jsonGenericNumber %T", x))
	}
	return conv(tree)
}

func init() {
	externals["encoding/json.NewDecoder"] = func(fr *frame, a []value) value {
		return ptrTo(&nativeJSONDecoder{r: a[0].(iface)})
	}
	externals["(*encoding/json.Decoder).UseNumber"] = func(fr *frame, a []value) value {
		(*(a[0].(*value))).(*nativeJSONDecoder).useNumber = true
		return nil
	}
	externals["(*encoding/json.Decoder).DisallowUnknownFields"] = func(fr *frame, a []value) value { return nil }
	externals["(*encoding/json.Decoder).Decode"] = func(fr *frame, a []value) value {
		i := fr.i
		d := (*(a[0].(*value))).(*nativeJSONDecoder)
		if !d.drained {
			d.drained = true
			readAll := i.prog.ImportedPackage("io").Func("ReadAll")
			r := call(i, fr, token.NoPos, readAll, []value{d.r}).(tuple)
			if e := r[1].(iface); e.t != nil {
				return e
			}
			b, ok := bytesOf(r[0])
			if !ok {
				panic(unsupported{"json.Decoder over symbolic bytes (byte-level parsing is outside the JSON contract model)"})
			}
			d.rest = b
		}
		dec := json.NewDecoder(bytes.NewReader(d.rest))
		var rawv json.RawMessage
		if err := dec.Decode(&rawv); err != nil {
			return i.nativeError(fr, err) // io.EOF, syntax errors
		}
		d.rest = d.rest[dec.InputOffset():]
		target := a[1].(iface)
		pt, isPtr := target.t.Underlying().(*types.Pointer)
		if !isPtr || target.v.(*value) == nil {
			return i.newError(fr, "json: Unmarshal(non-pointer)")
		}
		if d.useNumber {
			if it, ok := pt.Elem().Underlying().(*types.Interface); ok && it.NumMethods() == 0 {
				*(target.v.(*value)) = i.jsonGenericNumber(rawv)
				return iface{}
			}
		}
		return i.jsonUnmarshalInto(fr, rawv, pt.Elem(), target.v.(*value), 0)
	}
	externals["(encoding/json.Number).Float64"] = func(fr *frame, a []value) value {
		s, ok := a[0].(string)
		if !ok {
			panic(unsupported{"json.Number.Float64 on a symbolic number"})
		}
		f, err := json.Number(s).Float64()
		if err != nil {
			return tuple{f, fr.i.nativeError(fr, err)}
		}
		return tuple{f, iface{}}
	}
	externals["(encoding/json.Number).String"] = func(fr *frame, a []value) value { return a[0] }
	externals["(encoding/json.Number).Int64"] = func(fr *frame, a []value) value {
		s, ok := a[0].(string)
		if !ok {
			panic(unsupported{"json.Number.Int64 on a symbolic number"})
		}
		n, err := json.Number(s).Int64()
		if err != nil {
			return tuple{n, fr.i.nativeError(fr, err)}
		}
		return tuple{n, iface{}}
	}
}

func init() {
	// (*json.Decoder).Token after the values decoded so far: io.EOF when only white space is
	// left, otherwise whatever the real decoder says about the rest (a token or a syntax error).
	// The token itself is handed back as its printed form (the repository only looks at the error).
	externals["(*encoding/json.Decoder).Token"] = func(fr *frame, a []value) value {
		i := fr.i
		d := (*(a[0].(*value))).(*nativeJSONDecoder)
		if !d.drained {
			d.drained = true
			readAll := i.prog.ImportedPackage("io").Func("ReadAll")
			r := call(i, fr, token.NoPos, readAll, []value{d.r}).(tuple)
			if e := r[1].(iface); e.t != nil {
				return tuple{iface{}, e}
			}
			b, ok := bytesOf(r[0])
			if !ok {
				panic(unsupported{"json.Decoder over symbolic bytes (byte-level parsing is outside the JSON contract model)"})
			}
			d.rest = b
		}
		dec := json.NewDecoder(bytes.NewReader(d.rest))
		tok, err := dec.Token()
		if err != nil {
			if err == io.EOF {
				return tuple{iface{}, i.foreignGlobalValue("io", "EOF")}
			}
			return tuple{iface{}, i.nativeError(fr, err)}
		}
		d.rest = d.rest[dec.InputOffset():]
		return tuple{iface{t: types.Typ[types.String], v: fmt.Sprint(tok)}, iface{}}
	}
	externals["(*encoding/json.Decoder).More"] = func(fr *frame, a []value) value {
		d := (*(a[0].(*value))).(*nativeJSONDecoder)
		if !d.drained {
			panic(unsupported{"json.Decoder.More before the first Decode"})
		}
		rest := bytes.TrimLeft(d.rest, " \t\r\n")
		return len(rest) > 0 && rest[0] != ']' && rest[0] != '}'
	}
}
