package interp

// Footprint monitor: after verifSharedBegin every heap object that
// existed at that moment is "shared"; a write to one that is not made
// inside a sync primitive is reported.

import (
	"fmt"

	"golang.org/x/tools/go/ssa"
)

type sharedMonitor struct {
	cells map[*value]bool // addresses existing at begin
	maps  map[*omap]bool
	i     *interpreter
	seen  map[interface{}]bool
}

func newSharedMonitor(i *interpreter, roots []value) *sharedMonitor {
	m := &sharedMonitor{cells: map[*value]bool{}, maps: map[*omap]bool{}, i: i, seen: map[interface{}]bool{}}
	for _, cell := range i.globals {
		m.walkCell(cell)
	}
	// the objects the harness declares shared (document, router, options ...)
	for _, r := range roots {
		m.walk(r)
	}
	return m
}

func (m *sharedMonitor) walkCell(p *value) {
	if p == nil || m.cells[p] {
		return
	}
	m.cells[p] = true
	m.walk(*p)
}

// walk adds everything reachable from v to the shared set.
func (m *sharedMonitor) walk(v value) {
	switch v := v.(type) {
	case *value:
		m.walkCell(v)
	case structure:
		for k := range v {
			if !m.cells[&v[k]] {
				m.cells[&v[k]] = true
				m.walk(v[k])
			}
		}
	case array:
		for k := range v {
			if !m.cells[&v[k]] {
				m.cells[&v[k]] = true
				m.walk(v[k])
			}
		}
	case []value:
		full := v[:cap(v)]
		if len(full) > 0 {
			if m.seen[&full[0]] {
				return
			}
			m.seen[&full[0]] = true
		}
		for k := range full {
			m.cells[&full[k]] = true
			m.walk(full[k])
		}
	case iface:
		m.walk(v.v)
	case *omap:
		if v == nil || m.maps[v] {
			return
		}
		m.maps[v] = true
		for k := range v.keys {
			m.walk(v.keys[k])
			m.walk(v.vals[k])
		}
	case *closure:
		if v == nil || m.seen[v] {
			return
		}
		m.seen[v] = true
		for _, e := range v.Env {
			m.walk(e)
		}
	case tuple:
		for _, e := range v {
			m.walk(e)
		}
	}
}

// publish: a value stored into shared memory (legitimately: inside a sync primitive) can be
// reached by every other goroutine from then on, so it and everything reachable from it is shared
// too: filling it in afterwards, outside the lock, is a race.
func (m *sharedMonitor) publish(v value) {
	m.walk(v)
}

func (m *sharedMonitor) report(fr *frame, what string, instr ssa.Instruction) {
	if m.i.syncDepth > 0 {
		return
	}
	pos := ""
	if instr != nil {
		pos = m.i.prog.Fset.Position(instr.Pos()).String()
	}
	fn := ""
	if fr != nil && fr.fn != nil {
		fn = fr.fn.String()
	}
	m.i.w.reportViolation("shared-write", fmt.Sprintf("unsynchronised write to shared %s in %s at %s", what, fn, pos), nil, fr)
}

func (m *sharedMonitor) onWrite(fr *frame, addr *value, instr ssa.Instruction, val value) {
	if m.cells[addr] {
		m.report(fr, "memory", instr)
		m.publish(val)
	}
}

func (m *sharedMonitor) onMapWrite(fr *frame, mp *omap, instr ssa.Instruction, key, val value) {
	if m.maps[mp] {
		m.report(fr, "map", instr)
		m.publish(key)
		m.publish(val)
	}
}

func (m *sharedMonitor) onAppend(fr *frame, s []value) {
	full := s[:cap(s)]
	if len(full) > len(s) && m.cells[&full[len(s)]] {
		m.report(fr, "slice backing array", nil)
	}
}
