package interp

// Footprint monitor: after verifSharedBegin every heap object that
// existed at that moment is "shared"; a write to one that is not made
// inside a sync primitive is reported.

import (
	"fmt"

	"golang.org/x/tools/go/ssa"
)

type sharedMonitor struct {
	cells map[*value]bool // addresses existing at begin
	maps  map[*omap]bool
	i     *interpreter
}

func newSharedMonitor(i *interpreter, roots []value) *sharedMonitor {
	m := &sharedMonitor{cells: map[*value]bool{}, maps: map[*omap]bool{}, i: i}
	seen := map[interface{}]bool{}
	var walk func(v value)
	walkCell := func(p *value) {
		if p == nil || m.cells[p] {
			return
		}
		m.cells[p] = true
		walk(*p)
	}
	walk = func(v value) {
		switch v := v.(type) {
		case *value:
			walkCell(v)
		case structure:
			for k := range v {
				m.cells[&v[k]] = true
				walk(v[k])
			}
		case array:
			for k := range v {
				m.cells[&v[k]] = true
				walk(v[k])
			}
		case []value:
			full := v[:cap(v)]
			if len(full) > 0 {
				if seen[&full[0]] {
					return
				}
				seen[&full[0]] = true
			}
			for k := range full {
				m.cells[&full[k]] = true
				walk(full[k])
			}
		case iface:
			walk(v.v)
		case *omap:
			if v == nil || m.maps[v] {
				return
			}
			m.maps[v] = true
			for k := range v.keys {
				walk(v.keys[k])
				walk(v.vals[k])
			}
		case *closure:
			if v == nil || seen[v] {
				return
			}
			seen[v] = true
			for _, e := range v.Env {
				walk(e)
			}
		case tuple:
			for _, e := range v {
				walk(e)
			}
		}
	}
	for _, cell := range i.globals {
		walkCell(cell)
	}
	// the objects the harness declares shared (document, router, options ...)
	for _, r := range roots {
		walk(r)
	}
	return m
}

func (m *sharedMonitor) share(v value) {
	// extend the shared set with everything reachable from v
	sub := &sharedMonitor{cells: m.cells, maps: m.maps, i: m.i}
	_ = sub
}

func (m *sharedMonitor) report(fr *frame, what string, instr ssa.Instruction) {
	if m.i.syncDepth > 0 {
		return
	}
	pos := ""
	if instr != nil {
		pos = m.i.prog.Fset.Position(instr.Pos()).String()
	}
	fn := ""
	if fr != nil && fr.fn != nil {
		fn = fr.fn.String()
	}
	m.i.w.reportViolation("shared-write", fmt.Sprintf("unsynchronised write to shared %s in %s at %s", what, fn, pos), nil, fr)
}

func (m *sharedMonitor) onWrite(fr *frame, addr *value, instr ssa.Instruction) {
	if m.cells[addr] {
		m.report(fr, "memory", instr)
	}
}

func (m *sharedMonitor) onMapWrite(fr *frame, mp *omap, instr ssa.Instruction) {
	if m.maps[mp] {
		m.report(fr, "map", instr)
	}
}

func (m *sharedMonitor) onAppend(fr *frame, s []value) {
	full := s[:cap(s)]
	if len(full) > len(s) && m.cells[&full[len(s)]] {
		m.report(fr, "slice backing array", nil)
	}
}
